import Cellml.Expr.Infer
import Cellml.Expr.Spec
import Cellml.Units.Lemmas

/-! Helper lemmas for C04: (1) the semantic unit of the containers `traverse` builds, (2) recursion equations of
    `traverse` (the `trav`/`finish` split disappears: after this file no proof looks inside `trav`), (3) magnitudes of
    numeric exponents. -/

set_option linter.constructorNameAsVariable false
set_option linter.unusedSimpArgs false

namespace Infer
open Units PMap Spec

/-! ### 1. semantic units -/

theorem isZero_iff {κ : Type} [DecidableEq κ] [KeyLt κ] [LawfulKeyLt κ] (a : PMap κ) :
    isZero a = true ↔ a ≃ [] := by
  have h : norm a = norm ([] : PMap κ) ↔ a ≃ [] := norm_eq_iff_equiv
  simpa [isZero, norm] using h

theorem same_iff (x y : SUnit) : Spec.same x y = true ↔ x ≃₂ y := by
  simp only [Spec.same, Bool.and_eq_true, beq_iff_equiv, Equiv₂]

theorem isOne_iff (x : SUnit) : Spec.isOne x = true ↔ x ≃₂ Spec.one := by
  simp only [Spec.isOne, Bool.and_eq_true, isZero_iff, Equiv₂, Spec.one]

theorem mul_congr {x x' y y' : SUnit} (hx : x ≃₂ x') (hy : y ≃₂ y') : Spec.mul x y ≃₂ Spec.mul x' y' :=
  ⟨add_congr hx.1 hy.1, add_congr hx.2 hy.2⟩

theorem div_congr {x x' y y' : SUnit} (hx : x ≃₂ x') (hy : y ≃₂ y') : Spec.div x y ≃₂ Spec.div x' y' :=
  ⟨sub_congr hx.1 hy.1, sub_congr hx.2 hy.2⟩

theorem pow_congr (q : Rat) {x x' : SUnit} (hx : x ≃₂ x') : Spec.pow q x ≃₂ Spec.pow q x' :=
  ⟨smul_congr q hx.1, smul_congr q hx.2⟩

theorem pow_one (q : Rat) : Spec.pow q Spec.one ≃₂ Spec.one := Equiv₂.refl _

theorem dimZero_congr (reg : Registry) {x y : SUnit} (h : x ≃₂ y) : dimZero reg x = dimZero reg y := by
  have hd : dimsOfRoot reg x.2 ≃ dimsOfRoot reg y.2 := dimsOfRoot_congr reg h.2
  have : dimZero reg x = true ↔ dimZero reg y = true := by
    simp only [dimZero, isZero_iff]
    exact ⟨fun h' => hd.symm.trans h', fun h' => hd.trans h'⟩
  cases hx : dimZero reg x <;> cases hy : dimZero reg y <;> simp_all

/-- the semantic unit of a container: SI scale and root units (`registry.get_base_units`) -/
abbrev sem (reg : Registry) (u : Container) : SUnit := toRoot reg u

/-- `dimensionless` has the unit one -/
theorem sem_nil (reg : Registry) : sem reg [] ≃₂ Spec.one := by
  have h := toRoot_smul reg 0 []
  have e : smul (0 : Rat) ([] : Container) = [] := rfl
  rw [e] at h
  refine h.trans ⟨?_, ?_⟩ <;> intro p <;> simp only [get_smul, Spec.one, get_nil] <;> grind

/-- pint's product of unit containers denotes the product of the units -/
theorem sem_mulC (reg : Registry) (a b : Container) : sem reg (mulC a b) ≃₂ Spec.mul (sem reg a) (sem reg b) :=
  (toRoot_congr reg (norm_equiv _)).trans (toRoot_add reg a b)

/-- pint's power of a unit container denotes the power of the unit -/
theorem sem_powC (reg : Registry) (a : Container) (q : Rat) : sem reg (powC a q) ≃₂ Spec.pow q (sem reg a) :=
  (toRoot_congr reg (norm_equiv _)).trans (toRoot_smul reg q a)

/-- pint's quotient of unit containers denotes the quotient of the units -/
theorem sem_divC (reg : Registry) (a b : Container) : sem reg (divC a b) ≃₂ Spec.div (sem reg a) (sem reg b) := by
  refine (toRoot_congr reg (norm_equiv _)).trans ?_
  refine (toRoot_add reg a (neg b)).trans ?_
  have h := toRoot_smul reg (-1) b
  refine ⟨?_, ?_⟩ <;> intro p
  · simp only [get_add, Spec.div, get_sub]
    have := h.1 p
    simp only [neg, get_smul] at this ⊢
    rw [this]; grind
  · simp only [get_add, Spec.div, get_sub]
    have := h.2 p
    simp only [neg, get_smul] at this ⊢
    rw [this]; grind

/-- the sum / piecewise check (`is_equivalent`) compares exactly the semantic units -/
theorem sameUnits_iff (reg : Registry) (a b : Container) :
    sameUnits reg a b = true ↔ sem reg a ≃₂ sem reg b := by
  simp only [sameUnits, isEquivalent, Bool.and_eq_true, beq_iff_equiv, Equiv₂]
  exact And.comm

/-- `_is_dimensionless` holds exactly if no root unit with a dimension is left -/
theorem isDimless_iff (reg : Registry) (u : Container) :
    isDimless reg u = true ↔ dimsOfRoot reg (sem reg u).2 ≃ [] := by
  simp only [isDimless, isZero_iff]
  exact ⟨fun h => (dimsOf_equiv reg u).symm.trans h, fun h => (dimsOf_equiv reg u).trans h⟩

theorem isDimless_eq_dimZero (reg : Registry) (u : Container) : isDimless reg u = dimZero reg (sem reg u) := by
  have : isDimless reg u = true ↔ dimZero reg (sem reg u) = true := by
    rw [isDimless_iff]; simp only [dimZero, isZero_iff]
  cases hx : isDimless reg u <;> cases hy : dimZero reg (sem reg u) <;> simp_all

/-! ### 2. `finish`, and the recursion equations of `traverse` -/

variable (reg : Registry) (Γ : VarEnv)

theorem finish_single (q : M × Container) : finish reg [q] = .ok q := by
  simp [finish]

/-- (a) the n-ary check, one operand at a time -/
theorem finish_snoc (qs : List (M × Container)) (q r : M × Container) (hne : qs ≠ [])
    (h : finish reg (qs ++ [q]) = .ok r) : finish reg qs = .ok r ∧ sameUnits reg r.2 q.2 = true := by
  cases qs with
  | nil => exact absurd rfl hne
  | cons hd tl =>
      simp only [List.cons_append, finish, List.all_append, List.all_cons, List.all_nil, Bool.and_true] at h ⊢
      split at h
      · rename_i hall
        simp only [Bool.and_eq_true] at hall
        cases h
        simp only [hall.1, if_true, hall.2, and_self]
      · cases h

theorem finish_snoc_ok (qs : List (M × Container)) (q r : M × Container)
    (h₁ : finish reg qs = .ok r) (h₂ : sameUnits reg r.2 q.2 = true) : finish reg (qs ++ [q]) = .ok r := by
  cases qs with
  | nil => simp [finish] at h₁
  | cons hd tl =>
      simp only [List.cons_append, finish, List.all_append, List.all_cons, List.all_nil, Bool.and_true] at h₁ ⊢
      split at h₁
      · rename_i hall
        cases h₁
        simp only [hall, h₂, Bool.and_self, if_true]
      · cases h₁

/-- a failing check fails with one of two unit errors -/
theorem finish_error (qs : List (M × Container)) (err : UnitErr) (h : finish reg qs = .error err) :
    err = .unexpectedMath ∨ err = .argsInvalidUnits := by
  cases qs with
  | nil => simp only [finish, Except.error.injEq] at h; exact Or.inl h.symm
  | cons hd tl =>
      simp only [finish] at h
      split at h
      · cases h
      · simp only [Except.error.injEq] at h; exact Or.inr h.symm

theorem finish_snoc_error (qs : List (M × Container)) (q : M × Container) (err : UnitErr)
    (h : finish reg (qs ++ [q]) = .error err) : err = .argsInvalidUnits := by
  cases qs with
  | nil => simp [finish] at h
  | cons hd tl =>
      simp only [List.cons_append, finish] at h
      split at h
      · cases h
      · simp only [Except.error.injEq] at h; exact h.symm

theorem traverse_def (e : E) : traverse reg Γ e = (trav reg Γ e >>= finish reg) := rfl

/-- closes a recursion equation: unfold, follow the `Except` binds, the singleton check succeeds -/
macro "trav_eq" : tactic => `(tactic|
  (simp only [traverse, trav, bind, Except.bind]
   repeat' (split <;> try rfl)
   all_goals (simp_all [finish, pure, Except.pure, throw, throwThe, MonadExceptOf.throw, bind, Except.bind])))

theorem traverse_qty (v : Rat) (u : Container) : traverse reg Γ (.qty v u) = .ok (.num v true, u) := by trav_eq
theorem traverse_cf (s : Scale) (u : Container) :
    traverse reg Γ (.cf s u) = .ok (if s = [] then .num 1 true else .anynum, u) := by trav_eq
theorem traverse_int (n : Int) : traverse reg Γ (.int n) = .ok (.num n false, []) := by trav_eq
theorem traverse_rat (q : Rat) : traverse reg Γ (.rat q) = .ok (.num q true, []) := by trav_eq
theorem traverse_flt (q : Rat) : traverse reg Γ (.flt q) = .ok (.num q true, []) := by trav_eq
theorem traverse_pi : traverse reg Γ .pi = .ok (.anynum, []) := by trav_eq
theorem traverse_e : traverse reg Γ .e = .ok (.anynum, []) := by trav_eq
theorem traverse_oo : traverse reg Γ .oo = .error (.unsupported "infinity") := by trav_eq
theorem traverse_nan : traverse reg Γ .nan = .error (.unsupported "nan") := by trav_eq
theorem traverse_undef : traverse reg Γ .undef = .error .unexpectedMath := by trav_eq
theorem traverse_tt : traverse reg Γ .tt = .error .boolean := by trav_eq
theorem traverse_ff : traverse reg Γ .ff = .error .boolean := by trav_eq
theorem traverse_other (n : String) : traverse reg Γ (.other n) = .error .unexpectedMath := by trav_eq

theorem traverse_var (i : Nat) : traverse reg Γ (.var i) = varQ Γ i := by
  simp only [traverse, trav, bind, Except.bind]
  cases varQ Γ i with
  | error err => rfl
  | ok q => simp [finish, pure, Except.pure]

/-- case split on one `Except` computation of the goal; the error case closes by `rfl` -/
macro "exc " t:term : tactic =>
  `(tactic| (cases $t:term
             (first | rfl | simp [throw, throwThe, MonadExceptOf.throw])
             try simp only []))

macro "trav_unfold" : tactic => `(tactic| simp only [traverse, trav, bind, Except.bind])
macro "trav_done" : tactic =>
  `(tactic| simp [finish, pure, Except.pure, throw, throwThe, MonadExceptOf.throw, bind, Except.bind])

/-! binary and unary nodes: the operands' quantities are those of `traverse` on the operands -/

theorem traverse_mul (a b : E) : traverse reg Γ (.mul a b) =
    (traverse reg Γ a >>= fun qa => traverse reg Γ b >>= fun qb => pure (mulM qa.1 qb.1, mulC qa.2 qb.2)) := by
  trav_unfold
  exc trav reg Γ a; rename_i la; exc finish reg la
  exc trav reg Γ b; rename_i lb; exc finish reg lb
  trav_done

/-- the `Pow` branch on the two operand quantities -/
def powStep (qb qx : M × Container) : Except UnitErr (M × Container) :=
  if qx.2 ≠ [] then .error .mustBeDimensionless
  else if !qx.1.isNumber then .error .mustBeNumber
  else powM qb.1 qx.1 >>= fun m =>
    if qb.2 = [] then .ok (m, [])
    else match qx.1 with
      | .num q _ => .ok (m, powC qb.2 q)
      | _ => .error (.unsupported "exponent value not tracked")

theorem traverse_pow (b x : E) : traverse reg Γ (.pow b x) =
    (traverse reg Γ b >>= fun qb => traverse reg Γ x >>= fun qx => powStep qb qx) := by
  trav_unfold
  exc trav reg Γ b; rename_i lb; exc finish reg lb; rename_i qb
  exc trav reg Γ x; rename_i lx; exc finish reg lx; rename_i qx
  obtain ⟨mb, ub⟩ := qb
  obtain ⟨mx, ux⟩ := qx
  simp only [powStep, bind, Except.bind]
  by_cases h1 : ux = []
  · by_cases h2 : mx.isNumber = true
    · cases hp : powM mb mx with
      | error err => simp [h1, h2, hp, throw, throwThe, MonadExceptOf.throw, pure, Except.pure]
      | ok m =>
        by_cases h3 : ub = []
        · simp [h1, h2, hp, h3, finish, throw, throwThe, MonadExceptOf.throw, pure, Except.pure]
        · cases mx <;> simp [h1, h2, hp, h3, finish, throw, throwThe, MonadExceptOf.throw, pure, Except.pure]
    · simp [h1, h2, throw, throwThe, MonadExceptOf.throw, pure, Except.pure]
  · simp [h1, throw, throwThe, MonadExceptOf.throw, pure, Except.pure]

theorem traverse_abs (a : E) : traverse reg Γ (.abs a) =
    (traverse reg Γ a >>= fun q => pure (absM q.1, q.2)) := by
  trav_unfold
  exc trav reg Γ a; rename_i la; exc finish reg la
  trav_done

theorem traverse_floor (a : E) : traverse reg Γ (.floor a) =
    (traverse reg Γ a >>= fun q => floorM false q.1 >>= fun m => pure (m, q.2)) := by
  trav_unfold
  exc trav reg Γ a; rename_i la; exc finish reg la; rename_i q
  exc floorM false q.1
  trav_done

theorem traverse_ceil (a : E) : traverse reg Γ (.ceil a) =
    (traverse reg Γ a >>= fun q => floorM true q.1 >>= fun m => pure (m, q.2)) := by
  trav_unfold
  exc trav reg Γ a; rename_i la; exc finish reg la; rename_i q
  exc floorM true q.1
  trav_done

theorem traverse_ite (c t el : E) : traverse reg Γ (.ite c t el) =
    (traverse reg Γ t >>= fun qt =>
      if el = .undef then pure qt
      else traverse reg Γ el >>= fun qe =>
        if sameUnits reg qt.2 qe.2 then pure qt else .error .argsInvalidUnits) := by
  trav_unfold
  exc trav reg Γ t; rename_i lt; exc finish reg lt; rename_i qt
  by_cases hu : el = .undef
  · simp [hu, finish, pure, Except.pure]
  · simp only [hu, if_false]
    exc trav reg Γ el; rename_i le; exc finish reg le; rename_i qe
    by_cases hs : sameUnits reg qt.2 qe.2 = true <;>
      simp [hs, finish, pure, Except.pure, throw, throwThe, MonadExceptOf.throw]

theorem traverse_rel (r : Rel) (a b : E) : traverse reg Γ (.rel r a b) =
    (traverse reg Γ a >>= fun _ => traverse reg Γ b >>= fun _ => .error .boolean) := by
  trav_unfold
  exc trav reg Γ a; rename_i la; exc finish reg la
  exc trav reg Γ b; rename_i lb; exc finish reg lb
  trav_done
theorem traverse_and (a b : E) : traverse reg Γ (.and a b) =
    (traverse reg Γ a >>= fun _ => traverse reg Γ b >>= fun _ => .error .boolean) := by
  trav_unfold
  exc trav reg Γ a; rename_i la; exc finish reg la
  exc trav reg Γ b; rename_i lb; exc finish reg lb
  trav_done
theorem traverse_or (a b : E) : traverse reg Γ (.or a b) =
    (traverse reg Γ a >>= fun _ => traverse reg Γ b >>= fun _ => .error .boolean) := by
  trav_unfold
  exc trav reg Γ a; rename_i la; exc finish reg la
  exc trav reg Γ b; rename_i lb; exc finish reg lb
  trav_done
theorem traverse_not (a : E) : traverse reg Γ (.not a) =
    (traverse reg Γ a >>= fun _ => .error .boolean) := by
  trav_unfold
  exc trav reg Γ a; rename_i la; exc finish reg la
  trav_done

theorem traverse_deriv (v t : Nat) : traverse reg Γ (.deriv v t) =
    (varQ Γ v >>= fun qv => varQ Γ t >>= fun qt => divM qv.1 qt.1 >>= fun m => pure (m, divC qv.2 qt.2)) := by
  trav_unfold
  exc varQ Γ v; rename_i qv
  exc varQ Γ t; rename_i qt
  exc divM qv.1 qt.1
  trav_done

/-- the one-argument function branch on the operand quantity -/
def fn1Step (f : String) (q : M × Container) : Except UnitErr (M × Container) :=
  if f == "log" || f == "factorial" then
    if isDimless reg q.2 then .ok dimless1 else .error .mustBeDimensionless
  else if f == "exp" then
    if isDimless reg q.2 then
      match q.1 with
      | .num v true => if v > 709 then .error (.otherException "OverflowError") else .ok (.anynum, [])
      | .anynum => .ok (.anynum, [])
      | .weird => .ok (.anynum, [])
      | _ => .ok dimless1
    else .error .mustBeDimensionless
  else if Cellml.Gen.trigFunctions.contains f then
    if isDimless reg q.2 then .ok dimless1 else .error .mustBeDimensionless
  else if isDimless reg q.2 then .ok dimless1
  else .error .unexpectedMath

theorem traverse_fn1 (f : String) (a : E) : traverse reg Γ (.fn1 f a) =
    (traverse reg Γ a >>= fun q => fn1Step reg f q) := by
  trav_unfold
  exc trav reg Γ a; rename_i la; exc finish reg la; rename_i q
  obtain ⟨m, u⟩ := q
  by_cases d : isDimless reg u = true <;> by_cases c1 : (f == "log" || f == "factorial") = true <;>
    by_cases c2 : (f == "exp") = true <;> by_cases c3 : f ∈ Cellml.Gen.trigFunctions
  all_goals
    first
    | (simp [fn1Step, d, c1, c2, c3, finish, pure, Except.pure, throw, throwThe, MonadExceptOf.throw]; done)
    | (rcases m with ⟨v, _ | _⟩ | _ | _ | _
       all_goals
         first
         | (simp [fn1Step, d, c1, c2, c3, finish, pure, Except.pure, throw, throwThe, MonadExceptOf.throw]; done)
         | (by_cases hv : (709 : Rat) < v <;>
              simp [fn1Step, d, c1, c2, c3, hv, finish, pure, Except.pure, throw, throwThe, MonadExceptOf.throw]))

/-- a successful one-argument function: the argument was accepted, has dimension zero, the result is dimensionless -/
theorem fn1Step_ok (f : String) (q r : M × Container) (h : fn1Step reg f q = .ok r) :
    isDimless reg q.2 = true ∧ r.2 = [] := by
  simp only [fn1Step] at h
  repeat' split at h
  all_goals simp_all [dimless1]
  all_goals (cases h; simp)

theorem fn1Step_error (f : String) (q : M × Container) (err : UnitErr) (h : fn1Step reg f q = .error err) :
    err = .mustBeDimensionless ∨ err = .unexpectedMath ∨ (f = "exp" ∧ err = .otherException "OverflowError") := by
  simp only [fn1Step] at h
  repeat' split at h
  all_goals simp_all

/-! sums: all operands along the left spine are traversed before their units are compared -/

theorem traverse_add (a b : E) : traverse reg Γ (.add a b) =
    (trav reg Γ a >>= fun qa => traverse reg Γ b >>= fun qb => finish reg (qa ++ [qb])) := by
  trav_unfold
  exc trav reg Γ a; rename_i la
  exc trav reg Γ b; rename_i lb; exc finish reg lb
  trav_done

/-- two-argument functions are always rejected -/
theorem trav_fnN (f : String) (a b : E) : ∃ err, trav reg Γ (.fnN f a b) = .error err := by
  cases h : trav reg Γ (.fnN f a b) with
  | error err => exact ⟨err, rfl⟩
  | ok l =>
      exfalso
      simp only [trav, bind, Except.bind, pure, Except.pure, throw, throwThe, MonadExceptOf.throw] at h
      repeat' split at h
      all_goals simp_all

/-- the operand list of a successful `trav` is never empty -/
theorem trav_ne_nil (e : E) (l : List (M × Container)) (h : trav reg Γ e = .ok l) : l ≠ [] := by
  cases e
  case fnN f a b => obtain ⟨err, he⟩ := trav_fnN reg Γ f a b; rw [he] at h; cases h
  all_goals
    simp only [trav, bind, Except.bind, pure, Except.pure, throw, throwThe, MonadExceptOf.throw] at h
    repeat' split at h
    all_goals simp_all
    all_goals (try (subst_vars; simp))

/-- (b) anything that is not a sum has exactly one operand quantity -/
theorem trav_singleton (e : E) (hns : ∀ a b, e ≠ .add a b) (l : List (M × Container))
    (h : trav reg Γ e = .ok l) : ∃ q, l = [q] := by
  cases e
  case add a b => exact absurd rfl (hns a b)
  case fnN f a b => obtain ⟨err, he⟩ := trav_fnN reg Γ f a b; rw [he] at h; cases h
  all_goals
    simp only [trav, bind, Except.bind, pure, Except.pure, throw, throwThe, MonadExceptOf.throw] at h
    repeat' split at h
    all_goals simp_all
    all_goals (try (subst_vars; simp))
    all_goals (try exact ⟨_, _, rfl⟩)

theorem traverse_iff_of_not_add (e : E) (hns : ∀ a b, e ≠ .add a b) (q : M × Container) :
    traverse reg Γ e = .ok q ↔ trav reg Γ e = .ok [q] := by
  rw [traverse_def]
  cases h : trav reg Γ e with
  | error err => simp [bind, Except.bind]
  | ok l =>
      obtain ⟨q', rfl⟩ := trav_singleton reg Γ e hns l h
      simp [bind, Except.bind, finish]

/-- (c) a sum is accepted iff both operands are and the second has the unit of the first; the first is returned -/
theorem traverse_add_ok (a b : E) (r : M × Container) (h : traverse reg Γ (.add a b) = .ok r) :
    traverse reg Γ a = .ok r ∧ ∃ qb, traverse reg Γ b = .ok qb ∧ sameUnits reg r.2 qb.2 = true := by
  rw [traverse_add] at h
  rw [traverse_def reg Γ a]
  cases ha : trav reg Γ a with
  | error err => simp [ha, bind, Except.bind] at h
  | ok qa =>
      cases hb : traverse reg Γ b with
      | error err => simp [ha, hb, bind, Except.bind] at h
      | ok qb =>
          simp only [ha, hb, bind, Except.bind] at h ⊢
          obtain ⟨h₁, h₂⟩ := finish_snoc reg qa qb r (trav_ne_nil reg Γ a qa ha) h
          exact ⟨h₁, qb, rfl, h₂⟩

theorem traverse_add_intro (a b : E) (r qb : M × Container) (ha : traverse reg Γ a = .ok r)
    (hb : traverse reg Γ b = .ok qb) (hs : sameUnits reg r.2 qb.2 = true) :
    traverse reg Γ (.add a b) = .ok r := by
  rw [traverse_add]
  rw [traverse_def reg Γ a] at ha
  cases hta : trav reg Γ a with
  | error err => simp [hta, bind, Except.bind] at ha
  | ok qa =>
      simp only [hta, hb, bind, Except.bind] at ha ⊢
      exact finish_snoc_ok reg qa qb r ha hs

/-- operands of different units: the sum is rejected -/
theorem traverse_add_mismatch (a b : E) (ra rb : M × Container) (ha : traverse reg Γ a = .ok ra)
    (hb : traverse reg Γ b = .ok rb) (hs : sameUnits reg ra.2 rb.2 = false) :
    traverse reg Γ (.add a b) = .error .argsInvalidUnits := by
  cases h : traverse reg Γ (.add a b) with
  | ok r =>
      obtain ⟨h₁, qb, h₂, h₃⟩ := traverse_add_ok reg Γ a b r h
      rw [ha] at h₁; rw [hb] at h₂; cases h₁; cases h₂
      rw [hs] at h₃; cases h₃
  | error err =>
      rw [traverse_add] at h
      rw [traverse_def reg Γ a] at ha
      cases hta : trav reg Γ a with
      | error err' => simp [hta, bind, Except.bind] at ha
      | ok qa =>
          simp only [hta, hb, bind, Except.bind] at h
          rw [finish_snoc_error reg qa rb err h]

theorem traverse_add_error (a b : E) (err : UnitErr) (h : traverse reg Γ (.add a b) = .error err) :
    traverse reg Γ a = .error err ∨ traverse reg Γ b = .error err ∨ err = .argsInvalidUnits := by
  rw [traverse_add] at h
  rw [traverse_def reg Γ a]
  cases hta : trav reg Γ a with
  | error err' =>
      simp only [hta, bind, Except.bind, Except.error.injEq] at h
      left; simp [bind, Except.bind, h]
  | ok qa =>
      cases hb : traverse reg Γ b with
      | error err' =>
          simp only [hta, hb, bind, Except.bind, Except.error.injEq] at h
          right; left; rw [h]
      | ok qb =>
          simp only [hta, hb, bind, Except.bind] at h
          right; right; exact finish_snoc_error reg qa qb err h

/-! ### 3. variables, numeric exponents, two-argument functions -/

theorem varQ_ok (i : Nat) (q : M × Container) (h : varQ Γ i = .ok q) :
    ∃ vi, Γ[i]? = some vi ∧ q.2 = vi.unit := by
  simp only [varQ] at h
  repeat' split at h
  all_goals simp_all
  all_goals (cases h; rfl)

theorem varQ_error (i : Nat) (err : UnitErr) (h : varQ Γ i = .error err) :
    Γ[i]? = none ∧ err = .unsupported "unknown variable" := by
  simp only [varQ] at h
  repeat' split at h
  all_goals simp_all

/-- the magnitude carried along for a product of numeric leaves is its value, and its unit is `dimensionless`
    structurally: exactly what the `Pow` branch needs of an exponent -/
theorem numProd_traverse (x : E) (hx : numProd x = true) :
    ∃ q f, traverse reg Γ x = .ok (.num q f, []) ∧ constVal x = some q := by
  induction x with
  | qty v u =>
      simp only [numProd, decide_eq_true_eq] at hx; subst hx
      exact ⟨v, true, traverse_qty reg Γ v [], rfl⟩
  | int n => exact ⟨n, false, traverse_int reg Γ n, rfl⟩
  | rat q => exact ⟨q, true, traverse_rat reg Γ q, rfl⟩
  | flt q => exact ⟨q, true, traverse_flt reg Γ q, rfl⟩
  | mul a b iha ihb =>
      simp only [numProd, Bool.and_eq_true] at hx
      obtain ⟨qa, fa, ha, ca⟩ := iha hx.1
      obtain ⟨qb, fb, hb, cb⟩ := ihb hx.2
      refine ⟨qa * qb, fa || fb, ?_, ?_⟩
      · rw [traverse_mul, ha, hb]
        simp [bind, Except.bind, pure, Except.pure, mulM, mulC, PMap.add, PMap.norm]
      · simp [constVal, ca, cb]
  | _ => simp [numProd] at hx

theorem traverse_fnN (f : String) (a b : E) : ∃ err, traverse reg Γ (.fnN f a b) = .error err := by
  obtain ⟨err, h⟩ := trav_fnN reg Γ f a b
  exact ⟨err, by simp [traverse, h, bind, Except.bind]⟩

theorem trav_error_traverse (e : E) (err : UnitErr) (h : trav reg Γ e = .error err) :
    traverse reg Γ e = .error err := by
  simp [traverse, h, bind, Except.bind]

theorem traverse_fnN_error (f : String) (a b : E) (err : UnitErr) (h : traverse reg Γ (.fnN f a b) = .error err) :
    err = .deferredFn ∨ err = .unexpectedMath ∨ traverse reg Γ a = .error err ∨ traverse reg Γ b = .error err := by
  obtain ⟨err', h'⟩ := trav_fnN reg Γ f a b
  have : err' = err := by simpa [traverse, h', bind, Except.bind] using h
  subst this
  simp only [trav, bind, Except.bind, pure, Except.pure, throw, throwThe, MonadExceptOf.throw] at h'
  repeat' split at h'
  all_goals simp_all [traverse, bind, Except.bind]

/-! ### 4. `Except` plumbing -/

theorem bind_ok {α β : Type} (x : Except UnitErr α) (f : α → Except UnitErr β) (r : β) :
    (x >>= f) = .ok r ↔ ∃ a, x = .ok a ∧ f a = .ok r := by
  cases x <;> simp [bind, Except.bind]

theorem bind_error {α β : Type} (x : Except UnitErr α) (f : α → Except UnitErr β) (err : UnitErr) :
    (x >>= f) = .error err ↔ x = .error err ∨ ∃ a, x = .ok a ∧ f a = .error err := by
  cases x <;> simp [bind, Except.bind]

theorem pure_ok {α : Type} (a r : α) : (pure a : Except UnitErr α) = .ok r ↔ a = r := by
  simp [pure, Except.pure]

theorem simpleExps_of_numProd (x : E) (hx : numProd x = true) : SimpleExps x = true := by
  induction x with
  | mul a b iha ihb =>
      simp only [numProd, Bool.and_eq_true] at hx
      simp only [SimpleExps, Bool.and_eq_true]; exact ⟨iha hx.1, ihb hx.2⟩
  | _ => first | rfl | simp [numProd] at hx

/-! ### 5. where errors come from -/

/-- the error is one of cellmlmanip's `UnitError` subclasses -/
def isUnitError : UnitErr → Bool
  | .otherException _ | .unsupported _ => false
  | _ => true

/-- Python exceptions that are NOT `UnitError`s and that the magnitude computations inside the expression can raise:
    `**` on magnitudes (0 to a negative power), `math.floor`/`math.ceil` (of a complex magnitude), `math.exp` (overflow),
    the quotient of two initial values in a derivative -/
def pyErrors : E → List String
  | .pow b x => "ZeroDivisionError" :: (pyErrors b ++ pyErrors x)
  | .floor a | .ceil a => "TypeError" :: pyErrors a
  | .deriv _ _ => ["ZeroDivisionError"]
  | .fn1 f a => (if f = "exp" then ["OverflowError"] else []) ++ pyErrors a
  | .add a b | .mul a b | .fnN _ a b | .rel _ a b | .and a b | .or a b => pyErrors a ++ pyErrors b
  | .ite _ t el => pyErrors t ++ pyErrors el
  | .abs a | .not a => pyErrors a
  | _ => []

/-- the expression has a node outside the exactly modelled fragment: infinity, nan, a variable that is not in the
    environment, or a power (whose magnitude may be irrational and then feed another exponent) -/
def outside (Γ : VarEnv) : E → Bool
  | .oo | .nan | .pow _ _ => true
  | .var i => Γ[i]?.isNone
  | .deriv v t => Γ[v]?.isNone || Γ[t]?.isNone
  | .add a b | .mul a b | .fnN _ a b | .rel _ a b | .and a b | .or a b => outside Γ a || outside Γ b
  | .ite _ t el => outside Γ t || outside Γ el
  | .abs a | .floor a | .ceil a | .fn1 _ a | .not a => outside Γ a
  | _ => false

theorem powM_error (a b : M) (err : UnitErr) (h : powM a b = .error err) :
    err = .otherException "ZeroDivisionError" ∨ err = .unsupported "power of an untracked magnitude" := by
  cases a <;> cases b <;> simp only [powM] at h <;> (repeat' split at h) <;> simp_all

theorem floorM_error (up : Bool) (a : M) (err : UnitErr) (h : floorM up a = .error err) :
    err = .otherException "TypeError" := by
  cases a <;> simp_all [floorM]

theorem divM_error (a b : M) (err : UnitErr) (h : divM a b = .error err) :
    err = .otherException "ZeroDivisionError" := by
  cases a <;> cases b <;> simp only [divM] at h <;> (repeat' split at h) <;> simp_all

theorem powStep_error (qb qx : M × Container) (err : UnitErr) (h : powStep qb qx = .error err) :
    isUnitError err = true ∨ err = .otherException "ZeroDivisionError" ∨ ∃ w, err = .unsupported w := by
  simp only [powStep] at h
  split at h
  · cases h; exact Or.inl rfl
  · split at h
    · cases h; exact Or.inl rfl
    · rcases (bind_error _ _ _).mp h with h | ⟨m, _, h⟩
      · rcases powM_error _ _ _ h with rfl | rfl
        · exact Or.inr (Or.inl rfl)
        · exact Or.inr (Or.inr ⟨_, rfl⟩)
      · split at h
        · cases h
        · split at h
          · cases h
          · cases h; exact Or.inr (Or.inr ⟨_, rfl⟩)

end Infer
