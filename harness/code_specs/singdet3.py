"""Code-translator spec (package Sing3): the REST of `_get_singularity` (cellmlmanip/_singularity_fixes.py) — everything
around the loop `for fp1 in fraction_part_1:` that `singdet.py` already translates:

 * `getSingularity`  the function itself: the numerator / denominator partition (`_is_negative_power`, translated once
                     more over the classified factors: `isNegativePowerF`), the "must be a fraction" guard, the whole
                     side appended as one more candidate, the orientation loop over `(num, den)`, `(den, num)`, the
                     returned list;
 * `fp2Loop`         `for fp2 in fraction_part_2:` — `has(exp)`, the two patterns `1 − Z·exp U` / `Z·exp U − 1` (second
                     one only when the first failed), the test `Z > 0`, `u = U + log Z`, the three `_solve_real` calls;
 * `spLoop`          `for sp in singularity_points:` — the singleton check on the solution sets, the fallback
                     `sp ∓ U_offset`, the call of the `fp1` loop, `if found_on_top:` record;
 * `recordLoop`      `for sing in singularities: … else: append` with the in-place `sing[0] = min(…); sing[1] = max(…)`.

Each inner `for` statement is a generated function of its own (spec key `block`) and is CALLED from the enclosing one
(spec key `call_blocks`, harness/translate_ext/sing3.py, which also checks that no variable the loop changes and the rest
of the function reads is lost). Leaves: `lean/Cellml/Tie/SingDet3View.lean`."""

_F = 'cellmlmanip/_singularity_fixes.py'

# the SymPy matcher for `±(Z·exp U − 1)` (parameters: arbitrary leaves), the bindings it returns
_FIND = [
    ('__F.match(exp_function(U_wildcard) * -Z_wildcard + 1.0)', '(matchNeg_ {F})'),
    ('__F.match(exp_function(U_wildcard) * Z_wildcard - 1.0)', '(matchPos_ {F})'),
    ('__M[U_wildcard]', '(getU {M})'),
    ('__M[Z_wildcard]', '(getZ {M})'),
    # the sign of Z is evaluated after putting 1.0 for its symbols: Z is a number on the fragment (identity)
    ('subs_parsed_math_funcs(__Z).xreplace({s: 1.0 for s in __Z.free_symbols})', '(evalAtOnes {Z})'),
    ('log(__Z)', '(log_ {Z})'),
    ('__F.has(exp_function)', '(hasExpF {F})'),
    # `_solve_real` is the generated `SingDet.solveReal`; the solution set is iterated / measured as the list of its points
    ('_solve_real(__U, V)', '(SolveSet.pts (← SingDet.solveReal solveset_ {U}))'),
    ('tuple(__S)[0]', '(firstPt {S})'),
]

_LEAVES = 'matchNeg_ matchPos_ log_ solveset_'
_LEAVES_SIG = ('(matchNeg_ matchPos_ : Fac → Option BindU) (log_ : Rat → Rat) (solveset_ : Aff → SolveSet)')

GROUP = {'name': 'SingDet3',
 'imports': ['Cellml.Tie.SingDet3View', 'Cellml.Generated.Code.SingDet'],
 'header': 'open Cellml.Tie.PSing2 Cellml.Tie.PSing3 C12',
 'functions': [
     # `_is_negative_power` once more, on a classified factor (the tie on trees is `SingDet.isNegativePower`)
     {'file': _F, 'func': '_is_negative_power', 'lean_name': 'isNegativePowerF',
      'signature': '(expr : Fac) : Except PyErr Bool',
      'patterns': [('isinstance(__A, Pow)', '(facIsPow {A})'),
                   ('bool(__A)', '{A}'),
                   ('__A.args[1].evalf()', '(facExpQ {A})')]},
     {'file': _F, 'func': '_get_singularity', 'fn_class': 'sing3:Sing3Fn', 'block': 'sing',
      'lean_name': 'recordLoop',
      'signature': '(singularities : List (Win Rat)) (Vmin Vmax sp : Rat) : Except PyErr (List (Win Rat))',
      'params': ['singularities', 'Vmin', 'Vmax', 'sp'],
      'state': ['singularities'],
      'returns': 'singularities',
      # a recorded singularity is the python list `[Vmin, Vmax, sp]`: the model's record `Win`
      'inplace_for': {'sing': {'list': 'singularities', 'fields': ['vmin', 'vmax', 'sp']}},
      'patterns': [('[Vmin, Vmax, sp]', '(Win.mk Vmin Vmax sp)'),
                   # python's builtin `min` / `max` of four numbers: left fold, the first of equal ones is kept
                   ('min(__A, __B, __C, __D)', '(min2 (min2 (min2 {A} {B}) {C}) {D})'),
                   ('max(__A, __B, __C, __D)', '(max2 (max2 (max2 {A} {B}) {C}) {D})'),
                   ('len(__V.free_symbols)', '(freeSymCount {V})')],
      'stmt_patterns': [('singularities.append(__A)', 'singularities := singularities ++ [{A}]')]},
     {'file': _F, 'func': '_get_singularity', 'fn_class': 'sing3:Sing3Fn', 'block': 'sp',
      'lean_name': 'spLoop',
      'signature': '(fraction_part_1 : List Fac) (u : Aff) (U_offset : Rat) (singularity_points Vmin_points '
                   'Vmax_points : List Rat) (found_on_top : Bool) (singularities : List (Win Rat)) : '
                   'Except PyErr (Bool × List (Win Rat))',
      'params': ['fraction_part_1', 'u', 'U_offset', 'singularity_points', 'Vmin_points', 'Vmax_points',
                 'found_on_top', 'singularities', 'V', 'exp_function'],
      'state': ['found_on_top', 'singularities'],
      'returns': '(found_on_top, singularities)',
      'call_blocks': {'fp1': {'state': ['found_on_top'],
                              'call': 'SingDet.onTopLoop fraction_part_1 u sp found_on_top'},
                      'sing': {'state': ['singularities'], 'call': 'recordLoop singularities Vmin Vmax sp'}},
      'patterns': _FIND},
     {'file': _F, 'func': '_get_singularity', 'fn_class': 'sing3:Sing3Fn', 'block': 'fp2',
      'lean_name': 'fp2Loop',
      'signature': _LEAVES_SIG + ' (fraction_part_1 fraction_part_2 : List Fac) (U_offset : Rat) '
                   '(found_on_top : Bool) (singularities : List (Win Rat)) : Except PyErr (Bool × List (Win Rat))',
      'params': ['fraction_part_1', 'fraction_part_2', 'U_offset', 'found_on_top', 'singularities', 'V',
                 'exp_function'],
      'state': ['found_on_top', 'singularities'],
      'returns': '(found_on_top, singularities)',
      'call_blocks': {'sp': {'state': ['found_on_top', 'singularities'],
                             'call': 'spLoop fraction_part_1 u U_offset singularity_points Vmin_points Vmax_points '
                                     'found_on_top singularities'}},
      'patterns': _FIND,
      # a reset of three locals that are assigned again before they are read (a dead store)
      'stmt_patterns': [('(Vmin, Vmax, sp) = (None, None, None)', '')]},
     {'file': _F, 'func': '_get_singularity', 'fn_class': 'sing3:Sing3Fn',
      'lean_name': 'getSingularity',
      'signature': _LEAVES_SIG + ' (expr : List Fac) (U_offset : Rat) : Except PyErr (List (Rat × Rat × Rat))',
      'params': ['expr', 'V', 'U_offset', 'exp_function'],
      'skip_defs': ['check_U_match'],
      'mutable': ['found_on_top', 'singularities'],
      'var_types': {'singularities': 'List (Win Rat)'},
      'call_blocks': {'fp2': {'state': ['found_on_top', 'singularities'],
                              'call': 'fp2Loop ' + _LEAVES + ' fraction_part_1 fraction_part_2 U_offset found_on_top '
                                      'singularities'}},
      'patterns': [('expr.args', '(prodArgs expr)'),
                   ('expr.has(exp_function)', '(anyHasExp expr)'),
                   ('_is_negative_power(__A)', '← isNegativePowerF {A}'),
                   # `Pow(base, −exponent)` of a classified factor; the minus sign comes from the source
                   ('Pow(__A.args[0], __E)', '(mkFac (facBase {A}) {E})'),
                   ('__A.args[1]', '(facExpn {A})'),
                   ('Mul(*__S)', '(mulSide {S})'),
                   # floats instead of Quantity dummies (`_float_dummies` is one `xreplace`): the recorded triples
                   ('[(_float_dummies(Vmin), _float_dummies(Vmax), _float_dummies(sp)) '
                    'for (Vmin, Vmax, sp) in __S]', '(({S}).map winTriple)')],
      'stmt_patterns': [
          # SymPy wildcards: inside the matcher leaves (their `exclude` is why P, SP are numbers and U holds V)
          ("P_wildcard = Wild('P_wildcard', real=True, exclude=[V])", ''),
          ("Z_wildcard = Wild('Z_wildcard', real=True)", ''),
          ("U_wildcard = Wild('U_wildcard', real=True, include=[V])", ''),
          ("SP_wildcard = Wild('SP_wildcard', real=True, exclude=[V])", ''),
          ('(numerator, denominator) = ([], [])',
           'let mut numerator : List Fac := []\nlet mut denominator : List Fac := []'),
          ('numerator.append(__A)', 'numerator := numerator ++ [{A}]'),
          ('denominator.append(__A)', 'denominator := denominator ++ [{A}]'),
          # a reset of three locals that nothing reads afterwards (a dead store)
          ('(Vmin, Vmax, sp) = (None, None, None)', '')]},
 ]}
