"""Shared machinery of the checks: S-expressions, the Lean driver, build + axiom audit, evidence, findings."""
import json
import os
import random
import re
import subprocess
import sys
import time
from fractions import Fraction

HERE = os.path.dirname(os.path.abspath(__file__))
ROOT = os.path.dirname(HERE)
LEAN = os.path.join(ROOT, 'lean')
REPO = os.environ.get('CELLML_REPO', '/repo')
DRIVER = os.path.join(LEAN, '.lake', 'build', 'bin', 'driver')
ALLOWED_AXIOMS = {'propext', 'Classical.choice', 'Quot.sound'}
FORBIDDEN = re.compile(r'\b(sorry|admit|native_decide|bv_decide|implemented_by|unsafe)\b|^\s*axiom\s|maxHeartbeats\s+0\b')


# ---------------------------------------------------------------------------------------------- S-expressions
class Str(str):
    """A value that must be written as a quoted string."""


def sx(obj):
    """Dump a python value as an S-expression: list/tuple -> (...), Str -> "..", bool -> true/false,
    int -> digits, Fraction -> p/q, other str -> bare atom."""
    if isinstance(obj, Str):
        return '"' + obj.replace('\\', '\\\\').replace('"', '\\"') + '"'
    if isinstance(obj, bool):
        return 'true' if obj else 'false'
    if isinstance(obj, int):
        return str(obj)
    if isinstance(obj, Fraction):
        return str(obj.numerator) if obj.denominator == 1 else '%d/%d' % (obj.numerator, obj.denominator)
    if isinstance(obj, str):
        assert obj and not re.search(r'[\s()"]', obj), 'bad atom %r' % obj
        return obj
    if isinstance(obj, (list, tuple)):
        return '(' + ' '.join(sx(x) for x in obj) + ')'
    raise TypeError('cannot serialise %r' % (obj,))


_TOK = re.compile(r'\(|\)|"(?:[^"\\]|\\.)*"|[^\s()"]+')


def parse_sx(text):
    """Parse one S-expression; atoms -> str, quoted -> Str, lists -> list."""
    toks = _TOK.findall(text)
    pos = 0

    def rd():
        nonlocal pos
        t = toks[pos]
        pos += 1
        if t == '(':
            out = []
            while toks[pos] != ')':
                out.append(rd())
            pos += 1
            return out
        if t.startswith('"'):
            return Str(re.sub(r'\\(.)', r'\1', t[1:-1]))
        return t
    return rd() if toks else None


def frac(atom):
    """'p/q' or 'p' -> Fraction"""
    return Fraction(atom)


# ---------------------------------------------------------------------------------------------- Lean side
def run(cmd, cwd=None, timeout=None, env=None):
    p = subprocess.run(cmd, cwd=cwd, stdout=subprocess.PIPE, stderr=subprocess.STDOUT, text=True, timeout=timeout,
                       env=env)
    return p.returncode, p.stdout


def translate():
    """(T) regenerate lean/Cellml/Generated/Tables.lean and Generated/Code/*.lean from /repo's current source text."""
    rc, out = run([sys.executable, os.path.join(HERE, 'translate_tables.py')])
    # (T2) regenerate lean/Cellml/Generated/Code/*.lean from the CODE of the translated functions; a function the
    # translator cannot handle leaves its definition out, so the tie theorem naming it fails to build (reported there)
    rc2, out2 = run([sys.executable, os.path.join(HERE, 'translate_code.py')])
    return rc == 0 and rc2 == 0, out + out2


def lake_build(targets):
    """Build library modules / the driver. Returns (ok, log). A no-op when nothing changed."""
    try:
        rc, out = run(['lake', 'build'] + list(targets), cwd=LEAN, timeout=3000)
    except FileNotFoundError:
        raise Infra('lake not on PATH')
    return rc == 0, out


def audit(modules):
    """Run `#audit_module` on each property module: returns (ok, theorems: {name: [axioms]}, log)."""
    src = 'import Cellml.Audit\n' + ''.join('import %s\n' % m for m in modules) + \
          ''.join('#audit_module %s\n' % m for m in modules)
    path = os.path.join(LEAN, '.lake', 'audit_%d.lean' % os.getpid())
    os.makedirs(os.path.dirname(path), exist_ok=True)
    with open(path, 'w') as f:
        f.write(src)
    try:
        rc, out = run(['lake', 'env', 'lean', path], cwd=LEAN, timeout=1200)
    finally:
        try:
            os.remove(path)
        except OSError:
            pass
    thms = {}
    for m in re.finditer(r'AUDIT (\S+) :: \[([^\]]*)\]', out):
        thms[m.group(1)] = [a.strip() for a in m.group(2).split(',') if a.strip()]
    bad = {n: a for n, a in thms.items() if not set(a) <= ALLOWED_AXIOMS}
    return rc == 0 and not bad and bool(thms), thms, bad, out


def grep_forbidden(paths):
    """sorry/admit/axiom/native_decide/... outside comments, in the given Lean files."""
    hits = []
    for path in paths:
        try:
            text = open(path).read()
        except OSError:
            continue
        text = re.sub(r'/-.*?-/', lambda m: '\n' * m.group(0).count('\n'), text, flags=re.S)
        for i, line in enumerate(text.split('\n'), 1):
            line = line.split('--')[0]
            if FORBIDDEN.search(line):
                hits.append('%s:%d: %s' % (os.path.relpath(path, ROOT), i, line.strip()))
    return hits


def lean_files(modules):
    """Transitive Cellml.* imports of the given modules, as file paths."""
    seen, todo = set(), list(modules)
    while todo:
        m = todo.pop()
        if m in seen or not m.startswith('Cellml'):
            continue
        seen.add(m)
        path = os.path.join(LEAN, *m.split('.')) + '.lean'
        try:
            for line in open(path):
                mm = re.match(r'\s*import\s+(\S+)', line)
                if mm:
                    todo.append(mm.group(1))
        except OSError:
            pass
    return [os.path.join(LEAN, *m.split('.')) + '.lean' for m in sorted(seen)]


class Infra(Exception):
    """Infrastructure failure of the check itself: exit 2, never a violation."""


def ask_model(lines, timeout=3000):
    """Pipe request lines to the compiled Lean driver; one reply per line, parsed."""
    if not os.path.exists(DRIVER):
        raise Infra('model driver not built: ' + DRIVER)
    data = '\n'.join(lines) + '\n'
    p = subprocess.run([DRIVER], input=data, stdout=subprocess.PIPE, stderr=subprocess.PIPE, text=True,
                       timeout=timeout)
    out = p.stdout.split('\n')
    if out and out[-1] == '':
        out.pop()
    if len(out) != len(lines):
        raise Infra('driver answered %d lines for %d requests (rc=%s, stderr=%s)'
                    % (len(out), len(lines), p.returncode, p.stderr[-500:]))
    return [parse_sx(l) for l in out]


# ---------------------------------------------------------------------------------------------- findings / evidence
def load_findings(prop):
    """findings/<Cxx>.json — committed, never written at run time."""
    path = os.path.join(ROOT, 'findings', prop + '.json')
    try:
        data = json.load(open(path))
    except OSError:
        return []
    return [f for f in data.get('findings', []) if f.get('property', prop) == prop]


def write_evidence(prop, tier, seed, coverage, assumptions, wall, violations):
    os.makedirs(os.path.join(ROOT, 'evidence'), exist_ok=True)
    ev = {
        'property_id': prop, 'tier': tier, 'seed': seed, 'level': 'proof',
        'coverage': coverage, 'assumptions': assumptions, 'wall_s': round(wall, 2), 'violations': violations,
    }
    path = os.path.join(ROOT, 'evidence', prop + '.json')
    with open(path, 'w') as f:
        json.dump(ev, f, indent=1, default=str)
    return path


def write_replay(prop, name, payload):
    d = os.path.join(ROOT, 'replays')
    os.makedirs(d, exist_ok=True)
    path = os.path.join(d, '%s-%s.json' % (prop, name))
    with open(path, 'w') as f:
        json.dump(payload, f, indent=1, default=str)
    return os.path.relpath(path, ROOT)


def rng_for(seed, *salt):
    return random.Random('%s|%s' % (seed, '|'.join(str(s) for s in salt)))


# ---------------------------------------------------------------------------------------------- fingerprints
def ast_fingerprints(spec):
    """spec: {'cellmlmanip/units.py': ['UnitStore.convert', ...]} -> {qualified name: sha1 of normalised AST}.
    Docstrings are dropped; comments and formatting do not reach the AST."""
    import ast
    import hashlib
    out = {}
    for rel, names in spec.items():
        try:
            tree = ast.parse(open(os.path.join(REPO, rel)).read())
        except Exception as e:  # a file that does not parse: report, the correspondence will fail anyway
            for n in names:
                out[rel + ':' + n] = 'unparsable:' + type(e).__name__
            continue
        index = {}
        for node in tree.body:
            if isinstance(node, (ast.FunctionDef, ast.ClassDef)):
                index[node.name] = node
                if isinstance(node, ast.ClassDef):
                    for sub in node.body:
                        if isinstance(sub, ast.FunctionDef):
                            index[node.name + '.' + sub.name] = sub
            elif isinstance(node, ast.Assign):
                for t in node.targets:
                    if isinstance(t, ast.Name):
                        index[t.id] = node
        for n in names:
            node = index.get(n)
            if node is None:
                out[rel + ':' + n] = 'missing'
                continue
            for sub in ast.walk(node):
                if isinstance(sub, (ast.FunctionDef, ast.ClassDef)) and sub.body and \
                        isinstance(sub.body[0], ast.Expr) and isinstance(sub.body[0].value, ast.Constant) and \
                        isinstance(sub.body[0].value.value, str):
                    sub.body = sub.body[1:] or [ast.Pass()]
            out[rel + ':' + n] = hashlib.sha1(ast.dump(node).encode()).hexdigest()[:16]
    return out


def fingerprint_drift(prop, spec):
    cur = ast_fingerprints(spec)
    try:
        rec = json.load(open(os.path.join(HERE, 'fingerprints.json'))).get(prop, {})
    except OSError:
        rec = {}
    drift = sorted(k for k in cur if rec.get(k) != cur[k])
    return cur, drift
