"""Extension of the code translator for the group RdfQ (the remaining annotation / RDF functions, property C13).

ONE added rule, about scoping, none about the logic of a function; everything else defers to `translate_code.Fn`:

 * an ASSIGNMENT statement that is translated by a statement pattern of the spec still declares its target names
   (python: `uri, local_name = node_content` binds `uri` and `local_name` however the right-hand side is unpacked), so
   that a later `uri += '#'` finds `uri` declared (the template of the pattern declares it `let mut`; the name must be
   listed in the spec's `mutable`). The generic translator only records the targets of assignments it emits itself."""
import ast
import sys

import translate_code
from translate_code import TranslationError, match

# see translate_ext/numpipe.py: when the translator runs as a script its own `TranslationError` is
# `__main__.TranslationError`; re-raise as the class the driver catches, so that a function with no rule is LEFT OUT
_MAIN_TE = getattr(sys.modules.get('__main__'), 'TranslationError', TranslationError)


class RdfFn(translate_code.Fn):
    def __init__(self, spec, node):
        try:
            super().__init__(spec, node)
        except TranslationError as e:
            raise _MAIN_TE(str(e))

    def translate(self):
        try:
            return super().translate()
        except TranslationError as e:
            raise _MAIN_TE(str(e))

    def stmt(self, s, ind):
        if isinstance(s, ast.Assign) and any(match(pat, s, {}) for pat, _ in self.spats):
            for t in s.targets:
                for n in ast.walk(t):
                    if isinstance(n, ast.Name) and isinstance(n.ctx, ast.Store):
                        self.declared.add(n.id)
        super().stmt(s, ind)
