import Mathlib.Algebra.Field.Basic
import Mathlib.Algebra.Order.Field.Basic
import Mathlib.Tactic.Ring
import Mathlib.Tactic.FieldSimp
import Mathlib.Tactic.Linarith

/-! Spike for C05 (a): `convert_expression_recursively` on a cut-down expression type
    (leaves, `add` with the first-operand rule, `mul` with conversion of the result) preserves the
    physical value, for every target, every environment. -/

abbrev Dims := Int × Int

structure U where
  scale : Rat
  dims  : Dims
deriving DecidableEq, Repr

def U.mul (a b : U) : U := ⟨a.scale * b.scale, (a.dims.1 + b.dims.1, a.dims.2 + b.dims.2)⟩
def U.div (a b : U) : U := ⟨a.scale / b.scale, (a.dims.1 - b.dims.1, a.dims.2 - b.dims.2)⟩

inductive E where
  | qty (m : Rat) (u : U)
  | var (i : Nat)
  | add (a b : E)
  | mul (a b : E)
deriving Repr, DecidableEq

inductive Err | cannotConvert
deriving DecidableEq, Repr

/-- `maybe_convert_expr` -/
def maybeConv (e : E) (c : Bool) (frm : U) (tgt : Option U) : Except Err (E × Bool × U) :=
  match tgt with
  | none => .ok (e, c, frm)
  | some t =>
    if frm.dims = t.dims then
      let cf := frm.scale / t.scale
      if cf = 1 then .ok (e, c, t) else .ok (.mul (.qty cf (t.div frm)) e, true, t)
    else .error .cannotConvert

/-- `convert_expression_recursively` (spike subset) -/
def convert (Γ : Nat → U) : E → Option U → Except Err (E × Bool × U)
  | .qty m u, tgt => maybeConv (.qty m u) false u tgt
  | .var i, tgt => maybeConv (.var i) false (Γ i) tgt
  | .add a b, tgt => do
      let (a', ca, ua) ← convert Γ a tgt
      let (b', cb, _) ← convert Γ b (some (tgt.getD ua))
      pure (.add a' b', ca || cb, tgt.getD ua)
  | .mul a b, tgt => do
      let (a', ca, ua) ← convert Γ a none
      let (b', cb, ub) ← convert Γ b none
      maybeConv (.mul a' b') (ca || cb) (ua.mul ub) tgt

variable {K : Type} [Field K]

def evalNum (ρ : Nat → K) : E → K
  | .qty m _ => (m : K)
  | .var i => ρ i
  | .add a b => evalNum ρ a + evalNum ρ b
  | .mul a b => evalNum ρ a * evalNum ρ b

def evalPhys (Γ : Nat → U) (ρ : Nat → K) : E → Option (K × Dims)
  | .qty m u => some ((m : K) * (u.scale : K), u.dims)
  | .var i => some (ρ i * ((Γ i).scale : K), (Γ i).dims)
  | .add a b => do
      let (x, d) ← evalPhys Γ ρ a; let (y, d') ← evalPhys Γ ρ b
      if d = d' then some (x + y, d) else none
  | .mul a b => do
      let (x, d) ← evalPhys Γ ρ a; let (y, d') ← evalPhys Γ ρ b
      some (x * y, (d.1 + d'.1, d.2 + d'.2))

/-- all scales occurring are non-zero (they are positive in the real model) -/
def Scaled (Γ : Nat → U) : E → Prop
  | .qty _ u => u.scale ≠ 0
  | .var i => (Γ i).scale ≠ 0
  | .add a b | .mul a b => Scaled Γ a ∧ Scaled Γ b


/-- what `maybe_convert_expr` can return -/
theorem maybeConv_spec (e e' : E) (c c' : Bool) (frm u : U) (tgt : Option U)
    (h : maybeConv e c frm tgt = .ok (e', c', u)) :
    (tgt = none → e' = e ∧ u = frm ∧ c' = c) ∧
    (∀ t, tgt = some t → u = t ∧ frm.dims = t.dims ∧
        ((e' = e ∧ frm.scale / t.scale = 1 ∧ c' = c) ∨
         (e' = .mul (.qty (frm.scale / t.scale) (t.div frm)) e ∧ c' = true))) := by
  unfold maybeConv at h
  cases tgt with
  | none =>
      simp only [Except.ok.injEq, Prod.mk.injEq] at h
      obtain ⟨h1, h2, h3⟩ := h
      exact ⟨fun _ => ⟨h1.symm, h3.symm, h2.symm⟩, fun t ht => by cases ht⟩
  | some t =>
      refine ⟨(fun hn => by cases hn), ?_⟩
      intro t' ht'
      obtain rfl : t = t' := Option.some.inj ht'
      simp only at h
      split at h
      · rename_i hd
        split at h
        · rename_i hcf
          simp only [Except.ok.injEq, Prod.mk.injEq] at h
          obtain ⟨h1, h2, h3⟩ := h
          exact ⟨h3.symm, hd, Or.inl ⟨h1.symm, hcf, h2.symm⟩⟩
        · simp only [Except.ok.injEq, Prod.mk.injEq] at h
          obtain ⟨h1, h2, h3⟩ := h
          exact ⟨h3.symm, hd, Or.inr ⟨h1.symm, h2.symm⟩⟩
      · cases h

theorem maybeConv_value [CharZero K] (ρ : Nat → K) (e e' : E) (c c' : Bool) (frm u : U)
    (tgt : Option U) (htgt : ∀ t, tgt = some t → t.scale ≠ 0) (hf : frm.scale ≠ 0)
    (h : maybeConv e c frm tgt = .ok (e', c', u)) :
    (evalNum ρ e * (frm.scale : K), frm.dims) = (evalNum ρ e' * (u.scale : K), u.dims) ∧ u.scale ≠ 0 := by
  obtain ⟨hnone, hsome⟩ := maybeConv_spec e e' c c' frm u tgt h
  cases tgt with
  | none => obtain ⟨h1, h2, _⟩ := hnone rfl; rw [h1, h2]; exact ⟨rfl, hf⟩
  | some t =>
      obtain ⟨hu, hd, hcase⟩ := hsome t rfl
      have ht := htgt t rfl
      have htK : (t.scale : K) ≠ 0 := by exact_mod_cast ht
      rw [hu]
      refine ⟨?_, ht⟩
      rcases hcase with ⟨he, hcf, _⟩ | ⟨he, _⟩
      · have : frm.scale = t.scale := (div_eq_one_iff_eq ht).mp hcf
        rw [he, this, hd]
      · rw [he, hd]
        simp only [evalNum, Prod.mk.injEq, and_true]
        push_cast
        field_simp

/-- with an explicit target, the result is in the target unit -/
theorem convert_target (Γ : Nat → U) (e e' : E) (t u : U) (c : Bool)
    (h : convert Γ e (some t) = .ok (e', c, u)) : u = t := by
  cases e with
  | qty m u0 => simp only [convert] at h; exact ((maybeConv_spec _ _ _ _ _ _ _ h).2 t rfl).1
  | var i => simp only [convert] at h; exact ((maybeConv_spec _ _ _ _ _ _ _ h).2 t rfl).1
  | add a b =>
      simp only [convert, bind, Except.bind] at h
      split at h
      · cases h
      · rename_i ra hra
        obtain ⟨a', ca, ua⟩ := ra
        simp only at h
        split at h
        · cases h
        · rename_i rb hrb
          obtain ⟨b', cb, ub⟩ := rb
          simp only [pure, Except.pure, Except.ok.injEq, Prod.mk.injEq, Option.getD_some] at h
          exact h.2.2.symm
  | mul a b =>
      simp only [convert, bind, Except.bind] at h
      split at h
      · cases h
      · rename_i ra hra
        obtain ⟨a', ca, ua⟩ := ra
        simp only at h
        split at h
        · cases h
        · rename_i rb hrb
          obtain ⟨b', cb, ub⟩ := rb
          simp only at h
          exact ((maybeConv_spec _ _ _ _ _ _ _ h).2 t rfl).1

theorem convert_value [CharZero K] (Γ : Nat → U) (ρ : Nat → K) :
    ∀ (e : E) (tgt : Option U) (e' : E) (c : Bool) (u : U) (p : K × Dims),
      Scaled Γ e → (∀ t, tgt = some t → t.scale ≠ 0) →
      evalPhys Γ ρ e = some p → convert Γ e tgt = .ok (e', c, u) →
      p = (evalNum ρ e' * (u.scale : K), u.dims) ∧ u.scale ≠ 0 := by
  intro e
  induction e with
  | qty m u0 =>
      intro tgt e' c u p hs htgt hp h
      simp only [convert] at h
      simp only [evalPhys, Option.some.injEq] at hp
      rw [← hp]
      exact maybeConv_value ρ (.qty m u0) e' false c u0 u tgt htgt hs h
  | var i =>
      intro tgt e' c u p hs htgt hp h
      simp only [convert] at h
      simp only [evalPhys, Option.some.injEq] at hp
      rw [← hp]
      exact maybeConv_value ρ (.var i) e' false c (Γ i) u tgt htgt hs h
  | add a b iha ihb =>
      intro tgt e' c u p hs htgt hp h
      obtain ⟨hsa, hsb⟩ := hs
      simp only [convert, bind, Except.bind] at h
      split at h
      · cases h
      rename_i ra hra
      obtain ⟨a', ca, ua⟩ := ra
      simp only at h
      split at h
      · cases h
      rename_i rb hrb
      obtain ⟨b', cb, ub⟩ := rb
      simp only [pure, Except.pure, Except.ok.injEq, Prod.mk.injEq] at h
      obtain ⟨he', _, hu⟩ := h
      -- physical value of the sum
      simp only [evalPhys, bind, Option.bind] at hp
      split at hp
      · cases hp
      rename_i pa hpa
      obtain ⟨x, d⟩ := pa
      simp only at hp
      split at hp
      · cases hp
      rename_i pb hpb
      obtain ⟨y, d'⟩ := pb
      simp only at hp
      split at hp
      · rename_i hdd
        simp only [Option.some.injEq] at hp
        obtain ⟨ha, hua⟩ := iha tgt a' ca ua _ hsa htgt hpa hra
        have hget : tgt.getD ua = ua := by
          cases tgt with
          | none => rfl
          | some t0 => simp only [Option.getD_some]; exact (convert_target Γ a a' t0 ua ca hra).symm
        have htgt' : ∀ t, some (tgt.getD ua) = some t → t.scale ≠ 0 := by
          intro t ht; simp only [Option.some.injEq] at ht; rw [← ht, hget]; exact hua
        obtain ⟨hb, hub⟩ := ihb (some (tgt.getD ua)) b' cb ub _ hsb htgt' hpb hrb
        have hubt : ub = ua := by rw [convert_target Γ b b' _ ub cb hrb, hget]
        rw [← hp, ← hu, ← he', hget]
        refine ⟨?_, hua⟩
        simp only [Prod.mk.injEq] at ha hb
        rw [hubt] at hb
        simp only [evalNum, Prod.mk.injEq]
        exact ⟨by rw [ha.1, hb.1]; ring, ha.2⟩
      · cases hp
  | mul a b iha ihb =>
      intro tgt e' c u p hs htgt hp h
      obtain ⟨hsa, hsb⟩ := hs
      simp only [convert, bind, Except.bind] at h
      split at h
      · cases h
      rename_i ra hra
      obtain ⟨a', ca, ua⟩ := ra
      simp only at h
      split at h
      · cases h
      rename_i rb hrb
      obtain ⟨b', cb, ub⟩ := rb
      simp only at h
      simp only [evalPhys, bind, Option.bind] at hp
      split at hp
      · cases hp
      rename_i pa hpa
      obtain ⟨x, d⟩ := pa
      simp only at hp
      split at hp
      · cases hp
      rename_i pb hpb
      obtain ⟨y, d'⟩ := pb
      simp only [Option.some.injEq] at hp
      obtain ⟨ha, hua⟩ := iha none a' ca ua _ hsa (by intro t ht; cases ht) hpa hra
      obtain ⟨hb, hub⟩ := ihb none b' cb ub _ hsb (by intro t ht; cases ht) hpb hrb
      have hmul : (ua.mul ub).scale ≠ 0 := by simp [U.mul, hua, hub]
      obtain ⟨hv, hne⟩ := maybeConv_value ρ (.mul a' b') e' (ca || cb) c (ua.mul ub) u tgt htgt hmul h
      refine ⟨?_, hne⟩
      rw [← hp, ← hv]
      simp only [Prod.mk.injEq] at ha hb
      simp only [evalNum, U.mul, Prod.mk.injEq]
      refine ⟨?_, by rw [ha.2, hb.2]; exact ⟨rfl, rfl⟩⟩
      rw [ha.1, hb.1]; push_cast; ring

#print axioms convert_value
