import Cellml.C11.Groups5
import Cellml.C11.Rejects
import Cellml.C11.Rewrite
import Cellml.C11.RewriteSem
import Cellml.C11.ModelQ

/-! # C11 — generated Python code computes exactly what the expression means

  Model: `C11.pr` / `C11.printDoc` (lean/Cellml/C11/Printer.lean) = `cellmlmanip/printer.py` after the three `fix:`
  commits, producing a layout tree `Doc`; `C11.PyOK` = Python's expression grammar ("CPython parses the emitted string
  to exactly this tree"); `C11.wf` = the printer's domain (well-sorted SymPy trees). Every theorem quantifies over ALL
  expression trees (any depth, any parent/child/position combination). The tie to printer.py is
  `harness/props/c11.py` (emitted string equal to the model's, CPython's `ast.parse` equal to the model's tree). -/

namespace Cellml.Props.C11
open _root_.C11

/-! ## grouping -/

/-- **print_groups**: whatever the printer emits for an expression of its domain is parsed by Python to exactly the
    tree the printer built: no operand regroups, no sign moves, no comparison chains. -/
theorem print_groups (e : E) (s : Srt) (hl : isList e = false) (hw : wf s e = true) (d : Doc)
    (h : printDoc e = some d) : PyOK d = true := by
  unfold printDoc at h
  split at h
  next hst =>
    simp only [Option.some.injEq] at h; subst h
    exact (Q_elim e (all_M e).1.1 hl s hw (by simpa using hst)).1
  · cases h

/-- the Python level of the emitted code is at least what SymPy's precedence promises the parent -/
theorem print_level (e : E) (hl : isList e = false) (hw : wf .A e = true) (d : Doc) (h : printDoc e = some d) :
    40 ≤ level d ∧ (50 ≤ precA e → 50 ≤ level d) ∧ (60 ≤ precA e → 55 ≤ level d) ∧ (61 ≤ precA e → 100 ≤ level d) := by
  unfold printDoc at h
  split at h
  next hst =>
    simp only [Option.some.injEq] at h; subst h
    exact (Q_elim e (all_M e).1.1 hl .A hw (by simpa using hst)).2
  · cases h

/-! ## rejection -/

/-- **print_rejects**: an expression containing, anywhere the printer looks, a construct without a `_print_` method
    (`Not`, `nan`, `oo`, matrices, `Max`, …) or a function outside the name table is not printed: ValueError. -/
theorem print_rejects (e : E) (h : bad false e = true) : printDoc e = none := by
  have := (bad_rejects e false h).1
  unfold printDoc; split
  next hst => exact absurd (by simpa using hst) this
  · rfl

theorem rejects_other (w : String) : (pr (.other w)).st = .verr := rfl

theorem rejects_unknown_function (name : String) (args : E) (h : fnName name = none) (ha : (pr args).st = .ok) :
    (pr (.fn name args)).st = .verr := by
  simp only [pr, h, ha]; rfl

/-- a Piecewise is read up to its first `True` condition only: what follows is never printed, hence never rejected -/
example : printStr (.pw (.cons (.pair (.sym "x" true) .tt) (.cons (.pair (.other "Matrix") (.other "Not")) .nil)))
    = some "(x)" := by decide +kernel

/-! ## the function-name table (generated from `Printer._function_names` on every run): each SymPy class is sent to the
    `math` function (or builtin) with the same meaning — expected names written by hand here -/

theorem fn_table_Abs : fnName "Abs" = some "abs" := by decide +kernel
theorem fn_table_acos : fnName "acos" = some "math.acos" := by decide +kernel
theorem fn_table_acosh : fnName "acosh" = some "math.acosh" := by decide +kernel
theorem fn_table_asin : fnName "asin" = some "math.asin" := by decide +kernel
theorem fn_table_asinh : fnName "asinh" = some "math.asinh" := by decide +kernel
theorem fn_table_atan : fnName "atan" = some "math.atan" := by decide +kernel
theorem fn_table_atan2 : fnName "atan2" = some "math.atan2" := by decide +kernel
theorem fn_table_atanh : fnName "atanh" = some "math.atanh" := by decide +kernel
theorem fn_table_ceiling : fnName "ceiling" = some "math.ceil" := by decide +kernel
theorem fn_table_cos : fnName "cos" = some "math.cos" := by decide +kernel
theorem fn_table_cosh : fnName "cosh" = some "math.cosh" := by decide +kernel
theorem fn_table_exp : fnName "exp" = some "math.exp" := by decide +kernel
theorem fn_table_expm1 : fnName "expm1" = some "math.expm1" := by decide +kernel
theorem fn_table_factorial : fnName "factorial" = some "math.factorial" := by decide +kernel
theorem fn_table_floor : fnName "floor" = some "math.floor" := by decide +kernel
theorem fn_table_log : fnName "log" = some "math.log" := by decide +kernel
theorem fn_table_log10 : fnName "log10" = some "math.log10" := by decide +kernel
theorem fn_table_log1p : fnName "log1p" = some "math.log1p" := by decide +kernel
theorem fn_table_log2 : fnName "log2" = some "math.log2" := by decide +kernel
theorem fn_table_sin : fnName "sin" = some "math.sin" := by decide +kernel
theorem fn_table_sinh : fnName "sinh" = some "math.sinh" := by decide +kernel
theorem fn_table_sqrt : fnName "sqrt" = some "math.sqrt" := by decide +kernel
theorem fn_table_tan : fnName "tan" = some "math.tan" := by decide +kernel
theorem fn_table_tanh : fnName "tanh" = some "math.tanh" := by decide +kernel

/-- nothing else is in the table -/
theorem fn_table_keys : Cellml.Gen.printerFunctionNames.map Prod.fst =
    ["Abs", "acos", "acosh", "asin", "asinh", "atan", "atan2", "atanh", "ceiling", "cos", "cosh", "exp", "expm1", "factorial", "floor", "log", "log10", "log1p", "log2", "sin", "sinh", "sqrt", "tan", "tanh"] := by decide +kernel

theorem lit_table_pi : litName "pi" = "math.pi" := by decide +kernel
theorem lit_table_e : litName "e" = "math.e" := by decide +kernel
theorem lit_table_nan : litName "nan" = "float('nan')" := by decide +kernel
theorem lit_table_keys : Cellml.Gen.printerLiteralNames.map Prod.fst = ["e", "nan", "pi"] := by decide +kernel

/-! ## the secondary trigonometric functions (generated from `Printer._extra_trig`): each is rewritten by its definition,
    f(W) ↦ 1/g(W) (`recip`) or f(W) ↦ g(1/W) (`ofRecip`) -/

theorem extra_trig_sec : extraTrig "sec" = some ("recip", "cos") := by decide +kernel
theorem extra_trig_csc : extraTrig "csc" = some ("recip", "sin") := by decide +kernel
theorem extra_trig_cot : extraTrig "cot" = some ("recip", "tan") := by decide +kernel
theorem extra_trig_sech : extraTrig "sech" = some ("recip", "cosh") := by decide +kernel
theorem extra_trig_csch : extraTrig "csch" = some ("recip", "sinh") := by decide +kernel
theorem extra_trig_coth : extraTrig "coth" = some ("recip", "tanh") := by decide +kernel
theorem extra_trig_asec : extraTrig "asec" = some ("ofRecip", "acos") := by decide +kernel
theorem extra_trig_acsc : extraTrig "acsc" = some ("ofRecip", "asin") := by decide +kernel
theorem extra_trig_acot : extraTrig "acot" = some ("ofRecip", "atan") := by decide +kernel
theorem extra_trig_asech : extraTrig "asech" = some ("ofRecip", "acosh") := by decide +kernel
theorem extra_trig_acsch : extraTrig "acsch" = some ("ofRecip", "asinh") := by decide +kernel
theorem extra_trig_acoth : extraTrig "acoth" = some ("ofRecip", "atanh") := by decide +kernel

theorem extra_trig_keys : Cellml.Gen.printerExtraTrig.map (·.1) =
    ["sec", "csc", "cot", "sech", "csch", "coth", "asec", "acsc", "acot", "asech", "acsch", "acoth"] := by decide +kernel

/-! ## meaning

  `ev S e` : what the SymPy expression means, `evD S d` : what CPython computes for the layout tree, both over an
  arbitrary field `K` with uninterpreted functions, power, comparisons and token values `S : Sem K`. `Laws S` states
  what is assumed of them (number tokens denote their numbers, `v**-y = 1/v**y`, `v**1 = v`, `math.sqrt(v) = v**(1/2)`,
  `True`/`False` are 1/0, each name-table entry sends a SymPy class to the Python function of the same meaning). -/

/-- **print_means** (numbers): the emitted code evaluates to the value of the expression, for every assignment of
    the symbols and every interpretation of the functions — sums, products with their sign, numerator and denominator
    handling, powers and their `1 / x`, `math.sqrt` forms, piecewise chains. -/
theorem print_means {K : Type} [Field K] (S : Sem K) (hL : Laws S) (e : E) (hl : isList e = false)
    (hw : wf .A e = true) (d : Doc) (h : printDoc e = some d) : (evD S d).num = (ev S e).num := by
  unfold printDoc at h
  split at h
  next hst =>
    simp only [Option.some.injEq] at h; subst h
    exact T_elim S e (all_MT S hL e).1.1 hl .A hw (by simpa using hst)
  · cases h

/-- **print_means** (truth values): relations, `and`/`or` chains, relations between relations -/
theorem print_means_bool {K : Type} [Field K] (S : Sem K) (hL : Laws S) (e : E) (hl : isList e = false)
    (hw : wf .B e = true) (d : Doc) (h : printDoc e = some d) :
    (evD S d).bool = (ev S e).bool ∧ (evD S d).num = (ev S e).num := by
  unfold printDoc at h
  split at h
  next hst =>
    simp only [Option.some.injEq] at h; subst h
    have := T_elim S e (all_MT S hL e).1.1 hl .B hw (by simpa using hst)
    exact ⟨this.2, this.1⟩
  · cases h

/-- **extra_trig_means**: rewriting sec, csc, cot, sech, csch, coth, asec, acsc, acot, asech, acsch, acoth with the
    generated table preserves the meaning, given their definitions (sec = 1/cos, …, asec(v) = acos(1/v), …) -/
theorem extra_trig_means {K : Type} [Field K] (S : Sem K) (hL : Laws S) (hT : TrigDefs S) (e e' : E)
    (h : rewriteTrig e = some e') : (ev S e').num = (ev S e).num ∧ (ev S e').bool = (ev S e).bool :=
  ⟨(rewriteTrig_sem S hL hT e e' h).1, (rewriteTrig_sem S hL hT e e' h).2.1⟩

/-- **doprint_means**: rewriting followed by printing -/
theorem doprint_means {K : Type} [Field K] (S : Sem K) (hL : Laws S) (hT : TrigDefs S) (e e' : E)
    (hr : rewriteTrig e = some e') (hl : isList e' = false) (hw : wf .A e' = true) (d : Doc)
    (h : printDoc e' = some d) : (evD S d).num = (ev S e).num :=
  (print_means S hL e' hl hw d h).trans (extra_trig_means S hL hT e e' hr).1

/-- the laws are satisfiable: a model over ℚ -/
theorem laws_satisfiable : ∃ S : Sem ℚ, Laws S := ⟨SQ, lawsQ⟩

/-! ## non-vacuity: concrete expressions of the domain, printed, and well grouped -/

def x : E := .sym "x" true
def y : E := .sym "y" true
def z : E := .sym "z" true
def lst : List E → E := fun xs => xs.foldr E.cons E.nil

/-- the three repaired families now print with their brackets -/
example : printStr (.pow (.pow x y) z) = some "(x**y)**z" := by decide +kernel
example : printStr (.add (lst [x, .mul (lst [.int (-1), .add (lst [y, z])])])) = some "x - (y + z)" := by decide +kernel
example : printStr (.mul (lst [z, .pow (.pow x (.int (-1))) (.int (-1))])) = some "z / (1 / x)" := by decide +kernel
example : printStr (.mul (lst [x, .pow (.rat 1 3) (.int (-1))])) = some "x / (1 / 3)" := by decide +kernel
/-- strings pinned by tests/test_printer.py are unchanged -/
example : printStr (.mul (lst [.int (-2), x, .pow (.mul (lst [y, y])) (.int (-1))])) = some "-2 * x / (y * y)" := by
  decide +kernel
example : printStr (.mul (lst [x, .pow y (.rat (-2) 3)])) = some "x / y**(2 / 3)" := by decide +kernel
example : printStr (.pw (lst [.pair (.int 0) (.rel .gt x (.int 0)), .pair (.int 1) (.rel .gt x (.int 1)),
    .pair (.int 2) .tt])) = some "((0) if (x > 0) else ((1) if (x > 1) else (2)))" := by decide +kernel
example : printStr (.rel .eq x (.rel .eq y z)) = some "x == (y == z)" := by decide +kernel

def sample : E := .add (lst [x, .mul (lst [.int (-1), .add (lst [y, .pow (.pow x y) (.rat (-1) 2)])])])
example : wf .A sample = true ∧ isList sample = false := by decide +kernel
example : printStr sample = some "x - (y + 1 / math.sqrt(x**y))" := by decide +kernel
example : (printDoc sample).map PyOK = some true := by decide +kernel
example : bad false (.add (lst [x, .fn "gamma" (lst [y])])) = true := by decide +kernel
/-- `print_means` applies to the sample with the ℚ model -/
example : ∀ d, printDoc sample = some d → (evD SQ d).num = (ev SQ sample).num :=
  fun d h => print_means SQ lawsQ sample (by decide +kernel) (by decide +kernel) d h
example : rewriteTrig (.fn "asec" (lst [x])) = some (.fn "acos" (lst [.pow x (.int (-1))])) := by decide +kernel
example : rewriteTrig (.mul (lst [y, .fn "sec" (lst [x])])) =
    some (.mul (lst [y, .pow (.fn "cos" (lst [x])) (.int (-1))])) := by decide +kernel
def cond : E := .and (lst [.rel .lt x y, .or (lst [.rel .eq x z, .rel .ge y (.int 2)])])
example : wf .B cond = true := by decide +kernel
example : printStr cond = some "x < y and (x == z or y >= 2)" := by decide +kernel

/-! ## why the three `fix:` commits were needed: the bracketing rules as they were -/

/-- before the fix `_print_ordinary_pow` bracketed the base only when it was strictly looser than a power -/
def powDocOld (b pw : E) (bd xd : Doc) : Doc := .bin .pow (bracket b bd 60) (bracket pw xd 60)

/-- `(x**y)**z` as printed before the fix -/
def prOldTower : Doc := powDocOld (.pow x y) z (powDocOld x y (.atom "x") (.atom "y")) (.atom "z")

theorem old_tower_string : flatten prOldTower = "x**y**z" := by decide +kernel
/-- the counterexample: Python does not read `x**y**z` as the tree `(x**y)**z` -/
theorem old_tower_regroups : PyOK prOldTower = false := by decide

/-- before the fix a single denominator was bracketed like any operand of a product: `z * (1/x)**-1` -/
def prOldDenominator : Doc := .bin .div (.atom "z") (bracket (.pow x (.int (-1))) (.bin .div (.atom "1") (.atom "x")) 50)

theorem old_denominator_string : flatten prOldDenominator = "z / 1 / x" := by decide +kernel
theorem old_denominator_regroups : PyOK prOldDenominator = false := by decide

/-- before the fix the operands of `-1 * (y + z)` were bracketed with the precedence of what was left after taking out
    the sign, a sum: no brackets, and the sum continued the surrounding sum -/
def prOldNegSum : Doc :=
  spliceSum (.atom "x") true (bracket (.add (lst [y, z])) (.bin .add (.atom "y") (.atom "z")) 40)

theorem old_negsum_string : flatten prOldNegSum = "x - y + z" := by decide +kernel
/-- Python reads it as `(x - y) + z`: the `z` has changed sign -/
theorem old_negsum_tree : prOldNegSum = .bin .add (.bin .sub (.atom "x") (.atom "y")) (.atom "z") := by decide

end Cellml.Props.C11
