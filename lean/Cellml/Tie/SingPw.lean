import Cellml.Generated.Code.SingPw
import Cellml.C12.Lemmas
import Mathlib.Tactic.SplitIfs

/-! # Tie: `_generate_piecewise` (generated from the source, read on values) = `C12.generate` (hand model) -/

namespace Cellml.Tie.Sing
open C12 C12.Expr Cellml.Gen

section
variable {K : Type} [Add K] [Sub K] [Mul K] [Div K] [LT K] [DecidableLT K] [LE K] [DecidableLE K]

/-- For every function `f` of the voltage (the wrapped expression), every voltage and every pair of numeric bounds, in
    every number type: the definition generated from `_generate_piecewise` computes the hand model `C12.generate`
    (the swap `lo`/`hi`, the condition `lo ≤ V ∧ V ≤ hi`, the interpolation `f lo + (V − lo)/(hi − lo)·(f hi − f lo)`),
    and never raises. `sp` is not read by either. -/
theorem generatePiecewise_tie (f : K → K) (V sp vmin vmax : K) :
    SingPw.generatePiecewise f V sp vmin vmax = .ok (generate f V vmin vmax) := by
  unfold SingPw.generatePiecewise generate interp coeff lo hi pyFloat
  by_cases h : vmax < vmin <;>
    simp [h, bind, Except.bind, pure, Except.pure, tryCatch, tryCatchThe, MonadExceptOf.tryCatch, Except.tryCatch, StateT.pure]

end

/-- The same for the TREE the model builds: evaluating `wrapWin w e` (the `pw` node `_fix_expr_parts` /
    `_remove_singularities` put around a subterm, `Cellml/C12/Fix.lean`) at a voltage `v`, under any interpretation of
    `exp`, the other functions and the other variables, IS the generated `_generate_piecewise` applied to the value of
    `e` as a function of the voltage and the bounds of the range. -/
theorem generatePiecewise_eval (I : Interp Rat) (v : Rat) (w : Win Rat) (e : Expr) :
    SingPw.generatePiecewise (fun x => eval I x e) v w.sp w.vmin w.vmax = .ok (eval I v (wrapWin w e)) := by
  rw [generatePiecewise_tie]
  simp [wrapWin, eval, generate, Win.lo, Win.hi]

end Cellml.Tie.Sing
