import Cellml.Load.Loader
import Cellml.Units.Worklist

/-! # C17 — the whole of `Parser.parse` as one total function on a document that may be broken

    `Load.load : Doc → Except Err Flat` (C01) takes unit definitions that are already sorted and has no room for the
    features the parser refuses outright. `FaultDoc` wraps a `Doc` with what is missing:

    * `udefs`     : the `<units>` children of `<model>` as written (document order) — they go through the work list of
                    `_add_units` (`Units.addUnits`, C03), which is where cyclic / dangling / duplicate / built-in-overriding
                    / offset units are refused;
    * `compUnits` : file-order indices of the components that contain a `<units>` element (parser.py 141-148);
    * `reactions` : file-order indices of the components that contain a `<reaction>` element (parser.py 306-310);
    * `badEqs`    : equations whose left-hand side `Model.add_equation` refuses (second or higher derivative, anything
                    that is neither a variable nor a derivative), in the order `_add_maths` meets them, each with its
                    position; `doc` holds the well-shaped equations only;
    * the two facts of the RELAX NG schema the loader relies on (`schemaVars`): a variable never has both interfaces
      `in`, and a variable with an `in` interface has no `initial_value`.

    `loadFull` runs the stages in the order of `Parser.parse`, so that the *first* error is the one the code raises.
    `loadFrom` is `Load.load` with the unit stage factored out; `load_eq` says so. Core Lean only. -/

namespace C17
open Load

/-- left-hand sides the transpiler builds and `Model.add_equation` refuses -/
inductive BadLhs where
  | higher (x t : String) (order : Nat)      -- dⁿx/dtⁿ with `<degree>` n ≥ 2
  | nonvar (e : Expr String String)          -- `x + 1`, a number, …: neither a variable nor a derivative
deriving Repr, DecidableEq

structure BadEq where
  comp : Nat                                  -- index of the component (file order)
  pos  : Nat                                  -- how many well-shaped equations of that component precede it
  lhs  : BadLhs
  rhs  : Expr String String
deriving Repr, DecidableEq

structure FaultDoc where
  doc       : Doc
  udefs     : List Units.UDef := []
  compUnits : List Nat := []
  reactions : List Nat := []
  badEqs    : List BadEq := []
deriving Repr

/-! ## schema facts about variables (cellml_1_0.rnc, `cellml.variable`) -/

def schemaVar (d : VarDecl) : Bool :=
  !(d.pub == .inn && d.priv == .inn) && !(d.init.isSome && (d.pub == .inn || d.priv == .inn))

def schemaVars (doc : Doc) : Bool := doc.comps.all (fun c => c.vars.all schemaVar)

/-! ## `Load.load` with the unit stage factored out -/

def prepareFrom (reg : Registry) (ust : Units.Store) (doc : Doc) : Except Err Loaded :=
  match checkComps ust doc.comps [] ([], doc.cmeta.toList) with
  | .error e => .error e
  | .ok _ =>
    let vt := varTable ust doc.comps
    let names := doc.comps.map (·.name)
    match buildParents names doc.encaps [] [] with
    | .error e => .error e
    | .ok par =>
      match directAll names par vt doc.conns with
      | .error e => .error e
      | .ok dl =>
        match connect reg vt dl with
        | .error e => .error e
        | .ok st => .ok ⟨reg, ust, vt, par, dl, st⟩

def finishFrom (L : Loaded) (doc : Doc) : Except Err Flat :=
  match checkMaths L.ust L.vt L.st doc.comps (L.st.convs.map (·.target)) with
  | .error e => .error e
  | .ok defined =>
    match checkConstants (L.states doc) defined L.vt with
    | .error e => .error e
    | .ok () => .ok (L.flat doc)

def loadFrom (reg : Registry) (ust : Units.Store) (doc : Doc) : Except Err Flat :=
  match prepareFrom reg ust doc with
  | .error e => .error e
  | .ok L => finishFrom L doc

theorem prepare_eq (doc : Doc) :
    prepare doc = match buildUnits doc.units (Units.builtinRegistry, { id := 0, known := [] }) with
      | .error e => .error e
      | .ok (reg, ust) => prepareFrom reg ust doc := by
  unfold prepare prepareFrom
  cases buildUnits doc.units (Units.builtinRegistry, { id := 0, known := [] }) with
  | error e => rfl
  | ok p => obtain ⟨reg, ust⟩ := p; rfl

theorem load_eq (doc : Doc) :
    load doc = match buildUnits doc.units (Units.builtinRegistry, { id := 0, known := [] }) with
      | .error e => .error e
      | .ok (reg, ust) => loadFrom reg ust doc := by
  unfold load loadFrom finishFrom
  rw [prepare_eq]
  cases buildUnits doc.units (Units.builtinRegistry, { id := 0, known := [] }) with
  | error e => rfl
  | ok p =>
      obtain ⟨reg, ust⟩ := p
      simp only
      cases prepareFrom reg ust doc <;> rfl

/-! ## the stages `Load.load` does not have -/

/-- error class of the unit work list as `load_model` shows it -/
def unitErr : Units.AddErr → Err
  | .valueError w => .valueError ("units: " ++ w)
  | .undefinedUnit => .unsupported "pint UndefinedUnitError"
  | .badDefinition w => .unsupported ("unit definition: " ++ w)
  | .unsupported w => .unsupported w

/-- smallest member below a bound -/
def firstIdx (l : List Nat) (bound : Nat) : Option Nat :=
  (l.filter (· < bound)).foldl (fun acc i => match acc with | none => some i | some j => some (min i j)) none

/-- `_add_components` up to and including the first component with a `<reaction>`: whatever an earlier component (or
    the variables of this one) raises comes first, otherwise the `ValueError` of parser.py 308-310 -/
def reactionErr (ust : Units.Store) (fd : FaultDoc) : Option Err :=
  match firstIdx fd.reactions fd.doc.comps.length with
  | none => none
  | some i =>
    match checkComps ust (fd.doc.comps.take (i + 1)) [] ([], fd.doc.cmeta.toList) with
    | .error e => some e
    | .ok _ => some (.valueError "Reactions are not supported")

/-- the components as far as `_add_maths` has got when it reaches the bad equation -/
def truncComps (comps : List Comp) (ci pos : Nat) : List Comp :=
  comps.take ci ++ (match comps[ci]? with
    | some c => [{ c with eqs := c.eqs.take pos }]
    | none => [])

/-- transpiling the bad equation itself: identifiers and units first (`<bvar>` before the differentiated variable),
    then `add_equation` refuses the shape -/
def badEqOwn (L : Loaded) (cname : String) (b : BadEq) : Err :=
  let lhsChk : Except Err Unit := match b.lhs with
    | .higher x t _ => (match checkIdent L.vt cname t with
        | .ok () => checkIdent L.vt cname x
        | .error e => .error e)
    | .nonvar e => checkExpr L.ust L.vt cname e
  match lhsChk with
  | .error e => e
  | .ok () =>
    match b.lhs with
    | .higher _ _ _ =>
        -- `_wrapped_diff`: `int(degree)` of a `<cn>` that carries units (a Quantity) raises while the left-hand side is
        -- being built, before the right-hand side is looked at
        .unsupported "TypeError: The degree of a derivative must be an int"
    | .nonvar _ =>
      match checkExpr L.ust L.vt cname b.rhs with
      | .error e => e
      | .ok () => .valueError "Equation LHS should be a derivative or variable"

/-- `_add_maths` up to the first bad equation: always an error -/
def badEqErr (L : Loaded) (doc : Doc) (b : BadEq) : Err :=
  match checkMaths L.ust L.vt L.st (truncComps doc.comps b.comp b.pos) (L.st.convs.map (·.target)) with
  | .error e => e
  | .ok _ => badEqOwn L ((doc.comps[b.comp]?.map (·.name)).getD "") b

/-- exception class as `load_model` shows it (`Err` has no constructor for `TypeError`) -/
def className : Err → String
  | .unsupported w => if w.startsWith "TypeError" then "TypeError" else "Unsupported"
  | e => e.className

/-- `Parser.parse` -/
def loadFull (fd : FaultDoc) : Except Err Flat :=
  if !schemaVars fd.doc then .error (.valueError "Invalid or unsupported CellML file")
  else if !fd.compUnits.isEmpty then .error (.valueError "Defining units inside components is not supported")
  else match Units.addUnits 0 fd.udefs with
    | .error e => .error (unitErr e)
    | .ok (reg, ust) =>
      match reactionErr ust fd with
      | some e => .error e
      | none =>
        match prepareFrom reg ust fd.doc with
        | .error e => .error e
        | .ok L =>
          match fd.badEqs.head? with
          | some b => .error (badEqErr L fd.doc b)
          | none => finishFrom L fd.doc

end C17
