import Cellml.Generated.Code.Iso2
import Mathlib.Tactic.SplitIfs

set_option linter.unusedSimpArgs false

/-! # Ties of package Iso2: the process model `Iso.Process` (Iso/Process.lean; theorems in Props/C16Process.lean) and
    the SOURCE of cellmlmanip

    * the memo keys: the def lines of `_get_singularity` / `_generate_piecewise` (decorator `lru_cache(maxsize=128)`,
      positional parameters) ARE the records `SingKey` / `PwKey` of the model, and along every call site from
      `Model.remove_fixable_singularities` down to the two memoised functions the caller's `V` (and offset and `exp`
      function) is what arrives in the key — `model_to_singKey`, `fixEq_sing_tie`: the key `Process.fixEq` looks up is
      the key the source builds;
    * `Model.__init__` = `Process.newModel` (one new store, everything else created per instance, nothing taken from
      the class), `Model.create_quantity` = `Process.createQuantity`, `Quantity.__new__` / `__init__` and
      `Variable.__new__` = the objects of the heap, `_float_dummies` = `Process.placeholders`. -/

namespace Cellml.Tie.PIso2
open Units Units.Wire Iso Iso.Process Cellml.Gen

/-! ## def lines -/

/-- the `lru_cache` key of `_get_singularity` (its positional parameters, in order) is the model's `SingKey` -/
theorem getSingularity_key_tie (e : Ex) (V : Nat) (u : Rat) (f : String) :
    Iso2.getSingularity e V u f = (⟨e, V, u, f⟩ : SingKey) := rfl

theorem generatePiecewise_key_tie (e : Ex) (V : Nat) (sp vmin vmax : Rat) :
    Iso2.generatePiecewise e V sp vmin vmax = (⟨e, V, sp, vmin, vmax⟩ : PwKey) := rfl

/-- both are memoised with `maxsize=128` (the model's `Process.maxsize`); nothing else on the path is memoised -/
theorem decorators_tie :
    Iso2.getSingularity_cache = some (some Process.maxsize) ∧
    Iso2.generatePiecewise_cache = some (some Process.maxsize) ∧
    Iso2.fixExprParts_cache = none ∧ Iso2.removeSingularities_cache = none ∧ Iso2.rfs_cache = none ∧
    Iso2.modelRfs_cache = none := ⟨rfl, rfl, rfl, rfl, rfl, rfl⟩

/-- default-argument objects on the path: the only mutable one is `exclude=set()` of
    `Model.remove_fixable_singularities` (read-only in both functions: `Tie/SingTrav.lean` translates the callee, which
    only tests membership); the others are a float literal and the function `sympy.exp` -/
theorem defaults_tie :
    Iso2.modelRfs_defaults = [("exclude", "set()")] ∧
    Iso2.rfs_defaults = [("U_offset", "1e-07"), ("exp_function", "exp")] ∧
    Iso2.removeSingularities_defaults = [("U_offset", "1e-07"), ("exp_function", "exp")] ∧
    Iso2.fixExprParts_defaults = [] ∧ Iso2.getSingularity_defaults = [] ∧ Iso2.generatePiecewise_defaults = [] :=
  ⟨rfl, rfl, rfl, rfl, rfl, rfl⟩

/-! ## call sites -/

/-- the call sites that exist (a new call site of a memoised function changes a count) -/
theorem call_site_counts :
    Iso2.model_rfs_count = 1 ∧ Iso2.rfs_rs_count = 1 ∧ Iso2.rs_fix_count = 1 ∧ Iso2.rs_pw_count = 1 ∧
    Iso2.fix_rec_count = 3 ∧ Iso2.fix_sing_count = 1 ∧ Iso2.fix_pw_count = 4 := ⟨rfl, rfl, rfl, rfl, rfl, rfl, rfl⟩

/-- `Model.remove_fixable_singularities` hands its own `V` and `exclude` on, takes the callee's default offset 1e-7
    and reads `exp` from the GLOBAL handler table at call time -/
theorem model_rfs_tie (p : Proc) (self V : Nat) (exclude : List Nat) :
    Iso2.model_rfs_0 p self V exclude = ⟨self, V, exclude, 1 / 10000000, handlerOf p "exp"⟩ := rfl

/-- the three recursive calls of `_fix_expr_parts` pass `V`, the offset and the `exp` function on unchanged -/
theorem fix_rec_tie (expr chk ex a sub arg0 : Ex) (V : Nat) (u : Rat) (f : String) (sp vmin vmax : Rat) :
    Iso2.fix_rec_0 expr chk ex a sub arg0 V u f sp vmin vmax = ⟨a, V, u, f⟩ ∧
    Iso2.fix_rec_1 expr chk ex a sub arg0 V u f sp vmin vmax = ⟨arg0, V, u, f⟩ ∧
    Iso2.fix_rec_2 expr chk ex a sub arg0 V u f sp vmin vmax = ⟨sub, V, u, f⟩ := ⟨rfl, rfl, rfl⟩

/-- every call of `_generate_piecewise` (one in `_remove_singularities`, four in `_fix_expr_parts`) keys on the
    caller's `V` and on the three quantities of one analysis result -/
theorem pw_sites_tie (expr chk ex a sub arg0 : Ex) (V : Nat) (u : Rat) (f : String) (sp vmin vmax : Rat) :
    Iso2.rs_pw_0 expr chk ex a sub arg0 V u f sp vmin vmax = ⟨ex, V, sp, vmin, vmax⟩ ∧
    Iso2.fix_pw_0 expr chk ex a sub arg0 V u f sp vmin vmax = ⟨ex, V, sp, vmin, vmax⟩ ∧
    Iso2.fix_pw_1 expr chk ex a sub arg0 V u f sp vmin vmax = ⟨ex, V, sp, vmin, vmax⟩ ∧
    Iso2.fix_pw_2 expr chk ex a sub arg0 V u f sp vmin vmax = ⟨expr, V, sp, vmin, vmax⟩ ∧
    Iso2.fix_pw_3 expr chk ex a sub arg0 V u f sp vmin vmax = ⟨ex, V, sp, vmin, vmax⟩ := ⟨rfl, rfl, rfl, rfl, rfl⟩

/-- the key that reaches `_get_singularity` when model `self` calls `remove_fixable_singularities(V, exclude)`, through
    the four call sites of the source, for the (partially evaluated) right-hand side `rhs` whose `check_U_expr` is `chk` -/
def sourceKey (p : Proc) (self V : Nat) (exclude : List Nat) (rhs chk : Ex) : SingKey :=
  let a := Iso2.model_rfs_0 p self V exclude
  let b := Iso2.rfs_rs_0 rhs a.V a.uOffset a.expFn
  let c := Iso2.rs_fix_0 b.expr chk b.expr b.expr b.expr b.expr b.V b.uOffset b.expFn 0 0 0
  Iso2.fix_sing_0 c.expr chk c.expr c.expr c.expr c.expr c.V c.uOffset c.expFn 0 0 0

/-- **the model's `V` is in the key**: whatever the expression, the key carries the `V` of the call, the default
    offset and the handler of `exp` current at the time of the call -/
theorem model_to_singKey (p : Proc) (self V : Nat) (exclude : List Nat) (rhs chk : Ex) :
    sourceKey p self V exclude rhs chk = ⟨chk, V, 1 / 10000000, handlerOf p "exp"⟩ := rfl

/-- **the key the process model looks up is the key the source builds**: one iteration of the loop of
    `Process.removeSing` on an equation that is analysed leaves the table that the memoised call with `sourceKey`
    leaves (hit: unchanged; miss: the value at that key added) -/
theorem fixEq_sing_tie (sym : Sym) (p : Proc) (self s V : Nat) (vu : QUnit) (one : Rat) (excl exclude : List Nat)
    (st : FixSt) (e : Eqn) (h : (isPiecewise e.rhs || excl.contains e.lhs) = false) :
    (fixEq sym s V vu one (1 / 10000000) (handlerOf p "exp") excl st e).sing =
      (lruCall sym.analyse st.sing (sourceKey p self V exclude e.rhs (evalf st.heap e.rhs))).2 := by
  rw [model_to_singKey]
  unfold fixEq
  simp only [h, Bool.false_eq_true, if_false]
  split <;> rfl

/-- … and an equation that is skipped (a `Piecewise`, or the definition of an excluded variable) consults nothing -/
theorem fixEq_skip_tie (sym : Sym) (s V : Nat) (vu : QUnit) (one u : Rat) (f : String) (excl : List Nat)
    (st : FixSt) (e : Eqn) (h : (isPiecewise e.rhs || excl.contains e.lhs) = true) :
    fixEq sym s V vu one u f excl st e = { st with eqs := st.eqs ++ [e] } := by
  unfold fixEq
  simp only [h, if_true]

/-! ## `Model.__init__` -/

/-- For every process state, every `unit_store` argument (`share`) and every uninitialised `self0`: the constructor
    succeeds; the world afterwards is that of `Process.newModel` (exactly one new store, own or shared registry:
    `Tie/UnitsInit.lean`); the record the process appends for the new model is the object built; every container
    attribute is a NEW empty object of this instance (nothing is read from `self0`, i.e. from the class). -/
theorem modelInit_tie (p : Proc) (share : Option Nat) (self0 : ModelRef) (name : String) (cmeta : OptStr) :
    ∃ r : ModelRef, Iso2.modelInit self0 name cmeta share p.world = .ok (r, (newModel p share).world) ∧
      (newModel p share).models = p.models ++ [r.toMModel] ∧
      r = { name := name, _cmeta_id := cmeta, rdf_identity := if Py.truthy cmeta = true then rdfNode cmeta else none,
            equations := [], units := p.world.stores.length, _name_to_variable := [], _cmeta_id_to_variable := [],
            _variables_added := 0, _graph := none, _graph_with_sympy_numbers := none, rdf := [],
            _var_definition_map := [], _ode_definition_map := [] } := by
  cases share with
  | none => exact ⟨_, rfl, rfl, rfl⟩
  | some s => exact ⟨_, rfl, rfl, rfl⟩

/-! ## `Model.create_quantity`, `Quantity`, `Variable` -/

/-- `create_quantity(value, name)` of model `m` (whose `units` attribute is its store): with a name the store knows,
    the new object and the heap are those of `Process.createQuantity`, and the process records the new identity for the
    model; with any other name python raises `KeyError` and the process model changes nothing -/
theorem createQuantity_tie (p : Proc) (m : Nat) (mm : MModel) (r : ModelRef) (hr : r.units = mm.store)
    (hm : p.models[m]? = some mm) (value : Rat) (unit : String) :
    (unitOk p.world mm.store unit = true →
      Iso2.createQuantity r value (.name unit) p.world p.heap
        = .ok (p.heap.length, (Process.createQuantity p m value unit).heap) ∧
      (Process.createQuantity p m value unit).heap = p.heap ++ [.qty value (.ofStore mm.store [(unit, 1)])] ∧
      (Process.createQuantity p m value unit).models
        = p.models.set m { mm with qtys := mm.qtys ++ [p.heap.length] }) ∧
    (unitOk p.world mm.store unit = false →
      Iso2.createQuantity r value (.name unit) p.world p.heap = .error ⟨"KeyError"⟩ ∧
      Process.createQuantity p m value unit = p) := by
  constructor
  · intro hok
    simp [Iso2.createQuantity, Process.createQuantity, hm, hok, hr, isUnitOf, getUnitArg, newQuantity, UArg.toQUnit,
      bind, Except.bind, pure, Except.pure]
  · intro hno
    simp [Iso2.createQuantity, Process.createQuantity, hm, hno, hr, isUnitOf, getUnitArg, bind, Except.bind]

/-- a `Unit` of the model's registry is kept as it is; a `Unit` of another registry is refused (`KeyError`) -/
theorem createQuantity_unit (r : ModelRef) (value : Rat) (u : QUnit) (w : World) (heap : List Obj) :
    Iso2.createQuantity r value (.unit u) w heap =
      if isUnitOf w r.units (.unit u) = true then .ok (heap.length, heap ++ [.qty value u]) else .error ⟨"KeyError"⟩ := by
  unfold Iso2.createQuantity
  by_cases h : isUnitOf w r.units (.unit u) = true <;>
    simp [h, getUnitArg, newQuantity, UArg.toQUnit, bind, Except.bind, pure, Except.pure]

/-- `Quantity.__new__` names the symbol `'_' + '{:g}'.format(value)` and makes it real: the header of `Obj.qty` -/
theorem quantityNew_tie (x : Rat) (u : QUnit) : Iso2.quantityNew "Quantity" (.num x) = .ok (objHeader (.qty x u)) := rfl

theorem quantityNew_str (cls s : String) : Iso2.quantityNew cls (.str s) = .ok ⟨cls, some ("_" ++ s), true⟩ := rfl

/-- `Quantity.__init__` stores exactly `_value` and `units`, whatever the object held before -/
theorem quantityInit_tie (self0 : QtyRef) (v : Rat) (u : QUnit) :
    (Iso2.quantityInit self0 v u).map QtyRef.toObj = .ok (Obj.qty v u) := rfl

/-- `Variable.__new__` makes an anonymous real Dummy: the header of `Obj.var` -/
theorem variableNew_tie (n : String) (u : QUnit) (m : Nat) (c : Option String) :
    Iso2.variableNew "Variable" = .ok (objHeader (.var n u m c)) := rfl

/-! ## `_float_dummies` -/

/-- on a number, `_float_dummies` allocates ONE new quantity with the placeholder string unit `'dimensionless'` -/
theorem floatDummies_num (x : Rat) (heap : List Obj) :
    Iso2.floatDummies [.num x] heap = .ok ([.q heap.length], heap ++ [Obj.qty x (.bare "dimensionless")]) := by
  have h1 : List.eraseDupsBy (fun x1 x2 => x1 == x2) [x] = [x] := by
    simp [List.eraseDupsBy, List.eraseDupsBy.loop]
  have h2 : List.idxOf? x [x] = some 0 := by simp [List.idxOf?, List.findIdx?_cons]
  simp [Iso2.floatDummies, PIso2.floatDummies, floats, List.eraseDups, pure, Except.pure, h1, h2]

/-- the three calls `(_float_dummies(Vmin), _float_dummies(Vmax), _float_dummies(sp))` for one singularity allocate
    exactly the `Process.placeholders` of that result -/
theorem placeholders_tie (a b c : Rat) (heap : List Obj) :
    (do let r₁ ← Iso2.floatDummies [.num a] heap
        let r₂ ← Iso2.floatDummies [.num b] r₁.2
        let r₃ ← Iso2.floatDummies [.num c] r₂.2
        pure r₃.2 : Except PyErr (List Obj)) = .ok (heap ++ placeholders [(a, b, c)]) := by
  simp [floatDummies_num, placeholders, bind, Except.bind, pure, Except.pure]

/-- whatever the expression, every object `_float_dummies` allocates carries the placeholder string, never a unit of
    a store -/
theorem floatDummies_bare (e : Ex) (heap : List Obj) :
    ∃ e' new, Iso2.floatDummies e heap = .ok (e', heap ++ new) ∧
      ∀ o ∈ new, ∃ x, o = Obj.qty x (.bare "dimensionless") := by
  refine ⟨_, (floats e).map (fun f => Obj.qty f (.bare "dimensionless")), rfl, ?_⟩
  intro o ho
  obtain ⟨x, _, rfl⟩ := List.mem_map.mp ho
  exact ⟨x, rfl⟩

end Cellml.Tie.PIso2
