"""Code-translator spec (see harness/translate_code.py and harness/code_specs/__init__.py): units.py
UnitCalculator._is_dimensionless, ._check_unit_of_quantities_equal, .traverse. Every template names one accessor of
lean/Cellml/Tie/InferView.lean that stands for one python leaf (a SymPy flag / attribute, a pint operation, a builtin)."""

# pint quantities are pairs (magnitude, units container): Q = M × Container
_QUANTITY = [
    ('__A.magnitude', '({A}).1'),
]

GROUP = {
    'name': 'Infer',
    'imports': ['Cellml.Tie.InferView'],
    'header': 'open Cellml.Tie.PInfer\nopen Units _root_.Infer',
    'functions': [
        {'file': 'cellmlmanip/units.py',
         'func': 'UnitCalculator._is_dimensionless',
         'lean_name': 'isDimensionless',
         'signature': '(self : TravView) (quantity : Q) : Except PyErr Bool',
         'patterns': [('self._registry.dimensionless.dimensionality', 'Py.noDimension'),
                      ('__A.units.dimensionality', '(self.dimensionality ({A}).2)')]},
        {'file': 'cellmlmanip/units.py',
         'func': 'UnitCalculator._check_unit_of_quantities_equal',
         'lean_name': 'checkUnitOfQuantitiesEqual',
         'immutable_params': ['list_of_quantities'],
         'signature': '(self : TravView) (list_of_quantities : List Q) : Except PyErr Bool',
         'patterns': [('quantity1.units', '(Py.unitsOfFirst quantity1)'),      # `first` is `next(it, True)`
                      ('quantity2.units', '(quantity2).2'),
                      ('self._registry.get_base_units(1 * __A)', '(self.baseUnits {A})'),
                      ('base1[0]', '(base1).1'), ('base1[1]', '(base1).2'),    # the (factor, units) pair
                      ('base2[0]', '(base2).1'), ('base2[1]', '(base2).2'),
                      ('math.isclose(__A, __B)', '(Py.isclose {A} {B})')],
         'stmt_patterns': [('list_of_quantities = iter(list_of_quantities)', ''),   # a list is its own iterator here
                           ('first = next(list_of_quantities, True)',
                            'let (first, list_of_quantities) := Py.nextOrTrue list_of_quantities')]},
        {'file': 'cellmlmanip/units.py',
         'func': 'UnitCalculator.traverse',
         'lean_name': 'traverse',
         'and_style': 'cond',
         'signature': '(self : TravView) (rec : Obj → Except PyErr Q) (expr : Obj) : Except PyErr Q',
         'mutable': ['quantity_per_arg'],
         'patterns': [
             # open recursion and the two helpers (the definitions generated above)
             ('self.traverse(__A)', '← rec {A}'),
             ('self._check_unit_of_quantities_equal(__A)', '← checkUnitOfQuantitiesEqual self {A}'),
             ('self._is_dimensionless(__A)', '← isDimensionless self {A}'),
             # SymPy flags, attributes, constants
             ('expr.is_Matrix', '(Sym.isMatrix expr)'), ('expr.is_Piecewise', '(Sym.isPiecewise expr)'),
             ('expr.is_Derivative', '(Sym.isDerivative expr)'), ('expr.is_Symbol', '(Sym.isSymbol expr)'),
             ('expr.is_Number', '(Sym.isNumber expr)'), ('expr.is_Integer', '(Sym.isInteger expr)'),
             ('expr.is_Rational', '(Sym.isRational expr)'), ('expr.is_Mul', '(Sym.isMul expr)'),
             ('expr.is_Pow', '(Sym.isPow expr)'), ('expr.is_Add', '(Sym.isAdd expr)'),
             ('expr.is_Relational', '(Sym.isRelational expr)'), ('expr.is_Boolean', '(Sym.isBoolean expr)'),
             ('expr.is_Function', '(Sym.isFunction expr)'),
             ('isinstance(expr, model.Quantity)', '(Sym.isQuantity expr)'),
             ('isinstance(expr, model.Variable)', '(Sym.isVariable expr)'),
             # count of the first differentiation variable of a Derivative (1 for every derivative the model's
             # expression type can hold: higher orders are serialised as `other "Derivative"`)
             ('expr.args[1][1]', '(Sym.derivCount expr)'),
             ('expr.args', '(Sym.args expr)'),
             ('str(expr.func)', '(Sym.func expr)'), ('expr.func', '(Sym.func expr)'),
             ('sympy.Abs', '"Abs"'), ('sympy.floor', '"floor"'), ('sympy.ceiling', '"ceiling"'),
             ('sympy.log', '"log"'), ('sympy.factorial', '"factorial"'), ('sympy.exp', '"exp"'),
             ('_TRIG_FUNCTIONS', 'Cellml.Gen.trigFunctions'),
             ('sympy.oo', '(Obj.ex E.oo)'), ('sympy.nan', '(Obj.ex E.nan)'),
             ('sympy.pi', '(Obj.ex E.pi)'), ('sympy.E', '(Obj.ex E.e)'),
             ('expr.units', '(Sym.units self expr)'), ('expr.initial_value', '(Sym.initialValue self expr)'),
             ('0.0', '(Sym.InitVal.mk (some 0))'),
             # subscripts: python list of quantities / tuple of expressions
             ('quantity_per_arg[__I]', '← Py.getItem quantity_per_arg {I}'),
             ('expr.args[__I]', '← Py.getItem (Sym.args expr) {I}'),
             ('__A[__I]', '← Sym.item {A} {I}'),
             # builtins, math, pint
             ('float(__A)', '(Py.toFloat {A})'), ('int(__A)', '(Py.toInt {A})'),
             ('math.inf', '_root_.Infer.M.weird'), ('math.nan', '_root_.Infer.M.weird'), ('math.pi', '_root_.Infer.M.anynum'), ('math.e', '_root_.Infer.M.anynum'),
             ('self._store.get_unit(\'dimensionless\')', 'Py.dimensionless'),
             ('self._registry.Quantity(__A, __B)', '(Py.mkQuantity {A} {B})'),
             ('reduce(mul, __A)', '← Py.reduce Py.mulQ {A}'),
             ('isinstance(__A, (sympy.Number, numbers.Number))', '(Py.isNumberMag {A})'),
             ('isinstance(__A, sympy.Expr)', '(Py.isExprMag {A})'),
             ('isinstance(__A, float)', '(Py.isFloatMag {A})'),
             ('__A ** __B', '← Py.Pow.pow {A} {B}'),
             ('__A / __B', '← Py.divQ {A} {B}'),
             ('abs(__A)', '(Py.absQ {A})'),
             ('math.floor(__A)', '← Py.mathFloor {A}'), ('math.ceil(__A)', '← Py.mathCeil {A}'),
             ('math.exp(__A)', '← Py.mathExp {A}'),
             ('1 * __A', '(Py.oneTimes {A})'),
             ('__A.units', '({A}).2'),
         ] + _QUANTITY,
         'stmt_patterns': [('quantity_per_arg = []', 'let mut quantity_per_arg : List Q := []'),
                           ('quantity_per_arg.append(__A)', 'quantity_per_arg := quantity_per_arg ++ [{A}]')]},
    ]}
