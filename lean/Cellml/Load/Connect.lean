import Cellml.Load.Doc

/-! # Connections: direction and resolution (parser.py 434-553, model.py Variable.assigned_to)

    * `direction`   = `_determine_connection_direction` (sibling / parent-child cases, the interface table)
    * `connectLoop` = the `while connections_to_process` loop of `_add_connections` as a TOTAL function: well-founded
                      recursion on `(|deque|, |deque| + 1 − unchanged_loop_count)`; the `assert` supplies the invariant
                      `unchanged_loop_count ≤ |deque|` that makes the second component decrease.
    * `resolve`     = the `while str(out) in connected_variable_mapping` loop of `symbol_generator`.
    Core Lean only. -/

namespace Load

/-- what the work list needs to know about a variable -/
structure VarInfo where
  units : Container
  pub   : Iface
  priv  : Iface
  init  : Option Rat
  cmeta : Option String
  unitName : String := ""
deriving Repr, DecidableEq

abbrev VarTable := List (VRef × VarInfo)

/-- `Variable.__init__`: a variable with no `in` interface is its own source -/
def VarInfo.isSrc (i : VarInfo) : Bool := !(i.priv == .inn || i.pub == .inn)

/-- `comp.parent` for every component that has one -/
abbrev ParentMap := List (String × String)

/-- parent/child components are connected using private/public interface, respectively -/
def directionPC (pv : VRef) (pi : VarInfo) (cv : VRef) (ci : VarInfo) : Except Err (VRef × VRef) :=
  if ci.pub = .inn && pi.priv = .out then .ok (pv, cv)
  else if ci.pub = .out && pi.priv = .inn then .ok (cv, pv)
  else .error (.valueError "Cannot determine the source & target for connection")

/-- `_determine_connection_direction`: (source, target) -/
def direction (par : ParentMap) (vt : VarTable) (c : Conn) : Except Err (VRef × VRef) :=
  match vt.lookup c.end1, vt.lookup c.end2 with
  | none, _ => .error (.keyError (c.c1 ++ "$" ++ c.v1))
  | _, none => .error (.keyError (c.c2 ++ "$" ++ c.v2))
  | some i1, some i2 =>
    if par.lookup c.c1 = par.lookup c.c2 then
      -- siblings (same parent, or both top level): public interfaces, one `out` and the other `in`
      -- (after `fix: sibling connections need one public_interface 'out' and the other 'in'`; before, only
      -- `variable_1.public_interface == 'out'` was looked at)
      if i1.pub = .out && i2.pub = .inn then .ok (c.end1, c.end2)
      else if i2.pub = .out && i1.pub = .inn then .ok (c.end2, c.end1)
      else .error (.valueError "Cannot determine the source & target for connection")
    -- "determine which component is parent of the other" (after `fix: a connection between components that are
    -- neither siblings nor parent and child is refused`; before, only `_parent_of(comp_1, comp_2)` was tested)
    else if par.lookup c.c2 = some c.c1 then directionPC c.end1 i1 c.end2 i2
    else if par.lookup c.c1 = some c.c2 then directionPC c.end2 i2 c.end1 i1
    else .error (.valueError "Cannot determine the source & target for connection")

/-- one conversion equation `target = source.assigned_to * cf [target.units / source.units]` -/
structure ConvEq where
  target : VRef
  src    : VRef          -- `source.assigned_to`
  cf     : Scale
  tu     : Container
  su     : Container
deriving Repr, DecidableEq

/-- state of the work list -/
structure CState where
  /-- `assigned_to` of every variable that has one (newest first) -/
  assigned : List (VRef × VRef)
  /-- `connected_variable_mapping`: target ↦ source (newest first) -/
  mapping  : List (VRef × VRef)
  /-- conversion equations in the order they were added -/
  convs    : List ConvEq
  /-- cmeta ids after the moves (newest first; `none` = removed) -/
  cmeta    : List (VRef × Option String)
deriving Repr, DecidableEq

def CState.asg (st : CState) (v : VRef) : Option VRef := st.assigned.lookup v

def initAssigned (vt : VarTable) : List (VRef × VRef) :=
  vt.filterMap (fun (r, i) => if i.isSrc then some (r, r) else none)

def initState (vt : VarTable) : CState :=
  { assigned := initAssigned vt, mapping := [], convs := [], cmeta := vt.map (fun (r, i) => (r, i.cmeta)) }

def cmetaOf (st : CState) (v : VRef) : Option String := (st.cmeta.lookup v).join

def unitsOf (vt : VarTable) (v : VRef) : Container :=
  match vt.lookup v with
  | some i => i.units
  | none => []

/-- body of the loop for one popped connection: `none` = put it back at the end of the deque -/
def stepConn (reg : Registry) (vt : VarTable) (st : CState) (c : VRef × VRef) : Except Err (Option CState) :=
  let (s, t) := c
  if (st.asg t).isSome then .error (.valueError "Target already assigned")
  else match st.asg s with
    | none => .ok none
    | some a =>
      let mapping := (t, s) :: st.mapping
      match Units.factor reg (unitsOf vt s) (unitsOf vt t) with
      | .error .dimensionality => .error .dimensionality
      | .error _ => .error (.keyError "undefined unit")
      | .ok f =>
        if f = [] then
          -- cf == 1: direct substitution; an annotation on the target moves to `source.assigned_to`
          -- (repaired by C13, commit df25620; before: to `source`, i.e. `s` in place of `a` in the next lines)
          match cmetaOf st t with
          | none => .ok (some { st with mapping := mapping, assigned := (t, a) :: st.assigned })
          | some id =>
            if (cmetaOf st a).isSome then .error (.valueError "Cannot transfer cmeta id: target variable already has a cmeta id")
            else .ok (some { st with mapping := mapping, assigned := (t, a) :: st.assigned,
                                     cmeta := (a, some id) :: (t, none) :: st.cmeta })
        else
          .ok (some { st with mapping := mapping, assigned := (t, t) :: st.assigned,
                              convs := st.convs ++ [⟨t, a, f, unitsOf vt t, unitsOf vt s⟩] })

/-- the `while connections_to_process:` loop. `dq` = the deque (head = left end), `unch` = `unchanged_loop_count`. -/
def connectLoop (reg : Registry) (vt : VarTable) (dq : List (VRef × VRef)) (unch : Nat) (h : unch ≤ dq.length)
    (st : CState) : Except Err CState :=
  match dq with
  | [] => .ok st
  | c :: rest =>
    match stepConn reg vt st c with
    | .error e => .error e
    | .ok none =>
        if hlt : unch + 1 ≤ (rest ++ [c]).length then connectLoop reg vt (rest ++ [c]) (unch + 1) hlt st
        else .error (.assertion "Unable to add connections to the model")
    | .ok (some st') => connectLoop reg vt rest 0 (Nat.zero_le _) st'
termination_by (dq.length, dq.length + 1 - unch)
decreasing_by
  · apply Prod.Lex.right'
    · simp
    · simp only [List.length_append, List.length_cons, List.length_nil] at *; omega
  · apply Prod.Lex.left; simp

/-- `_add_connections` after the directions are known -/
def connect (reg : Registry) (vt : VarTable) (l : List (VRef × VRef)) : Except Err CState :=
  connectLoop reg vt l 0 (Nat.zero_le _) (initState vt)

/-- `symbol_generator`'s `while str(out) in connected_variable_mapping: out = mapping[str(out)]`, with fuel -/
def resolve (m : List (VRef × VRef)) : Nat → VRef → VRef
  | 0, v => v
  | n + 1, v =>
    match m.lookup v with
    | some s => resolve m n s
    | none => v

/-- the variable a document variable stands for in the flat model -/
def rootOf (st : CState) (v : VRef) : VRef := resolve st.mapping st.mapping.length v

/-- structural description of the same thing (newest entry first): used by the proofs -/
def root : List (VRef × VRef) → VRef → VRef
  | [], v => v
  | (t, s) :: m, v => if v = t then root m s else root m v

end Load
