import Cellml.Props.C02
import Cellml.Tie.TranspileClosed

set_option linter.unusedSimpArgs false
set_option linter.unusedVariables false

/-! # C02 — the headline theorems of `Props/C02.lean`, stated about the code GENERATED from `cellmlmanip/parser.py`

    `Props/C02.lean` proves its theorems about the hand-written model `C02.transpile`. Here every one of them is
    restated with `C02.transpile` replaced by `genTranspile` (`Tie/TranspileClosed.lean`): the closed function made of
    the definitions `lean/Cellml/Generated/Code/Transpile.lean` — the loop of `Transpiler.transpile`, the seven
    container handlers, `_simple_operator_handler`, `_cn_handler`, and (through the leaf `pyCall`, `call_tie`) the
    closures `_wrapped_minus … _wrapped_diff`, `_wrapper_relational` — and proved as a corollary of the model theorem
    through `genTranspile_eq`. Exceptions are python class names (`PyErr`): `.value ↦ "ValueError"`, `.type ↦
    "TypeError"`, `.index ↦ "IndexError"`.

    The one domain hypothesis the tie carries is `wfV` (visited well-formedness: where a container handler reads the
    children, they are a proper chain of elements — i.e. the tree is the image of an XML tree; `.el "ci"`, `.el "cn"`,
    `.el "math"` excluded). It is stated explicitly wherever the original theorem quantifies over arbitrary trees; it is
    NOT implied by the hypotheses of the originals (`wfV_not_implied` below gives the tree). Where the original is about
    a tree of a fixed shape the hypothesis is proved, not assumed (`diff_shape_gen`, `transpile_rejects_cn_gen`,
    `unknown_tag_is_ValueError_gen`, every `opk`). -/

namespace Cellml.Props.C02Gen
open _root_.C02 Cellml Cellml.Tie Cellml.Tie.PTranspile Cellml.Tie.PGenE

/-! ## transfer lemmas -/

theorem gen_ok {t : Mml} {a : Sy} (hw : wfV t = true) (h : transpile t = .ok a) : genTranspile t = .ok a := by
  rw [genTranspile_eq t hw, h]; rfl

theorem gen_ok_inv {t : Mml} {a : Sy} (hw : wfV t = true) (h : genTranspile t = .ok a) : transpile t = .ok a := by
  rwa [genTranspile_eq t hw, syE_ok_iff] at h

theorem gen_error {t : Mml} {e : Err} (hw : wfV t = true) (h : transpile t = .error e) :
    genTranspile t = .error ⟨syErrName e⟩ := by
  rw [genTranspile_eq t hw, h]; rfl

theorem gen_error_inv {t : Mml} {e : PyErr} (hw : wfV t = true) (h : genTranspile t = .error e) :
    ∃ e', transpile t = .error e' ∧ e = ⟨syErrName e'⟩ := by
  rw [genTranspile_eq t hw] at h
  cases hr : transpile t with
  | ok a => rw [hr] at h; cases h
  | error e' => rw [hr] at h; injection h with h; exact ⟨e', rfl, h.symm⟩

theorem handlerOf_bvar : handlerOf "bvar" = some "_bvar_handler" := by decide +kernel
theorem handlerOf_diff : handlerOf "diff" = some "_diff_handler" := by decide +kernel

theorem handlerOf_simple {tag c : String} (hc : Gen.mathmlOps.lookup tag = some c) :
    handlerOf tag = some "_simple_operator_handler" := by simp [handlerOf, hc]

/-- an operator leaf of the table: its children are never read -/
theorem wfV_simple {tag c : String} (opk : Mml) (hc : Gen.mathmlOps.lookup tag = some c) :
    wfV (.el tag opk) = true := by
  simp [wfV, handlerOf_simple hc, containerHandlers]

/-- an explicit-handler operator (`<minus/>` …): its children are never read -/
theorem wfV_wrapped {tag m : String} (opk : Mml) (h : handlerOf tag = some m) (hm : m ∈ wrappedHandlers) :
    wfV (.el tag opk) = true := by
  have hnc : m ∉ containerHandlers := by
    simp only [wrappedHandlers, List.mem_cons, List.mem_nil_iff, or_false] at hm
    rcases hm with rfl | rfl | rfl | rfl | rfl | rfl <;> decide
  simp [wfV, h, hnc, hm]

/-- a container element over well-formed child elements -/
theorem wfV_container {tag m : String} (ks : List Mml) (h : handlerOf tag = some m) (hm : m ∈ containerHandlers)
    (hks : ∀ k ∈ ks, isElement k = true ∧ wfV k = true) : wfV (.el tag (Mml.ofList ks)) = true := by
  have := wfV_ofList ks hks
  simp [wfV, h, hm, this.1, this.2]

theorem wfV_apply (f : Mml) (ks : List Mml) (hf : isElement f = true ∧ wfV f = true)
    (hks : ∀ k ∈ ks, isElement k = true ∧ wfV k = true) : wfV (.el "apply" (.cons f (Mml.ofList ks))) = true := by
  have := wfV_container (tag := "apply") (f :: ks) handlerOf_apply (by decide) (by
    intro k hk
    rcases List.mem_cons.1 hk with rfl | hk
    · exact hf
    · exact hks k hk)
  simpa [Mml.ofList] using this

/-! ## 1. The generated operator table, read through the generated `_simple_operator_handler` -/

/-- the class behind the value `_simple_operator_handler` returns: the class itself, the constant object, or the
    class wrapped by `_get_nary_relation_callback` -/
def classOfValue : Sy → Option String
  | .cls c | .const c | .rel c => some c
  | _ => none

/-- what the GENERATED `_simple_operator_handler` returns for `<tag/>` computes what MathML 2 says `tag` means -/
def entrySoundGen (tag : String) : Bool :=
  match Gen.Transpile.simpleOperatorHandler (.el tag .nil), mmlMeaning tag with
  | .ok v, some m => (match classOfValue v with | some c => syMeaning c == m | none => false)
  | _, _ => false

theorem entrySoundGen_eq (tag : String) : entrySoundGen tag = Cellml.Props.C02.entrySound tag := by
  unfold entrySoundGen Cellml.Props.C02.entrySound
  rw [simpleOperatorHandler_tie]
  unfold simpleOperator
  cases Gen.mathmlOps.lookup tag with
  | none => simp [syE, errClass]
  | some c =>
    by_cases h1 : tag ∈ Gen.naryRelations <;> by_cases h2 : c ∈ sympyConstants <;>
      simp only [h1, h2, syE, errClass, if_true, if_false] <;> cases mmlMeaning tag <;> rfl

/-- … and it is what the closed generated transpiler returns for the element, whatever its children -/
theorem table_gen_transpile (tag c : String) (kids : Mml) (h : Gen.mathmlOps.lookup tag = some c) :
    ∃ v, genTranspile (.el tag kids) = .ok v ∧ Gen.Transpile.simpleOperatorHandler (.el tag .nil) = .ok v ∧
      classOfValue v = some c := by
  have hw := wfV_simple kids h
  refine ⟨_, gen_ok hw (transpile_simple tag kids c h), ?_, ?_⟩
  · rw [simpleOperatorHandler_tie]
    by_cases h1 : tag ∈ Gen.naryRelations <;> by_cases h2 : c ∈ sympyConstants <;>
      simp [simpleOperator, h, h1, h2, syE, errClass]
  · by_cases h1 : tag ∈ Gen.naryRelations <;> by_cases h2 : c ∈ sympyConstants <;>
      simp [h1, h2, classOfValue]

/-- every entry except `rem`, over the generated handler (`table_sound`) -/
theorem table_sound_gen (tag : String) (v : Sy) (h : Gen.Transpile.simpleOperatorHandler (.el tag .nil) = .ok v)
    (hrem : tag ≠ "rem") : ∃ c, classOfValue v = some c ∧ mmlMeaning tag = some (syMeaning c) := by
  rw [simpleOperatorHandler_tie] at h
  unfold simpleOperator at h
  cases hc : Gen.mathmlOps.lookup tag with
  | none => simp [hc, syE, errClass] at h
  | some c =>
    refine ⟨c, ?_, Cellml.Props.C02.table_sound tag c hc hrem⟩
    by_cases h1 : tag ∈ Gen.naryRelations <;> by_cases h2 : c ∈ sympyConstants <;>
      simp [hc, h1, h2, syE, errClass] at h <;> subst h <;> rfl

macro "table_entry_gen " n:ident t:str m:ident : command =>
  `(theorem $n : entrySoundGen $t = true := (entrySoundGen_eq $t).trans $m)

open Cellml.Props.C02 in
section
table_entry_gen table_abs_gen "abs" table_abs
table_entry_gen table_and_gen "and" table_and
table_entry_gen table_arccos_gen "arccos" table_arccos
table_entry_gen table_arccosh_gen "arccosh" table_arccosh
table_entry_gen table_arccot_gen "arccot" table_arccot
table_entry_gen table_arccoth_gen "arccoth" table_arccoth
table_entry_gen table_arccsc_gen "arccsc" table_arccsc
table_entry_gen table_arccsch_gen "arccsch" table_arccsch
table_entry_gen table_arcsec_gen "arcsec" table_arcsec
table_entry_gen table_arcsech_gen "arcsech" table_arcsech
table_entry_gen table_arcsin_gen "arcsin" table_arcsin
table_entry_gen table_arcsinh_gen "arcsinh" table_arcsinh
table_entry_gen table_arctan_gen "arctan" table_arctan
table_entry_gen table_arctanh_gen "arctanh" table_arctanh
table_entry_gen table_ceiling_gen "ceiling" table_ceiling
table_entry_gen table_cos_gen "cos" table_cos
table_entry_gen table_cosh_gen "cosh" table_cosh
table_entry_gen table_cot_gen "cot" table_cot
table_entry_gen table_coth_gen "coth" table_coth
table_entry_gen table_csc_gen "csc" table_csc
table_entry_gen table_csch_gen "csch" table_csch
table_entry_gen table_eq_gen "eq" table_eq
table_entry_gen table_exp_gen "exp" table_exp
table_entry_gen table_exponentiale_gen "exponentiale" table_exponentiale
table_entry_gen table_false_gen "false" table_false
table_entry_gen table_floor_gen "floor" table_floor
table_entry_gen table_geq_gen "geq" table_geq
table_entry_gen table_gt_gen "gt" table_gt
table_entry_gen table_infinity_gen "infinity" table_infinity
table_entry_gen table_leq_gen "leq" table_leq
table_entry_gen table_ln_gen "ln" table_ln
table_entry_gen table_lt_gen "lt" table_lt
table_entry_gen table_max_gen "max" table_max
table_entry_gen table_min_gen "min" table_min
table_entry_gen table_neq_gen "neq" table_neq
table_entry_gen table_not_gen "not" table_not
table_entry_gen table_notanumber_gen "notanumber" table_notanumber
table_entry_gen table_or_gen "or" table_or
table_entry_gen table_pi_gen "pi" table_pi
table_entry_gen table_plus_gen "plus" table_plus
table_entry_gen table_sec_gen "sec" table_sec
table_entry_gen table_sech_gen "sech" table_sech
table_entry_gen table_sin_gen "sin" table_sin
table_entry_gen table_sinh_gen "sinh" table_sinh
table_entry_gen table_tan_gen "tan" table_tan
table_entry_gen table_tanh_gen "tanh" table_tanh
table_entry_gen table_times_gen "times" table_times
table_entry_gen table_true_gen "true" table_true
table_entry_gen table_xor_gen "xor" table_xor
end

/-- KNOWN FINDING (rem-sign) over the generated handler: `<rem/>` ↦ the class `Mod`, whose meaning differs -/
theorem table_rem_is_Mod_gen : Gen.Transpile.simpleOperatorHandler (.el "rem" .nil) = .ok (.cls "Mod") ∧
    entrySoundGen "rem" = false :=
  ⟨by rw [simpleOperatorHandler_tie]; decide +kernel,
   (entrySoundGen_eq "rem").trans Cellml.Props.C02.table_rem_differs⟩

/-! ## 2. Transpilation preserves meaning -/

/-- **transpile_sound (generated code; partial as the original: `noNullary`, `remFree`).** For every content-MathML
    tree of ANY depth that is the image of an XML tree (`wfV`) and every interpretation: if the closed generated
    transpiler returns `e` and MathML 2 assigns the tree the value `v`, then the SymPy term `e` evaluates to `v`. -/
theorem transpile_sound_partial_gen (I : Interp) (t : Mml) (e : Sy) (v : Val) (hw : wfV t = true)
    (hn : t.noNullary = true) (hr : t.remFree = true)
    (ht : genTranspile t = .ok e) (hv : evalMml I t = some v) : evalSy I e = some v :=
  Cellml.Props.C02.transpile_sound_partial I t e v hn hr (gen_ok_inv hw ht) hv

open Cellml.Props.C02 (ap op cnum I0 sample) in
/-- the full-strength statement is FALSE of the generated code too (KNOWN FINDING arity0) -/
theorem transpile_sound_fails_nullary_gen :
    genTranspile (ap [op "plus"]) = .ok (.cls "Add") ∧ evalMml I0 (ap [op "plus"]) = some (.num 0) ∧
    evalSy I0 (.cls "Add") = none := by
  have h := Cellml.Props.C02.transpile_sound_fails_nullary
  exact ⟨gen_ok (by decide +kernel) h.1, h.2.1, h.2.2⟩

open Cellml.Props.C02 (ap op cnum I0 sample) in
/-- … and of `rem` (KNOWN FINDING rem-sign) -/
theorem transpile_sound_fails_rem_gen :
    genTranspile (ap [op "rem", cnum "-7", cnum "3"]) = .ok (.app "Mod" (.cons (.num (-7)) (.cons (.num 3) .nil))) ∧
    evalMml I0 (ap [op "rem", cnum "-7", cnum "3"]) = some (.num (-1)) ∧
    evalSy I0 (.app "Mod" (.cons (.num (-7)) (.cons (.num 3) .nil))) = some (.num 2) := by
  have h := Cellml.Props.C02.transpile_sound_fails_rem
  exact ⟨gen_ok (by decide +kernel) h.1, h.2.1, h.2.2⟩

open Cellml.Props.C02 (ap op cnum I0 sample) in
/-- non-vacuity: the depth-4 sample tree meets every hypothesis, `wfV` included, and the generated transpiler
    accepts it -/
theorem sample_gen : wfV sample = true ∧ sample.noNullary = true ∧ sample.remFree = true ∧
    (∃ e, genTranspile sample = .ok e ∧ evalSy I0 e = some (.num 8)) ∧ evalMml I0 sample = some (.num 8) := by
  have hw : wfV sample = true := by decide +kernel
  refine ⟨hw, by decide +kernel, by decide +kernel, ?_, by decide +kernel⟩
  have hs : (transpile sample).toOption.isSome = true := by decide +kernel
  cases h : transpile sample with
  | error e => rw [h] at hs; simp [Except.toOption] at hs
  | ok e =>
    refine ⟨e, gen_ok hw h, ?_⟩
    exact Cellml.Props.C02.transpile_sound_partial I0 sample e _ (by decide +kernel) (by decide +kernel) h
      (by decide +kernel)

/-- `wfV` is not implied by the other hypotheses of `transpile_sound_partial`: a `<piecewise>` whose child chain ends
    in `.ci "z"` instead of `nil` (no XML tree has this image) has a MathML value under `I0` (the first piece is
    taken), is `noNullary`, `remFree`, is accepted by the model — and is not `wfV`. -/
theorem wfV_not_implied :
    let t : Mml := .el "piecewise" (.cons (.el "piece" (Mml.ofList [.ci "x", .el "true" .nil])) (.ci "z"))
    wfV t = false ∧ t.noNullary = true ∧ t.remFree = true ∧ (transpile t).toOption.isSome = true ∧
    evalMml Cellml.Props.C02.I0 t = some (.num 3) := by
  refine ⟨?_, ?_, ?_, ?_, ?_⟩ <;> decide +kernel

/-- derivatives: bound variable first, optional integer degree — for every `x`, `y` and every content `k` of
    `<diff>` (no hypothesis: the tree is `wfV` whatever `k` is) -/
theorem diff_shape_gen (x y : String) (k : Mml) :
    genTranspile (.el "apply" (.cons (.el "diff" k) (.cons (.el "bvar" (.cons (.ci x) .nil)) (.cons (.ci y) .nil)))) =
      .ok (.app "Derivative" (.cons (.sym y) (.cons (.sym x) (.cons (.int 1) .nil)))) := by
  refine gen_ok ?_ (Cellml.Props.C02.diff_shape x y k)
  have hb : wfV (.el "bvar" (Mml.ofList [.ci x])) = true :=
    wfV_container [.ci x] handlerOf_bvar (by decide) (by simp [isElement, wfV])
  have := wfV_apply (.el "diff" k) [.el "bvar" (Mml.ofList [.ci x]), .ci y]
    ⟨rfl, wfV_wrapped k handlerOf_diff (by decide)⟩ (by
      intro a ha
      simp only [List.mem_cons, List.mem_nil_iff, or_false] at ha
      rcases ha with rfl | rfl
      · exact ⟨rfl, hb⟩
      · exact ⟨rfl, rfl⟩)
  simpa [Mml.ofList] using this

/-! ## 3. What is rejected -/

/-- **unknown element ⇒ error**, wherever it occurs, at any depth -/
theorem transpile_rejects_unknown_gen (t : Mml) (hw : wfV t = true)
    (h : Cellml.Props.C02.visitsUnknown t = true) : ∃ err, genTranspile t = .error err := by
  obtain ⟨e, he⟩ := Cellml.Props.C02.transpile_rejects_unknown t h
  exact ⟨_, gen_error hw he⟩

/-- the class of that error at the element itself: ValueError (from the source text of the loop of
    `Transpiler.transpile`); no hypothesis — an element without handler is `wfV` whatever its children -/
theorem unknown_tag_is_ValueError_gen (tag : String) (kids : Mml) (h : handlerOf tag = none) :
    genTranspile (.el tag kids) = .error ⟨"ValueError"⟩ :=
  gen_error (by simp [wfV, h]) (Cellml.Props.C02.unknown_tag_is_ValueError tag kids h)

/-- the children of a container are transpiled first: their error is the container's error -/
theorem container_propagates_gen (tag m : String) (ks : List Mml) (e : PyErr) (h : handlerOf tag = some m)
    (hm : m ∈ containerHandlers) (hks : ∀ k ∈ ks, isElement k = true ∧ wfV k = true)
    (hk : genTranspile (Mml.ofList ks) = .error e) : genTranspile (.el tag (Mml.ofList ks)) = .error e := by
  obtain ⟨e', he', rfl⟩ := gen_error_inv (wfV_ofList ks hks).2 hk
  obtain ⟨f1, f2, f3⟩ := container_flags m hm
  exact gen_error (wfV_container ks h hm hks)
    (Cellml.Props.C02.container_propagates tag m _ e' h f1 f2 f3 he')

/-- `<piece>` without exactly 2 children, `<otherwise>` / `<degree>` without exactly 1, `<bvar>` with none or more than
    2 ⇒ ValueError; `<apply>` / `<logbase>` with none ⇒ IndexError -/
theorem transpile_rejects_containers_gen (ks : List Mml) (r : Sy)
    (hks : ∀ k ∈ ks, isElement k = true ∧ wfV k = true) (hr : genTranspile (Mml.ofList ks) = .ok r) :
    (ks.length ≠ 2 → genTranspile (.el "piece" (Mml.ofList ks)) = .error ⟨"ValueError"⟩) ∧
    (ks.length ≠ 1 → genTranspile (.el "otherwise" (Mml.ofList ks)) = .error ⟨"ValueError"⟩) ∧
    (ks.length ≠ 1 → genTranspile (.el "degree" (Mml.ofList ks)) = .error ⟨"ValueError"⟩) ∧
    (ks.length ≠ 1 → ks.length ≠ 2 → genTranspile (.el "bvar" (Mml.ofList ks)) = .error ⟨"ValueError"⟩) ∧
    (ks.length = 0 → genTranspile (.el "apply" (Mml.ofList ks)) = .error ⟨"IndexError"⟩) ∧
    (ks.length = 0 → genTranspile (.el "logbase" (Mml.ofList ks)) = .error ⟨"IndexError"⟩) := by
  have hm := Cellml.Props.C02.transpile_rejects_containers ks r (gen_ok_inv (wfV_ofList ks hks).2 hr)
  refine ⟨fun h => ?_, fun h => ?_, fun h => ?_, fun h1 h2 => ?_, fun h => ?_, fun h => ?_⟩
  · exact gen_error (wfV_container ks handlerOf_piece (by decide) hks) (hm.1 h)
  · exact gen_error (wfV_container ks handlerOf_otherwise (by decide) hks) (hm.2.1 h)
  · exact gen_error (wfV_container ks handlerOf_degree (by decide) hks) (hm.2.2.1 h)
  · exact gen_error (wfV_container ks handlerOf_bvar (by decide) hks) (hm.2.2.2.1 h1 h2)
  · exact gen_error (wfV_container ks handlerOf_apply (by decide) hks) (hm.2.2.2.2.1 h)
  · exact gen_error (wfV_container ks handlerOf_logbase (by decide) hks) (hm.2.2.2.2.2 h)

/-- `<cn>`: a `type` other than e-notation, e-notation without exactly one `<sep/>`, text that is not a number ⇒
    ValueError (no hypothesis beyond the original's) -/
theorem transpile_rejects_cn_gen (ty : String) (text : Option String) (kids : List (Bool × Option String))
    (s : String) :
    (ty ≠ "e-notation" → genTranspile (.cn (some ty) text kids) = .error ⟨"ValueError"⟩) ∧
    ((∀ k, kids ≠ [(true, k)]) → genTranspile (.cn (some "e-notation") text kids) = .error ⟨"ValueError"⟩) ∧
    (pyFloat s.toList = none → genTranspile (.cn none (some s) kids) = .error ⟨"ValueError"⟩) := by
  have hm := Cellml.Props.C02.transpile_rejects_cn ty text kids s
  exact ⟨fun h => gen_error rfl (hm.1 h), fun h => gen_error rfl (hm.2.1 h), fun h => gen_error rfl (hm.2.2 h)⟩

/-- operand counts the wrapped callbacks reject (python's TypeError) -/
theorem transpile_rejects_wrapped_arity_gen (opk : Mml) (ks : List Mml) (r : Sy)
    (hks : ∀ k ∈ ks, isElement k = true ∧ wfV k = true) (hr : genTranspile (Mml.ofList ks) = .ok r)
    (h0 : ks ≠ []) :
    (ks.length > 2 → genTranspile (.el "apply" (.cons (.el "minus" opk) (Mml.ofList ks))) = .error ⟨"TypeError"⟩) ∧
    (ks.length ≠ 2 → genTranspile (.el "apply" (.cons (.el "divide" opk) (Mml.ofList ks))) = .error ⟨"TypeError"⟩) ∧
    (ks.length ≠ 2 → genTranspile (.el "apply" (.cons (.el "power" opk) (Mml.ofList ks))) = .error ⟨"TypeError"⟩) ∧
    (ks.length > 2 → genTranspile (.el "apply" (.cons (.el "root" opk) (Mml.ofList ks))) = .error ⟨"TypeError"⟩) ∧
    (ks.length > 2 → genTranspile (.el "apply" (.cons (.el "log" opk) (Mml.ofList ks))) = .error ⟨"TypeError"⟩) ∧
    (ks.length ≠ 2 → ks.length ≠ 3 →
      genTranspile (.el "apply" (.cons (.el "diff" opk) (Mml.ofList ks))) = .error ⟨"TypeError"⟩) := by
  have hm := Cellml.Props.C02.transpile_rejects_wrapped_arity opk ks r (gen_ok_inv (wfV_ofList ks hks).2 hr) h0
  have w : ∀ (opn m : String), handlerOf opn = some m → m ∈ wrappedHandlers →
      wfV (.el "apply" (.cons (.el opn opk) (Mml.ofList ks))) = true :=
    fun opn m h hmem => wfV_apply _ ks ⟨rfl, wfV_wrapped opk h hmem⟩ hks
  refine ⟨fun h => ?_, fun h => ?_, fun h => ?_, fun h => ?_, fun h => ?_, fun h2 h3 => ?_⟩
  · exact gen_error (w _ _ handlerOf_minus (by decide)) (hm.1 h)
  · exact gen_error (w _ _ handlerOf_divide (by decide)) (hm.2.1 h)
  · exact gen_error (w _ _ handlerOf_power (by decide)) (hm.2.2.1 h)
  · exact gen_error (w _ _ handlerOf_root (by decide)) (hm.2.2.2.1 h)
  · exact gen_error (w _ _ handlerOf_log (by decide)) (hm.2.2.2.2.1 h)
  · exact gen_error (w _ _ handlerOf_diff (by decide)) (hm.2.2.2.2.2 h2 h3)

/-- **wrong operand count for a table operator ⇒ TypeError** -/
theorem transpile_rejects_class_arity_gen (tag c : String) (opk : Mml) (ks : List Mml) (r : Sy)
    (hc : Gen.mathmlOps.lookup tag = some c) (hnr : tag ∉ Gen.naryRelations)
    (hks : ∀ k ∈ ks, isElement k = true ∧ wfV k = true) (hr : genTranspile (Mml.ofList ks) = .ok r)
    (h0 : ks ≠ []) :
    (c ∈ sympyConstants →
      genTranspile (.el "apply" (.cons (.el tag opk) (Mml.ofList ks))) = .error ⟨"TypeError"⟩) ∧
    (∀ lo hi, c ∉ sympyConstants → sympyArity c = some (lo, hi) →
        (ks.length < lo ∨ (∃ h, hi = some h ∧ h < ks.length)) →
        genTranspile (.el "apply" (.cons (.el tag opk) (Mml.ofList ks))) = .error ⟨"TypeError"⟩) := by
  have hm := Cellml.Props.C02.transpile_rejects_class_arity tag c opk ks r hc hnr
    (gen_ok_inv (wfV_ofList ks hks).2 hr) h0
  have w : wfV (.el "apply" (.cons (.el tag opk) (Mml.ofList ks))) = true :=
    wfV_apply _ ks ⟨rfl, wfV_simple opk hc⟩ hks
  exact ⟨fun h => gen_error w (hm.1 h), fun lo hi h1 h2 h3 => gen_error w (hm.2 lo hi h1 h2 h3)⟩

/-- an n-ary relation with a single operand ⇒ TypeError (IndexError when that operand is `true`/`false` and the
    relation an inequality: the error message indexes the missing second operand) -/
theorem transpile_rejects_relation_unary_gen (tag c : String) (opk k : Mml) (a : Sy)
    (hc : Gen.mathmlOps.lookup tag = some c) (hnr : tag ∈ Gen.naryRelations)
    (hke : isElement k = true) (hkw : wfV k = true) (hk : genTranspile k = .ok a)
    (har : sympyArity c = some (2, some 2)) :
    genTranspile (.el "apply" (.cons (.el tag opk) (Mml.ofList [k]))) = .error ⟨"TypeError"⟩ ∨
    genTranspile (.el "apply" (.cons (.el tag opk) (Mml.ofList [k]))) = .error ⟨"IndexError"⟩ := by
  have w : wfV (.el "apply" (.cons (.el tag opk) (Mml.ofList [k]))) = true :=
    wfV_apply _ [k] ⟨rfl, wfV_simple opk hc⟩ (by simp [hke, hkw])
  rcases Cellml.Props.C02.transpile_rejects_relation_unary tag c opk k a hc hnr (gen_ok_inv hkw hk) har with h | h
  · exact Or.inl (gen_error w h)
  · exact Or.inr (gen_error w h)

open Cellml.Props.C02 (ap op cnum) in
/-- the concrete rejections of `Props/C02.lean`, on the generated code -/
theorem rejects_examples_gen :
    genTranspile (ap [op "sin", .ci "x", .ci "y"]) = .error ⟨"TypeError"⟩ ∧
    genTranspile (ap [op "rem", .ci "x"]) = .error ⟨"TypeError"⟩ ∧
    genTranspile (ap [op "neq", .ci "x", .ci "y", .ci "z"]) = .error ⟨"TypeError"⟩ ∧
    genTranspile (ap [op "pi", .ci "x"]) = .error ⟨"TypeError"⟩ ∧
    genTranspile (ap [op "eq", .ci "x"]) = .error ⟨"TypeError"⟩ ∧
    genTranspile (ap [op "lt", op "true"]) = .error ⟨"IndexError"⟩ ∧
    genTranspile (ap [op "not", .ci "p", .ci "q"]) = .error ⟨"TypeError"⟩ ∧
    genTranspile (.el "piece" (Mml.ofList [.ci "x"])) = .error ⟨"ValueError"⟩ := by
  refine ⟨?_, ?_, ?_, ?_, ?_, ?_, ?_, ?_⟩
  · exact gen_error (e := .type) (by decide +kernel) (by decide +kernel)
  · exact gen_error (e := .type) (by decide +kernel) (by decide +kernel)
  · exact gen_error (e := .type) (by decide +kernel) (by decide +kernel)
  · exact gen_error (e := .type) (by decide +kernel) (by decide +kernel)
  · exact gen_error (e := .type) (by decide +kernel) (by decide +kernel)
  · exact gen_error (e := .index) (by decide +kernel) (by decide +kernel)
  · exact gen_error (e := .type) (by decide +kernel) (by decide +kernel)
  · exact gen_error (e := .value) (by decide +kernel) (by decide +kernel)

/-! ### what the generated code does NOT reject (KNOWN FINDINGS), transferred likewise -/

/-- arity0: an `<apply>` with the operator as its only child returns the operator itself — for EVERY operator -/
theorem nullary_apply_returns_operator_gen (tag : String) (opk : Mml) (f : Sy) (hw : wfV (.el tag opk) = true)
    (h : genTranspile (.el tag opk) = .ok f) : genTranspile (.el "apply" (.cons (.el tag opk) .nil)) = .ok f :=
  gen_ok (by simpa [Mml.ofList] using wfV_apply (.el tag opk) [] ⟨rfl, hw⟩ (by simp))
    (Cellml.Props.C02.nullary_apply_returns_operator tag opk f (gen_ok_inv hw h))

/-- qualifier-misplaced: `<degree>`, `<logbase>`, one-child `<bvar>` are transparent wherever they stand -/
theorem qualifiers_are_transparent_gen (d : Mml) (a : Sy) (hde : isElement d = true) (hdw : wfV d = true)
    (h : genTranspile d = .ok a) :
    genTranspile (.el "degree" (.cons d .nil)) = .ok a ∧ genTranspile (.el "logbase" (.cons d .nil)) = .ok a ∧
    genTranspile (.el "bvar" (.cons d .nil)) = .ok a := by
  have hm := Cellml.Props.C02.qualifiers_are_transparent d a (gen_ok_inv hdw h)
  have w : ∀ (tag m : String), handlerOf tag = some m → m ∈ containerHandlers →
      wfV (.el tag (.cons d .nil)) = true := fun tag m h1 h2 => by
    simpa [Mml.ofList] using wfV_container [d] h1 h2 (by simp [hde, hdw])
  exact ⟨gen_ok (w _ _ handlerOf_degree (by decide)) hm.1, gen_ok (w _ _ handlerOf_logbase (by decide)) hm.2.1,
    gen_ok (w _ _ handlerOf_bvar (by decide)) hm.2.2⟩

open Cellml.Props.C02 (ap op cnum I0) in
/-- ln/2, plain-operand-as-qualifier, logbase-arity:2, diff/3, diff degree truncation, cn leniency, cn children
    ignored (KNOWN FINDINGS): the concrete accepted inputs of `Props/C02.lean`, on the generated code -/
theorem accepted_malformed_inputs_gen :
    genTranspile (ap [op "ln", .ci "x", .ci "y"]) = .ok (.app "ln" (.cons (.sym "x") (.cons (.sym "y") .nil))) ∧
    genTranspile (ap [op "root", .ci "x", .ci "y"]) = .ok (.app "root" (.cons (.sym "y") (.cons (.sym "x") .nil))) ∧
    genTranspile (ap [op "log", .ci "x", .ci "y"]) = .ok (.app "logb" (.cons (.sym "y") (.cons (.sym "x") .nil))) ∧
    genTranspile (ap [op "diff", .ci "x", .ci "y"]) =
      .ok (.app "Derivative" (.cons (.sym "y") (.cons (.sym "x") (.cons (.int 1) .nil)))) ∧
    genTranspile (ap [op "log", .el "logbase" (Mml.ofList [cnum "3", cnum "4"]), .ci "x"]) =
      .ok (.app "logb" (.cons (.sym "x") (.cons (.num 3) .nil))) ∧
    genTranspile (ap [op "diff", .el "bvar" (Mml.ofList [.ci "t"]), .ci "x", op "true"]) =
      .ok (.app "DerivativeEval" (.cons (.sym "x") (.cons (.sym "t") (.cons (.int 1) (.cons (.const "true") .nil))))) ∧
    genTranspile (ap [op "diff", .el "bvar" (Mml.ofList [.ci "t", .el "degree" (Mml.ofList [cnum "2.5"])]), .ci "x"]) =
      .ok (.app "Derivative" (.cons (.sym "x") (.cons (.sym "t") (.cons (.int 2) .nil)))) ∧
    genTranspile (cnum "1_000") = .ok (.num 1000) ∧ genTranspile (cnum "inf") = .ok (.special "inf") ∧
    genTranspile (.cn none (some "1.5") [(true, some "3")]) = .ok (.num (3/2)) := by
  refine ⟨?_, ?_, ?_, ?_, ?_, ?_, ?_, ?_, ?_, ?_⟩ <;>
    exact gen_ok (by decide +kernel) (by decide +kernel)

end Cellml.Props.C02Gen
