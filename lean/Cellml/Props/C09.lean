/-! Property theorems for C09 (not built yet). -/
