#!/bin/bash
# Offline setup: translate the tables of /repo into Lean, build the Lean library (models + every theorem) and the
# native model driver. Nothing is fetched: Lean, lake and Mathlib's compiled modules are part of the image.
set -e -o pipefail
cd "$(dirname "$0")"
/venv/bin/python harness/translate_tables.py
/venv/bin/python harness/translate_code.py
cd lean
lake build Cellml driver 2>&1 | tail -60
test -x .lake/build/bin/driver
