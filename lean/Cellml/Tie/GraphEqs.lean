import Cellml.Generated.Code.GraphEqs
import Cellml.C09.Build
import Mathlib.Tactic.SplitIfs

/-! # Tie: `Model.get_equations_for` (generated from cellmlmanip/model.py) = `C09.getEquationsFor` (hand model, the
    function the theorems of `Props/C09.lean` are about)

    The generated function returns the list of `graph.nodes[v]['equation']` attributes (`Option Eqn`, every entry
    `some`); the hand model returns the list of their left-hand sides. -/

namespace Cellml.Tie.PGraph
open C09 Cellml.Gen

theorem hasEq_eq_isSome (eqs : List Eqn) (v : Node) : hasEq eqs v = (eqnOf eqs v).isSome := by
  induction eqs with
  | nil => rfl
  | cons e es ih =>
    simp only [hasEq, eqnOf, List.any_cons, List.find?_cons] at *
    by_cases h : e.lhs == v <;> simp [h, ih]

/-- the loop that collects the required set: any body that does, per request, what the generated body does -/
theorem reqLoop (g : Graph) (recurse : Bool) (f : Node → List Node → Except PyErr (ForInStep (List Node)))
    (hf : ∀ v acc, f v acc =
      if v ∈ g.nodes then .ok (.yield (acc ++ v :: (if recurse then ancestors g v else preds g v)))
      else .error ⟨if recurse then "NetworkXError" else "KeyError"⟩) : ∀ (vars acc : List Node),
    forIn vars acc f
    = if vars.all (fun v => decide (v ∈ g.nodes)) then
        Except.ok (acc ++ vars.flatMap (fun v => v :: (if recurse then ancestors g v else preds g v)))
      else Except.error ⟨if recurse then "NetworkXError" else "KeyError"⟩
  | [], acc => by simp [pure, Except.pure]
  | v :: vs, acc => by
    rw [List.forIn_cons, hf]
    by_cases hv : v ∈ g.nodes
    · simp only [hv, if_true, bind, Except.bind, reqLoop g recurse f hf vs, List.all_cons, decide_true, Bool.true_and,
        List.flatMap_cons, List.append_assoc, List.cons_append]
    · simp [hv, bind, Except.bind]

/-- the loop that filters the sorted nodes -/
theorem filterLoop (eqs : List Eqn) (req : List Node)
    (f : Node → List (Option Eqn) → Except PyErr (ForInStep (List (Option Eqn))))
    (hf : ∀ v acc, f v acc = .ok (.yield (acc ++ (if req.contains v && hasEq eqs v then [eqnOf eqs v] else [])))) :
    ∀ (l : List Node) (acc : List (Option Eqn)),
    forIn l acc f = Except.ok (acc ++ (l.filter (fun v => req.contains v && hasEq eqs v)).map (eqnOf eqs))
  | [], acc => by simp [pure, Except.pure]
  | v :: vs, acc => by
    rw [List.forIn_cons, hf]
    simp only [bind, Except.bind, filterLoop eqs req f hf vs, List.filter_cons]
    cases (req.contains v && hasEq eqs v) <;> simp

/-- **Tie of `Model.get_equations_for`.** For every equation system, request list, recursion mode and number
    representation, the definition generated from model.py returns the equations of exactly the nodes (in the same
    order) that `C09.getEquationsFor` returns, and raises the python class of the model's error otherwise
    (`errName`: `notInGraph` is `NetworkXError` when recursing and `KeyError` otherwise). -/
theorem getEquationsFor_tie (key : Node → String) (eqs : List Eqn) (vars : List Node) (recurse strip : Bool) :
    GraphEqs.getEquationsFor (eqsView key eqs recurse) vars recurse strip
      = errClass (errName recurse) ((getEquationsFor key eqs vars recurse strip).map (·.map (eqnOf eqs))) := by
  unfold GraphEqs.getEquationsFor getEquationsFor eqsView
  simp only [bind, Except.bind, pure, Except.pure, Py.truthy_bool]
  cases hb : buildGraph key eqs with
  | error e => cases strip <;> simp [errClass, Except.map]
  | ok g0 =>
    have hG : (if strip = true then errClass (errName recurse) (Except.map (stripGraph eqs) (Except.ok g0))
      else errClass (errName recurse) (Except.ok g0)) = Except.ok (graphFor eqs strip g0) := by
      cases strip <;> simp [errClass, Except.map, graphFor]
    rw [hG]
    simp only []
    generalize graphFor eqs strip g0 = G
    rw [reqLoop G recurse _ (fun v acc => by
      cases recurse <;> by_cases hv : v ∈ G.nodes <;> simp [nxAncestors, nxPred, hv])]
    by_cases hall : (vars.all fun x => decide (x ∈ G.nodes)) = true
    · simp only [hall, if_true, not_true_eq_false, if_false, nxLexTopo]
      cases hs : lexTopo key G with
      | error e =>
        have : e = .unfeasible := by
          simp only [lexTopo] at hs; split at hs <;> cases hs; rfl
        subst this
        simp [errClass, Except.map, errName]
      | ok sorted =>
        simp only []
        generalize hreq : ([] ++ List.flatMap _ vars) = req
        rw [filterLoop eqs req _ (fun v acc => by
          rw [hasEq_eq_isSome]
          simp only [Py.isIn]
          by_cases h1 : req.contains v = true <;> by_cases h2 : (eqnOf eqs v).isNone = true <;> simp_all)]
        subst hreq
        simp only [errClass, Except.map, List.nil_append]
        congr 2
        apply List.filter_congr
        intro v _
        congr 1
        simp only [required, List.contains_eq_mem, List.mem_flatMap, List.mem_cons, List.mem_append, decide_eq_decide]
        constructor
        · rintro ⟨a, ha, h | h⟩
          · subst h; exact Or.inl ha
          · exact Or.inr ⟨a, ha, by cases recurse <;> simpa using h⟩
        · rintro (h | ⟨a, ha, h⟩)
          · exact ⟨v, h, Or.inl rfl⟩
          · exact ⟨a, ha, Or.inr (by cases recurse <;> simpa using h)⟩
    · simp [hall, errClass, Except.map, errName]

end Cellml.Tie.PGraph
