import Cellml.Props.C10
import Cellml.Props.C08Gen
import Cellml.Tie.RolesClosed
import Cellml.Tie.ModelState

/-! # C10, stated about the GENERATED code

    `Props/C10.lean` proves its theorems about the hand model `Model/Roles.lean`. Here the same statements are made about
    the definitions GENERATED from `cellmlmanip/model.py` (`Generated/Code/Roles.lean`, `RolesValue.lean`,
    `ModelState.lean`) and proved as corollaries through the ties (`Tie/RolesQueries.lean`, `Tie/RolesValue.lean`,
    `Tie/RolesClosed.lean`, `Tie/ModelState.lean`).

    `get_value` is recursive: `genGetValue` is the generated `get_value` over the generated `_get_value` and
    `expand_derivatives`, closed with python's call stack as a depth counter (`Tie/RolesClosed.lean`).
    The specification side (`Den`, `WF`, `derivLhs`, the equations) is unchanged. `fn : Interp` is the interpretation
    of the uninterpreted function applications on right-hand sides (`Model/Roles.lean`): a parameter of the generated
    `_get_value` (it reaches the leaf `float(...)` only) and of `Den`; every statement is for ALL interpretations, and
    none restricts the right-hand sides (the former hypothesis `opqFree` is gone). -/

namespace Cellml.Props.C10Gen
open Model
open Cellml.Tie (PyErr errClass)
open Cellml.Tie.PRoles (derivNode gerrClass verrClass odeLhsOk nodeArg0 nodeOrderAdded optErr)
open Cellml.Tie.PRolesClosed
open Cellml.Gen

theorem errClass_ok_iff {ε α} (cls : ε → String) (x : Except ε α) (v : α) : errClass cls x = .ok v ↔ x = .ok v := by
  cases x <;> simp [errClass]

-- ------------------------------------------------------------------------------------------------ roles
/-- `C10.states_iff_ode` for the generated `get_state_variables(sort)`, both values of `sort`: it returns, and what it
    returns are exactly the variables defined by an ODE -/
theorem states_iff_ode (M : RModel) (W : WF M) (sort : Bool) :
    ∃ l, Roles.getStateVariables M sort = .ok l ∧
      ∀ v, v ∈ l ↔ ∃ e ∈ M.st.equations, ∃ t o, e.lhs = .deriv v t o := by
  rw [Cellml.Tie.PRoles.getStateVariables_tie]
  refine ⟨_, rfl, fun v => ?_⟩
  cases sort with
  | true => exact C10.states_iff_ode M W v
  | false =>
    simp only [Bool.false_eq_true, if_false]
    exact ((hasKey_iff_mem_keys v M.st.odeDef).symm).trans (isState_iff W.inv.eq v)

/-- … in the order of introduction (`C10.states_in_order`), the filter being the generated `is_state` -/
theorem states_in_order (M : RModel) (W : WF M) :
    Roles.getStateVariables M true
        = .ok (M.st.live.filter (fun i => decide (((ModelState.isState i).run M.st).1 = .ok true))) ∧
    ∀ l, Roles.getStateVariables M true = .ok l → (l.map (orderOf M.st)).Pairwise (· < ·) := by
  obtain ⟨h1, h2⟩ := C10.states_in_order M W
  rw [Cellml.Tie.PRoles.getStateVariables_tie]
  refine ⟨?_, fun l hl => ?_⟩
  · simp only [if_true, h1]
    congr 1
    apply List.filter_congr
    intro i _
    rw [Cellml.Tie.PModelState.isState_tie]
    simp [isState]
  · simp only [if_true, Except.ok.injEq] at hl
    rw [← hl]; exact h2

/-- `C10.is_state_iff_ode` for the generated `is_state` -/
theorem is_state_iff_ode (M : RModel) (W : WF M) (v : Nat) :
    ∃ b, (ModelState.isState v).run M.st = (.ok b, M.st) ∧
      (b = true ↔ ∃ e ∈ M.st.equations, ∃ t o, e.lhs = .deriv v t o) :=
  ⟨_, Cellml.Tie.PModelState.isState_tie M.st v, C10.is_state_iff_ode M W v⟩

/-- `C10.free_is_bvar` for the generated `get_free_variable` -/
theorem free_is_bvar (M : RModel) (W : WF M) (e : Eqn) (he : e ∈ M.st.equations) (s t o : Nat)
    (hl : e.lhs = .deriv s t o) : Roles.getFreeVariable M = .ok t := by
  rw [Cellml.Tie.PRoles.getFreeVariable_tie M (Cellml.Tie.PRoles.odeLhsOk_of_inv M W.inv.eq),
    C10.free_is_bvar M W e he s t o hl]
  rfl

/-- `C10.free_none_iff`: the generated `get_free_variable` raises ValueError exactly when there is no ODE -/
theorem free_none_iff (M : RModel) (W : WF M) :
    Roles.getFreeVariable M = .error ⟨"ValueError"⟩ ↔ ∀ e ∈ M.st.equations, bvarOf e = none := by
  rw [Cellml.Tie.PRoles.getFreeVariable_tie M (Cellml.Tie.PRoles.odeLhsOk_of_inv M W.inv.eq), ← C10.free_none_iff M W]
  cases freeVar M <;> simp [optErr]

theorem ok_map_inv {ε α β} {x : Except ε α} {f : α → β} {l : β} (h : x.map f = .ok l) : ∃ l0, x = .ok l0 ∧ l = f l0 := by
  cases x with
  | error e => simp [Except.map] at h
  | ok a => simp only [Except.map, Except.ok.injEq] at h; exact ⟨a, rfl, h.symm⟩

/-- `C10.derivs_exact` for the generated `get_derivatives()`: every element is a `Derivative` node; they are exactly the
    left-hand sides of the ODEs, sorted by the `order_added` of their state -/
theorem derivs_exact (M : RModel) (W : WF M) (l : List Node) (h : Roles.getDerivatives M true = .ok l) :
    (∀ n ∈ l, ∃ s t, n = .deriv s t) ∧
    (∀ s t, Node.deriv s t ∈ l ↔ ∃ e ∈ M.st.equations, ∃ o, e.lhs = .deriv s t o) ∧
    l.Pairwise (fun a b => orderOf M.st (nodeArg0 a) ≤ orderOf M.st (nodeArg0 b)) ∧
    l.Perm ((derivLhs M.st.equations).map derivNode) := by
  rw [Cellml.Tie.PRoles.getDerivatives_tie] at h
  obtain ⟨l1, h1, rfl⟩ := ok_map_inv h
  obtain ⟨l0, h0⟩ : ∃ l0, derivatives M = .ok l0 := by
    cases hd : derivatives M with
    | error e => rw [hd] at h1; simp [errClass] at h1
    | ok l0 => exact ⟨l0, rfl⟩
  rw [h0] at h1
  simp only [errClass, Except.ok.injEq] at h1
  subst h1
  obtain ⟨a, b, c⟩ := C10.derivs_exact M W l0 h0
  refine ⟨?_, fun s t => ?_, ?_, c.map derivNode⟩
  · intro n hn
    obtain ⟨p, _, rfl⟩ := List.mem_map.mp hn
    exact ⟨p.1, p.2, rfl⟩
  · rw [← a s t, List.mem_map]
    constructor
    · rintro ⟨p, hp, he⟩
      simp only [derivNode, Node.deriv.injEq] at he
      obtain ⟨p1, p2⟩ := p
      simp only at he
      obtain ⟨rfl, rfl⟩ := he
      exact hp
    · intro hp; exact ⟨(s, t), hp, rfl⟩
  · rw [List.pairwise_map]
    exact b

/-- `C10.derived_exact` for the generated `get_derived_quantities()` -/
theorem derived_exact (M : RModel) (W : WF M) (l : List Node) (h : Roles.getDerivedQuantities M true = .ok l) :
    (∀ n ∈ l, ∃ v, n = .var v) ∧
    (∀ v, Node.var v ∈ l ↔ ∃ e ∈ M.st.equations, e.lhs = .var v ∧ e.bareQuantity = false) ∧
    l.Pairwise (fun a b => nodeOrderAdded M a ≤ nodeOrderAdded M b) := by
  rw [Cellml.Tie.PRoles.getDerivedQuantities_tie] at h
  obtain ⟨l1, h1, rfl⟩ := ok_map_inv h
  obtain ⟨l0, h0⟩ : ∃ l0, derivedQuantities M = .ok l0 := by
    cases hd : derivedQuantities M with
    | error e => rw [hd] at h1; simp [errClass] at h1
    | ok l0 => exact ⟨l0, rfl⟩
  rw [h0] at h1
  simp only [errClass, Except.ok.injEq] at h1
  subst h1
  obtain ⟨a, b⟩ := C10.derived_exact M W l0 h0
  refine ⟨?_, fun v => ?_, ?_⟩
  · intro n hn
    obtain ⟨p, _, rfl⟩ := List.mem_map.mp hn
    exact ⟨p, rfl⟩
  · rw [← a v, List.mem_map]
    constructor
    · rintro ⟨p, hp, he⟩
      injection he with he
      subst he; exact hp
    · intro hp; exact ⟨v, hp, rfl⟩
  · rw [List.pairwise_map]
    exact b

/-- `C10.graph_queries_return` for the generated queries -/
theorem graph_queries_return (M : RModel) (W : WF M)
    (hstr : ((M.st.equations.filterMap (fun e => lhsNode e.lhs)).map (nodeStr (names M.st))).Nodup) :
    (∃ l, Roles.getDerivatives M true = .ok l) ∧ ∃ l, Roles.getDerivedQuantities M true = .ok l := by
  obtain ⟨⟨l1, h1⟩, ⟨l2, h2⟩⟩ := C10.graph_queries_return M W hstr
  rw [Cellml.Tie.PRoles.getDerivatives_tie, Cellml.Tie.PRoles.getDerivedQuantities_tie, h1, h2]
  exact ⟨⟨_, rfl⟩, ⟨_, rfl⟩⟩

/-- `C10.constant_iff_no_var` for the generated `is_constant` -/
theorem constant_iff_no_var (M : RModel) (W : WF M) (v : Nat) :
    Roles.isConstant M v = .ok true ↔ ∃ e ∈ M.st.equations, e.lhs = .var v ∧ (M.rhs e.tok).vars = [] := by
  rw [Cellml.Tie.PRoles.isConstant_tie, ← C10.constant_iff_no_var M W v]
  constructor
  · intro h; injection h
  · intro h; rw [h]

-- ------------------------------------------------------------------------------------------------ get_value
/-- the generated `get_value` over the closed generated `_get_value` / `expand_derivatives`, with the stack depth the
    hand model's `getValue` uses (`|variables| + 1`; `getValue_fuel` below: any larger depth gives the same) -/
def genGetValue (fn : Interp) (M : RModel) (v : Nat) : Except PyErr Rat :=
  genGetValueFuel fn M (M.st.live.length + 1) v

/-- on a well-formed model the expansions `_get_value` asks for stay within `F > |variables|` levels -/
theorem expandsWithin_of_wf {M : RModel} (W : WF M) (F : Nat) (hF : M.st.live.length < F) : ExpandsWithin M F := by
  intro v eq hlk
  obtain ⟨rank, hr⟩ := W.acyclic
  have R := ranked_of_wf W hr
  have hvr : varRhs M v = some (M.rhs eq.tok) := by simp [varRhs, hlk]
  have hg := expand_good (fn := Interp.none) R F (M.rhs eq.tok) (fun s t hst =>
    ⟨Nat.lt_of_le_of_lt (measure_le (M := M) rank ((freeVar M).getD 0) _) hF, (R.varDec v _ hvr _ hst).2⟩)
  intro hc
  rw [hc] at hg
  exact hg.1 rfl

theorem stateKeys_nodup {s : MState} (h : Inv s) : (stateKeys s).Nodup := by
  unfold stateKeys; rw [h.eq.odeDef]
  exact (keys_deriveOdeDef_sublist s.equations).nodup h.eq.nodup

/-- the closed generated `get_value` IS the hand model's `getValueFuel` on well-formed models, for every
    interpretation of the opaque terms -/
theorem genGetValueFuel_wf (fn : Interp) (M : RModel) (W : WF M) (F : Nat)
    (hF : M.st.live.length < F) (v : Nat) : genGetValueFuel fn M F v = errClass verrClass (getValueFuel fn M F v) :=
  genGetValueFuel_eq fn M F v (Cellml.Tie.PRoles.odeLhsOk_of_inv M W.inv.eq) W.inits (stateKeys_nodup W.inv)
    (expandsWithin_of_wf W F hF)

/-- `C10.getValue_fuel` for the generated code: python never reaches `RecursionError` on a well-formed model, and a
    deeper stack changes no value -/
theorem getValue_fuel (fn : Interp) (M : RModel) (W : WF M) (v : Nat) :
    genGetValue fn M v ≠ .error ⟨"RecursionError"⟩ ∧
    ∀ F, M.st.live.length < F → ∀ q, genGetValueFuel fn M F v = .ok q ↔ genGetValue fn M v = .ok q := by
  obtain ⟨h1, h2⟩ := C10.getValue_fuel fn M W v
  unfold genGetValue
  refine ⟨?_, fun F hF q => ?_⟩
  · rw [genGetValueFuel_wf fn M W _ (Nat.lt_succ_self _) v]
    intro hc
    have hg : getValueFuel fn M (M.st.live.length + 1) v = getValue fn M v := rfl
    rw [hg] at hc
    cases hv : getValue fn M v with
    | ok q => rw [hv] at hc; simp [errClass] at hc
    | error e =>
      rw [hv] at hc
      simp only [errClass, Except.error.injEq, PyErr.mk.injEq] at hc
      cases e <;> simp [verrClass] at hc
      exact h1 hv
  · rw [genGetValueFuel_wf fn M W F hF v, genGetValueFuel_wf fn M W _ (Nat.lt_succ_self _) v, errClass_ok_iff,
      errClass_ok_iff]
    exact h2 F hF q

/-- **`C10.getValue_denotes` for the generated code**: for every interpretation of the opaque terms and every variable
    of every well-formed model, the generated `get_value` (over the generated `_get_value` and `expand_derivatives`)
    returns `q` iff the definitions denote `q` -/
theorem getValue_denotes (fn : Interp) (M : RModel) (W : WF M) (v : Nat) (q : Rat) :
    genGetValue fn M v = .ok q ↔ Den fn M (.v v) q := by
  unfold genGetValue
  rw [genGetValueFuel_wf fn M W _ (Nat.lt_succ_self _) v, errClass_ok_iff]
  exact C10.getValue_denotes fn M W v q

-- ------------------------------------------------------------------------------------------------ history independence
/-- the answers of the generated role queries -/
structure GenRoles where
  states : Except PyErr (List Nat)
  free : Except PyErr Nat
  derivatives : Except PyErr (List Node)
  derivedQuantities : Except PyErr (List Node)
  isState : Nat → Except PyErr Bool
  isConstant : Nat → Except PyErr Bool

def genRoles (M : RModel) : GenRoles :=
  ⟨Roles.getStateVariables M true, Roles.getFreeVariable M, Roles.getDerivatives M true,
   Roles.getDerivedQuantities M true, fun v => ((ModelState.isState v).run M.st).1, fun v => Roles.isConstant M v⟩

/-- the generated answers as a function of the hand model's answers -/
def ofRoles (r : Model.Roles) : GenRoles :=
  ⟨.ok r.states, optErr "ValueError" r.free, (errClass gerrClass r.derivatives).map (List.map derivNode),
   (errClass gerrClass r.derivedQuantities).map (List.map Node.var), fun v => .ok (r.isState v),
   fun v => .ok (r.isConstant v)⟩

theorem genRoles_eq (fn : Interp) (M : RModel) (h : Inv M.st) : genRoles M = ofRoles (roles fn M) := by
  unfold genRoles ofRoles roles
  congr 1
  · rw [Cellml.Tie.PRoles.getStateVariables_tie]; rfl
  · exact Cellml.Tie.PRoles.getFreeVariable_tie M (Cellml.Tie.PRoles.odeLhsOk_of_inv M h.eq)
  · exact Cellml.Tie.PRoles.getDerivatives_tie M
  · exact Cellml.Tie.PRoles.getDerivedQuantities_tie M
  · funext v; exact Cellml.Tie.PRoles.isConstant_tie M v

/-- **`C10.roles_history_independent` for the generated code, on histories run by the generated code**
    (`C08Gen.genRun`): two histories of python calls that arrive at the same variables and equations give the same
    answers to the six generated role queries -/
theorem roles_history_independent (mc₁ mc₂ : Option String) (ops₁ ops₂ : List C08Gen.GOp)
    (hd₁ : C08Gen.HistDom mc₁ ops₁) (hd₂ : C08Gen.HistDom mc₂ ops₂) (rhs : Nat → Expr)
    (h : content (C08Gen.genRun mc₁ ops₁) = content (C08Gen.genRun mc₂ ops₂)) :
    genRoles ⟨C08Gen.genRun mc₁ ops₁, rhs⟩ = genRoles ⟨C08Gen.genRun mc₂ ops₂, rhs⟩ := by
  rw [genRoles_eq Interp.none _ (C08Gen.inv_reachable mc₁ ops₁ hd₁),
    genRoles_eq Interp.none _ (C08Gen.inv_reachable mc₂ ops₂ hd₂)]
  rw [roles_of_content Interp.none (C08Gen.inv_reachable mc₁ ops₁ hd₁) (C08Gen.inv_reachable mc₂ ops₂ hd₂) h rhs]

/-- … and the same generated `get_value` for every variable, where the tie of `get_value` holds for both models (every
    state has an initial value, the expansions stay within the stack) — these two are NOT implied by the hypotheses of
    `C10.roles_history_independent` (which holds for every content). For every interpretation of the opaque terms. -/
theorem value_history_independent (fn : Interp) (mc₁ mc₂ : Option String) (ops₁ ops₂ : List C08Gen.GOp)
    (hd₁ : C08Gen.HistDom mc₁ ops₁) (hd₂ : C08Gen.HistDom mc₂ ops₂) (rhs : Nat → Expr)
    (h : content (C08Gen.genRun mc₁ ops₁) = content (C08Gen.genRun mc₂ ops₂))
    (hinit₁ : ∀ s ∈ stateKeys (C08Gen.genRun mc₁ ops₁), (initOf (C08Gen.genRun mc₁ ops₁) s).isSome = true)
    (hinit₂ : ∀ s ∈ stateKeys (C08Gen.genRun mc₂ ops₂), (initOf (C08Gen.genRun mc₂ ops₂) s).isSome = true)
    (hx₁ : ExpandsWithin ⟨C08Gen.genRun mc₁ ops₁, rhs⟩ ((C08Gen.genRun mc₁ ops₁).live.length + 1))
    (hx₂ : ExpandsWithin ⟨C08Gen.genRun mc₂ ops₂, rhs⟩ ((C08Gen.genRun mc₂ ops₂).live.length + 1)) (v : Nat) :
    genGetValue fn ⟨C08Gen.genRun mc₁ ops₁, rhs⟩ v = genGetValue fn ⟨C08Gen.genRun mc₂ ops₂, rhs⟩ v := by
  have i₁ := C08Gen.inv_reachable mc₁ ops₁ hd₁
  have i₂ := C08Gen.inv_reachable mc₂ ops₂ hd₂
  unfold genGetValue
  rw [genGetValueFuel_eq fn _ _ v (Cellml.Tie.PRoles.odeLhsOk_of_inv _ i₁.eq) hinit₁ (stateKeys_nodup i₁) hx₁,
    genGetValueFuel_eq fn _ _ v (Cellml.Tie.PRoles.odeLhsOk_of_inv _ i₂.eq) hinit₂ (stateKeys_nodup i₂) hx₂]
  have := congrArg Roles.value (roles_of_content fn i₁ i₂ h rhs)
  exact congrArg (errClass verrClass) (congrFun this v)

-- ------------------------------------------------------------------------------------------------ non-vacuity
/-- `getValue_denotes` applies to the demo model of `Props/C10.lean`, whatever the interpretation -/
example (fn : Interp) : genGetValue fn C10.demoM 4 = .ok (17/2) :=
  (getValue_denotes fn C10.demoM C10.demo_wf 4 _).mpr
    ((C10.getValue_denotes fn C10.demoM C10.demo_wf 4 _).mp (of_decide_eq_true (by with_unfolding_all rfl)))

/-- … and to the model with an opaque right-hand side (`b = exp(a) * 2`, `C10.opqM`): for EVERY interpretation under
    which `exp(a)` has a value `r` at `a = 3`, the GENERATED `get_value(b)` returns `r * 2` -/
example (fn : Interp) (r : Rat) (h : fn "exp(v0)" [3] = some r) : genGetValue fn C10.opqM 1 = .ok (r * 2) :=
  (getValue_denotes fn C10.opqM C10.opq_wf 1 _).mpr (C10.opaque_value fn r h).1

end Cellml.Props.C10Gen
