import Cellml.C15.Sort
import Cellml.Props.C09

/-! # The graph and `get_equations_for` do not depend on the adversary (as sets); sorted queries not at all -/

namespace C15
open Load

variable {cx : Ctx} {π π' : Adv} {obs : FlatEq → List (Lhs VRef)} {F : Flat}

theorem system_lhs (cx : Ctx) (π π' : Adv) (obs : FlatEq → List (Lhs VRef)) (F : Flat) :
    (system cx π' obs F).map (·.lhs) = (system cx π obs F).map (·.lhs) := by
  simp only [system, List.map_map]
  rfl

theorem system_same (cx : Ctx) (obs : FlatEq → List (Lhs VRef)) (F : Flat) (hπ : π.Fair) (hπ' : π'.Fair) :
    C09.SameSystem (system cx π obs F) (system cx π' obs F) := by
  constructor
  · intro e he
    obtain ⟨fe, hfe, rfl⟩ := List.mem_map.mp he
    refine ⟨toEqn cx π' obs fe, List.mem_map.mpr ⟨fe, hfe, rfl⟩, rfl, rfl, ?_, ?_⟩
    · intro u
      exact ((hπ'.refs _ _).mem_iff).trans ((hπ.refs _ _).mem_iff).symm
    · intro u
      exact ((hπ'.refs _ _).mem_iff).trans ((hπ.refs _ _).mem_iff).symm
  · intro e he
    obtain ⟨fe, hfe, rfl⟩ := List.mem_map.mp he
    refine ⟨toEqn cx π obs fe, List.mem_map.mpr ⟨fe, hfe, rfl⟩, rfl, rfl, ?_, ?_⟩
    · intro u
      exact ((hπ'.refs _ _).mem_iff).trans ((hπ.refs _ _).mem_iff).symm
    · intro u
      exact ((hπ'.refs _ _).mem_iff).trans ((hπ.refs _ _).mem_iff).symm

/-- validity of the input of `Model.graph` only looks at left-hand sides and reference SETS -/
theorem valid_of_same {key : Node → String} {eqs eqs' : List C09.Eqn} (hl : eqs'.map (·.lhs) = eqs.map (·.lhs))
    (hs : C09.SameSystem eqs eqs') (hv : C09.Valid key eqs) : C09.Valid key eqs' where
  lhsNodup := hl ▸ hv.lhsNodup
  keyNodup := hl ▸ hv.keyNodup
  refsOk := by
    intro e' he' r hr
    obtain ⟨e, he, _, _, hrefs, _⟩ := hs.2 e' he'
    have := hv.refsOk e he r ((hrefs r).mp hr)
    rw [C09.sameSystem_hasEq hs, C09.sameSystem_sf hs]
    exact this

/-- If `Model.graph` can be built under one iteration order it can be built under every other, with the same node
    SET and the same edge SET — no hypothesis on the keys. (With distinct `str` keys it is the same graph, lists and
    all: `graph_order_independent` below.) -/
theorem graph_indep (hπ : π.Fair) (hπ' : π'.Fair) {g : C09.Graph} (h : graph cx π obs F = .ok g) :
    ∃ g', graph cx π' obs F = .ok g' ∧ g'.nodes.Perm g.nodes ∧ ∀ e, e ∈ g'.edges ↔ e ∈ g.edges := by
  unfold graph at h ⊢
  obtain ⟨hvalid, hspec⟩ := C09.buildGraph_valid h
  have hs := system_same cx obs F hπ hπ'
  have hvalid' := valid_of_same (system_lhs cx π π' obs F) hs hvalid
  obtain ⟨g', hg'⟩ := C09.buildGraph_ok hvalid'
  obtain ⟨_, hspec'⟩ := C09.buildGraph_valid hg'
  refine ⟨g', hg', ?_, ?_⟩
  · rw [List.perm_ext_iff_of_nodup hspec'.wf.nodup hspec.wf.nodup]
    intro a
    rw [hspec'.nodes, hspec.nodes, C09.sameSystem_hasEq hs, C09.sameSystem_sf hs]
  · rintro ⟨u, v⟩
    rw [hspec'.edges, hspec.edges]
    constructor
    · rintro ⟨e', he', hl, hu⟩
      obtain ⟨e, he, hl', _, hrefs, _⟩ := hs.2 e' he'
      exact ⟨e, he, hl' ▸ hl, (hrefs u).mp hu⟩
    · rintro ⟨e, he, hl, hu⟩
      obtain ⟨e', he', hl', _, hrefs, _⟩ := hs.1 e he
      exact ⟨e', he', hl'.trans hl, (hrefs u).mpr hu⟩

theorem graph_error_indep (hπ : π.Fair) (hπ' : π'.Fair) {x : C09.Err} (h : graph cx π obs F = .error x) :
    ∃ y, graph cx π' obs F = .error y := by
  cases h' : graph cx π' obs F with
  | error y => exact ⟨y, rfl⟩
  | ok g' =>
      obtain ⟨g, hg, _⟩ := graph_indep hπ' hπ h'
      rw [h] at hg; cases hg

/-! ## The node LIST (after the fix: references are sorted by `str` before they are walked) -/

/-- `str` keys tell the references of any one equation apart (variable names are unique in a model; a derivative
    prints as `Derivative(_x, _t)`) -/
def RefKeys (cx : Ctx) (F : Flat) : Prop :=
  ∀ e ∈ F.eqs, ∀ a ∈ e.rhs.leaves.map cx.num, ∀ b ∈ e.rhs.leaves.map cx.num, cx.key a = cx.key b → a = b

theorem toEqn_sameSorted (hπ : π.Fair) (hπ' : π'.Fair) (hk : RefKeys cx F) :
    ∀ e ∈ F.eqs, C09.SameSorted cx.key (toEqn cx π obs e) (toEqn cx π' obs e) := by
  intro e he
  refine ⟨rfl, rfl, ?_⟩
  simp only [toEqn]
  apply C09.sortStr_eq_of_perm cx.key ((hπ'.refs _ _).trans (hπ.refs _ _).symm)
  intro a ha b hb
  exact hk e he a ((hπ'.refs _ _).mem_iff.mp ha) b ((hπ'.refs _ _).mem_iff.mp hb)

/-- **`Model.graph` is the same graph — node LIST (networkx insertion order) and edge LIST, or the same refusal —
    whatever order the runtime gives the reference sets**, as long as `str` keys tell the references of an equation
    apart. -/
theorem graph_order_independent (hπ : π.Fair) (hπ' : π'.Fair) (hk : RefKeys cx F) :
    graph cx π' obs F = graph cx π obs F := by
  unfold graph system
  exact C09.buildGraph_congr cx.key _ _ F.eqs (toEqn_sameSorted hπ hπ' hk)

/-- `RefKeys` follows from the hypothesis of the query theorems (keys distinct on graph NODES) once the graph builds:
    every reference is then a node -/
theorem refKeys_of_graph {g : C09.Graph} (hπ : π.Fair) (h : graph cx π obs F = .ok g)
    (hkey : ∀ a b, (C09.hasEq (system cx π obs F) a = true ∨ C09.isStateOrFree (system cx π obs F) a = true) →
      (C09.hasEq (system cx π obs F) b = true ∨ C09.isStateOrFree (system cx π obs F) b = true) →
      cx.key a = cx.key b → a = b) : RefKeys cx F := by
  obtain ⟨hvalid, _⟩ := C09.buildGraph_valid h
  intro e he a ha b hb
  have hmem : toEqn cx π obs e ∈ system cx π obs F := List.mem_map.mpr ⟨e, he, rfl⟩
  exact hkey a b (hvalid.refsOk _ hmem a ((hπ.refs _ _).mem_iff.mpr ha))
    (hvalid.refsOk _ hmem b ((hπ.refs _ _).mem_iff.mpr hb))

/-- **`list(Model.graph.nodes)` does not depend on the iteration order of the sets**: the same list, or both refused
    (hypothesis as in `queries_order_independent`: `str` keys of graph nodes pairwise distinct) -/
theorem graphNodes_order_independent (hπ : π.Fair) (hπ' : π'.Fair)
    (hkey : ∀ a b, (C09.hasEq (system cx π obs F) a = true ∨ C09.isStateOrFree (system cx π obs F) a = true) →
      (C09.hasEq (system cx π obs F) b = true ∨ C09.isStateOrFree (system cx π obs F) b = true) →
      cx.key a = cx.key b → a = b) :
    (graphNodes cx π obs F).toOption = (graphNodes cx π' obs F).toOption := by
  unfold graphNodes
  cases h : graph cx π obs F with
  | error x =>
      obtain ⟨y, hy⟩ := graph_error_indep hπ hπ' h
      rw [hy]; rfl
  | ok g =>
      rw [graph_order_independent hπ hπ' (refKeys_of_graph hπ h hkey), h]

/-- a query that filters the graph's nodes and sorts them by a key that is injective on what survives the filter -/
theorem sorted_nodes_indep (hπ : π.Fair) (hπ' : π'.Fair) (p : Node → Bool) (k : Node → Nat)
    (hinj : ∀ g, graph cx π obs F = .ok g → ∀ a ∈ g.nodes, ∀ b ∈ g.nodes, p a = true → p b = true → k a = k b → a = b) :
    (match graph cx π obs F with
      | .error x => (.error x : Except C09.Err (List Node))
      | .ok g => .ok (sortBy k (g.nodes.filter p))).toOption =
    (match graph cx π' obs F with
      | .error x => (.error x : Except C09.Err (List Node))
      | .ok g => .ok (sortBy k (g.nodes.filter p))).toOption := by
  cases h : graph cx π obs F with
  | error x =>
      obtain ⟨y, hy⟩ := graph_error_indep hπ hπ' h
      rw [hy]; rfl
  | ok g =>
      obtain ⟨g', hg', hperm, _⟩ := graph_indep hπ hπ' h
      rw [hg']
      simp only [Except.toOption]
      congr 1
      apply sortBy_eq_of_perm k (hperm.symm.filter p)
      intro a ha b hb hk
      have ha' := List.mem_filter.mp ha
      have hb' := List.mem_filter.mp hb
      exact hinj g h a ha'.1 b hb'.1 ha'.2 hb'.2 hk

/-! ## `get_equations_for` -/

theorem mem_required (hπ : π.Fair) (g : C09.Graph) (vars : List Node) (recurse : Bool) (v : Node) :
    v ∈ required π g vars recurse ↔ v ∈ C09.required g vars recurse := by
  simp only [required, C09.required, List.mem_append, List.mem_flatMap]
  apply or_congr Iff.rfl
  apply exists_congr; intro r
  apply and_congr Iff.rfl
  exact (hπ.anc _).mem_iff

/-- with a fair adversary at `nx.ancestors`, the query is C09's `getEquationsFor` on the system as the adversary
    spelled it -/
theorem getEquationsFor_eq (hπ : π.Fair) (vars : List Node) (recurse strip : Bool) :
    getEquationsFor cx π obs F vars recurse strip =
      C09.getEquationsFor cx.key (system cx π obs F) vars recurse strip := by
  simp only [getEquationsFor, C09.getEquationsFor, mem_required hπ]
  cases C09.buildGraph cx.key (system cx π obs F) with
  | error x => rfl
  | ok g0 =>
      simp only []
      split
      · rfl
      · cases C09.lexTopo cx.key (C09.graphFor (system cx π obs F) strip g0) <;> rfl

/-- success of C09's `getEquationsFor` only depends on the system as a set -/
theorem eqsfor_ok_transfer {key : Node → String} {eqs eqs' : List C09.Eqn} {vars : List Node} {recurse strip : Bool}
    {res : List Node} (hl : eqs'.map (·.lhs) = eqs.map (·.lhs)) (hs : C09.SameSystem eqs eqs')
    (h : C09.getEquationsFor key eqs vars recurse strip = .ok res) :
    ∃ res', C09.getEquationsFor key eqs' vars recurse strip = .ok res' := by
  obtain ⟨hvalid, hvars, rank, hrank⟩ := Cellml.Props.C09.eqsfor_ok_only_if key eqs vars recurse strip res h
  apply Cellml.Props.C09.eqsfor_total_of_rank key eqs' vars recurse strip (valid_of_same hl hs hvalid)
  · intro v hv
    rw [C09.sameSystem_hasEq hs, C09.sameSystem_sf hs]
    exact hvars v hv
  · exact ⟨rank, fun u v huv => hrank u v ((C09.sameSystem_dep hs strip u v).mp huv)⟩

end C15
