import Cellml.C11.Sem

/-! C11 — `print_means`, part 1: the joining operations on layout trees compute what they should. -/
namespace C11
set_option linter.unusedSimpArgs false
variable {K : Type} [Field K] (S : Sem K)

@[simp] theorem evD_paren (d : Doc) : evD S (.paren d) = evD S d := rfl

theorem evD_bracket (e : E) (d : Doc) (p : Nat) : evD S (bracket e d p) = evD S d := by
  rw [bracket_eq]; split <;> rfl

@[simp] theorem evD_mul_num (a b : Doc) : (evD S (.bin .mul a b)).num = (evD S a).num * (evD S b).num := rfl
@[simp] theorem evD_div_num (a b : Doc) : (evD S (.bin .div a b)).num = (evD S a).num / (evD S b).num := rfl
@[simp] theorem evD_add_num (a b : Doc) : (evD S (.bin .add a b)).num = (evD S a).num + (evD S b).num := rfl
@[simp] theorem evD_sub_num (a b : Doc) : (evD S (.bin .sub a b)).num = (evD S a).num - (evD S b).num := rfl
@[simp] theorem evD_pow_num (a b : Doc) : (evD S (.bin .pow a b)).num = S.powK (evD S a).num (evD S b).num := rfl
@[simp] theorem evD_neg_num (a : Doc) : (evD S (.neg a)).num = -(evD S a).num := rfl
@[simp] theorem evD_and_bool (a b : Doc) : (evD S (.and a b)).bool = ((evD S a).bool && (evD S b).bool) := rfl
@[simp] theorem evD_or_bool (a b : Doc) : (evD S (.or a b)).bool = ((evD S a).bool || (evD S b).bool) := rfl
@[simp] theorem evD_and_num (a b : Doc) : (evD S (.and a b)).num = b2k ((evD S a).bool && (evD S b).bool) := rfl
@[simp] theorem evD_or_num (a b : Doc) : (evD S (.or a b)).num = b2k ((evD S a).bool || (evD S b).bool) := rfl

theorem spliceProd_num (acc d : Doc) : (evD S (spliceProd acc d)).num = (evD S acc).num * (evD S d).num := by
  induction d with
  | bin op a b iha _ =>
      cases op <;> simp only [spliceProd, evD_mul_num, evD_div_num, iha]
      · ring
      · ring
  | _ => simp only [spliceProd, evD_mul_num]

theorem foldl_spliceProd_num (ds : List Doc) : ∀ acc,
    (evD S (ds.foldl spliceProd acc)).num = (evD S acc).num * prodK (ds.map (fun d => (evD S d).num)) := by
  induction ds with
  | nil => intro acc; simp [prodK]
  | cons d ds ih => intro acc; simp only [List.foldl_cons, ih, spliceProd_num, List.map_cons, prodK]; ring

theorem prodChain_num (hL : Laws S) (ds : List Doc) :
    (evD S (prodChain ds)).num = prodK (ds.map (fun d => (evD S d).num)) := by
  cases ds with
  | nil =>
      have h1 : toString (1 : Nat) = "1" := by decide
      have := hL.atom_nat 1
      rw [h1] at this
      simp only [prodChain, List.map_nil, prodK, evD]
      simpa using this
  | cons d ds => simp only [prodChain, foldl_spliceProd_num, List.map_cons, prodK]

theorem negFirst_num (d : Doc) : (evD S (negFirst d)).num = -(evD S d).num := by
  induction d with
  | bin op a b iha _ =>
      cases op <;> simp only [negFirst, evD_mul_num, evD_div_num, evD_neg_num, iha] <;> ring
  | _ => simp only [negFirst, evD_neg_num]

theorem spliceSum_plus_num (acc d : Doc) :
    (evD S (spliceSum acc false d)).num = (evD S acc).num + (evD S d).num := by
  induction d with
  | bin op a b iha _ =>
      cases op
      case add => simp only [spliceSum, evD_add_num, iha]; ring
      case sub => simp only [spliceSum, evD_sub_num, evD_add_num, iha]; ring
      all_goals simp [spliceSum]
  | _ => simp [spliceSum]

/-- a well-grouped term (product spine) that starts with a minus: dropping the minus negates the value -/
theorem peelProd_num (d : Doc) : PyOK d = true → 50 ≤ level d → startsMinus d = true →
    (evD S (peelLeft d)).num = -(evD S d).num := by
  induction d with
  | neg x _ => intro _ _ _; simp [peelLeft]
  | bin op a b iha _ =>
      intro hp hl hs
      simp only [startsMinus] at hs
      cases op
      case mul =>
        simp only [ok_mul, Bool.and_eq_true, decide_eq_true_eq] at hp
        simp only [peelLeft, evD_mul_num, iha hp.1.1.1 hp.1.2 hs]; ring
      case div =>
        simp only [ok_div, Bool.and_eq_true, decide_eq_true_eq] at hp
        simp only [peelLeft, evD_div_num, iha hp.1.1.1 hp.1.2 hs]; ring
      case pow =>
        exfalso
        simp only [ok_pow, Bool.and_eq_true, decide_eq_true_eq] at hp
        have h100 := hp.1.2
        cases a <;> simp [startsMinus] at hs h100
        rename_i op _ _; cases op <;> simp at h100
      all_goals simp at hl
  | _ => intro _ hl hs; first | (simp at hl; done) | (simp [startsMinus] at hs; done)

theorem spliceSum_tight (acc x : Doc) (m : Bool) (h : 50 ≤ level x) :
    spliceSum acc m x = .bin (if m then .sub else .add) acc x := by
  cases x with
  | bin op a b => cases op <;> first | rfl | (simp at h)
  | _ => rfl

/-- `acc - t[1:]` for a printed term `t` that starts with a minus is `acc + t` -/
theorem peelSplice_num (d : Doc) : PyOK d = true → 40 ≤ level d → startsMinus d = true → ∀ acc,
    (evD S (spliceSum acc true (peelLeft d))).num = (evD S acc).num + (evD S d).num := by
  induction d with
  | neg x _ =>
      intro hp _ _ acc
      simp only [ok_neg, Bool.and_eq_true, decide_eq_true_eq] at hp
      simp only [peelLeft]
      -- x is tighter than a sum, so it is attached as one operand
      rw [spliceSum_tight acc x true (by omega)]; simp; ring
  | bin op a b iha _ =>
      intro hp hl hs acc
      simp only [startsMinus] at hs
      cases op
      case add =>
        simp only [ok_add, Bool.and_eq_true, decide_eq_true_eq] at hp
        simp only [peelLeft, spliceSum, evD_add_num, iha hp.1.1.1 hp.1.2 hs]; ring
      case sub =>
        simp only [ok_sub, Bool.and_eq_true, decide_eq_true_eq] at hp
        simp only [peelLeft, spliceSum, evD_sub_num, evD_add_num, iha hp.1.1.1 hp.1.2 hs]; ring
      case mul =>
        have := peelProd_num S (.bin .mul a b) hp (by simp) (by simpa [startsMinus] using hs)
        simp only [peelLeft] at this ⊢
        show (evD S (.bin .sub acc _)).num = _
        rw [evD_sub_num, this]; ring
      case div =>
        have := peelProd_num S (.bin .div a b) hp (by simp) (by simpa [startsMinus] using hs)
        simp only [peelLeft] at this ⊢
        show (evD S (.bin .sub acc _)).num = _
        rw [evD_sub_num, this]; ring
      case pow =>
        have := peelProd_num S (.bin .pow a b) hp (by simp) (by simpa [startsMinus] using hs)
        simp only [peelLeft] at this ⊢
        show (evD S (.bin .sub acc _)).num = _
        rw [evD_sub_num, this]; ring
  | _ => intro _ hl hs; first | (simp at hl; done) | (simp [startsMinus] at hs; done)

theorem spliceAnd_bool (acc d : Doc) :
    (evD S (spliceAnd acc d)).bool = ((evD S acc).bool && (evD S d).bool) ∧
      (evD S (spliceAnd acc d)).num = b2k ((evD S acc).bool && (evD S d).bool) := by
  induction d with
  | and a b iha _ => simp only [spliceAnd, evD_and_bool, evD_and_num, iha.1, Bool.and_assoc, and_self]
  | _ => simp [spliceAnd]

theorem spliceOr_bool (acc d : Doc) :
    (evD S (spliceOr acc d)).bool = ((evD S acc).bool || (evD S d).bool) ∧
      (evD S (spliceOr acc d)).num = b2k ((evD S acc).bool || (evD S d).bool) := by
  induction d with
  | or a b iha _ => simp only [spliceOr, evD_or_bool, evD_or_num, iha.1, Bool.or_assoc, and_self]
  | _ => simp [spliceOr]

end C11
