#!/venv/bin/python
"""Translator (T2): re-generate Lean DEFINITIONS from the *code* of selected functions of /repo's working tree.

translate_tables.py ties the *data* of the source (tables, constants) to the theorems. This translator does the same for
decision logic: the body of each function listed in harness/code_specs.py is read from the source TEXT with python's `ast`
(no import of cellmlmanip) and written as a Lean `do` block in `Except PyErr` to
lean/Cellml/Generated/Code/<Name>.lean. Control flow (if / elif / else, early return, raise, assert, for, the order of
the guards, every comparison, constant and operand) comes from the source; the *leaves* - calls into pint / sympy /
the model state - are bound to Lean terms by the pattern table of the spec. lean/Cellml/Tie/<Name>.lean then proves,
for all arguments, that the generated definition equals the hand-written model function the property theorems are about.

 * a semantic edit of a translated function changes the generated definition, and the tie theorem stops compiling
   (the check then searches for a failing input and reports per the protocol);
 * source the translator has no rule and no pattern for is an error naming the source text (same consequence);
 * comments, docstrings, logging calls, exception messages, blank lines do not reach the output.

Additions (Sing ties): a PARAMETER the body assigns to becomes `let mut p := p` at the top; the spec key
`predeclare: [(name, LeanType, init)]` declares a `let mut` before the body (for a name first assigned inside a `try` /
`if` block and read after it; the initial value is dead when every path assigns); a chained assignment `a = b = X`
evaluates X once into a fresh name and assigns it to the targets from left to right; the spec key `final_return: text`
ends a function that falls off its end with `return text` (the state threaded by the statement patterns).

Pattern language: python source in which names starting with `__` are metavariables (`__A` matches any expression;
a repeated metavariable must match structurally equal text). Templates are Lean text with `{A}` replaced by the
translation of what `__A` matched (`{A!s}` = the python source text, as a Lean string literal). A template starting
with `←` makes an assignment monadic (`let x ← ...`).

A parameter that the body assigns to is re-bound first (`let mut p := p`). The signature of a spec is free text: the
result type may be any monad with `throw` of `PyErr` (`Except PyErr`, or `PyM σ` of Tie/ModelStateView.lean, where the
state of the python object survives a raise).

Spec options added for the UnitDefs group (all additive; absent = old behaviour):
 * `var_types: {name: LeanType}` - the FIRST assignment of the python local `name` is emitted with a type ascription
   (`let mut expr : UExpr := …`), so that a Lean coercion may apply to the right-hand side;
 * `mutable_params: [name…]` - parameters that statement patterns re-assign (`let mut x := x` at the top);
 * `before_while: k` - translate the statements of the function that PRECEDE its k-th `while` loop (the set-up of the
   loop) and return the tuple of the names in `result`;
 * `try: T = X  except E: T = Y` (one assignment to the same name in the body and in every handler) becomes ONE
   `let T ← tryCatch X' (fun e__ => if e__.cls == "E" then pure Y else throw e__)`.

`if c: T = X else: T = Y` where X or Y is bound to a monadic template becomes `let T ← (if c then X else Y)` (only the
chosen branch is run); with pure branches it is `let T := (if c then X else Y)` as before.
A parameter listed in the spec's `mutable` is re-declared `let mut p := p` at the top (it is re-assigned by the body or
by a statement pattern).

Additions (Loader package):
 * `func` may name a function nested inside `for` / `if` blocks of its parent (`Parser._add_maths.symbol_generator`):
   when a name is not found among the direct statements of the parent, the parent is searched in depth (source order).
 * spec key `while_fuel` (a Lean term of type Nat): a `while TEST: BODY` statement of the translated function becomes
   `s ← Py.whileUpTo FUEL (fun s => TEST) (fun s => do BODY; return s) s` where `s` is the tuple of the names assigned
   in BODY (all must be declared before the loop): at most FUEL iterations of the loop (Prelude.lean). Without the
   key a `while` statement is still a translation error (or use `while_body`).
 * spec key `state` (list of parameter names): re-declared `let mut` at the start (like `loop_state`, but the function
   keeps its own `return`s).
 * spec key `returns` (a Lean term): emitted as the final `return` of a function that ends without one (a python
   procedure whose effect is the threaded state).

Function-level scoping of python locals (added for units.py `convert_expression_recursively`):
 * a PARAMETER that the body assigns to is re-declared `let mut p := p` at the top;
 * spec key `locals_init: {name: 'Type := value'}` hoists a local that python first assigns inside a branch / `try` /
   loop and reads after it: `let mut name : Type := value` at the top (the value is never observable when python
   assigns before use; otherwise python would raise UnboundLocalError);
 * spec key `skip_defs: [name…]`: nested `def`s that are translated as functions of their own (bind the calls by a pattern);
 * a tuple assignment whose targets mix new names, mutable names, `_` and the variable of the enclosing `for` goes
   through fresh temporaries: `let (t0__, t1__) := rhs; a := t0__; let b := t1__` (a `for` variable is shadowed by a
   `let`, which is only accepted directly in the loop body).

Additions for the Units group (additive; output of the other groups unchanged):
 * spec key `mutable_params`: parameters re-declared `let mut p := p` at the top (python mutates the object `self`).
 * `if c: T = X else: T = Y` whose X or Y contains a monadic leaf `(← …)` becomes
   `let T ← (if c then (do pure X) else (do pure Y))`, so that the leaf runs only in its own branch.
 * a statement-pattern template that is empty drops the statement (constructor lines with no counterpart in the view).
 * `if c: x.f = X else: x.f = Y` (attribute targets) is NOT merged into one `let`: the two assignments are translated
   by their statement patterns inside an ordinary if / else.

Generic rules added for the Roles package (all additive; the output for the earlier groups is unchanged):
 * `x in (a, b, c)` / `not in`: a literal tuple on the right is a container, written as a Lean list;
 * list comprehensions with a tuple target (`[v for v, node in items if …]` -> `fun (v, node) => …`);
 * `a is b` / `a is not b` between objects -> `Py.is_ a b` (identity = equality of the representing identity numbers);
 * `{}` -> `Py.emptyDict`, `{k: v for x in xs}` -> `Py.dictOf (xs.map fun x => (k, v))`;
 * spec option `dict_names: [d, …]`: for these names `x in d` -> `Py.isIn x (Py.keys d)` and the statement
   `d[k] = v` -> `d := Py.setItem d k v` (class `Py.DictLike` of Tie/Prelude.lean);
 * spec option `skip_defs: [f, …]`: nested `def f` that is translated as a function of its own (`func: 'Outer.f'`,
   open recursion) and reaches the outer function as a parameter / pattern;
 * spec option `returns_state: [s, …]`: `return X` -> `return (X, s, …)` (a python object mutated in place through
   the calls, threaded as explicit state);
 * a parameter that is assigned in the body becomes `let mut p := p`;
 * `try: NAME = E  except K: <handler that returns or raises>` -> `let NAME ← try E catch e__ => …` (python's
   function-level scope of NAME);
 * spec option `retyped_names` (any non-empty list): a top-level assignment of a multiply-assigned name that is followed
   by another top-level assignment of it is an immutable `let` (the next one shadows it: python may change the type of
   the value, `expr = map[v]` then `expr = f(expr.rhs)`); the last one before a nested assignment is the `let mut`;
 * `if A and B:` without `else`, where an operand is monadic (`(← …)`): nested `if A then if B then …`, so that the
   effect of B stays behind the short-circuit (spec key `and_style: 'cond'` switches this statement-level rule off; the
   expression-level short-circuit rule of `cond()` then applies);
 * spec key `immutable_params: [name…]`: parameters that are NOT re-declared `let mut` although the body assigns to
   them (a statement pattern shadows them instead).

Additions (Cmeta package; none changes the output of a spec that does not use them):
 * a parameter that the body assigns to (`cmeta_id = str(cmeta_id)`) is re-declared `let mut p := p` at the top;
 * `'while_fuel': [lean fuel expression for the 0th, 1st … `while` of the function]`: `while c: body` (no break /
   continue / return inside) becomes `vars ← Py.whileFuel fuel vars (fun vars => do return c) (fun vars => do body;
   return vars)` over the variables the body assigns; test and body are translated by the ordinary rules; running out
   of fuel raises `PyErr "FuelExhausted"` (Prelude);
 * a list comprehension whose element is bound to a monadic template (`[self.f(x) for x in xs]`) becomes
   `← (xs).mapM (fun x => …)` (python evaluates the elements in order and the first exception ends it: `List.mapM`);
 * `'emit_defaults': [param, …]`: the default values of these python parameters are emitted as
   `def <lean_name>_default_<param> := <translation>` so that call-site templates can pass them explicitly.

Additional generic rules: a list comprehension whose element is monadic (contains `←`) becomes
`(← xs.mapM (fun x => do return elt))`; a set display `{a, b}` becomes the list `[a, b]` (membership tests only);
spec key `for_body: k` translates the body of the k-th `for` statement as a step function over `loop_state`;
spec key `mutable_params: [p]` declares `let mut p := p` for a parameter the function re-binds.

Generic rules added for the Infer group (additive; the output for the older groups is unchanged):
 * `a and b` / `a or b` whose LATER operand runs an action (its translation contains `←`) keeps python's short circuit:
   `(← (do if a then pure b else pure false))` - the action of `b` is run only where python evaluates `b`;
 * `if c: T = X  elif d: T = Y  else: T = Z` (every branch one assignment to the same target) is one assignment of a
   nested conditional expression, like the two-branch form;
 * a nested `def` whose body is plain assignments to names followed by one `return` becomes a local `fun` with `let`s
   (`assert isinstance(...)` lines in it are skipped like everywhere else);
 * constants in patterns match by value AND type (`0.0` does not match `0`, `True` does not match `1`).

Spec keys added for the Transpile group (each is inert unless the spec sets it):
 * `'tail_assign': True`: `if c: …; T = X  else: …; T = Y` - every branch ENDS with an assignment to the same new name T
   (a branch may instead end in `raise`, or in a nested if/else of this shape), T assigned nowhere else in it - becomes
   `let T ← (do if c then …; X' else …; Y')`, so that `T` is in scope after the statement (python's function scope)
   without a dummy initial value;
 * `'emit_params': True`: also emits `<lean_name>_params : Nat × Nat × List String` = (number of required positional
   parameters, number of positional parameters, source text of the default values) read from the `def`, so that
   python's calling convention of the function is tied too;
 * `'raise_evaluates': True`: the argument expressions of a `raise E(...)` are scanned in evaluation order and every
   sub-expression bound by a MONADIC pattern (e.g. a subscript that can raise IndexError) is evaluated (`let _ ← …`)
   before the `throw` - python evaluates the message before raising.
"""
import ast
import copy
import os
import sys

REPO = os.environ.get('CELLML_REPO', '/repo')
HERE = os.path.dirname(os.path.abspath(__file__))
OUTDIR = os.path.join(HERE, '..', 'lean', 'Cellml', 'Generated', 'Code')

LEAN_KEYWORDS = {'from', 'at', 'end', 'open', 'in', 'fun', 'do', 'then', 'else', 'if', 'let', 'have', 'show', 'match',
                 'with', 'where', 'deriving', 'instance', 'structure', 'class', 'def', 'theorem', 'Type', 'Prop',
                 'Sort', 'by', 'for', 'return', 'mut', 'unless', 'try', 'catch', 'finally', 'import', 'namespace',
                 'section', 'variable', 'universe', 'local', 'private', 'protected', 'partial', 'unsafe', 'macro',
                 'syntax', 'notation', 'infix', 'prefix', 'postfix', 'set_option', 'using', 'calc', 'exists', 'forall',
                 'true', 'false', 'not', 'and', 'or', 'abbrev', 'example', 'axiom', 'inductive', 'extends', 'default'}


class TranslationError(Exception):
    pass


def lean_str(s):
    return '"' + s.replace('\\', '\\\\').replace('"', '\\"').replace('\n', '\\n') + '"'


def mangle(name):
    return name + '_' if name in LEAN_KEYWORDS else name


def src(node):
    try:
        return ast.unparse(node)
    except Exception:
        return '<%s>' % type(node).__name__


# ------------------------------------------------------------------------------------------------ pattern matching
def match(pat, node, binds):
    """Structural match of a pattern AST against a node; metavariables are Names starting with `__`."""
    if isinstance(pat, ast.Name) and pat.id.startswith('__'):
        key = pat.id[2:]
        if key in binds:
            return ast.dump(binds[key]) == ast.dump(node)
        binds[key] = node
        return True
    if type(pat) is not type(node):
        return False
    for field in pat._fields:
        if field in ('ctx', 'type_comment', 'kind', 'lineno', 'col_offset', 'end_lineno', 'end_col_offset'):
            continue
        a, b = getattr(pat, field, None), getattr(node, field, None)
        if isinstance(a, list):
            if not isinstance(b, list) or len(a) != len(b):
                return False
            for x, y in zip(a, b):
                if isinstance(x, ast.AST):
                    if not match(x, y, binds):
                        return False
                elif x != y:
                    return False
        elif isinstance(a, ast.AST):
            if not isinstance(b, ast.AST) or not match(a, b, binds):
                return False
        elif a != b or type(a) is not type(b):          # `1` and `1.0` (and `True`) are different literals
            return False
    return True


def parse_pattern(text, stmt=False):
    tree = ast.parse(text.strip())
    if stmt:
        assert len(tree.body) == 1, 'statement pattern must be one statement: ' + text
        return tree.body[0]
    assert len(tree.body) == 1 and isinstance(tree.body[0], ast.Expr), 'expression pattern expected: ' + text
    return tree.body[0].value


# ------------------------------------------------------------------------------------------------ the translator
class Fn:
    """Translation of one function (or one loop body of it) according to a spec."""

    def __init__(self, spec, node):
        self.spec = spec
        self.node = node
        self.epats = [(parse_pattern(p), t) for p, t in spec.get('patterns', [])]
        self.spats = [(parse_pattern(p, stmt=True), t) for p, t in spec.get('stmt_patterns', [])]
        self.skip_prefixes = tuple(spec.get('skip_calls', ['logger.']))
        self.mut = set(spec.get('mutable', []))
        self.declared = set()
        self.shadowed = set()
        self.shadow_ok = set()
        self.for_depth = 0
        self.loop_vars = []          # [(names of the for target, indentation of the loop body)]
        self.lines = []
        self.declared_before_walk = set(spec.get('loop_state', [])) | set(spec.get('mutable', []))

    # ---------------------------------------------------------------- expressions
    def fill(self, template, binds, cond=False):
        out = template
        for k, v in binds.items():
            if '{%s!s}' % k in out:
                out = out.replace('{%s!s}' % k, lean_str(src(v)))
            if '{%s!c}' % k in out:
                out = out.replace('{%s!c}' % k, self.cond(v))
            if '{%s}' % k in out:
                out = out.replace('{%s}' % k, self.expr(v))
        return out

    def try_patterns(self, node):
        for pat, tmpl in self.epats:
            binds = {}
            if match(pat, node, binds):
                return self.fill(tmpl, binds)
        return None

    def expr(self, n):
        hit = self.try_patterns(n)
        if hit is not None:
            return hit if not hit.startswith('←') else '(' + hit + ')'
        if isinstance(n, ast.Name):
            return mangle(n.id)
        if isinstance(n, ast.Constant):
            v = n.value
            if v is None:
                return 'none'
            if v is True:
                return 'true'
            if v is False:
                return 'false'
            if isinstance(v, str):
                return lean_str(v)
            if isinstance(v, int):
                return '(%d)' % v if v < 0 else str(v)
            raise TranslationError('no rule for the literal %r (give a pattern)' % (v,))
        if isinstance(n, ast.Tuple):
            return '(' + ', '.join(self.expr(e) for e in n.elts) + ')'
        if isinstance(n, ast.List):
            return '[' + ', '.join(self.expr(e) for e in n.elts) + ']'
        if isinstance(n, ast.Compare):
            return self.compare(n)
        if isinstance(n, ast.BoolOp) or (isinstance(n, ast.UnaryOp) and isinstance(n.op, ast.Not)):
            return self.cond(n)
        if isinstance(n, ast.UnaryOp) and isinstance(n.op, ast.USub):
            return '(-%s)' % self.expr(n.operand)
        if isinstance(n, ast.BinOp) and isinstance(n.op, (ast.Add, ast.Sub, ast.Mult)):
            op = {ast.Add: '+', ast.Sub: '-', ast.Mult: '*'}[type(n.op)]
            return '(%s %s %s)' % (self.expr(n.left), op, self.expr(n.right))
        if isinstance(n, ast.BinOp) and isinstance(n.op, ast.Mod) and isinstance(n.left, ast.Constant) and \
                isinstance(n.left.value, str):
            # '%s + %s' % (a, b): every argument must translate to a Lean String
            args = n.right.elts if isinstance(n.right, ast.Tuple) else [n.right]
            return '(Py.fmt %s [%s])' % (lean_str(n.left.value), ', '.join(self.expr(a) for a in args))
        if isinstance(n, ast.JoinedStr):
            parts = []
            for v in n.values:
                if isinstance(v, ast.Constant):
                    parts.append(lean_str(v.value))
                elif isinstance(v, ast.FormattedValue) and v.conversion == -1 and v.format_spec is None:
                    parts.append(self.expr(v.value))
                else:
                    raise TranslationError('no rule for the f-string part `%s`' % src(v))
            return '(' + ' ++ '.join(parts or ['""']) + ')'
        if isinstance(n, ast.IfExp):
            return '(if %s then %s else %s)' % (self.cond(n.test), self.expr(n.body), self.expr(n.orelse))
        if isinstance(n, ast.Attribute):
            return '(%s).%s' % (self.expr(n.value), mangle(n.attr))
        if isinstance(n, ast.Lambda):
            args = ' '.join(mangle(a.arg) for a in n.args.args)
            return '(fun %s => %s)' % (args, self.expr(n.body))
        if isinstance(n, ast.Call):
            f = n.func
            if isinstance(f, ast.Name) and f.id in self.spec.get('local_functions', []) and not n.keywords:
                return '(%s %s)' % (mangle(f.id), ' '.join(self.expr(a) for a in n.args))
            if isinstance(f, ast.Attribute) and f.attr == 'join' and isinstance(f.value, ast.Constant) and \
                    isinstance(f.value.value, str) and len(n.args) == 1 and not n.keywords:
                return '(String.intercalate %s %s)' % (lean_str(f.value.value), self.expr(n.args[0]))
            if isinstance(f, ast.Name) and f.id == 'len' and len(n.args) == 1:
                return '(%s).length' % self.expr(n.args[0])
            if isinstance(f, ast.Name) and f.id in ('all', 'any') and len(n.args) == 1 and \
                    isinstance(n.args[0], (ast.GeneratorExp, ast.ListComp)) and len(n.args[0].generators) == 1 \
                    and not n.args[0].generators[0].ifs and isinstance(n.args[0].generators[0].target, ast.Name):
                g = n.args[0].generators[0]
                return '((%s).%s (fun %s => %s))' % (self.expr(g.iter), f.id, mangle(g.target.id),
                                                    self.cond(n.args[0].elt))
        if isinstance(n, ast.Dict) and not n.keys:
            return 'Py.emptyDict'
        if isinstance(n, ast.DictComp) and len(n.generators) == 1 and not n.generators[0].ifs and \
                isinstance(n.generators[0].target, ast.Name):
            g = n.generators[0]
            return '(Py.dictOf ((%s).map (fun %s => (%s, %s))))' % (self.expr(g.iter), mangle(g.target.id),
                                                                   self.expr(n.key), self.expr(n.value))
        if isinstance(n, ast.ListComp) and len(n.generators) == 1 and \
                (isinstance(n.generators[0].target, ast.Name) or
                 (isinstance(n.generators[0].target, ast.Tuple) and
                  all(isinstance(e, ast.Name) for e in n.generators[0].target.elts))):
            g = n.generators[0]
            xs = self.expr(g.iter)
            v = self.target_text(g.target)
            for c in g.ifs:
                xs = '((%s).filter (fun %s => %s))' % (xs, v, self.cond(c))
            elt = self.expr(n.elt)
            if '←' in elt:
                # an element that calls a monadic leaf / a translated function: `[f(x) for x in xs]` -> mapM
                return '(← (%s).mapM (fun %s => do return %s))' % (xs, v, elt)
            return '((%s).map (fun %s => %s))' % (xs, v, elt)
        if isinstance(n, ast.Set):
            # a set display is only ever tested for membership here: a list with the same elements
            return '[' + ', '.join(self.expr(e) for e in n.elts) + ']'
        raise TranslationError('no rule and no pattern for the expression `%s` (%s, line %s)'
                               % (src(n), type(n).__name__, getattr(n, 'lineno', '?')))

    def compare(self, n):
        parts = []
        left = n.left
        for op, right in zip(n.ops, n.comparators):
            one = ast.Compare(left=left, ops=[op], comparators=[right])
            hit = self.try_patterns(one) if len(n.ops) > 1 else None
            if hit is not None:
                parts.append(hit)
            elif isinstance(op, (ast.Is, ast.IsNot)) and isinstance(right, ast.Constant) and right.value is None:
                parts.append('(%s).%s' % (self.expr(left), 'isNone' if isinstance(op, ast.Is) else 'isSome'))
            elif isinstance(op, (ast.Is, ast.IsNot)):
                parts.append('(%sPy.is_ %s %s)' % ('!' if isinstance(op, ast.IsNot) else '', self.expr(left),
                                                  self.expr(right)))
            elif isinstance(op, ast.Eq):
                parts.append('(%s == %s)' % (self.expr(left), self.expr(right)))
            elif isinstance(op, ast.NotEq):
                parts.append('(%s != %s)' % (self.expr(left), self.expr(right)))
            elif isinstance(op, (ast.Lt, ast.LtE, ast.Gt, ast.GtE)):
                sym = {ast.Lt: '<', ast.LtE: '≤', ast.Gt: '>', ast.GtE: '≥'}[type(op)]
                parts.append('(decide (%s %s %s))' % (self.expr(left), sym, self.expr(right)))
            elif isinstance(op, ast.In):
                parts.append('(Py.isIn %s %s)' % (self.expr(left), self.container(right)))
            elif isinstance(op, ast.NotIn):
                parts.append('(!(Py.isIn %s %s))' % (self.expr(left), self.container(right)))
            else:
                raise TranslationError('no rule for the comparison `%s`' % src(one))
            left = right
        return parts[0] if len(parts) == 1 else '(' + ' && '.join(parts) + ')'

    def container(self, n):
        """right operand of `in` / `not in`: a literal tuple `(a, b, c)` is a container, written as a Lean list"""
        if isinstance(n, ast.Tuple) and self.try_patterns(n) is None:
            return '[' + ', '.join(self.expr(e) for e in n.elts) + ']'
        if isinstance(n, ast.Name) and n.id in self.spec.get('dict_names', []):
            return '(Py.keys %s)' % mangle(n.id)
        return self.expr(n)

    def cond(self, n):
        """An expression in a truth-value position: python truthiness through the `Py.Truthy` class."""
        hit = self.try_patterns(n)
        if hit is not None:
            return '(Py.truthy %s)' % (hit if not hit.startswith('←') else '(' + hit + ')')
        if isinstance(n, ast.BoolOp):
            op = ' && ' if isinstance(n.op, ast.And) else ' || '
            parts = [self.cond(v) for v in n.values]
            if any('←' in p for p in parts[1:]):
                # a later operand runs an action (it may raise): python's short circuit must be kept, so the operand is
                # evaluated only on the branch on which python evaluates it
                out = parts[-1]
                for p in reversed(parts[:-1]):
                    if isinstance(n.op, ast.And):
                        out = '(← (do if %s then pure %s else pure false))' % (p, out)
                    else:
                        out = '(← (do if %s then pure true else pure %s))' % (p, out)
                return out
            return '(' + op.join(parts) + ')'
        if isinstance(n, ast.UnaryOp) and isinstance(n.op, ast.Not):
            return '(!%s)' % self.cond(n.operand)
        if isinstance(n, ast.Compare):
            return self.compare(n)
        if isinstance(n, ast.Constant) and isinstance(n.value, bool):
            return 'true' if n.value else 'false'
        return '(Py.truthy %s)' % self.expr(n)

    # ---------------------------------------------------------------- statements
    def emit(self, ind, text):
        self.lines.append('  ' * ind + text)

    def assigned_names(self, stmts):
        """Names assigned (anywhere, excluding nested function bodies) with the number of assigning statements."""
        count = {}

        def targets(t):
            if isinstance(t, ast.Name):
                yield t.id
            elif isinstance(t, (ast.Tuple, ast.List)):
                for e in t.elts:
                    yield from targets(e)

        def walk(body, depth):
            for s in body:
                if isinstance(s, ast.Assign):
                    for t in s.targets:
                        for nm in targets(t):
                            count.setdefault(nm, []).append(depth)
                elif isinstance(s, ast.AugAssign):
                    for nm in targets(s.target):
                        count.setdefault(nm, []).extend([depth, depth])
                elif isinstance(s, ast.For):
                    walk(s.body, depth + 1)
                    walk(s.orelse, depth + 1)
                elif isinstance(s, ast.If) and self.same_assign_branches(s) is not None:
                    for nm in targets(s.body[0].targets[0]):
                        count.setdefault(nm, []).append(depth)
                elif isinstance(s, ast.If) and self.tail_assign_branches(s) is not None:
                    # the tail name is bound once, by the `let T ← (do if …)`; everything else counts as usual
                    nm_ = self.tail_assign_branches(s)
                    before = list(count.get(nm_, []))
                    walk(s.body, depth + 1)
                    walk(s.orelse, depth + 1)
                    count[nm_] = before + [depth]
                elif isinstance(s, (ast.If, ast.While)):
                    walk(s.body, depth + 1)
                    walk(s.orelse, depth + 1)
                elif isinstance(s, ast.Try):
                    walk(s.body, depth + 1)
                    for h in s.handlers:
                        walk(h.body, depth + 1)
                    walk(s.orelse, depth + 1)
                    walk(s.finalbody, depth + 1)
        walk(stmts, 0)
        return count

    def is_skipped_call(self, s):
        if isinstance(s, ast.Expr) and isinstance(s.value, ast.Call):
            return src(s.value.func).startswith(self.skip_prefixes)
        return False

    def same_assign_branches(self, s):
        """`if c: T = X  else: T = Y` with the same target(s) T  ->  (T, X, Y)"""
        if len(s.body) == 1 and len(s.orelse) == 1 and isinstance(s.body[0], ast.Assign) and \
                isinstance(s.orelse[0], ast.Assign) and len(s.body[0].targets) == 1 and \
                len(s.orelse[0].targets) == 1 and \
                ast.dump(s.body[0].targets[0]) == ast.dump(s.orelse[0].targets[0]) and \
                (isinstance(s.body[0].targets[0], ast.Name) or
                 (isinstance(s.body[0].targets[0], (ast.Tuple, ast.List)) and
                  all(isinstance(e, ast.Name) for e in s.body[0].targets[0].elts))):
            # (an attribute / subscript target is a mutation: left to the statement patterns)
            return s.body[0].targets[0], s.body[0].value, s.orelse[0].value
        if len(s.body) == 1 and len(s.orelse) == 1 and isinstance(s.body[0], ast.Assign) and \
                len(s.body[0].targets) == 1 and isinstance(s.orelse[0], ast.If):
            # `if c: T = X  elif d: T = Y  else: T = Z`: the else part is itself such a chain on the same target; its
            # value is the IfExp `Y if d else Z` (translated by the generic rule for conditional expressions)
            inner = self.same_assign_branches(s.orelse[0])
            if inner is not None and ast.dump(inner[0]) == ast.dump(s.body[0].targets[0]):
                return s.body[0].targets[0], s.body[0].value, \
                    ast.IfExp(test=s.orelse[0].test, body=inner[1], orelse=inner[2])
        return None

    def tails(self, blk):
        """names assigned by the LAST statement of a block, looking through if/else and raise; None = other shape"""
        if not blk:
            return None
        last = blk[-1]
        if isinstance(last, ast.Assign) and len(last.targets) == 1 and isinstance(last.targets[0], ast.Name):
            return {last.targets[0].id}
        if isinstance(last, ast.Raise):
            return set()
        if isinstance(last, ast.If) and last.orelse and self.same_assign_branches(last) is None:
            x, y = self.tails(last.body), self.tails(last.orelse)
            return None if x is None or y is None else x | y
        return None

    def non_tail_stores(self, blk, nm):
        """is `nm` assigned in the block anywhere but in tail position"""
        for st in blk[:-1]:
            if any(isinstance(x, ast.Name) and x.id == nm and isinstance(x.ctx, ast.Store) for x in ast.walk(st)):
                return True
        last = blk[-1]
        if isinstance(last, ast.If):
            return self.non_tail_stores(last.body, nm) or self.non_tail_stores(last.orelse, nm)
        return False

    def tail_assign_branches(self, s):
        """spec key `tail_assign`: `if c: …; T = X  else: …; T = Y` (a branch may also end in `raise` or in a nested
        if/else of this shape): every branch ends with an assignment to the same new Name -> its id"""
        if not self.spec.get('tail_assign', False):
            return None
        if self.same_assign_branches(s) is not None or not s.body or not s.orelse:
            return None
        x, y = self.tails(s.body), self.tails(s.orelse)
        if x is None or y is None or len(x | y) != 1:
            return None
        nm = next(iter(x | y))
        if nm in self.declared_before_walk or self.non_tail_stores(s.body, nm) or self.non_tail_stores(s.orelse, nm):
            return None
        return nm

    def value_block(self, blk, ind):
        """a block in value position: its last statement yields the value of the enclosing `let T ← (do …)`"""
        saved = set(self.declared)
        for st in blk[:-1]:
            self.stmt(st, ind)
        last = blk[-1]
        if isinstance(last, ast.Assign):
            rhs = self.expr_or_monadic(last.value)
            self.emit(ind, rhs[1:].strip() if rhs.startswith('←') else 'pure %s' % rhs)
        elif isinstance(last, ast.Raise):
            self.stmt(last, ind)
        else:
            self.emit(ind, 'if %s then' % self.cond(last.test))
            self.value_block(last.body, ind + 1)
            self.emit(ind, 'else')
            self.value_block(last.orelse, ind + 1)
        self.declared = saved

    def monadic_leaves(self, nodes):
        """sub-expressions bound by a monadic pattern, in evaluation (depth-first, field) order"""
        out = []

        def visit(n):
            hit = self.try_patterns(n)
            if hit is not None:
                if hit.startswith('←'):
                    out.append(hit)
                return
            for c in ast.iter_child_nodes(n):
                visit(c)
        for n in nodes:
            visit(n)
        return out

    def same_assign_try(self, s):
        """`try: T = X  except E: T = Y …` with the same single name T everywhere  ->  (T, X, [(names of E, Y)…])"""
        def one(body):
            if len(body) == 1 and isinstance(body[0], ast.Assign) and len(body[0].targets) == 1 and \
                    isinstance(body[0].targets[0], ast.Name):
                return body[0].targets[0], body[0].value
            return None
        b = one(s.body)
        if b is None:
            return None
        hs = []
        for h in s.handlers:
            hb = one(h.body)
            if hb is None or hb[0].id != b[0].id or h.name is not None:
                return None
            if h.type is None:
                names = None
            elif isinstance(h.type, ast.Tuple):
                names = [src(e).split('.')[-1] for e in h.type.elts]
            else:
                names = [src(h.type).split('.')[-1]]
            if names == ['Exception']:
                names = None
            hs.append((names, hb[1]))
        return b[0], b[1], hs

    def target_text(self, t):
        if isinstance(t, ast.Name):
            return mangle(t.id)
        if isinstance(t, (ast.Tuple, ast.List)) and all(isinstance(e, ast.Name) for e in t.elts):
            return '(' + ', '.join(mangle(e.id) for e in t.elts) + ')'
        raise TranslationError('no rule for the assignment target `%s`' % src(t))

    def target_names(self, t):
        return [t.id] if isinstance(t, ast.Name) else [e.id for e in t.elts]

    def assign(self, ind, target, rhs_text, shadow=False):
        names = self.target_names(target)
        monadic = rhs_text.startswith('←')
        rhs = rhs_text[1:].strip() if monadic else rhs_text
        loopvars = {nm for vs, _ in self.loop_vars for nm in vs}
        if shadow:
            # a top-level assignment that is followed by another top-level assignment of the same name: an immutable
            # `let` (the next one shadows it; python may change the type of the value from one to the next)
            self.emit(ind, 'let %s %s %s' % (self.target_text(target), '←' if monadic else ':=', rhs))
            self.declared.update(names)
            self.shadowed.update(names)
            return
        if any(nm in self.shadowed for nm in names):
            self.declared.difference_update(names)
            self.shadowed.difference_update(names)
        if all(nm in self.declared and nm in self.mut for nm in names) and not any(nm in loopvars for nm in names):
            self.emit(ind, '%s %s %s' % (self.target_text(target), '←' if monadic else ':=', rhs))
            return
        mixed = (any(nm in self.declared and nm in self.mut for nm in names)
                 or (any(nm in self.mut for nm in names) and not all(nm in self.mut for nm in names)))
        if len(names) > 1 and (mixed or any(nm in loopvars for nm in names)):
            tmps = ['t%d__' % i for i in range(len(names))]
            self.emit(ind, 'let (%s) %s %s' % (', '.join(tmps), '←' if monadic else ':=', rhs))
            for nm, tmp in zip(names, tmps):
                if nm == '_':
                    continue
                if nm in loopvars:
                    if not any(nm in vs and ind == bi for vs, bi in self.loop_vars):
                        raise TranslationError('assignment to the loop variable `%s` below the top of the loop body' % nm)
                    self.emit(ind, 'let %s := %s' % (mangle(nm), tmp))
                elif nm in self.declared and nm in self.mut:
                    self.emit(ind, '%s := %s' % (mangle(nm), tmp))
                else:
                    self.emit(ind, 'let %s%s := %s' % ('mut ' if nm in self.mut else '', mangle(nm), tmp))
                    self.declared.add(nm)
            return
        if any(nm in self.declared and nm in self.mut for nm in names):
            raise TranslationError('tuple assignment mixes new and mutable names: ' + ', '.join(names))
        mut = 'mut ' if any(nm in self.mut for nm in names) else ''
        if mut and not all(nm in self.mut for nm in names):
            raise TranslationError('tuple assignment mixes mutable and immutable names: ' + ', '.join(names))
        ann = ''
        if isinstance(target, ast.Name) and target.id in self.spec.get('var_types', {}):
            ann = ' : ' + self.spec['var_types'][target.id]
        self.emit(ind, 'let %s%s%s %s %s' % (mut, self.target_text(target), ann, '←' if monadic else ':=', rhs))
        self.declared.update(names)

    def stmts(self, body, ind):
        n_before = len(self.lines)
        for s in body:
            self.stmt(s, ind)
        if len(self.lines) == n_before:
            self.emit(ind, 'pure ()')

    def stmt(self, s, ind):
        for pat, tmpl in self.spats:
            binds = {}
            if match(pat, s, binds):
                for line in self.fill(tmpl, binds).split('\n'):
                    if line.strip():
                        self.emit(ind, line)
                return
        if isinstance(s, ast.Expr) and isinstance(s.value, ast.Constant) and isinstance(s.value.value, str):
            return                                            # docstring
        if self.is_skipped_call(s):
            return                                            # logging
        if isinstance(s, ast.Pass):
            return
        if isinstance(s, ast.FunctionDef) and s.name in self.spec.get('skip_defs', []):
            return                                            # translated as a function of its own
        if isinstance(s, ast.FunctionDef):
            core = [b for b in s.body if not (isinstance(b, ast.Expr) and isinstance(b.value, ast.Constant))]
            if self.spec.get('skip_isinstance_asserts', True):
                core = [b for b in core if not (isinstance(b, ast.Assert) and isinstance(b.test, ast.Call)
                                                and src(b.test.func) == 'isinstance')]
            if not (core and isinstance(core[-1], ast.Return) and
                    all(isinstance(b, ast.Assign) and len(b.targets) == 1 and isinstance(b.targets[0], ast.Name)
                        for b in core[:-1])):
                raise TranslationError('nested function `%s` is not a single return' % s.name)
            args = ' '.join(mangle(a.arg) for a in s.args.args)
            self.spec.setdefault('local_functions', []).append(s.name)
            ann = self.spec.get('local_function_types', {}).get(s.name)
            if len(core) == 1:
                self.emit(ind, 'let %s%s := fun %s => %s' % (mangle(s.name), ' : ' + ann if ann else '', args,
                                                             self.expr(core[-1].value)))
                return
            # pure local assignments before the single return become `let`s of the local `fun`
            self.emit(ind, 'let %s%s := fun %s =>' % (mangle(s.name), ' : ' + ann if ann else '', args))
            for b in core[:-1]:
                self.emit(ind + 2, 'let %s := %s' % (mangle(b.targets[0].id), self.expr(b.value)))
            self.emit(ind + 2, self.expr(core[-1].value))
            return
        if isinstance(s, ast.Assign):
            if len(s.targets) != 1:
                # chained assignment `a = b = X`: X is evaluated once, then assigned to the targets from left to right
                rhs = self.expr_or_monadic(s.value)
                self.chain_count = getattr(self, 'chain_count', 0) + 1
                tmp = 'chain%d__' % self.chain_count
                if rhs.startswith('←'):
                    self.emit(ind, 'let %s ← %s' % (tmp, rhs[1:].strip()))
                else:
                    self.emit(ind, 'let %s := %s' % (tmp, rhs))
                for t in s.targets:
                    self.assign(ind, t, tmp)
                return
            t = s.targets[0]
            if isinstance(t, ast.Subscript) and isinstance(t.value, ast.Name) and \
                    t.value.id in self.spec.get('dict_names', []):
                d = mangle(t.value.id)
                if t.value.id not in self.declared or t.value.id not in self.mut:
                    raise TranslationError('item assignment on an undeclared / immutable name: ' + src(s))
                self.emit(ind, '%s := Py.setItem %s %s %s' % (d, d, self.expr(t.slice), self.expr(s.value)))
                return
            self.assign(ind, t, self.expr_or_monadic(s.value), shadow=id(s) in self.shadow_ok)
            return
        if isinstance(s, ast.AugAssign) and isinstance(s.target, ast.Name) and \
                isinstance(s.op, (ast.Add, ast.Sub, ast.Mult)):
            op = {ast.Add: '+', ast.Sub: '-', ast.Mult: '*'}[type(s.op)]
            nm = s.target.id
            if nm not in self.declared or nm not in self.mut:
                raise TranslationError('augmented assignment to an undeclared / immutable name: ' + src(s))
            self.emit(ind, '%s := %s %s %s' % (mangle(nm), mangle(nm), op, self.expr(s.value)))
            return
        if isinstance(s, ast.If):
            same = self.same_assign_branches(s)
            if same is not None:
                t, x, y = same
                xa, ya = self.expr_or_monadic(x), self.expr_or_monadic(y)
                if xa.startswith('←') or ya.startswith('←'):
                    # a monadic leaf in a branch: only the chosen branch is run  ->  let T ← (if c then A else B)
                    xa, ya = [z[1:].strip() if z.startswith('←') else 'pure ' + z for z in (xa, ya)]
                    # (a leaf nested inside the branch's action needs a `do` of its own: it stays in that branch)
                    xa, ya = ['do ' + z if '(←' in z else z for z in (xa, ya)]
                    self.assign(ind, t, '← (if %s then (%s) else (%s))' % (self.cond(s.test), xa, ya))
                    return
                if '(←' in xa or '(←' in ya:
                    # a monadic leaf nested inside a branch expression
                    self.assign(ind, t, '← (if %s then (do pure %s) else (do pure %s))' % (self.cond(s.test), xa, ya))
                    return
                self.assign(ind, t, '(if %s then %s else %s)' % (self.cond(s.test), xa, ya))
                return
            tail = self.tail_assign_branches(s)
            if tail is not None and tail not in self.declared and tail not in self.mut:
                self.emit(ind, 'let %s ← (do' % mangle(tail))
                self.emit(ind + 1, 'if %s then' % self.cond(s.test))
                self.value_block(s.body, ind + 2)
                self.emit(ind + 1, 'else')
                self.value_block(s.orelse, ind + 2)
                self.lines[-1] += ')'
                self.declared.add(tail)
                return
            if isinstance(s.test, ast.BoolOp) and isinstance(s.test.op, ast.And) and not s.orelse and \
                    self.spec.get('and_style', 'nested-if') == 'nested-if' and '(←' in self.cond(s.test):
                inner = s
                for v in reversed(s.test.values):
                    inner = ast.If(test=v, body=[inner] if inner is not s else s.body, orelse=[])
                self.stmt(inner, ind)
                return
            self.emit(ind, 'if %s then' % self.cond(s.test))
            saved = set(self.declared)
            self.stmts(s.body, ind + 1)
            self.declared = set(saved) | {n for n in self.declared if n in self.mut and n in saved}
            if s.orelse:
                if len(s.orelse) == 1 and isinstance(s.orelse[0], ast.If) and self.same_assign_branches(s.orelse[0]) is None \
                        and not any(match(p, s.orelse[0], {}) for p, _ in self.spats):
                    # elif
                    mark = len(self.lines)
                    self.stmt(s.orelse[0], ind)
                    self.lines[mark] = '  ' * ind + 'else ' + self.lines[mark].strip()
                else:
                    self.emit(ind, 'else')
                    self.stmts(s.orelse, ind + 1)
            self.declared = saved
            return
        if isinstance(s, ast.Return):
            val = self.expr_or_monadic(s.value, inline=True) if s.value is not None else '()'
            if self.spec.get('returns_state'):
                val = '(' + ', '.join([val] + [mangle(x) for x in self.spec['returns_state']]) + ')'
            self.emit(ind, 'return %s' % val)
            return
        if isinstance(s, ast.Raise):
            exc = s.exc
            if exc is None:
                self.emit(ind, 'throw e__')
                return
            name = src(exc.func) if isinstance(exc, ast.Call) else src(exc) if exc is not None else 'reraise'
            if self.spec.get('raise_evaluates', False) and isinstance(exc, ast.Call):
                for sub in self.monadic_leaves(exc.args):
                    self.emit(ind, 'let _ %s' % sub)
            self.emit(ind, 'throw (PyErr.mk %s)' % lean_str(name.split('.')[-1]))
            return
        if isinstance(s, ast.Assert):
            if self.spec.get('skip_isinstance_asserts', True) and isinstance(s.test, ast.Call) and \
                    src(s.test.func) == 'isinstance':
                return
            self.emit(ind, 'if !%s then' % self.cond(s.test))
            self.emit(ind + 1, 'throw (PyErr.mk "AssertionError")')
            return
        if isinstance(s, ast.For) and not s.orelse:
            self.emit(ind, 'for %s in %s do' % (self.target_text(s.target), self.expr(s.iter)))
            saved = set(self.declared)
            self.declared.update(self.target_names(s.target))
            self.for_depth += 1
            self.loop_vars.append((self.target_names(s.target), ind + 1))
            self.stmts(s.body, ind + 1)
            self.loop_vars.pop()
            self.for_depth -= 1
            self.declared = saved
            return
        if isinstance(s, (ast.Continue, ast.Break)) and self.for_depth > 0:
            self.emit(ind, 'continue' if isinstance(s, ast.Continue) else 'break')
            return
        if isinstance(s, ast.Continue) and 'loop_state' in self.spec:
            self.emit(ind, 'return %s' % self.state_tuple())
            return
        if isinstance(s, ast.Try) and not s.finalbody and not s.orelse and s.handlers and \
                self.same_assign_try(s) is not None:
            # try: T = X  except E: T = Y   ->   let T ← tryCatch X' (fun e__ => if e__.cls == "E" then pure Y else throw e__)
            t, x, hs = self.same_assign_try(s)
            xt = self.expr_or_monadic(x)
            xt = xt[1:].strip() if xt.startswith('←') else 'pure %s' % xt
            alt = 'throw e__'
            for names, y in reversed(hs):
                yt = self.expr_or_monadic(y)
                yt = yt[1:].strip() if yt.startswith('←') else 'pure %s' % yt
                test = 'true' if names is None else '(' + ' || '.join('e__.cls == %s' % lean_str(n) for n in names) + ')'
                alt = 'if %s then %s else %s' % (test, yt, alt)
            if '←' in xt or '←' in alt:
                raise TranslationError('nested monadic leaf inside try/except assignment: ' + src(s).split('\n')[0])
            self.assign(ind, t, '← tryCatch (%s) (fun e__ => %s)' % (xt, alt))
            return
        if isinstance(s, ast.Try) and not s.finalbody and not s.orelse and s.handlers:
            # try: body  except E [as e]: handler   ->   try body catch e__ => if e__.cls == "E" then handler else throw e__
            single = self.try_single_assign(s)
            saved = set(self.declared)
            if single is not None:
                # the handlers must not fall through (they return or raise): the name is bound by the `try` itself
                nm = single.targets[0].id
                rhs = self.expr_or_monadic(single.value)
                kw = 'let ' if (id(s) in self.shadow_ok or nm not in self.mut or nm not in self.declared
                                or nm in self.shadowed) else ''
                mut = 'mut ' if kw and nm in self.mut and id(s) not in self.shadow_ok else ''
                self.emit(ind, '%s%s%s ← try' % (kw, mut, mangle(nm)))
                self.emit(ind + 1, rhs[1:].strip() if rhs.startswith('←') else 'pure %s' % rhs)
                saved.add(nm)
                if id(s) in self.shadow_ok:
                    self.shadowed.add(nm)
                else:
                    self.shadowed.discard(nm)
            else:
                self.emit(ind, 'try')
                self.stmts(s.body, ind + 1)
            self.declared = set(saved)
            self.emit(ind, 'catch e__ =>')
            first = True
            for h in s.handlers:
                if h.type is None:
                    names = None
                elif isinstance(h.type, ast.Tuple):
                    names = [src(e).split('.')[-1] for e in h.type.elts]
                else:
                    names = [src(h.type).split('.')[-1]]
                if names is None or names == ['Exception']:
                    test = 'true'
                else:
                    test = '(' + ' || '.join('e__.cls == %s' % lean_str(x) for x in names) + ')'
                self.emit(ind + 1, '%s %s then' % ('if' if first else 'else if', test))
                self.stmts(h.body, ind + 2)
                self.declared = set(saved)
                first = False
            self.emit(ind + 1, 'else')
            self.emit(ind + 2, 'throw e__')
            return
        if isinstance(s, ast.While) and not s.orelse and isinstance(self.spec.get('while_fuel'), str) \
                and 'while_body' not in self.spec:
            names = list(self.assigned_names(s.body))
            if not names or not all(nm in self.declared and nm in self.mut for nm in names):
                raise TranslationError('while loop assigns names that are not declared before it: ' + ', '.join(names))
            tup = mangle(names[0]) if len(names) == 1 else '(' + ', '.join(mangle(nm) for nm in names) + ')'
            self.emit(ind, '%s ← Py.whileUpTo %s (fun %s => %s) (fun %s => do' % (tup, self.spec['while_fuel'], tup,
                                                                                self.cond(s.test), tup))
            for nm in names:
                self.emit(ind + 1, 'let mut %s := %s' % (mangle(nm), mangle(nm)))
            saved, depth = set(self.declared), self.for_depth
            self.for_depth = 0
            self.stmts(s.body, ind + 1)
            self.for_depth = depth
            self.declared = saved
            self.emit(ind + 1, 'return %s) %s' % (tup, tup))
            return
        if isinstance(s, ast.While) and not s.orelse and isinstance(self.spec.get('while_fuel'), list):
            k = getattr(self, 'while_seen', 0)
            self.while_seen = k + 1
            if k >= len(self.spec['while_fuel']):
                raise TranslationError('no fuel expression for the while loop number %d' % k)
            for sub in s.body:
                for x in ast.walk(sub):
                    if isinstance(x, (ast.Return, ast.Break, ast.Continue)):
                        raise TranslationError('return / break / continue inside a fuelled while loop: ' + src(s.test))
            names = [nm for nm in self.assigned_names(s.body) if nm in self.declared]
            if not names or not all(nm in self.mut for nm in names):
                raise TranslationError('while loop without (mutable) loop variables: ' + src(s.test))
            tup = mangle(names[0]) if len(names) == 1 else '(' + ', '.join(mangle(x) for x in names) + ')'
            self.emit(ind, '%s ← Py.whileFuel (%s) %s (fun %s => do return %s) (fun %s => do'
                      % (tup, self.spec['while_fuel'][k], tup, tup, self.cond(s.test), tup))
            for nm in names:
                self.emit(ind + 1, 'let mut %s := %s' % (mangle(nm), mangle(nm)))
            saved = set(self.declared)
            for sub in s.body:
                self.stmt(sub, ind + 1)
            self.declared = saved
            self.emit(ind + 1, 'return %s)' % tup)
            return
        raise TranslationError('no rule and no pattern for the statement `%s` (%s, line %s)'
                               % (src(s).split('\n')[0], type(s).__name__, getattr(s, 'lineno', '?')))

    def try_single_assign(self, s):
        """`try: NAME = E  except …:` -> the Assign"""
        if isinstance(s, ast.Try) and len(s.body) == 1 and isinstance(s.body[0], ast.Assign) and \
                len(s.body[0].targets) == 1 and isinstance(s.body[0].targets[0], ast.Name):
            return s.body[0]
        return None

    def shadowable(self, body):
        """ids of the top-level assignment statements (`x = …`, or `try: x = …`) of a name whose NEXT assignment is
        again at top level: these may be immutable `let`s, the next one shadows them."""
        events = {}

        def walk(stmts, depth):
            for s in stmts:
                single = self.try_single_assign(s)
                if isinstance(s, ast.Assign) and len(s.targets) == 1 and isinstance(s.targets[0], ast.Name):
                    events.setdefault(s.targets[0].id, []).append((depth, s))
                elif single is not None:
                    events.setdefault(single.targets[0].id, []).append((depth, s))
                    for h in s.handlers:
                        walk(h.body, depth + 1)
                elif isinstance(s, (ast.Assign, ast.AugAssign)):
                    for t in ast.walk(s.targets[0] if isinstance(s, ast.Assign) else s.target):
                        if isinstance(t, ast.Name):
                            events.setdefault(t.id, []).append((depth + 1, s))
                elif isinstance(s, (ast.If, ast.For, ast.While)):
                    walk(s.body, depth + 1)
                    walk(s.orelse, depth + 1)
                elif isinstance(s, ast.Try):
                    walk(s.body, depth + 1)
                    for h in s.handlers:
                        walk(h.body, depth + 1)
        walk(body, 0)
        ok = set()
        for nm, evs in events.items():
            for (d1, s1), (d2, _) in zip(evs, evs[1:]):
                if d1 == 0 and d2 == 0:
                    ok.add(id(s1))
        return ok

    def expr_or_monadic(self, n, inline=False):
        hit = self.try_patterns(n)
        if hit is not None and hit.startswith('←'):
            return '(' + hit + ')' if inline else hit
        if hit is None and isinstance(n, ast.ListComp) and len(n.generators) == 1 and not n.generators[0].ifs and \
                isinstance(n.generators[0].target, ast.Name):
            elt = self.try_patterns(n.elt)
            if elt is not None and elt.startswith('←'):
                g = n.generators[0]
                text = '← (%s).mapM (fun %s => %s)' % (self.expr(g.iter), mangle(g.target.id), elt[1:].strip())
                return '(' + text + ')' if inline else text
        return self.expr(n)

    def state_tuple(self):
        st = [mangle(x) for x in self.spec['loop_state']]
        return st[0] if len(st) == 1 else '(' + ', '.join(st) + ')'

    # ---------------------------------------------------------------- whole function
    def translate(self):
        body = list(self.node.body)
        if 'while_body' in self.spec:
            loops = [s for s in ast.walk(self.node) if isinstance(s, ast.While)]
            loop = loops[self.spec['while_body']]
            body = list(loop.body)
            self.loop_test = loop.test
        if 'before_while' in self.spec:
            loops = [s for s in self.node.body if isinstance(s, ast.While)]
            loop = loops[self.spec['before_while']]
            body = body[:body.index(loop)]
        if 'for_body' in self.spec:
            # the body of the k-th `for` statement as a step function over `loop_state` (like `while_body`)
            loops = [s for s in ast.walk(self.node) if isinstance(s, ast.For)]
            loop = loops[self.spec['for_body']]
            body = list(loop.body)
            self.declared.update(self.target_names(loop.target))
        counts = self.assigned_names(body)
        for nm, depths in counts.items():
            if len(depths) > 1:
                self.mut.add(nm)
        params = self.spec.get('params')
        if params is None:
            params = [a.arg for a in self.node.args.args]
        self.declared.update(params)
        self.declared.update(self.spec.get('free', []))
        if self.spec.get('retyped_names'):
            self.shadow_ok = self.shadowable(body)
        explicit = list(self.spec.get('loop_state', [])) + list(self.spec.get('mutable_params', []))
        for nm in params:
            # a parameter that the body assigns to (`units = self.units.get_unit(units)`), or that the spec lists as
            # `mutable` (re-assigned by a statement pattern), is re-bound as a mutable local
            if (nm in counts or nm in self.spec.get('mutable', [])) and nm not in explicit \
                    and nm not in self.spec.get('immutable_params', []) \
                    and nm not in self.spec.get('state', []) and 'while_body' not in self.spec \
                    and 'for_body' not in self.spec:
                self.emit(1, 'let mut %s := %s' % (mangle(nm), mangle(nm)))
                self.mut.add(nm)
        for nm in explicit:
            self.emit(1, 'let mut %s := %s' % (mangle(nm), mangle(nm)))
            self.mut.add(nm)
            self.declared.add(nm)
        for nm in self.spec.get('state', []):
            self.emit(1, 'let mut %s := %s' % (mangle(nm), mangle(nm)))
            self.mut.add(nm)
            self.declared.add(nm)
        for nm, init in self.spec.get('locals_init', {}).items():
            self.emit(1, 'let mut %s : %s' % (mangle(nm), init))
            self.mut.add(nm)
            self.declared.add(nm)
        for nm, ty, init in self.spec.get('predeclare', []):
            # a variable first assigned inside a `try` / `if` block and read after it: Lean needs it declared outside
            self.emit(1, 'let mut %s : %s := %s' % (mangle(nm), ty, init))
            self.mut.add(nm)
            self.declared.add(nm)
        self.stmts(body, 1)
        if 'loop_state' in self.spec:
            self.emit(1, 'return %s' % self.state_tuple())
        elif 'before_while' in self.spec:
            res = [mangle(x) for x in self.spec['result']]
            self.emit(1, 'return %s' % (res[0] if len(res) == 1 else '(' + ', '.join(res) + ')'))
        elif self.spec.get('falls_through_none', False):
            self.emit(1, 'return none')
        elif 'returns' in self.spec:
            self.emit(1, 'return %s' % self.spec['returns'])
        elif 'final_return' in self.spec:
            # a function that returns None and works by mutating objects: the threaded state is its result
            self.emit(1, 'return %s' % self.spec['final_return'])
        sig = self.spec['signature']
        head = 'def %s %s := do' % (self.spec['lean_name'], sig)
        out = [head] + self.lines
        if self.spec.get('emit_params'):
            a = self.node.args
            pos = [x.arg for x in a.posonlyargs + a.args if x.arg != 'self']
            out += ['', '/-- positional parameters of `%s`: (required, all, defaults) -/' % self.node.name,
                    'def %s_params : Nat × Nat × List String := (%d, %d, [%s])'
                    % (self.spec['lean_name'], len(pos) - len(a.defaults), len(pos),
                       ', '.join(lean_str(src(d)) for d in a.defaults))]
        if self.spec.get('emit_defaults'):
            a = self.node.args
            for arg, dflt in zip(a.args[len(a.args) - len(a.defaults):], a.defaults):
                if arg.arg not in self.spec['emit_defaults']:
                    continue
                out += ['', 'def %s_default_%s := %s' % (self.spec['lean_name'], arg.arg, self.expr(dflt))]
        if 'while_body' in self.spec and self.spec.get('emit_loop_test'):
            t = Fn(dict(self.spec, stmt_patterns=[]), self.node)
            out += ['', 'def %s_test %s :=' % (self.spec['lean_name'], self.spec['emit_loop_test']),
                    '  ' + t.cond(self.loop_test)]
        return '\n'.join(out)


def find_function(tree, qual):
    parts = qual.split('.')
    body = tree.body
    node = None
    for p in parts:
        for s in body:
            if isinstance(s, (ast.FunctionDef, ast.ClassDef)) and s.name == p:
                node = s
                body = s.body
                break
        else:
            # nested inside for / if / with blocks of the parent: search in depth, source order
            if node is None:
                return None
            found = [x for x in ast.walk(node) if isinstance(x, (ast.FunctionDef, ast.ClassDef)) and x.name == p
                     and x is not node]
            if not found:
                return None
            node = min(found, key=lambda x: x.lineno)
            body = node.body
    return node


def fn_class(spec):
    """The translator class for one function: `Fn`, or the subclass named by the spec key
    `'fn_class': 'module:ClassName'` (module under harness/translate_ext/). Extensions ADD rules by overriding
    `expr` / `cond` / `stmt` and deferring to `super()`; the shared translator itself stays untouched, so the output for
    every other group is unchanged by construction."""
    ref = spec.get('fn_class')
    if not ref:
        return Fn
    import importlib
    modname, clsname = ref.split(':')
    sys.path.insert(0, HERE)
    return getattr(importlib.import_module('translate_ext.' + modname), clsname)


def translate_group(group):
    """One output file: several functions translated into one Lean module."""
    name = group['name']
    parts = ['/- GENERATED by harness/translate_code.py from the source text of /repo - do not edit.',
             '   Sources: ' + ', '.join('%s:%s' % (f['file'], f['func']) for f in group['functions']) + ' -/']
    parts += ['import %s' % m for m in group.get('imports', ['Cellml.Tie.Prelude'])]
    parts += ['', 'set_option linter.unusedVariables false', '', 'namespace Cellml.Gen.%s' % name,
              'open Cellml.Tie', group.get('header', ''), '']
    errors = []
    for f in group['functions']:
        try:
            text = open(os.path.join(REPO, f['file'])).read()
            tree = ast.parse(text)
            node = find_function(tree, f['func'])
            if node is None:
                raise TranslationError('function %s not found in %s' % (f['func'], f['file']))
            spec = copy.deepcopy(f)
            spec.setdefault('patterns', [])
            spec['patterns'] = spec['patterns'] + group.get('patterns', [])
            spec['stmt_patterns'] = spec.get('stmt_patterns', []) + group.get('stmt_patterns', [])
            body = fn_class(spec)(spec, node).translate()
            parts.append('/-- %s:%s (line %d) -/' % (f['file'], f['func'], node.lineno))
            parts.append(body)
            parts.append('')
        except Exception as e:     # also the error class of an extension module (translate_ext/*), whatever it is
            errors.append('%s:%s: %s' % (f['file'], f['func'], e))
            # an untranslatable function leaves a definition out: the tie theorem that names it fails to compile
            parts.append('-- TRANSLATION FAILED for %s:%s: %s' % (f['file'], f['func'], str(e).replace('\n', ' ')))
            parts.append('')
    parts.append('end Cellml.Gen.%s' % name)
    os.makedirs(OUTDIR, exist_ok=True)
    path = os.path.join(OUTDIR, name + '.lean')
    new = '\n'.join(parts) + '\n'
    try:
        old = open(path).read()
    except OSError:
        old = None
    if old != new:
        with open(path, 'w') as fh:
            fh.write(new)
    return errors


def main():
    sys.path.insert(0, HERE)
    import code_specs
    only = set(sys.argv[1:])
    errors = []
    for g in code_specs.GROUPS:
        if only and g['name'] not in only:
            continue
        errors += translate_group(g)
    for e in errors:
        print('TRANSLATION ERROR: ' + e)
    print('translated %d code groups, %d errors' % (len([g for g in code_specs.GROUPS if not only or g['name'] in only]),
                                                    len(errors)))
    return 0            # errors surface as Lean build failures of the tie theorems, handled by the check protocol


if __name__ == '__main__':
    sys.exit(main())
