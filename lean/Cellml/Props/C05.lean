import Cellml.Expr.Semantics
import Cellml.Expr.ConvertLemmas

/-! # C05 — converting an expression to other units preserves its physical value

    Model: `Convert.convert` (`UnitCalculator.convert_expression_recursively`, units.py 664-806, branch by branch) over
    the mini-pint of C07. Semantics: `Sem.evalNum` (plain arithmetic on magnitudes) and `Sem.evalPhys` (the physical
    quantity denoted) over ANY ordered field with an interpretation `Sem.Interp` of scales, rational powers and
    functions whose laws are hypotheses (fields of the structure). Every theorem quantifies over all registries, all
    variable environments, all expressions (induction on the expression; no bound on size or depth), all targets
    (or none), all valuations of variables and derivatives. The tie to cellmlmanip is `harness/props/c05.py`. -/

namespace Cellml.Props.C05
open Units Infer Convert Sem PMap

variable {K : Type} [Field K] [LinearOrder K] [IsStrictOrderedRing K]

/-- registry with `mV = 10⁻³ volt` on top of the built-in units -/
def regMV : Registry := ("mV", .derived (pow10 (-3)) [("volt", 1)]) :: builtinRegistry

/-! ## 1. `maybe_convert_expr` -/

/-- what `maybe_convert_expr` can return -/
theorem maybeConv_spec {reg : Registry} {ex : E} {wc : Bool} {frm : Container} {tgt : Option Container} {same : Bool}
    {r : CR} (h : maybeConv reg ex wc frm tgt same = .ok r) :
    (tgt = none ∧ r = ⟨ex, wc, frm, same⟩) ∨
    (∃ t, tgt = some t ∧ factor reg frm t = .ok [] ∧ r = ⟨ex, wc, t, same⟩) ∨
    (∃ t f, tgt = some t ∧ factor reg frm t = .ok f ∧ f ≠ [] ∧ f ≃ sub (toRoot reg frm).1 (toRoot reg t).1 ∧
        r = ⟨.mul (.cf f (divC t frm)) ex, true, t, false⟩) := by
  rcases Convert.maybeConv_spec h with h1 | h2 | ⟨t, f, ht, hf, hne, hr⟩
  · exact Or.inl h1
  · exact Or.inr (Or.inl h2)
  · exact Or.inr (Or.inr ⟨t, f, ht, hf, hne, Cellml.Props.C07.factor_ratio reg frm t f hf, hr⟩)

/-- between known units `maybe_convert_expr` raises UnitConversionError exactly when the dimensions differ -/
theorem maybeConv_cannotConvert_iff {reg : Registry} {ex : E} {wc : Bool} {frm t : Container} {same : Bool}
    (hk : allKnown reg frm = true) (hk' : allKnown reg t = true) :
    maybeConv reg ex wc frm (some t) same = .error .cannotConvert ↔ ¬ dimsOf reg frm ≃ dimsOf reg t :=
  Convert.maybeConv_cannotConvert_iff hk hk'

/-- `maybe_convert_expr` preserves the physical value: magnitude × SI scale of the unit is unchanged, and so is the
    dimension -/
theorem maybeConv_value (I : Interp K) (ρ : Nat → K) (δ : Nat → Nat → K) {reg : Registry} {ex : E} {wc : Bool}
    {frm : Container} {tgt : Option Container} {same : Bool} {r : CR}
    (h : maybeConv reg ex wc frm tgt same = .ok r) :
    evalNum I ρ δ r.e * I.φ (scaleOf reg r.u) = evalNum I ρ δ ex * I.φ (scaleOf reg frm) ∧
    dimsOf reg r.u ≃ dimsOf reg frm := by
  rcases maybeConv_spec h with ⟨_, rfl⟩ | ⟨t, _, hf, rfl⟩ | ⟨t, f, _, hf, _, hrat, rfl⟩
  · exact ⟨rfl, PMap.Equiv.refl _⟩
  · have hrat := Cellml.Props.C07.factor_ratio reg frm t [] hf
    refine ⟨?_, (Cellml.Props.C07.factor_ok_same_dims reg frm t [] hf).symm⟩
    simp only
    rw [φ_scaleOf, φ_scaleOf, I.φ_eq_of_sub_nil hrat.symm]
  · refine ⟨?_, (Cellml.Props.C07.factor_ok_same_dims reg frm t f hf).symm⟩
    simp only [evalNum]
    rw [φ_scaleOf, φ_scaleOf, I.φ_congr hrat, I.φ_sub]
    have := I.φ_ne (toRoot reg t).1
    field_simp

/-! ## 2. with an explicit target the result is in the target unit -/

/-- every construct returns the target itself; those that can only be dimensionless (relations, functions, `And`/`Or`/
    `Not`, numbers) return `dimensionless` and accept no other target, so `actual_units == to_units` in every case -/
theorem convert_target {reg : Registry} {Γ : VarEnv} {ex : E} {t : Container} {r : CR}
    (h : convert reg Γ ex (some t) = .ok r) : r.u = t := Convert.convert_target ex t r h

theorem convert_target_root {reg : Registry} {Γ : VarEnv} {ex : E} {t : Container} {r : CR}
    (h : convert reg Γ ex (some t) = .ok r) : Units.toRoot reg r.u ≃₂ Units.toRoot reg t := by
  rw [convert_target h]; exact Equiv₂.refl _

/-- the dimensionless-only constructs -/
theorem convert_target_dimless {reg : Registry} {Γ : VarEnv} {ex : E} {t : Container} {r : CR}
    (hex : (∃ rr a b, ex = .rel rr a b) ∨ (∃ f a, ex = .fn1 f a) ∨ (∃ f a b, ex = .fnN f a b) ∨
           (∃ a b, ex = .and a b) ∨ (∃ a b, ex = .or a b) ∨ (∃ a, ex = .not a) ∨ isNumLeaf ex = true)
    (h : convert reg Γ ex (some t) = .ok r) : r.u = [] ∧ t = [] := by
  have ht : t = [] := by
    rcases hex with ⟨rr, a, b, rfl⟩ | ⟨f, a, rfl⟩ | ⟨f, a, b, rfl⟩ | ⟨a, b, rfl⟩ | ⟨a, b, rfl⟩ | ⟨a, rfl⟩ | hl
    · exact dimlessTarget_some (convert_rel_inv h).1
    · exact dimlessTarget_some (convert_fn1_inv h).1
    · exact dimlessTarget_some (convert_fnN_inv h).1
    · exact dimlessTarget_some (convert_and_inv h).1
    · exact dimlessTarget_some (convert_or_inv h).1
    · exact dimlessTarget_some (convert_not_inv h).1
    · exact dimlessTarget_some (convert_numLeaf_inv hl h).1
  exact ⟨(convert_target h).trans ht, ht⟩

/-! ## 3. (a) the physical value is preserved -/

section value
variable (I : Interp K) (reg : Registry) (Γ : VarEnv) (ρ : Nat → K) (δ : Nat → Nat → K)

/-- arithmetic clause: the converted expression, read as plain numbers in the reported unit, IS the physical value -/
def SoundA (ex : E) : Prop :=
  ∀ (tgt : Option Container) (r : CR) (x : K) (d : Dims), convert reg Γ ex tgt = .ok r →
    evalPhys I reg Γ ρ δ ex = some (x, d) →
    evalNum I ρ δ r.e * I.φ (scaleOf reg r.u) = x ∧ dimsOf reg r.u ≃ d

/-- boolean clause: a converted condition has the truth value of the physical comparison -/
def SoundB (ex : E) : Prop :=
  ∀ (tgt : Option Container) (r : CR) (p : Bool), convert reg Γ ex tgt = .ok r →
    physB I reg Γ ρ δ ex = some p → evalB I ρ δ r.e = p

variable {I reg Γ ρ δ}

theorem sound_leaf {ex : E} {frm : Container} {x : K} {d : Dims}
    (hx : evalNum I ρ δ ex * I.φ (scaleOf reg frm) = x) (hd : dimsOf reg frm ≃ d)
    {tgt : Option Container} {r : CR} (h : maybeConv reg ex false frm tgt true = .ok r) :
    evalNum I ρ δ r.e * I.φ (scaleOf reg r.u) = x ∧ dimsOf reg r.u ≃ d := by
  obtain ⟨h1, h2⟩ := maybeConv_value I ρ δ h
  exact ⟨h1.trans hx, h2.trans hd⟩

theorem sound_qty (v : Rat) (u : Container) : SoundA I reg Γ ρ δ (.qty v u) := by
  intro tgt r x d h hp
  simp only [Convert.convert] at h
  simp only [evalPhys, Option.some.injEq, Prod.mk.injEq] at hp
  obtain ⟨rfl, rfl⟩ := hp
  exact sound_leaf (by simp only [evalNum]) (PMap.Equiv.refl _) h

theorem sound_cf (s : Scale) (u : Container) : SoundA I reg Γ ρ δ (.cf s u) := by
  intro tgt r x d h hp
  simp only [Convert.convert] at h
  simp only [evalPhys, Option.some.injEq, Prod.mk.injEq] at hp
  obtain ⟨rfl, rfl⟩ := hp
  exact sound_leaf (by simp only [evalNum]) (PMap.Equiv.refl _) h

theorem sound_var (i : Nat) : SoundA I reg Γ ρ δ (.var i) := by
  intro tgt r x d h hp
  obtain ⟨vi, hvi, h'⟩ := convert_var_inv h
  simp only [evalPhys, hvi, Option.some.injEq, Prod.mk.injEq] at hp
  obtain ⟨rfl, rfl⟩ := hp
  exact sound_leaf (by simp only [evalNum]) (PMap.Equiv.refl _) h'

theorem sound_deriv (v t : Nat) : SoundA I reg Γ ρ δ (.deriv v t) := by
  intro tgt r x d h hp
  obtain ⟨vv, vt, hvv, hvt, h'⟩ := convert_deriv_inv h
  simp only [evalPhys, hvv, hvt, Option.some.injEq, Prod.mk.injEq] at hp
  obtain ⟨rfl, rfl⟩ := hp
  exact sound_leaf (by simp only [evalNum, φ_scaleOf_divC]) (dimsOf_divC reg _ _) h'

theorem sound_numLeaf {ex : E} (hl : isNumLeaf ex = true)
    (hp' : ∀ y d, evalPhys I reg Γ ρ δ ex = some (y, d) → y = evalNum I ρ δ ex ∧ d = []) :
    SoundA I reg Γ ρ δ ex := by
  intro tgt r x d h hp
  obtain ⟨_, rfl⟩ := convert_numLeaf_inv hl h
  obtain ⟨rfl, rfl⟩ := hp' x d hp
  exact ⟨by simp only [φ_scaleOf_nil, mul_one], dimsOf_nil reg⟩

theorem sound_mul {a b : E} (iha : SoundA I reg Γ ρ δ a) (ihb : SoundA I reg Γ ρ δ b) :
    SoundA I reg Γ ρ δ (.mul a b) := by
  intro tgt r z dz h hp
  obtain ⟨ra, rb, hra, hrb, h'⟩ := convert_mul_inv h
  rw [rebuild2 (mk := E.mul) (convert_ident hra).2 (convert_ident hrb).2] at h'
  simp only [evalPhys] at hp
  split at hp
  · rename_i x d y d' hpa hpb
    simp only [Option.some.injEq, Prod.mk.injEq] at hp
    obtain ⟨rfl, rfl⟩ := hp
    obtain ⟨hxa, hda⟩ := iha none ra x d hra hpa
    obtain ⟨hxb, hdb⟩ := ihb none rb y d' hrb hpb
    obtain ⟨h1, h2⟩ := maybeConv_value I ρ δ h'
    refine ⟨?_, h2.trans ((dimsOf_mulC reg _ _).trans (add_congr hda hdb))⟩
    rw [h1, φ_scaleOf_mulC, ← hxa, ← hxb]
    simp only [evalNum]; ring
  · cases hp

theorem sound_add {a b : E} (iha : SoundA I reg Γ ρ δ a) (ihb : SoundA I reg Γ ρ δ b) :
    SoundA I reg Γ ρ δ (.add a b) := by
  intro tgt r z dz h hp
  obtain ⟨ra, rb, hra, hrb, rfl⟩ := convert_add_inv h
  rw [rebuild2 (mk := E.add) (convert_ident hra).2 (convert_ident hrb).2]
  rw [getD_target hra] at hrb
  have hu : rb.u = ra.u := convert_target hrb
  simp only [evalPhys] at hp
  split at hp
  · rename_i x d y d' hpa hpb
    split at hp
    · rename_i hdd
      simp only [Option.some.injEq, Prod.mk.injEq] at hp
      obtain ⟨rfl, rfl⟩ := hp
      obtain ⟨hxa, hda⟩ := iha tgt ra x d hra hpa
      obtain ⟨hxb, hdb⟩ := ihb _ rb y d' hrb hpb
      simp only [hu] at hxb ⊢
      refine ⟨?_, hda⟩
      rw [← hxa, ← hxb]
      simp only [evalNum]; ring
    · cases hp
  · cases hp

theorem sound_abs {a : E} (iha : SoundA I reg Γ ρ δ a) : SoundA I reg Γ ρ δ (.abs a) := by
  intro tgt r z dz h hp
  obtain ⟨ra, hra, rfl⟩ := convert_abs_inv h
  rw [rebuild1 (mk := E.abs) (convert_ident hra).2]
  simp only [evalPhys] at hp
  split at hp
  · rename_i x d hpa
    simp only [Option.some.injEq, Prod.mk.injEq] at hp
    obtain ⟨rfl, rfl⟩ := hp
    obtain ⟨hxa, hda⟩ := iha tgt ra x d hra hpa
    refine ⟨?_, hda⟩
    simp only [evalNum]
    rw [← hxa, abs_mul, abs_of_pos (I.φ_pos _)]
  · cases hp

theorem sound_floor (a : E) : SoundA I reg Γ ρ δ (.floor a) := by
  intro tgt r z dz h hp; simp only [evalPhys] at hp; cases hp

theorem sound_ceil (a : E) : SoundA I reg Γ ρ δ (.ceil a) := by
  intro tgt r z dz h hp; simp only [evalPhys] at hp; cases hp

/-- a quantity converted to `dimensionless` carries its physical value as its plain magnitude -/
theorem dimless_value {ex : E} (ih : SoundA I reg Γ ρ δ ex) {r : CR} {x : K} {d : Dims}
    (h : convert reg Γ ex (some []) = .ok r) (hp : evalPhys I reg Γ ρ δ ex = some (x, d)) :
    evalNum I ρ δ r.e = x ∧ r.u = [] := by
  obtain ⟨hx, _⟩ := ih _ r x d h hp
  have hu : r.u = [] := convert_target h
  rw [hu, φ_scaleOf_nil, mul_one] at hx
  exact ⟨hx, hu⟩

theorem sound_pow {b x : E} (ihb : SoundA I reg Γ ρ δ b) (ihx : SoundA I reg Γ ρ δ x) :
    SoundA I reg Γ ρ δ (.pow b x) := by
  intro tgt r z dz h hp
  obtain ⟨rx, q', rb, hrx, hq', hrb, h'⟩ := convert_pow_inv h
  rw [rebuild2 (mk := fun x' b' => E.pow b' x') (convert_ident hrx).2 (convert_ident hrb).2] at h'
  simp only [evalPhys] at hp
  split at hp
  · rename_i xb db xx dx q hpb hpx hq
    split at hp
    · rename_i hcond
      obtain ⟨_, hxx⟩ := hcond
      simp only [Option.some.injEq, Prod.mk.injEq] at hp
      obtain ⟨rfl, rfl⟩ := hp
      obtain ⟨hnx, _⟩ := dimless_value ihx hrx hpx
      have hcl := evalClosed_evalNum I ρ δ rx.e q' hq'
      have hqq : q' = q := by
        have : (q' : K) = (q : K) := by rw [← hcl, hnx, hxx]
        exact Rat.cast_injective this
      subst hqq
      obtain ⟨hxb, hdb⟩ := ihb none rb xb db hrb hpb
      obtain ⟨h1, h2⟩ := maybeConv_value I ρ δ h'
      refine ⟨?_, h2.trans ((dimsOf_powC reg _ _).trans (smul_congr q' hdb))⟩
      rw [h1, φ_scaleOf_powC, ← hxb, I.pw_cov]
      simp only [evalNum, hq']
    · cases hp
  · cases hp

theorem sound_fn1 {f : String} {a : E} (iha : SoundA I reg Γ ρ δ a) : SoundA I reg Γ ρ δ (.fn1 f a) := by
  intro tgt r z dz h hp
  obtain ⟨_, ra, hra, rfl⟩ := convert_fn1_inv h
  rw [rebuild1 (mk := E.fn1 f) (convert_ident hra).2]
  simp only [evalPhys] at hp
  split at hp
  · rename_i x d hpa
    split at hp
    · simp only [Option.some.injEq, Prod.mk.injEq] at hp
      obtain ⟨rfl, rfl⟩ := hp
      obtain ⟨hx, hu⟩ := dimless_value iha hra hpa
      simp only [evalNum, hx, hu, φ_scaleOf_nil, mul_one, true_and]
      exact dimsOf_nil reg
    · cases hp
  · cases hp

theorem sound_fnN {f : String} {a b : E} (iha : SoundA I reg Γ ρ δ a) (ihb : SoundA I reg Γ ρ δ b) :
    SoundA I reg Γ ρ δ (.fnN f a b) := by
  intro tgt r z dz h hp
  obtain ⟨_, ra, rb, hra, hrb, rfl⟩ := convert_fnN_inv h
  rw [rebuild2 (mk := E.fnN f) (convert_ident hra).2 (convert_ident hrb).2]
  simp only [evalPhys] at hp
  split at hp
  · rename_i x d y d' hpa hpb
    split at hp
    · simp only [Option.some.injEq, Prod.mk.injEq] at hp
      obtain ⟨rfl, rfl⟩ := hp
      obtain ⟨hx, _⟩ := dimless_value iha hra hpa
      obtain ⟨hy, hu⟩ := dimless_value ihb hrb hpb
      simp only [evalNum, hx, hy, hu, φ_scaleOf_nil, mul_one, true_and]
      exact dimsOf_nil reg
    · cases hp
  · cases hp

theorem sound_ite {c t el : E} (ihc : SoundB I reg Γ ρ δ c) (iht : SoundA I reg Γ ρ δ t)
    (ihe : SoundA I reg Γ ρ δ el) : SoundA I reg Γ ρ δ (.ite c t el) := by
  intro tgt r z dz h hp
  obtain ⟨rt, rc, hrt, hrc, hcase⟩ := convert_ite_inv h
  simp only [evalPhys] at hp
  split at hp
  · rename_i bc x d hpc hpt
    have hbc := ihc _ rc bc hrc hpc
    obtain ⟨hxt, hdt⟩ := iht tgt rt x d hrt hpt
    rcases hcase with ⟨hel, rfl⟩ | ⟨hel, re, hre, rfl⟩
    · rw [rebuild2 (mk := fun t' c' => E.ite c' t' .undef) (convert_ident hrt).2 (convert_ident hrc).2]
      simp only [hel, if_true, Option.some.injEq, Prod.mk.injEq] at hp
      obtain ⟨rfl, rfl⟩ := hp
      refine ⟨?_, hdt⟩
      simp only [evalNum, hbc]
      cases bc
      · simp
      · simpa using hxt
    · rw [rebuild3 (mk := fun t' c' e' => E.ite c' t' e') (convert_ident hrt).2 (convert_ident hrc).2
        (convert_ident hre).2]
      rw [getD_target hrt] at hre
      have hu : re.u = rt.u := convert_target hre
      simp only [hel, if_false] at hp
      split at hp
      · rename_i y d' hpe
        split at hp
        · simp only [Option.some.injEq, Prod.mk.injEq] at hp
          obtain ⟨rfl, rfl⟩ := hp
          obtain ⟨hxe, _⟩ := ihe _ re y d' hre hpe
          simp only [hu] at hxe ⊢
          refine ⟨?_, hdt⟩
          simp only [evalNum, hbc]
          cases bc
          · simpa using hxe
          · simpa using hxt
        · cases hp
      · cases hp
  · cases hp

theorem sound_rel {rr : Rel} {a b : E} (iha : SoundA I reg Γ ρ δ a) (ihb : SoundA I reg Γ ρ δ b) :
    SoundB I reg Γ ρ δ (.rel rr a b) := by
  intro tgt r p h hp
  obtain ⟨_, ra, rb, hra, hrb, rfl⟩ := convert_rel_inv h
  rw [rebuild2 (mk := E.rel rr) (convert_ident hra).2 (convert_ident hrb).2]
  have hu : rb.u = ra.u := convert_target hrb
  simp only [physB] at hp
  split at hp
  · rename_i x d y d' hpa hpb
    split at hp
    · simp only [Option.some.injEq] at hp
      subst hp
      obtain ⟨hxa, _⟩ := iha none ra x d hra hpa
      obtain ⟨hxb, _⟩ := ihb _ rb y d' hrb hpb
      rw [hu] at hxb
      simp only [evalB]
      rw [← hxa, ← hxb, relHolds_scale _ _ _ _ (I.φ_pos _)]
    · cases hp
  · cases hp

theorem sound_and {a b : E} (iha : SoundB I reg Γ ρ δ a) (ihb : SoundB I reg Γ ρ δ b) :
    SoundB I reg Γ ρ δ (.and a b) := by
  intro tgt r p h hp
  obtain ⟨_, ra, rb, hra, hrb, rfl⟩ := convert_and_inv h
  rw [rebuild2 (mk := E.and) (convert_ident hra).2 (convert_ident hrb).2]
  simp only [physB] at hp
  split at hp
  · rename_i pa pb hpa hpb
    simp only [Option.some.injEq] at hp
    subst hp
    simp only [evalB, iha _ ra pa hra hpa, ihb _ rb pb hrb hpb]
  · cases hp

theorem sound_or {a b : E} (iha : SoundB I reg Γ ρ δ a) (ihb : SoundB I reg Γ ρ δ b) :
    SoundB I reg Γ ρ δ (.or a b) := by
  intro tgt r p h hp
  obtain ⟨_, ra, rb, hra, hrb, rfl⟩ := convert_or_inv h
  rw [rebuild2 (mk := E.or) (convert_ident hra).2 (convert_ident hrb).2]
  simp only [physB] at hp
  split at hp
  · rename_i pa pb hpa hpb
    simp only [Option.some.injEq] at hp
    subst hp
    simp only [evalB, iha _ ra pa hra hpa, ihb _ rb pb hrb hpb]
  · cases hp

theorem sound_not {a : E} (iha : SoundB I reg Γ ρ δ a) : SoundB I reg Γ ρ δ (.not a) := by
  intro tgt r p h hp
  obtain ⟨_, ra, hra, rfl⟩ := convert_not_inv h
  rw [rebuild1 (mk := E.not) (convert_ident hra).2]
  simp only [physB] at hp
  split at hp
  · rename_i pa hpa
    simp only [Option.some.injEq] at hp
    subst hp
    simp only [evalB, iha _ ra pa hra hpa]
  · cases hp

theorem soundA_of_none {ex : E} (hn : evalPhys I reg Γ ρ δ ex = none) : SoundA I reg Γ ρ δ ex := by
  intro tgt r x d _ hp; rw [hn] at hp; cases hp

theorem soundB_of_none {ex : E} (hn : physB I reg Γ ρ δ ex = none) : SoundB I reg Γ ρ δ ex := by
  intro tgt r p _ hp; rw [hn] at hp; cases hp

variable (I reg Γ ρ δ)

/-- one induction over the one sort of terms, conjunctive motive (arithmetic clause ∧ boolean clause) -/
theorem convert_sound : ∀ ex : E, SoundA I reg Γ ρ δ ex ∧ SoundB I reg Γ ρ δ ex := by
  intro ex
  induction ex with
  | qty v u => exact ⟨sound_qty v u, soundB_of_none rfl⟩
  | cf s u => exact ⟨sound_cf s u, soundB_of_none rfl⟩
  | var i => exact ⟨sound_var i, soundB_of_none rfl⟩
  | deriv v t => exact ⟨sound_deriv v t, soundB_of_none rfl⟩
  | int n =>
      refine ⟨sound_numLeaf rfl ?_, soundB_of_none rfl⟩
      intro y d hp; simp only [evalPhys, Option.some.injEq, Prod.mk.injEq] at hp
      obtain ⟨rfl, rfl⟩ := hp; exact ⟨by simp only [evalNum], rfl⟩
  | rat q =>
      refine ⟨sound_numLeaf rfl ?_, soundB_of_none rfl⟩
      intro y d hp; simp only [evalPhys, Option.some.injEq, Prod.mk.injEq] at hp
      obtain ⟨rfl, rfl⟩ := hp; exact ⟨by simp only [evalNum], rfl⟩
  | flt q =>
      refine ⟨sound_numLeaf rfl ?_, soundB_of_none rfl⟩
      intro y d hp; simp only [evalPhys, Option.some.injEq, Prod.mk.injEq] at hp
      obtain ⟨rfl, rfl⟩ := hp; exact ⟨by simp only [evalNum], rfl⟩
  | pi =>
      refine ⟨sound_numLeaf rfl ?_, soundB_of_none rfl⟩
      intro y d hp; simp only [evalPhys, Option.some.injEq, Prod.mk.injEq] at hp
      obtain ⟨rfl, rfl⟩ := hp; exact ⟨by simp only [evalNum], rfl⟩
  | e =>
      refine ⟨sound_numLeaf rfl ?_, soundB_of_none rfl⟩
      intro y d hp; simp only [evalPhys, Option.some.injEq, Prod.mk.injEq] at hp
      obtain ⟨rfl, rfl⟩ := hp; exact ⟨by simp only [evalNum], rfl⟩
  | oo => exact ⟨soundA_of_none rfl, soundB_of_none rfl⟩
  | nan => exact ⟨soundA_of_none rfl, soundB_of_none rfl⟩
  | add a b iha ihb => exact ⟨sound_add iha.1 ihb.1, soundB_of_none rfl⟩
  | mul a b iha ihb => exact ⟨sound_mul iha.1 ihb.1, soundB_of_none rfl⟩
  | pow b x ihb ihx => exact ⟨sound_pow ihb.1 ihx.1, soundB_of_none rfl⟩
  | abs a iha => exact ⟨sound_abs iha.1, soundB_of_none rfl⟩
  | floor a _ => exact ⟨sound_floor a, soundB_of_none rfl⟩
  | ceil a _ => exact ⟨sound_ceil a, soundB_of_none rfl⟩
  | fn1 f a iha => exact ⟨sound_fn1 iha.1, soundB_of_none rfl⟩
  | fnN f a b iha ihb => exact ⟨sound_fnN iha.1 ihb.1, soundB_of_none rfl⟩
  | ite c t el ihc iht ihe => exact ⟨sound_ite ihc.2 iht.1 ihe.1, soundB_of_none rfl⟩
  | undef => exact ⟨soundA_of_none rfl, soundB_of_none rfl⟩
  | rel rr a b iha ihb => exact ⟨soundA_of_none rfl, sound_rel iha.1 ihb.1⟩
  | and a b iha ihb => exact ⟨soundA_of_none rfl, sound_and iha.2 ihb.2⟩
  | or a b iha ihb => exact ⟨soundA_of_none rfl, sound_or iha.2 ihb.2⟩
  | not a iha => exact ⟨soundA_of_none rfl, sound_not iha.2⟩
  | tt =>
      refine ⟨soundA_of_none rfl, ?_⟩
      intro tgt r p h hp
      obtain ⟨_, rfl⟩ := convert_numLeaf_inv rfl h
      simp only [physB, Option.some.injEq] at hp; subst hp; rfl
  | ff =>
      refine ⟨soundA_of_none rfl, ?_⟩
      intro tgt r p h hp
      obtain ⟨_, rfl⟩ := convert_numLeaf_inv rfl h
      simp only [physB, Option.some.injEq] at hp; subst hp; rfl
  | other n => exact ⟨soundA_of_none rfl, soundB_of_none rfl⟩

/-- **(a)** For every registry, environment, expression, target (or none), valuation of the variables `ρ` and of the
    derivatives `δ`, and every interpretation: if the expression denotes the physical quantity `(x, d)` and the
    conversion succeeds with `r`, then the result read as plain numbers (`evalNum`) in the reported unit `r.u` IS that
    quantity: magnitude × SI scale of `r.u` = `x`, dimension of `r.u` = `d`. (Expressions containing `floor`/`ceiling`
    have no `evalPhys`: known finding, see `floor_value_changes`.) -/
theorem convert_value {ex : E} {tgt : Option Container} {r : CR} {x : K} {d : Dims}
    (h : convert reg Γ ex tgt = .ok r) (hp : evalPhys I reg Γ ρ δ ex = some (x, d)) :
    evalNum I ρ δ r.e * I.φ (scaleOf reg r.u) = x ∧ dimsOf reg r.u ≃ d :=
  (convert_sound I reg Γ ρ δ ex).1 tgt r x d h hp

/-- (a) for conditions: the converted condition has the truth value of the comparison of the physical quantities -/
theorem convert_cond {ex : E} {tgt : Option Container} {r : CR} {p : Bool}
    (h : convert reg Γ ex tgt = .ok r) (hp : physB I reg Γ ρ δ ex = some p) : evalB I ρ δ r.e = p :=
  (convert_sound I reg Γ ρ δ ex).2 tgt r p h hp

/-- (a), original against result: both sides read as plain numbers in their own units. With an explicit target `t`
    the right-hand unit is `t` itself. -/
theorem convert_value_target {ex : E} {t : Container} {r : CR} {x : K} {d : Dims}
    (h : convert reg Γ ex (some t) = .ok r) (hp : evalPhys I reg Γ ρ δ ex = some (x, d)) :
    evalNum I ρ δ r.e * I.φ (scaleOf reg t) = x ∧ dimsOf reg t ≃ d := by
  have := convert_value I reg Γ ρ δ h hp
  rwa [convert_target h] at this

end value

/-! ## 4. (b) the result passes strict unit inference with a unit equivalent to the reported one

    Partial in two declared ways. (1) Fragment `strictFrag`: every operator that has a unit except `oo`/`nan`
    (leaves, derivatives, numbers, `*`, `+`, `**` with a numeric exponent = product of numeric leaves, `abs`, `floor`,
    `ceiling`, one-argument functions, `Piecewise` with arbitrary conditions). Outside it `traverse` itself always
    fails (relations and boolean terms: BooleanUnitsError; `Max`/`Min`/`Mod`: UnexpectedMathUnitsError) or the exponent
    magnitude is not tracked. (2) Units range over a class `UClass` on which "factor one" implies `is_equivalent`; this
    excludes pint's dimensionless root units (`radian`), for which clause (b) is FALSE in cellmlmanip
    (`radian_not_strict`, a consequence of the known finding of C07). Python exceptions raised by arithmetic on the
    MAGNITUDES that `traverse` carries along (`magErr`) are not UnitErrors and are the only other outcome. -/

/-- **(b)** strict inference of the result either succeeds with a unit `is_equivalent` to the reported one, or stops
    with a Python arithmetic exception on magnitudes — never with a UnitError -/
theorem convert_strict_partial {reg : Registry} {Γ : VarEnv} (C : UClass reg)
    (hΓ : ∀ (i : Nat) (vi : VarInfo), Γ[i]? = some vi → C.P vi.unit) {ex : E} (hf : strictFrag ex = true)
    (hu : unitsIn C.P ex) {tgt : Option Container} (ht : ∀ t, tgt = some t → C.P t) {r : CR}
    (h : convert reg Γ ex tgt = .ok r) :
    (∃ m u', traverse reg Γ r.e = .ok (m, u') ∧ isEquivalent reg u' r.u = true) ∨
    (∃ err, traverse reg Γ r.e = .error err ∧ magErr err = true) := by
  have hg := (convert_strict_aux C hΓ ex hf hu tgt r ht h).1
  cases hq : traverse reg Γ r.e with
  | ok q => rw [hq] at hg; exact Or.inl ⟨q.1, q.2, rfl, hg⟩
  | error err => rw [hq] at hg; exact Or.inr ⟨err, rfl, hg⟩

/-- (b), success form: whenever inference of the result succeeds its unit is equivalent to the reported unit, and to
    the target when one was given -/
theorem convert_strict_ok {reg : Registry} {Γ : VarEnv} (C : UClass reg)
    (hΓ : ∀ (i : Nat) (vi : VarInfo), Γ[i]? = some vi → C.P vi.unit) {ex : E} (hf : strictFrag ex = true)
    (hu : unitsIn C.P ex) {tgt : Option Container} (ht : ∀ t, tgt = some t → C.P t) {r : CR}
    (h : convert reg Γ ex tgt = .ok r) {m : M} {u' : Container} (hq : traverse reg Γ r.e = .ok (m, u')) :
    isEquivalent reg u' r.u = true ∧ (∀ t, tgt = some t → isEquivalent reg u' t = true) := by
  have hg := (convert_strict_aux C hΓ ex hf hu tgt r ht h).1
  rw [hq] at hg
  refine ⟨hg, ?_⟩
  intro t htt; subst htt
  have := convert_target h
  rw [this] at hg; exact hg

/-- (b), failure form: inference of the result never raises a UnitError -/
theorem convert_strict_no_unit_error {reg : Registry} {Γ : VarEnv} (C : UClass reg)
    (hΓ : ∀ (i : Nat) (vi : VarInfo), Γ[i]? = some vi → C.P vi.unit) {ex : E} (hf : strictFrag ex = true)
    (hu : unitsIn C.P ex) {tgt : Option Container} (ht : ∀ t, tgt = some t → C.P t) {r : CR}
    (h : convert reg Γ ex tgt = .ok r) {err : UnitErr} (hq : traverse reg Γ r.e = .error err) :
    magErr err = true ∧ isUnitError err = false := by
  have hg := (convert_strict_aux C hΓ ex hf hu tgt r ht h).1
  rw [hq] at hg
  have hm : magErr err = true := hg
  refine ⟨hm, ?_⟩
  cases err <;> first | rfl | cases hm

/-- the class hypothesis is consistent for every registry (degenerate instance: the dimensionless unit) -/
def dimlessClass (reg : Registry) : UClass reg where
  P c := c = []
  nil := rfl
  mul := by intro a b ha hb; subst ha; subst hb; rfl
  div := by intro a b ha hb; subst ha; subst hb; rfl
  pow := by intro a q ha; subst ha; rfl
  faithful := by intro a b ha hb _; subst ha; subst hb; exact Cellml.Props.C07.equiv_refl reg []

/-- a non-degenerate instance: in the built-in registry (and `regMV`) the dimensioned root units have pairwise
    different dimensions, so `dimClass` — all units none of whose root units is dimensionless — is a `UClass` -/
theorem builtin_dimsDistinct : dimsDistinct builtinRegistry = true := by decide +kernel
theorem regMV_dimsDistinct : dimsDistinct regMV = true := by decide +kernel

/-- executable form of the hypothesis on the environment -/
theorem env_rootsDim {reg : Registry} {Γ : VarEnv} (h : Γ.all (fun vi => rootsDimB reg vi.unit) = true) :
    ∀ (i : Nat) (vi : VarInfo), Γ[i]? = some vi → RootsDim reg vi.unit := by
  intro i vi hi
  have hm : vi ∈ Γ := List.mem_of_getElem? hi
  exact rootsDim_of_test (List.all_eq_true.mp h vi hm)

/-- (b) instantiated on real units: `x [mV] + y [V]` (first-operand rule, a real conversion of `y`), any target among
    units with dimensioned roots -/
example {tgt : Option Container} (ht : ∀ t, tgt = some t → RootsDim regMV t) {r : CR}
    (h : convert regMV [⟨[("mV", 1)], none⟩, ⟨[("volt", 1)], none⟩] (.add (.var 0) (.var 1)) tgt = .ok r) :
    (∃ m u', traverse regMV [⟨[("mV", 1)], none⟩, ⟨[("volt", 1)], none⟩] r.e = .ok (m, u') ∧
        isEquivalent regMV u' r.u = true) ∨
    (∃ err, traverse regMV [⟨[("mV", 1)], none⟩, ⟨[("volt", 1)], none⟩] r.e = .error err ∧ magErr err = true) :=
  convert_strict_partial (dimClass regMV regMV_dimsDistinct) (env_rootsDim (by decide +kernel))
    (ex := .add (.var 0) (.var 1)) rfl (by simp [unitsIn]) ht h

/-- clause (b) fails for `radian` in cellmlmanip itself (same root cause as the known finding of C07: `radian` is a
    root unit without a dimension, so it converts to `dimensionless` with factor one without being `is_equivalent`):
    `x [radian] + y [dimensionless]` is returned unchanged, in radian, and strict inference rejects it -/
theorem radian_not_strict :
    convert builtinRegistry [⟨[("radian", 1)], none⟩, ⟨[], none⟩] (.add (.var 0) (.var 1)) none =
      .ok ⟨.add (.var 0) (.var 1), false, [("radian", 1)], true⟩ ∧
    traverse builtinRegistry [⟨[("radian", 1)], none⟩, ⟨[], none⟩] (.add (.var 0) (.var 1)) =
      .error .argsInvalidUnits := by
  refine ⟨by decide +kernel, by decide +kernel⟩

/-- non-vacuity of (b) on real units: the converted sum `x [mV] + 10³·y [V]` infers to mV -/
example : traverse regMV [⟨[("mV", 1)], none⟩, ⟨[("volt", 1)], none⟩]
    (.add (.var 0) (.mul (.cf [(2, 3), (5, 3)] [("mV", 1), ("volt", -1)]) (.var 1))) = .ok (.sym, [("mV", 1)]) := by
  decide +kernel

/-! ## 5. (c) the very same object when no conversion is needed -/

/-- `was_converted = False` ⇒ the returned expression is the argument and it is the same object (`same`); and
    conversely the same object is only ever returned when nothing was converted. `same` records whether
    `expr.func(*new_args)` or `cf * expr` ran, which is what Python object identity depends on. -/
theorem convert_identity {reg : Registry} {Γ : VarEnv} {ex : E} {tgt : Option Container} {r : CR}
    (h : convert reg Γ ex tgt = .ok r) :
    (r.wc = false → r.e = ex ∧ r.same = true) ∧ (r.same = true → r.e = ex ∧ r.wc = false) := by
  obtain ⟨hs, he⟩ := convert_ident h
  constructor
  · intro hw; exact ⟨he hw, by rw [hs, hw]; rfl⟩
  · intro hsame
    have hw : r.wc = false := by rw [hs] at hsame; simpa using hsame
    exact ⟨he hw, hw⟩

/-- when something was converted a factor Quantity was inserted somewhere, so the object is new -/
theorem convert_changed {reg : Registry} {Γ : VarEnv} {ex : E} {tgt : Option Container} {r : CR}
    (h : convert reg Γ ex tgt = .ok r) (hw : r.wc = true) : r.same = false := by
  rw [(convert_ident h).1, hw]; rfl

/-- the `Mul` branch as it was before the repair (findings/C05.json, `identity:mul-explicit-target`): the product was
    rebuilt whenever a target was given -/
def convertMulToday (reg : Registry) (Γ : VarEnv) (a b : E) (tgt : Option Container) : Except UnitErr CR := do
  let ra ← convert reg Γ a none
  let rb ← convert reg Γ b none
  let wc := ra.wc || rb.wc
  let rebuilt := tgt.isSome || wc
  maybeConv reg (if rebuilt then .mul ra.e rb.e else .mul a b) wc (mulC ra.u rb.u) tgt (!rebuilt)

/-- the defect that was repaired: a product with an explicit, already satisfied target came back as a NEW object
    although nothing was converted -/
theorem mulToday_not_identical :
    convertMulToday builtinRegistry [] (.qty 2 [("volt", 1)]) (.qty 3 [("second", 1)])
        (some [("second", 1), ("volt", 1)]) =
      .ok ⟨.mul (.qty 2 [("volt", 1)]) (.qty 3 [("second", 1)]), false, [("second", 1), ("volt", 1)], false⟩ := by
  decide +kernel

/-- … and the repaired branch returns the same object on that input -/
theorem mulFixed_identical :
    convert builtinRegistry [] (.mul (.qty 2 [("volt", 1)]) (.qty 3 [("second", 1)]))
        (some [("second", 1), ("volt", 1)]) =
      .ok ⟨.mul (.qty 2 [("volt", 1)]) (.qty 3 [("second", 1)]), false, [("second", 1), ("volt", 1)], true⟩ := by
  decide +kernel

/-! ## known finding `value-changed:floor-ceil`: `floor`/`ceiling` are not scale-covariant -/

/-- `floor(x)` with `x = 1500 mV`, brought to volt: the conversion is pushed into the argument, `floor(10⁻³·x)` V = 1 V,
    whereas the original denotes `floor(1500)` mV = 1.5 V. (Pinned by tests/test_units.py::test_abs_ceil_floor.) -/
theorem floor_value_changes :
    convert regMV [⟨[("mV", 1)], none⟩] (.floor (.var 0)) (some [("volt", 1)]) =
      .ok ⟨.floor (.mul (.cf [(2, -3), (5, -3)] [("mV", -1), ("volt", 1)]) (.var 0)), true, [("volt", 1)], false⟩ ∧
    evalQ (fun _ => 1500) (.floor (.mul (.cf [(2, -3), (5, -3)] [("mV", -1), ("volt", 1)]) (.var 0))) *
        scaleQ (scaleOf regMV [("volt", 1)]) = 1 ∧
    evalQ (fun _ => 1500) (.floor (.var 0)) * scaleQ (scaleOf regMV [("mV", 1)]) = 3 / 2 := by
  refine ⟨by decide +kernel, by decide +kernel, by decide +kernel⟩

/-! ## 6. invalid expressions and unreachable targets are rejected, and only with the documented errors -/

section rejects
variable (I : Interp K) (reg : Registry) (Γ : VarEnv) (ρ : Nat → K) (δ : Nat → Nat → K)

/-- the target cannot be reached: an expression of dimension `d` is never returned in a unit of another dimension -/
theorem convert_rejects_target {ex : E} {t : Container} {x : K} {d : Dims}
    (hp : evalPhys I reg Γ ρ δ ex = some (x, d)) (hne : ¬ dimsOf reg t ≃ d) :
    ∃ err, convert reg Γ ex (some t) = .error err := by
  cases hc : convert reg Γ ex (some t) with
  | error err => exact ⟨err, rfl⟩
  | ok r => exact absurd (convert_value_target I reg Γ ρ δ hc hp).2 hne

/-- two operands of a sum with different dimensions -/
theorem convert_rejects_add {a b : E} {tgt : Option Container} {x y : K} {d d' : Dims}
    (ha : evalPhys I reg Γ ρ δ a = some (x, d)) (hb : evalPhys I reg Γ ρ δ b = some (y, d')) (hne : ¬ d ≃ d') :
    ∃ err, convert reg Γ (.add a b) tgt = .error err := by
  cases hc : convert reg Γ (.add a b) tgt with
  | error err => exact ⟨err, rfl⟩
  | ok r =>
      exfalso
      obtain ⟨ra, rb, hra, hrb, _⟩ := convert_add_inv hc
      rw [getD_target hra] at hrb
      have h1 := (convert_value I reg Γ ρ δ hra ha).2
      have h2 := (convert_value I reg Γ ρ δ hrb hb).2
      rw [convert_target hrb] at h2
      exact hne (h1.symm.trans h2)

/-- two comparands with different dimensions -/
theorem convert_rejects_rel {rr : Rel} {a b : E} {tgt : Option Container} {x y : K} {d d' : Dims}
    (ha : evalPhys I reg Γ ρ δ a = some (x, d)) (hb : evalPhys I reg Γ ρ δ b = some (y, d')) (hne : ¬ d ≃ d') :
    ∃ err, convert reg Γ (.rel rr a b) tgt = .error err := by
  cases hc : convert reg Γ (.rel rr a b) tgt with
  | error err => exact ⟨err, rfl⟩
  | ok r =>
      exfalso
      obtain ⟨_, ra, rb, hra, hrb, _⟩ := convert_rel_inv hc
      have h1 := (convert_value I reg Γ ρ δ hra ha).2
      have h2 := (convert_value I reg Γ ρ δ hrb hb).2
      rw [convert_target hrb] at h2
      exact hne (h1.symm.trans h2)

/-- two pieces of a Piecewise with different dimensions -/
theorem convert_rejects_ite {c t el : E} {tgt : Option Container} {x y : K} {d d' : Dims} (hel : el ≠ .undef)
    (ht : evalPhys I reg Γ ρ δ t = some (x, d)) (he : evalPhys I reg Γ ρ δ el = some (y, d')) (hne : ¬ d ≃ d') :
    ∃ err, convert reg Γ (.ite c t el) tgt = .error err := by
  cases hc : convert reg Γ (.ite c t el) tgt with
  | error err => exact ⟨err, rfl⟩
  | ok r =>
      exfalso
      obtain ⟨rt, rc, hrt, _, hcase⟩ := convert_ite_inv hc
      rcases hcase with ⟨h0, _⟩ | ⟨_, re, hre, _⟩
      · exact hel h0
      · rw [getD_target hrt] at hre
        have h1 := (convert_value I reg Γ ρ δ hrt ht).2
        have h2 := (convert_value I reg Γ ρ δ hre he).2
        rw [convert_target hre] at h2
        exact hne (h1.symm.trans h2)

/-- the argument of a function that is not dimensionless -/
theorem convert_rejects_fn1 {f : String} {a : E} {tgt : Option Container} {x : K} {d : Dims}
    (ha : evalPhys I reg Γ ρ δ a = some (x, d)) (hne : ¬ d ≃ []) :
    ∃ err, convert reg Γ (.fn1 f a) tgt = .error err := by
  cases hc : convert reg Γ (.fn1 f a) tgt with
  | error err => exact ⟨err, rfl⟩
  | ok r =>
      exfalso
      obtain ⟨_, ra, hra, _⟩ := convert_fn1_inv hc
      have h1 := (convert_value_target I reg Γ ρ δ hra ha).2
      exact hne (h1.symm.trans (dimsOf_nil reg))

end rejects

/-! ### every dimensionally invalid expression is rejected (general form, by induction)

    Sorts: `arithS` — terms built from the operators that have a physical value (everything except `floor`/`ceiling`,
    `oo`/`nan`, an empty Piecewise and unknown constructs), with conditions in condition position; `boolS` — conditions
    (relations between such terms, `And`/`Or`/`Not`, `true`/`false`). -/

mutual
def arithS : E → Bool
  | .qty _ _ | .cf _ _ | .var _ | .deriv _ _ | .int _ | .rat _ | .flt _ | .pi | .e => true
  | .add a b | .mul a b | .pow a b | .fnN _ a b => arithS a && arithS b
  | .abs a | .fn1 _ a => arithS a
  | .ite c t el => boolS c && arithS t && (decide (el = .undef) || arithS el)
  | _ => false
def boolS : E → Bool
  | .rel _ a b => arithS a && arithS b
  | .and a b | .or a b => boolS a && boolS b
  | .not a => boolS a
  | .tt | .ff => true
  | _ => false
end

section valid
variable (I : Interp K) (reg : Registry) (Γ : VarEnv) (ρ : Nat → K) (δ : Nat → Nat → K)

theorem dims_agree {a b : E} {ta : Option Container} {ra rb : CR} {x y : K} {d d' : Dims}
    (hra : convert reg Γ a ta = .ok ra) (hrb : convert reg Γ b (some ra.u) = .ok rb)
    (ha : evalPhys I reg Γ ρ δ a = some (x, d)) (hb : evalPhys I reg Γ ρ δ b = some (y, d')) :
    PMap.beq d d' = true := by
  have h1 := (convert_value I reg Γ ρ δ hra ha).2
  have h2 := (convert_value I reg Γ ρ δ hrb hb).2
  rw [convert_target hrb] at h2
  exact beq_iff_equiv.mpr (h1.symm.trans h2)

theorem dimless_isZero {a : E} {ra : CR} {x : K} {d : Dims}
    (hra : convert reg Γ a (some []) = .ok ra) (ha : evalPhys I reg Γ ρ δ a = some (x, d)) :
    PMap.isZero d = true := by
  have h1 := (convert_value_target I reg Γ ρ δ hra ha).2
  exact (Infer.isZero_iff d).mpr (h1.symm.trans (dimsOf_nil reg))

/-- a successful conversion certifies that the expression denotes a physical quantity (a condition: a truth value) -/
theorem convert_ok_valid : ∀ ex : E,
    (arithS ex = true → ∀ tgt r, convert reg Γ ex tgt = .ok r → ∃ x d, evalPhys I reg Γ ρ δ ex = some (x, d)) ∧
    (boolS ex = true → ∀ tgt r, convert reg Γ ex tgt = .ok r → ∃ p, physB I reg Γ ρ δ ex = some p) := by
  intro ex
  induction ex with
  | qty v u => exact ⟨fun _ _ _ _ => ⟨_, _, rfl⟩, fun h => (by simp [boolS] at h)⟩
  | cf s u => exact ⟨fun _ _ _ _ => ⟨_, _, rfl⟩, fun h => (by simp [boolS] at h)⟩
  | int n => exact ⟨fun _ _ _ _ => ⟨_, _, rfl⟩, fun h => (by simp [boolS] at h)⟩
  | rat q => exact ⟨fun _ _ _ _ => ⟨_, _, rfl⟩, fun h => (by simp [boolS] at h)⟩
  | flt q => exact ⟨fun _ _ _ _ => ⟨_, _, rfl⟩, fun h => (by simp [boolS] at h)⟩
  | pi => exact ⟨fun _ _ _ _ => ⟨_, _, rfl⟩, fun h => (by simp [boolS] at h)⟩
  | e => exact ⟨fun _ _ _ _ => ⟨_, _, rfl⟩, fun h => (by simp [boolS] at h)⟩
  | tt => exact ⟨fun h => (by simp [arithS] at h), fun _ _ _ _ => ⟨_, rfl⟩⟩
  | ff => exact ⟨fun h => (by simp [arithS] at h), fun _ _ _ _ => ⟨_, rfl⟩⟩
  | var i =>
      refine ⟨fun _ tgt r h => ?_, fun h => (by simp [boolS] at h)⟩
      obtain ⟨vi, hvi, _⟩ := convert_var_inv h
      simp only [evalPhys, hvi]; exact ⟨_, _, rfl⟩
  | deriv v t =>
      refine ⟨fun _ tgt r h => ?_, fun h => (by simp [boolS] at h)⟩
      obtain ⟨vv, vt, hvv, hvt, _⟩ := convert_deriv_inv h
      simp only [evalPhys, hvv, hvt]; exact ⟨_, _, rfl⟩
  | mul a b iha ihb =>
      refine ⟨fun hs tgt r h => ?_, fun h => (by simp [boolS] at h)⟩
      simp only [arithS, Bool.and_eq_true] at hs
      obtain ⟨ra, rb, hra, hrb, _⟩ := convert_mul_inv h
      obtain ⟨x, d, ha⟩ := iha.1 hs.1 _ _ hra
      obtain ⟨y, d', hb⟩ := ihb.1 hs.2 _ _ hrb
      simp only [evalPhys, ha, hb]; exact ⟨_, _, rfl⟩
  | add a b iha ihb =>
      refine ⟨fun hs tgt r h => ?_, fun h => (by simp [boolS] at h)⟩
      simp only [arithS, Bool.and_eq_true] at hs
      obtain ⟨ra, rb, hra, hrb, _⟩ := convert_add_inv h
      rw [getD_target hra] at hrb
      obtain ⟨x, d, ha⟩ := iha.1 hs.1 _ _ hra
      obtain ⟨y, d', hb⟩ := ihb.1 hs.2 _ _ hrb
      simp only [evalPhys, ha, hb, dims_agree I reg Γ ρ δ hra hrb ha hb, if_true]; exact ⟨_, _, rfl⟩
  | pow b x ihb ihx =>
      refine ⟨fun hs tgt r h => ?_, fun h => (by simp [boolS] at h)⟩
      simp only [arithS, Bool.and_eq_true] at hs
      obtain ⟨rx, q, rb, hrx, hq, hrb, _⟩ := convert_pow_inv h
      have hw := closed_not_converted x _ rx q hrx hq
      have hex : rx.e = x := (convert_ident hrx).2 hw
      rw [hex] at hq
      obtain ⟨xb, db, hb⟩ := ihb.1 hs.1 _ _ hrb
      obtain ⟨xx, dx, hx⟩ := ihx.1 hs.2 _ _ hrx
      have hz := dimless_isZero I reg Γ ρ δ hrx hx
      have hv : xx = (q : K) := by
        have h1 := (dimless_value (convert_sound I reg Γ ρ δ x).1 hrx hx).1
        rw [hex] at h1
        rw [← h1]; exact evalClosed_evalNum I ρ δ x q hq
      simp only [evalPhys, hb, hx, hq, hz, hv, and_self, if_true]; exact ⟨_, _, rfl⟩
  | abs a iha =>
      refine ⟨fun hs tgt r h => ?_, fun h => (by simp [boolS] at h)⟩
      simp only [arithS] at hs
      obtain ⟨ra, hra, _⟩ := convert_abs_inv h
      obtain ⟨x, d, ha⟩ := iha.1 hs _ _ hra
      simp only [evalPhys, ha]; exact ⟨_, _, rfl⟩
  | fn1 f a iha =>
      refine ⟨fun hs tgt r h => ?_, fun h => (by simp [boolS] at h)⟩
      simp only [arithS] at hs
      obtain ⟨_, ra, hra, _⟩ := convert_fn1_inv h
      obtain ⟨x, d, ha⟩ := iha.1 hs _ _ hra
      simp only [evalPhys, ha, dimless_isZero I reg Γ ρ δ hra ha, if_true]; exact ⟨_, _, rfl⟩
  | fnN f a b iha ihb =>
      refine ⟨fun hs tgt r h => ?_, fun h => (by simp [boolS] at h)⟩
      simp only [arithS, Bool.and_eq_true] at hs
      obtain ⟨_, ra, rb, hra, hrb, _⟩ := convert_fnN_inv h
      obtain ⟨x, d, ha⟩ := iha.1 hs.1 _ _ hra
      obtain ⟨y, d', hb⟩ := ihb.1 hs.2 _ _ hrb
      simp only [evalPhys, ha, hb, dimless_isZero I reg Γ ρ δ hra ha, dimless_isZero I reg Γ ρ δ hrb hb,
        and_self, if_true]
      exact ⟨_, _, rfl⟩
  | ite c t el ihc iht ihe =>
      refine ⟨fun hs tgt r h => ?_, fun h => (by simp [boolS] at h)⟩
      simp only [arithS, Bool.and_eq_true, Bool.or_eq_true, decide_eq_true_eq] at hs
      obtain ⟨rt, rc, hrt, hrc, hcase⟩ := convert_ite_inv h
      obtain ⟨p, hc⟩ := ihc.2 hs.1.1 _ _ hrc
      obtain ⟨x, d, ht⟩ := iht.1 hs.1.2 _ _ hrt
      rcases hcase with ⟨hel, _⟩ | ⟨hel, re, hre, _⟩
      · simp only [evalPhys, hc, ht, hel, if_true]; exact ⟨_, _, rfl⟩
      · rw [getD_target hrt] at hre
        have hse : arithS el = true := by
          rcases hs.2 with h0 | h0
          · exact absurd h0 hel
          · exact h0
        obtain ⟨y, d', he⟩ := ihe.1 hse _ _ hre
        simp only [evalPhys, hc, ht, hel, if_false, he, dims_agree I reg Γ ρ δ hrt hre ht he, if_true]
        exact ⟨_, _, rfl⟩
  | rel rr a b iha ihb =>
      refine ⟨fun h => (by simp [arithS] at h), fun hs tgt r h => ?_⟩
      simp only [boolS, Bool.and_eq_true] at hs
      obtain ⟨_, ra, rb, hra, hrb, _⟩ := convert_rel_inv h
      obtain ⟨x, d, ha⟩ := iha.1 hs.1 _ _ hra
      obtain ⟨y, d', hb⟩ := ihb.1 hs.2 _ _ hrb
      simp only [physB, ha, hb, dims_agree I reg Γ ρ δ hra hrb ha hb, if_true]; exact ⟨_, rfl⟩
  | and a b iha ihb =>
      refine ⟨fun h => (by simp [arithS] at h), fun hs tgt r h => ?_⟩
      simp only [boolS, Bool.and_eq_true] at hs
      obtain ⟨_, ra, rb, hra, hrb, _⟩ := convert_and_inv h
      obtain ⟨p, ha⟩ := iha.2 hs.1 _ _ hra
      obtain ⟨p', hb⟩ := ihb.2 hs.2 _ _ hrb
      simp only [physB, ha, hb]; exact ⟨_, rfl⟩
  | or a b iha ihb =>
      refine ⟨fun h => (by simp [arithS] at h), fun hs tgt r h => ?_⟩
      simp only [boolS, Bool.and_eq_true] at hs
      obtain ⟨_, ra, rb, hra, hrb, _⟩ := convert_or_inv h
      obtain ⟨p, ha⟩ := iha.2 hs.1 _ _ hra
      obtain ⟨p', hb⟩ := ihb.2 hs.2 _ _ hrb
      simp only [physB, ha, hb]; exact ⟨_, rfl⟩
  | not a iha =>
      refine ⟨fun h => (by simp [arithS] at h), fun hs tgt r h => ?_⟩
      simp only [boolS] at hs
      obtain ⟨_, ra, hra, _⟩ := convert_not_inv h
      obtain ⟨p, ha⟩ := iha.2 hs _ _ hra
      simp only [physB, ha]; exact ⟨_, rfl⟩
  | _ => exact ⟨fun h => (by simp [arithS] at h), fun h => (by simp [boolS] at h)⟩

/-- **rejection, general form**: an expression (of the operators with a physical value) that denotes no physical
    quantity — operands of a sum, pieces of a Piecewise or comparands of different dimension anywhere inside it, a
    function or exponent argument that is not dimensionless — is never converted: the call raises -/
theorem convert_rejects {ex : E} (hs : arithS ex = true) (hn : evalPhys I reg Γ ρ δ ex = none)
    (tgt : Option Container) : ∃ err, convert reg Γ ex tgt = .error err := by
  cases hc : convert reg Γ ex tgt with
  | error err => exact ⟨err, rfl⟩
  | ok r =>
      obtain ⟨x, d, hp⟩ := (convert_ok_valid I reg Γ ρ δ ex).1 hs tgt r hc
      rw [hn] at hp; cases hp

/-- **headline form of (a)**: for every expression of the operators that have a physical value, a successful
    conversion certifies that the expression denotes a physical quantity, and the result read as plain numbers in
    the reported unit is that quantity — no side condition left -/
theorem convert_preserves {ex : E} (hs : arithS ex = true) {tgt : Option Container} {r : CR}
    (h : convert reg Γ ex tgt = .ok r) :
    ∃ x d, evalPhys I reg Γ ρ δ ex = some (x, d) ∧
      evalNum I ρ δ r.e * I.φ (scaleOf reg r.u) = x ∧ dimsOf reg r.u ≃ d := by
  obtain ⟨x, d, hp⟩ := (convert_ok_valid I reg Γ ρ δ ex).1 hs tgt r h
  exact ⟨x, d, hp, convert_value I reg Γ ρ δ h hp⟩

end valid

/-- at a leaf between known units the error is exactly UnitConversionError -/
theorem convert_rejects_leaf {reg : Registry} {Γ : VarEnv} {v : Rat} {u t : Container}
    (hk : allKnown reg u = true) (hk' : allKnown reg t = true) (hne : ¬ dimsOf reg u ≃ dimsOf reg t) :
    convert reg Γ (.qty v u) (some t) = .error .cannotConvert := by
  simp only [Convert.convert]; exact (maybeConv_cannotConvert_iff hk hk').mpr hne

/-- every error is one of the documented UnitError classes (UnexpectedMathUnitsError,
    InputArgumentsMustBeDimensionlessError, InputArgumentMustBeNumberError, BooleanUnitsError, UnitConversionError),
    or pint's UndefinedUnitError (a unit name the registry does not know: `maybeConv_error`), or one of the two
    situations outside the modelled fragment: a variable index outside the environment, an exponent whose numeric
    value the exact model does not track (irrational, or a conversion factor ≠ 1 inside the exponent) -/
theorem convert_error_class {reg : Registry} {Γ : VarEnv} {ex : E} {tgt : Option Container} {err : UnitErr}
    (h : convert reg Γ ex tgt = .error err) : errClass err = true := convert_errClass ex tgt err h

/-- the UndefinedUnitError comes from pint only when a unit name is unknown to the registry -/
theorem undefinedUnit_only_unknown {reg : Registry} {ex : E} {wc : Bool} {frm t : Container} {same : Bool}
    (h : maybeConv reg ex wc frm (some t) same = .error (.otherException "UndefinedUnitError")) :
    (allKnown reg frm && allKnown reg t) = false := by
  cases hk : (allKnown reg frm && allKnown reg t) with
  | false => rfl
  | true =>
      exfalso
      simp only [Bool.and_eq_true] at hk
      obtain ⟨t', ht', hc⟩ := maybeConv_error h
      cases ht'
      rcases hc with ⟨h1, _⟩ | ⟨_, e', hf, hne⟩
      · cases h1
      · unfold factor at hf
        simp only [hk.1, hk.2, Bool.and_self, Bool.not_true, Bool.false_eq_true, if_false] at hf
        split at hf
        · cases hf
        · simp only [Except.error.injEq] at hf; exact hne hf.symm

/-! ## non-vacuity: concrete conversions on the built-in registry -/

/-- volt + joule/coulomb with no target: equivalent units, nothing converted, the same object -/
example : convert builtinRegistry []
    (.add (.qty 1 [("volt", 1)]) (.qty 2 [("coulomb", -1), ("joule", 1)])) none =
    .ok ⟨.add (.qty 1 [("volt", 1)]) (.qty 2 [("coulomb", -1), ("joule", 1)]), false, [("volt", 1)], true⟩ := by
  decide +kernel

/-- litre to cubic metre: factor 10⁻³ as a Quantity in m³/l -/
example : convert builtinRegistry [] (.qty 1 [("liter", 1)]) (some [("meter", 3)]) =
    .ok ⟨.mul (.cf [(2, -3), (5, -3)] [("liter", -1), ("meter", 3)]) (.qty 1 [("liter", 1)]), true, [("meter", 3)],
         false⟩ := by
  decide +kernel

/-- first-operand rule with a real conversion, inside a Piecewise with a condition between different scales -/
example : convert regMV [⟨[("mV", 1)], none⟩, ⟨[("volt", 1)], none⟩]
    (.ite (.rel .lt (.var 0) (.var 1)) (.add (.var 0) (.var 1)) .undef) none =
    .ok ⟨.ite (.rel .lt (.var 0) (.mul (.cf [(2, 3), (5, 3)] [("mV", 1), ("volt", -1)]) (.var 1)))
           (.add (.var 0) (.mul (.cf [(2, 3), (5, 3)] [("mV", 1), ("volt", -1)]) (.var 1))) .undef,
         true, [("mV", 1)], false⟩ := by
  decide +kernel

example : convert builtinRegistry [] (.add (.qty 1 [("volt", 1)]) (.qty 2 [("second", 1)])) none =
    .error .cannotConvert := by decide +kernel

example : convert builtinRegistry [] (.qty 1 [("volt", 1)]) (some [("furlong", 1)]) =
    .error (.otherException "UndefinedUnitError") := by decide +kernel

/-- the semantic hypotheses are satisfiable (`Sem.ratInterp`), and the headline theorem applies to a concrete conversion
    with a real factor -/
example : ∃ x d, evalPhys ratInterp regMV [⟨[("mV", 1)], none⟩, ⟨[("volt", 1)], none⟩] (fun _ => 7) (fun _ _ => 0)
      (.add (.var 0) (.var 1)) = some (x, d) :=
  have h : convert regMV [⟨[("mV", 1)], none⟩, ⟨[("volt", 1)], none⟩] (.add (.var 0) (.var 1)) none =
      .ok ⟨.add (.var 0) (.mul (.cf [(2, 3), (5, 3)] [("mV", 1), ("volt", -1)]) (.var 1)), true, [("mV", 1)], false⟩ := by
    decide +kernel
  let ⟨x, d, hp, _⟩ := convert_preserves ratInterp regMV _ (fun _ => 7) (fun _ _ => 0) (ex := .add (.var 0) (.var 1))
    (by simp [arithS]) h
  ⟨x, d, hp⟩

end Cellml.Props.C05
