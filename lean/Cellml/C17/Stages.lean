import Cellml.C17.Model
import Cellml.C17.Worklist
import Cellml.Units.WorklistLemmas

/-! # C17 — what each stage of the loader has checked when it returns (the contrapositive is "the fault is refused")

    One lemma per raising function of `Load/Loader.lean`: if the function returned `.ok`, every site it walked over is
    free of the fault it tests for. Nothing here depends on how the units were obtained (`reg`, `ust` arbitrary). -/

namespace C17
open Load

def IsErr {α : Type} (x : Except Err α) : Prop := ∃ e, x = .error e

theorem isErr_of_not_ok {α : Type} {x : Except Err α} (h : ∀ a, x ≠ .ok a) : IsErr x := by
  cases x with
  | error e => exact ⟨e, rfl⟩
  | ok a => exact absurd rfl (h a)

/-! ## components and variables -/

theorem checkVars_ok {ust : Units.Store} {cname : String} : ∀ (ds : List VarDecl) (acc r : List VRef × List String),
    checkVars ust cname ds acc = .ok r → ∀ d ∈ ds, ∃ k, Units.getUnit ust d.units = .ok k
  | [], _, _, _, d, hd => by simp at hd
  | d0 :: ds, (names, ids), r, h, d, hd => by
      unfold checkVars at h
      split at h
      · cases h
      · rename_i k hk
        split at h
        · cases h
        · split at h
          · split at h
            · cases h
            · rcases List.mem_cons.mp hd with rfl | hd'
              · exact ⟨k, hk⟩
              · exact checkVars_ok ds _ r h d hd'
          · rcases List.mem_cons.mp hd with rfl | hd'
            · exact ⟨k, hk⟩
            · exact checkVars_ok ds _ r h d hd'

theorem checkComps_ok {ust : Units.Store} : ∀ (cs : List Comp) (seen : List String) (acc r : List VRef × List String),
    checkComps ust cs seen acc = .ok r →
    (cs.map (·.name)).Nodup ∧ (∀ c ∈ cs, c.name ∉ seen) ∧
      ∀ c ∈ cs, ∀ d ∈ c.vars, ∃ k, Units.getUnit ust d.units = .ok k
  | [], _, _, _, _ => by simp
  | c :: cs, seen, acc, r, h => by
      unfold checkComps at h
      split at h
      · cases h
      · rename_i hseen
        split at h
        · cases h
        · rename_i acc' hv
          obtain ⟨ih1, ih2, ih3⟩ := checkComps_ok cs (c.name :: seen) acc' r h
          have hns : c.name ∉ seen := by simpa using hseen
          refine ⟨?_, ?_, ?_⟩
          · simp only [List.map_cons, List.nodup_cons]
            refine ⟨?_, ih1⟩
            intro hm
            obtain ⟨c', hc', he⟩ := List.mem_map.mp hm
            exact ih2 c' hc' (by rw [he]; exact List.mem_cons_self)
          · intro c' hc'
            rcases List.mem_cons.mp hc' with rfl | hc'
            · exact hns
            · exact fun hm => ih2 c' hc' (List.mem_cons_of_mem _ hm)
          · intro c' hc'
            rcases List.mem_cons.mp hc' with rfl | hc'
            · exact checkVars_ok _ _ _ hv
            · exact ih3 c' hc'

/-! ## connections: existence of the components, direction -/

theorem directAll_ok {comps : List String} {par : ParentMap} {vt : VarTable} :
    ∀ {ks : List Conn} {dl : List (VRef × VRef)}, directAll comps par vt ks = .ok dl →
      ks.map (direction par vt) = dl.map Except.ok ∧
      ∀ k ∈ ks, comps.contains k.c1 = true ∧ comps.contains k.c2 = true
  | [], dl, h => by simp only [directAll, Except.ok.injEq] at h; subst h; simp
  | k :: ks, dl, h => by
      unfold directAll at h
      split at h
      · cases h
      · rename_i h1
        split at h
        · cases h
        · rename_i h2
          split at h
          · cases h
          · rename_i d hd
            split at h
            · cases h
            · rename_i ds hds
              simp only [Except.ok.injEq] at h; subst h
              obtain ⟨ih1, ih2⟩ := directAll_ok hds
              refine ⟨by simp only [List.map_cons, hd, ih1], ?_⟩
              intro k' hk'
              rcases List.mem_cons.mp hk' with rfl | hk'
              · exact ⟨by simpa using h1, by simpa using h2⟩
              · exact ih2 k' hk'

/-- the directed connection of a `<map_variables>` that `directAll` accepted -/
theorem directAll_mem {comps : List String} {par : ParentMap} {vt : VarTable} {ks : List Conn}
    {dl : List (VRef × VRef)} (h : directAll comps par vt ks = .ok dl) {k : Conn} (hk : k ∈ ks) :
    ∃ d ∈ dl, direction par vt k = .ok d := (directAll_spec h).1 k hk

/-! ## maths -/

theorem checkIdent_ok {vt : VarTable} {cname x : String} (h : checkIdent vt cname x = .ok ()) :
    (vt.lookup (cname, x)).isSome = true := by
  unfold checkIdent at h
  split at h
  · assumption
  · cases h

theorem checkExpr_ok {ust : Units.Store} {vt : VarTable} {cname : String} :
    ∀ (e : Expr String String), checkExpr ust vt cname e = .ok () →
      (∀ x ∈ e.idents, (vt.lookup (cname, x)).isSome = true) ∧
      (∀ u ∈ e.unitsUsed, ∃ k, Units.getUnit ust u = .ok k) := by
  intro e
  induction e with
  | num q u =>
      intro h
      unfold checkExpr at h
      split at h
      · rename_i k hk; simp only [Expr.idents, Expr.unitsUsed]; exact ⟨by simp, by simpa using ⟨k, hk⟩⟩
      · cases h
  | var a =>
      intro h
      simp only [checkExpr] at h
      simp only [Expr.idents, Expr.unitsUsed]
      exact ⟨by simpa using checkIdent_ok h, by simp⟩
  | diff x t =>
      intro h
      simp only [checkExpr] at h
      split at h
      · rename_i ht
        simp only [Expr.idents, Expr.unitsUsed]
        refine ⟨?_, by simp⟩
        intro y hy
        simp only [List.mem_cons, List.not_mem_nil, or_false] at hy
        rcases hy with rfl | rfl
        · exact checkIdent_ok h
        · exact checkIdent_ok ht
      · cases h
  | add a b iha ihb | sub a b iha ihb | mul a b iha ihb | div a b iha ihb =>
      intro h
      simp only [checkExpr] at h
      split at h
      · rename_i ha
        obtain ⟨a1, a2⟩ := iha ha
        obtain ⟨b1, b2⟩ := ihb h
        simp only [Expr.idents, Expr.unitsUsed, List.mem_append]
        exact ⟨fun x hx => hx.elim (a1 x) (b1 x), fun u hu => hu.elim (a2 u) (b2 u)⟩
      · cases h
  | neg a iha => intro h; simp only [checkExpr] at h; exact iha h
  | powi a n iha => intro h; simp only [checkExpr] at h; exact iha h

theorem checkLhs_ok {vt : VarTable} {cname : String} {l : Lhs String} (h : checkLhs vt cname l = .ok ()) :
    ∀ x ∈ l.idents, (vt.lookup (cname, x)).isSome = true := by
  cases l with
  | var a =>
      simp only [checkLhs] at h
      simp only [Lhs.idents]
      simpa using checkIdent_ok h
  | diff x t =>
      simp only [checkLhs] at h
      split at h
      · rename_i ht
        intro y hy
        simp only [Lhs.idents, List.mem_cons, List.not_mem_nil, or_false] at hy
        rcases hy with rfl | rfl
        · exact checkIdent_ok h
        · exact checkIdent_ok ht
      · cases h

/-- the flat variable an equation of component `cname` defines -/
def lhsRoot (st : CState) (cname : String) (e : Eqn String String) : VRef := rootOf st (cname, e.lhs.defines)

theorem transcribe_defines (ust : Units.Store) (st : CState) (cname : String) (e : Eqn String String) :
    (transcribe ust st cname e).lhs.defines = lhsRoot st cname e := by
  unfold transcribe lhsRoot Eqn.map
  cases e.lhs <;> rfl

/-- an equation site is clean: identifiers declared, units known -/
def EqClean (ust : Units.Store) (vt : VarTable) (cname : String) (e : Eqn String String) : Prop :=
  (∀ x ∈ e.lhs.idents ++ e.rhs.idents, (vt.lookup (cname, x)).isSome = true) ∧
  ∀ u ∈ e.rhs.unitsUsed, ∃ k, Units.getUnit ust u = .ok k

theorem checkEqs_ok {ust : Units.Store} {vt : VarTable} {st : CState} {cname : String} :
    ∀ (es : List (Eqn String String)) (d0 d : List VRef), checkEqs ust vt st cname es d0 = .ok d →
      d = (es.map (lhsRoot st cname)).reverse ++ d0 ∧
      ((es.map (lhsRoot st cname)).Nodup ∧ ∀ v ∈ es.map (lhsRoot st cname), v ∉ d0) ∧
      ∀ e ∈ es, EqClean ust vt cname e
  | [], d0, d, h => by simp only [checkEqs, Except.ok.injEq] at h; subst h; simp
  | e :: es, d0, d, h => by
      unfold checkEqs at h
      split at h
      · cases h
      · rename_i hl
        split at h
        · cases h
        · rename_i hr
          simp only at h
          split at h
          · cases h
          · rename_i hnc
            rw [transcribe_defines] at hnc h
            have hnc' : lhsRoot st cname e ∉ d0 := by simpa using hnc
            obtain ⟨ih1, ⟨ih2, ih2'⟩, ih3⟩ := checkEqs_ok es _ d h
            refine ⟨?_, ⟨?_, ?_⟩, ?_⟩
            · rw [ih1]; simp
            · simp only [List.map_cons, List.nodup_cons]
              refine ⟨fun hm => ?_, ih2⟩
              exact ih2' _ hm List.mem_cons_self
            · intro v hv
              simp only [List.map_cons, List.mem_cons] at hv
              rcases hv with rfl | hv
              · exact hnc'
              · exact fun hd => ih2' v hv (List.mem_cons_of_mem _ hd)
            · intro e' he'
              rcases List.mem_cons.mp he' with rfl | he'
              · obtain ⟨r1, r2⟩ := checkExpr_ok _ hr
                refine ⟨?_, r2⟩
                intro x hx
                rcases List.mem_append.mp hx with hx | hx
                · exact checkLhs_ok hl x hx
                · exact r1 x hx
              · exact ih3 e' he'

/-- the flat variables the equations of the components define, in the order `_add_maths` adds them -/
def lhsRoots (st : CState) (cs : List Comp) : List VRef := cs.flatMap (fun c => c.eqs.map (lhsRoot st c.name))

theorem checkMaths_ok {ust : Units.Store} {vt : VarTable} {st : CState} :
    ∀ (cs : List Comp) (d0 d : List VRef), checkMaths ust vt st cs d0 = .ok d →
      d = (lhsRoots st cs).reverse ++ d0 ∧ ((lhsRoots st cs).Nodup ∧ ∀ v ∈ lhsRoots st cs, v ∉ d0) ∧
      ∀ c ∈ cs, ∀ e ∈ c.eqs, EqClean ust vt c.name e
  | [], d0, d, h => by simp only [checkMaths, Except.ok.injEq] at h; subst h; simp [lhsRoots]
  | c :: cs, d0, d, h => by
      unfold checkMaths at h
      split at h
      · cases h
      · rename_i d1 h1
        obtain ⟨a1, ⟨a2, a2'⟩, a3⟩ := checkEqs_ok _ _ _ h1
        obtain ⟨b1, ⟨b2, b2'⟩, b3⟩ := checkMaths_ok cs d1 d h
        have hsplit : lhsRoots st (c :: cs) = c.eqs.map (lhsRoot st c.name) ++ lhsRoots st cs := by
          simp [lhsRoots]
        refine ⟨?_, ⟨?_, ?_⟩, ?_⟩
        · rw [b1, a1, hsplit]; simp
        · rw [hsplit, List.nodup_append]
          refine ⟨a2, b2, ?_⟩
          intro x hx y hy hxy
          subst hxy
          exact b2' x hy (by rw [a1]; simp [hx])
        · intro v hv
          rw [hsplit, List.mem_append] at hv
          rcases hv with hv | hv
          · exact a2' v hv
          · exact fun hd => b2' v hv (by rw [a1]; simp [hd])
        · intro c' hc'
          rcases List.mem_cons.mp hc' with rfl | hc'
          · exact a3
          · exact b3 c' hc'

/-! ## constants -/

theorem checkConstants_ok {states defined : List VRef} : ∀ (vt : VarTable), checkConstants states defined vt = .ok () →
    ∀ v i, (v, i) ∈ vt → (states.contains v = true → i.init.isSome = true) ∧
      (states.contains v = false → i.init.isSome = true → defined.contains v = false)
  | [], _, v, i, hm => by simp at hm
  | (v0, i0) :: vt, h, v, i, hm => by
      unfold checkConstants at h
      split at h
      · rename_i hs
        split at h
        · cases h
        · rename_i hi
          rcases List.mem_cons.mp hm with he | hm
          · simp only [Prod.mk.injEq] at he
            obtain ⟨rfl, rfl⟩ := he
            refine ⟨fun _ => ?_, fun hc => by rw [hs] at hc; cases hc⟩
            cases hx : i.init with
            | none => rw [hx] at hi; simp at hi
            | some q => rfl
          · exact checkConstants_ok vt h v i hm
      · rename_i hs
        split at h
        · cases h
        · rename_i hd
          rcases List.mem_cons.mp hm with he | hm
          · simp only [Prod.mk.injEq] at he
            obtain ⟨rfl, rfl⟩ := he
            refine ⟨fun hc => absurd hc hs, fun _ hi => ?_⟩
            cases hc : defined.contains v with
            | false => rfl
            | true => rw [hi, hc] at hd; simp at hd
          · exact checkConstants_ok vt h v i hm

end C17
