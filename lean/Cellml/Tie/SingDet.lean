import Cellml.Generated.Code.SingDet
import Cellml.C12.Lemmas
import Mathlib.Tactic.SplitIfs
import Mathlib.Tactic.FieldSimp
set_option linter.unusedSimpArgs false

/-! # Ties of the decision logic of `_is_negative_power`, `_solve_real` and (partially) `_get_singularity` (generated
    from the source, `Cellml/Generated/Code/SingDet.lean`) to the hand model `C12/Detect.lean`.

    Tied: the sign test of the exponent; the unwrapping of `Intersection(Reals, S)`; `check_U_match` (assertion on
    `P_wildcard`, `sp == SP or isclose(SP, sp)`); the loop over the candidate "tops" (`for fp1 in fraction_part_1`):
    the order `P·u`, then `P·V − P·SP`, then `exp(P·V − P·SP)`, `match[P] != 0`, the `break` — = `C12.onTop` under
    `List.any`. What the leaves are: `Tie/SingDetView.lean`. What is NOT tied: see `notes/reports/TIE2_Sing2.md`. -/

namespace Cellml.Tie.PSing2
open C12 Cellml.Gen

/-! ## `_is_negative_power` -/

/-- the model's reading (`C12.detect?` splits the classified factors by `f.2 < 0`): a power with a negative exponent -/
def isNegPow : Expr → Bool
  | .pow _ n => decide (n < 0)
  | _ => false

/-- **`_is_negative_power`, for an ARBITRARY `evalf` leaf** (it may return a number, raise `TypeError` — an exponent
    with free symbols — or raise anything else): not a `Pow`: `False` (and `evalf` is not run); a number: its sign;
    `TypeError`: swallowed, `False`; any other exception: passed on -/
theorem isNegativePower_spec (evalf : Expr → Except PyErr Rat) (e : Expr) :
    SingDet.isNegativePower evalf e =
      if isPowE e then
        (match evalf e with
         | .ok q => .ok (decide (q < 0))
         | .error err => if err.cls == "TypeError" then .ok false else .error err)
      else .ok false := by
  unfold SingDet.isNegativePower
  by_cases hp : isPowE e = true
  · cases hv : evalf e with
    | ok q =>
      simp [hp, hv, bind, Except.bind, pure, Except.pure, tryCatch, tryCatchThe, MonadExceptOf.tryCatch,
        Except.tryCatch]
      rfl
    | error err =>
      by_cases hc : err.cls = "TypeError"
      · simp [hp, hv, hc, bind, Except.bind, pure, Except.pure, tryCatch, tryCatchThe, MonadExceptOf.tryCatch,
          Except.tryCatch]
        rfl
      · simp [hp, hv, hc, bind, Except.bind, pure, Except.pure, tryCatch, tryCatchThe, MonadExceptOf.tryCatch,
          Except.tryCatch]
        rfl
  · simp [hp, bind, Except.bind, pure, Except.pure, tryCatch, tryCatchThe, MonadExceptOf.tryCatch, Except.tryCatch]
    rfl

/-- on the C12 trees (integer exponents: `evalf` never raises) it is the model's test -/
theorem isNegativePower_tie (e : Expr) : SingDet.isNegativePower expEvalf e = .ok (isNegPow e) := by
  rw [isNegativePower_spec]
  cases e <;> simp [isPowE, expEvalf, isNegPow]

/-! ## `_solve_real` -/

/-- what the model expects of `_solve_real`: `Intersection(Reals, S)` is unwrapped once, anything else is returned -/
def stripReals : SolveSet → SolveSet
  | .inter true s => s
  | r => r

theorem solveReal_tie (ss : Aff → SolveSet) (u : Aff) : SingDet.solveReal ss u = .ok (stripReals (ss u)) := by
  unfold SingDet.solveReal stripReals
  cases h : ss u with
  | plain pts => simp [h, bind, Except.bind, pure, Except.pure, SolveSet.isInter, SolveSet.arg0IsReals]
  | inter b s =>
    cases b <;> simp [h, bind, Except.bind, pure, Except.pure, SolveSet.isInter, SolveSet.arg0IsReals, SolveSet.arg1]

/-- `solveset` on the affine fragment: `k·V + c = 0` has the one real solution `−c/k` -/
def solveAff (u : Aff) : SolveSet := .plain [-u.2 / u.1]

/-- the three calls of `_get_singularity` (`u`, `u − U_offset`, `u + U_offset`; on `(k, c)` the offset goes to `c`)
    give the model's `spOf`, `vminOf`, `vmaxOf`: the window `C12.window k c δ` -/
theorem solveReal_window (k c δ : Rat) :
    SingDet.solveReal solveAff (k, c) = .ok (.plain [spOf k c]) ∧
    SingDet.solveReal solveAff (k, c - δ) = .ok (.plain [vminOf k c δ]) ∧
    SingDet.solveReal solveAff (k, c + δ) = .ok (.plain [vmaxOf k c δ]) := by
  have h2 : -(c - δ) = δ - c := by ring
  have h3 : -(c + δ) = -δ - c := by ring
  refine ⟨?_, ?_, ?_⟩ <;> simp only [solveReal_tie, solveAff, stripReals, spOf, vminOf, vmaxOf, h2, h3]

/-! ## `check_U_match` -/

/-- **`check_U_match` for an ARBITRARY `isclose` leaf**: no match: `False`; a match with `P = 0`: the assertion
    fails; otherwise `sp == SP or isclose(SP, sp)` (the singular points of the fragment are numbers) -/
theorem checkUMatch_spec (close : Rat → Rat → Bool) (m : Option Bind) (sp : Rat) :
    SingDet.checkUMatch close m sp =
      match m with
      | none => .ok false
      | some b => if b.P = 0 then .error ⟨"AssertionError"⟩ else .ok (sp == b.SP || close b.SP sp) := by
  cases m with
  | none => simp [SingDet.checkUMatch, pure, Except.pure, bind, Except.bind]
  | some b =>
    by_cases hP : b.P = 0
    · simp [SingDet.checkUMatch, pure, Except.pure, bind, Except.bind, getP, hP, throw, throwThe,
        MonadExceptOf.throw]
    · simp [SingDet.checkUMatch, pure, Except.pure, bind, Except.bind, getP, getSP, hP, isNumber]

theorem checkUMatch_none (sp : Rat) : SingDet.checkUMatch isClose none sp = .ok false := by
  rw [checkUMatch_spec]

/-- in the exact model (`isclose` = equality): accepted exactly when the matched offset IS the singular point -/
theorem checkUMatch_some (b : Bind) (sp : Rat) (hP : b.P ≠ 0) :
    SingDet.checkUMatch isClose (some b) sp = .ok (sp == b.SP) := by
  rw [checkUMatch_spec]
  by_cases h : sp = b.SP
  · simp [hP, isClose, h]
  · have h' : b.SP ≠ sp := fun e => h e.symm
    simp [hP, isClose, h, h']

/-- a match with `P = 0` trips the assertion -/
theorem checkUMatch_zero (b : Bind) (sp : Rat) (hP : b.P = 0) :
    SingDet.checkUMatch isClose (some b) sp = .error ⟨"AssertionError"⟩ := by
  rw [checkUMatch_spec]; simp [hP]

/-! ## the loop over the candidate tops -/

/-- what the classification guarantees of a factor (`classifyBase`: a zero slope is a constant; `normalise` drops
    `exp(0·V)`): needed, because python asserts `P_wildcard != 0` and the model's `onTop` divides by the slope -/
def wfFac (f : Fac) : Prop :=
  match f.1 with
  | .aff k _ => k ≠ 0
  | .ex k => k ≠ 0
  | _ => True

/-- a python `for` whose body ends in `if found: break`, with the flag as the only state -/
theorem forIn_any {α : Type} (l : List α) (g : α → Bool) (body : α → Bool → Except PyErr (ForInStep Bool))
    (hb : ∀ a ∈ l, ∀ r, body a r = .ok (if g a then .done true else .yield false)) (init : Bool) :
    forIn l init body = .ok (if l.isEmpty then init else l.any g) := by
  induction l generalizing init with
  | nil => rfl
  | cons a as ih =>
    rw [List.forIn_cons, hb a List.mem_cons_self]
    by_cases h : g a = true
    · simp [h, bind, Except.bind, pure, Except.pure]
    · simp only [h, Bool.false_eq_true, if_false, bind, Except.bind]
      rw [ih (fun a' ha' => hb a' (List.mem_cons_of_mem _ ha'))]
      cases as <;> simp [h]

theorem onTopLoop_tie (part1 : List Fac) (u : Aff) (found0 : Bool) (hu : u.1 ≠ 0) (hw : ∀ f ∈ part1, wfFac f) :
    SingDet.onTopLoop part1 u (-u.2 / u.1) found0
      = .ok (if part1.isEmpty then found0 else part1.any (onTop (-u.2 / u.1))) := by
  unfold SingDet.onTopLoop
  simp only [bind, Except.bind, pure, Except.pure, Py.truthy_bool]
  rw [forIn_any part1 (onTop (-u.2 / u.1))]
  intro f hf r
  have hwf := hw f hf
  obtain ⟨b, n⟩ := f
  unfold onTop
  by_cases hn : n = 1
  · subst hn
    cases b with
    | aff k' c' =>
      have hk' : k' ≠ 0 := hwf
      simp only [matchMulU, matchLin, matchExpLin, beq_self_eq_true, if_true, checkUMatch_none]
      rw [checkUMatch_some _ _ hk']
      by_cases hprop : k' * u.2 = c' * u.1
      · have hsp : -u.2 / u.1 = -c' / k' := by field_simp; linarith
        simp [hprop, hasP, getP, hk', hu, hsp]
      · simp [hprop]
        split_ifs <;> simp_all
    | ex k' =>
      have hk' : k' ≠ 0 := hwf
      simp only [matchMulU, matchLin, matchExpLin, beq_self_eq_true, if_true, checkUMatch_none]
      rw [checkUMatch_some _ _ hk']
      simp
      split_ifs <;> simp_all
    | _ => simp [matchMulU, matchLin, matchExpLin, checkUMatch_none]
  · simp [matchMulU, matchLin, matchExpLin, checkUMatch_none, hn]

/-- the test of `C12.pass` (`part1.any (onTop w.sp)` for the window `w` of a part `±(exp(k·V + c) − 1)` of the other
    side) IS the generated loop over `fraction_part_1` (never empty in python: the whole product is appended), run
    with `u = k·V + c` and the singular point of that window -/
theorem pass_test_tie (part1 : List Fac) (k c δ : Rat) (found0 : Bool) (hk : k ≠ 0) (hne : part1 ≠ [])
    (hw : ∀ f ∈ part1, wfFac f) :
    SingDet.onTopLoop part1 (k, c) (window k c δ).sp found0 = .ok (part1.any (onTop (window k c δ).sp)) := by
  have h := onTopLoop_tie part1 (k, c) found0 hk hw
  have he : part1.isEmpty = false := by cases part1 <;> simp_all
  simp only [he, Bool.false_eq_true, if_false] at h
  exact h

end Cellml.Tie.PSing2
