import Cellml.C15.Graph

/-! # The sorted role queries: their sort keys are injective on what they sort -/

namespace C15
open Load

variable {cx : Ctx} {F : Flat}

/-- nodes of the declared variables, in `variables()` order -/
def varNodes (cx : Ctx) (F : Flat) : List Node := (variables F).map (fun x => cx.num (.var x))

theorem orderAdded_eq (cx : Ctx) (F : Flat) (v : Node) : orderAdded cx F v = (varNodes cx F).idxOf v := rfl

/-- `order_added` tells declared variables apart -/
theorem orderAdded_inj {a b : Node} (ha : a ∈ varNodes cx F) (hb : b ∈ varNodes cx F)
    (h : orderAdded cx F a = orderAdded cx F b) : a = b := by
  rw [orderAdded_eq, orderAdded_eq] at h
  have ha' := List.idxOf_lt_length_iff.mpr ha
  have hb' := List.idxOf_lt_length_iff.mpr hb
  have e1 := List.getElem_idxOf ha'
  have e2 := List.getElem_idxOf hb'
  rw [← e1, ← e2]
  simp only [h]

/-- every variable that an equation defines (as `x = …` or as `dx/dt = …`) is a declared variable -/
def Declared (cx : Ctx) (F : Flat) : Prop :=
  ∀ e ∈ F.eqs, cx.num (.var e.lhs.defines) ∈ varNodes cx F

/-- a state has one ODE: two derivative left-hand sides of the same state are the same node -/
def OdeOnce (cx : Ctx) (F : Flat) : Prop :=
  ∀ e₁ ∈ F.eqs, ∀ e₂ ∈ F.eqs, e₁.lhs.isDiff = true → e₂.lhs.isDiff = true →
    cx.num (.var e₁.lhs.defines) = cx.num (.var e₂.lhs.defines) → cx.num e₁.lhs = cx.num e₂.lhs

theorem setType_computed {ty : Node → Option VType} {w v : Node} {t : VType}
    (h : setType ty w t v = some .computed) : (w = v ∧ t = .computed) ∨ ty v = some .computed := by
  unfold setType at h
  split at h
  · rename_i hv
    simp only [Option.some.injEq] at h
    exact Or.inl ⟨hv.symm, h⟩
  · exact Or.inr h

/-- only an equation `x = …` makes `x` COMPUTED -/
theorem types_computed (cx : Ctx) : ∀ (eqs : List FlatEq) (ty : Node → Option VType) (v : Node),
    eqs.foldl (typeStep cx) ty v = some .computed →
      ty v = some .computed ∨ ∃ e ∈ eqs, ∃ x, e.lhs = .var x ∧ cx.num (.var x) = v
  | [], _, _, h => Or.inl h
  | e :: es, ty, v, h => by
      rw [List.foldl_cons] at h
      rcases types_computed cx es _ v h with h1 | ⟨e', he', x, hx, hv⟩
      · unfold typeStep at h1
        cases hl : e.lhs with
        | var x =>
            rw [hl] at h1
            simp only at h1
            rcases setType_computed h1 with ⟨hv, _⟩ | h2
            · exact Or.inr ⟨e, List.mem_cons_self, x, hl, hv⟩
            · exact Or.inl h2
        | diff x t =>
            rw [hl] at h1
            simp only at h1
            rcases setType_computed h1 with ⟨_, ht⟩ | h2
            · cases ht
            · rcases setType_computed h2 with ⟨_, ht⟩ | h3
              · cases ht
              · exact Or.inl h3
      · exact Or.inr ⟨e', List.mem_cons_of_mem _ he', x, hx, hv⟩

theorem computed_declared (hd : Declared cx F) {v : Node} (h : types cx F.eqs v = some .computed) :
    v ∈ varNodes cx F := by
  rcases types_computed cx F.eqs _ v h with h0 | ⟨e, he, x, hx, hv⟩
  · cases h0
  · have := hd e he
    rw [hx] at this
    simp only [Lhs.defines] at this
    exact hv ▸ this

/-- a derivative node is the left-hand side of an ODE; `stateOf` is that ODE's state -/
theorem isDeriv_spec {d : Node} (h : isDeriv cx F d = true) :
    ∃ e ∈ F.eqs, e.lhs.isDiff = true ∧ cx.num e.lhs = d ∧ stateOf cx F d = cx.num (.var e.lhs.defines) := by
  unfold isDeriv at h
  rw [List.any_eq_true] at h
  obtain ⟨e0, he0, hp0⟩ := h
  unfold stateOf
  cases hf : F.eqs.find? (fun e => e.lhs.isDiff && cx.num e.lhs == d) with
  | none =>
      have := List.find?_eq_none.mp hf e0 he0
      exact absurd hp0 this
  | some e =>
      have hp := List.find?_some hf
      have hm := List.mem_of_find?_eq_some hf
      simp only [Bool.and_eq_true, beq_iff_eq] at hp
      exact ⟨e, hm, hp.1, hp.2, rfl⟩

theorem stateOf_inj (hd : Declared cx F) (ho : OdeOnce cx F) {a b : Node} (ha : isDeriv cx F a = true)
    (hb : isDeriv cx F b = true)
    (h : orderAdded cx F (stateOf cx F a) = orderAdded cx F (stateOf cx F b)) : a = b := by
  obtain ⟨e₁, he₁, hd₁, hn₁, hs₁⟩ := isDeriv_spec ha
  obtain ⟨e₂, he₂, hd₂, hn₂, hs₂⟩ := isDeriv_spec hb
  rw [hs₁, hs₂] at h
  have := orderAdded_inj (hd e₁ he₁) (hd e₂ he₂) h
  rw [← hn₁, ← hn₂]
  exact ho e₁ he₁ e₂ he₂ hd₁ hd₂ this

end C15
