/-! Property theorems for C08 (not built yet). -/
