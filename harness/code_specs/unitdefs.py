"""Code-translator spec (see harness/translate_code.py and harness/code_specs/__init__.py).

Group UnitDefs: cellmlmanip/parser.py `Parser._make_pint_unit_definition` and `Parser._add_units` (set-up pass and the body
of the `while definitions_to_add:` loop). Accessors: lean/Cellml/Tie/UnitDefsView.lean; ties: lean/Cellml/Tie/UnitDefs.lean.

Every pattern is a python LEAF of the translated function:
 * dict access / membership on the attribute dict of a `<unit>` element (`d[k]`, `k in d`): the KEY flows from the source;
 * the three `%`-formats and the `join` that build the pint expression: the string is data for pint, the tree
   constructors of the view name the format (a changed format string no longer matches its pattern, the generic rule
   `Py.fmt` then yields a `String` where a `UExpr` is expected and the build fails);
 * `UNIT_PREFIXES[k]` (generated table); `float(text)` (CPython's conversion, `ValueError` for text that is not a number:
   a monadic leaf, so the short circuit of `'offset' in d and float(d['offset']) != 0` and the class of the exception
   flow from the source; the comparison `!= 0` is the generic rule, on the view's `PyFloat`);
 * etree queries (`findall`, `get`, `getchildren`, `attrib`), `set(_CELLML_UNITS)`;
 * the `UnitStore` methods `add_base_unit`, `is_defined`, `add_unit`; the call of the sibling method
   `_make_pint_unit_definition` goes to the definition generated from ITS source;
 * deque / set mutations (`append`, `pop`, `appendleft`, `add`).
"""

_MAKE = {'file': 'cellmlmanip/parser.py',
         'func': 'Parser._make_pint_unit_definition',
         'lean_name': 'makePintUnitDefinition',
         'signature': '(units_name : String) (unit_attributes : List UnitElem) : Except PyErr PintDef',
         'var_types': {'expr': 'UExpr', 'full_unit_expr': 'List UExpr'},
         'mutable': ['full_unit_expr'],
         'patterns': [('UNIT_PREFIXES[__A]', '← Pint.prefixTable {A}'),
                      ('__D[__K]', '(({D}).get! {K})'),
                      ('__K in __D', '(({D}).has {K})'),
                      ("'1e%s' % __A", '(PowLit.sci {A})'),
                      ("'(%s * %s)' % (__A, __B)", '(Pint.fmtMul {A} {B})'),
                      ("'((%s)**%s)' % (__A, __B)", '(Pint.fmtPow {A} {B})'),
                      ("'*'.join(__A)", '(Pint.joinStar {A})'),
                      ('float(__A)', '← Pint.float {A}')],
         'stmt_patterns': [('full_unit_expr.append(__A)', 'full_unit_expr := full_unit_expr ++ [{A}]')]}

# the same function once more with the GENERIC rules for the formats (`Py.fmt`, `String.intercalate`): the string pint
# receives. `makeDefStr_tie` proves it is the rendering of the tree (`PintDef.render`), i.e. the tree constructors bound
# above are nothing but names for these format strings.
_MAKE_STR = {'file': 'cellmlmanip/parser.py',
             'func': 'Parser._make_pint_unit_definition',
             'lean_name': 'makePintUnitDefinitionStr',
             'signature': '(units_name : String) (unit_attributes : List UnitElem) : Except PyErr String',
             'var_types': {'full_unit_expr': 'List String'},
             'mutable': ['full_unit_expr'],
             'patterns': [('UNIT_PREFIXES[__A]', '← Pint.prefixTableStr {A}'),
                          ('__D[__K]', '(({D}).get! {K})'),
                          ('__K in __D', '(({D}).has {K})'),
                          ('float(__A)', '← Pint.float {A}')],
             'stmt_patterns': [('full_unit_expr.append(__A)', 'full_unit_expr := full_unit_expr ++ [{A}]')]}

_UNITS_PATTERNS = [('__D[__K]', '(({D}).get! {K})'),
                   ("model.findall(with_ns(XmlNs.CELLML, 'units'))", 'model'),
                   ('set(_CELLML_UNITS)', 'Cellml.Gen.cellmlUnits'),
                   ('deque()', '[]'),
                   ("__A.get('name')", '({A}).name'),
                   ("__A.get('base_units')", '(baseUnitsAttr {A})'),
                   ('__A.getchildren()', '({A}).elems'),
                   ('self._make_pint_unit_definition(__A, __B)', '← makePintUnitDefinition {A} {B}'),
                   ('self.model.units.is_defined(__A)', '(isDefined ust {A})')]

_UNITS_STMTS = [('from cellmlmanip.units import _CELLML_UNITS', ''),
                ('self.model.units.add_base_unit(__A)', 'ust ← addBaseUnitLeaf ust {A}'),
                ('self.model.units.add_unit(__A, __B)', 'ust ← addUnitLeaf ust {A} {B}'),
                ('units_found.add(__A)', 'units_found := {A} :: units_found'),
                ('definitions_to_add.append(__A)', 'definitions_to_add := definitions_to_add ++ [{A}]'),
                ('definitions_to_add.appendleft(__A)', 'definitions_to_add := {A} :: definitions_to_add'),
                ('unit_name, unit_elements = definitions_to_add.pop()',
                 'let ((unit_name, unit_elements), rest__) ← popRight definitions_to_add\n'
                 'definitions_to_add := rest__')]

_STATE = ('(List (String × List UnitElem) × Nat × List String × UStore)')

GROUP = {'name': 'UnitDefs',
         'imports': ['Cellml.Tie.UnitDefsView'],
         'header': 'open Cellml.Tie.PUnitDefs\nopen Units',
         'functions': [
             _MAKE,
             _MAKE_STR,
             {'file': 'cellmlmanip/parser.py',
              'func': 'Parser._add_units',
              'lean_name': 'addUnitsSetup',
              'before_while': 0,
              'result': ['definitions_to_add', 'iteration', 'units_found', 'ust'],
              'params': ['self', 'model', 'ust'],
              'mutable_params': ['ust'],
              'mutable': ['units_found', 'definitions_to_add'],
              'var_types': {'definitions_to_add': 'List (String × List UnitElem)'},
              'signature': '(model : List UDef) (ust : UStore) : Except PyErr ' + _STATE,
              'patterns': _UNITS_PATTERNS,
              'stmt_patterns': _UNITS_STMTS},
             {'file': 'cellmlmanip/parser.py',
              'func': 'Parser._add_units',
              'lean_name': 'addUnitsBody',
              'while_body': 0,
              'loop_state': ['definitions_to_add', 'iteration', 'units_found', 'ust'],
              'params': ['self', 'definitions_to_add', 'iteration', 'units_found', 'ust'],
              'emit_loop_test': '(definitions_to_add : List (String × List UnitElem)) : Bool',
              'signature': '(definitions_to_add : List (String × List UnitElem)) (iteration : Nat) '
                           '(units_found : List String) (ust : UStore) : Except PyErr ' + _STATE,
              'patterns': _UNITS_PATTERNS,
              'stmt_patterns': _UNITS_STMTS}]}
