import Cellml.C12.Expr

/-! # C12 — the traversal of `remove_fixable_singularities(model, V, modifiable_parameters)` (core Lean only).

    The model's equations are visited in (lexicographical) topological order. An equation whose right-hand side is a
    `Piecewise`, or whose left-hand side is excluded, is skipped and NOT remembered; otherwise its right-hand side is
    partially evaluated with the remembered ones and handed to `fix` (`_remove_singularities`): when that reports a
    change the equation is removed and one with the same left-hand side and the new right-hand side is added (at the end
    of `Model.equations`), and it is forgotten; otherwise the partially evaluated right-hand side is remembered.
    `fix` is arbitrary here. -/

namespace C12
open Expr

structure Eqn where
  lhs : String
  rhs : Expr
deriving Inhabited

structure TState where
  eqs : List Eqn
  env : Env

/-- `model.remove_equation(eq)`: left-hand sides identify equations -/
def removeEq (eqs : List Eqn) (lhs : String) : List Eqn := eqs.filter (fun e => e.lhs != lhs)

def step (fix : Expr → Option Expr) (excl : List String) (st : TState) (e : Eqn) : TState :=
  if e.rhs.isPiecewise || excl.contains e.lhs then st
  else
    let r := subst st.env e.rhs
    match fix r with
    | some new => ⟨removeEq st.eqs e.lhs ++ [⟨e.lhs, new⟩], st.env⟩
    | none => ⟨st.eqs, (e.lhs, r) :: st.env⟩

/-- `order`: the equations in the order of the sorted graph; `eqs`: `Model.equations` -/
def traverse (fix : Expr → Option Expr) (excl : List String) (order eqs : List Eqn) : TState :=
  order.foldl (step fix excl) ⟨eqs, []⟩

end C12
