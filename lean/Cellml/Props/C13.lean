import Cellml.C13.Lemmas
import Cellml.C13.LoadLemmas

/-! # C13 — annotations always point at exactly one live variable

    Model: `Cellml/Model/Cmeta.lean` (`AState` = the C08 model state + the RDF triples; `astep`, `arun`; the lookups
    `getVariableByCmetaId`, `byRdf`, `byTerm`, `termsOf`), `Cellml/Load/Connect.lean` (`stepConn`: the mover of
    connection resolution, as repaired by commit df25620). Lemmas: `Cellml/C13/Lemmas.lean`, `Cellml/C13/LoadLemmas.lean`.

    Every theorem quantifies over ALL states satisfying the invariant / ALL histories of calls of any length (valid
    calls and calls that raise) / ALL documents. The tie to the Python code is `harness/props/c13.py`. -/

namespace Cellml.Props.C13
open Model

-- ================================================================================================ the bijection
/-- a new model satisfies the invariant, hence the bijection … -/
theorem bij_init (mc : Option String) : AInv (ainit mc) ∧ Bij (ainit mc).m :=
  ⟨ainv_init mc, bij_of_inv (ainv_init mc).inv⟩

/-- … every call — `add_variable` (with or without id, clashing or not), `remove_variable`, `add_equation`,
    `remove_equation`, `add_cmeta_id`, `transfer_cmeta_id`, the graph queries, `rdf.add`, `convert_variable` with
    either setting of `move_annotations`, the loader's mover — whether it returns or raises, preserves it … -/
theorem bij_step (a : AState) (op : AOp) (h : AInv a) : AInv (astep a op).1 ∧ Bij (astep a op).1.m :=
  ⟨ainv_step h op, bij_of_inv (ainv_step h op).inv⟩

/-- … so after every history each cmeta id belongs to at most one live variable and never to a variable and the
    model at once; the registry holds exactly the pairs (id, live variable carrying it); `has_cmeta_id` is true exactly
    of the model's id and the ids carried by live variables. -/
theorem bij_reachable (mc : Option String) (ops : List AOp) : Bij (arun mc ops).m :=
  bij_of_inv (ainv_run mc ops).inv

theorem ainv_reachable (mc : Option String) (ops : List AOp) : AInv (arun mc ops) := ainv_run mc ops

-- ================================================================================================ lookups
/-- `get_variable_by_cmeta_id(c)` returns precisely the live variable that carries `c` now (found by looking at every
    variable), and raises KeyError exactly when no live variable does -/
theorem lookup_id (a : AState) (h : AInv a) (c : String) :
    getVariableByCmetaId a.m c = carrierOf a.m c ∧
    (∀ v, getVariableByCmetaId a.m c = some v ↔ (v ∈ a.m.live ∧ cmetaOf a.m v = some c)) ∧
    (getVariableByCmetaId a.m c = none ↔ ∀ i ∈ a.m.live, cmetaOf a.m i ≠ some c) :=
  ⟨lookup_eq_carrier (bij_of_inv h.inv) c, (bij_of_inv h.inv).lookup_iff c, lookup_none_iff (bij_of_inv h.inv) c⟩

/-- `get_variables_by_rdf(predicate, object)` is the lookup computed from `variables()` alone; when it returns, it
    returns one entry per matching triple, exactly the live variables whose CURRENT id is the subject of a matching
    triple, in `order_added` order; it raises (KeyError) exactly when a matching triple is about an id that no live
    variable carries (an annotation of the model itself, or of an unknown id) -/
theorem lookup_rdf (a : AState) (h : AInv a) (p : String) (o : Option RNode) :
    byRdf a p o = byRdfSpec a p o ∧
    (∀ vs, byRdf a p o = .ok vs →
      vs.length = (a.rdf.filter (tripleMatches p o)).length ∧
      (∀ v, v ∈ vs ↔ v ∈ a.m.live ∧ ∃ t ∈ a.rdf, tripleMatches p o t = true ∧ cmetaOf a.m v = some t.subj) ∧
      vs.Pairwise (fun x y => orderOf a.m x ≤ orderOf a.m y)) ∧
    (∀ e, byRdf a p o = .error e ↔
      (e = .keyError ∧ ∃ t ∈ a.rdf, tripleMatches p o t = true ∧ ∀ i ∈ a.m.live, cmetaOf a.m i ≠ some t.subj)) :=
  ⟨byRdf_eq_spec (bij_of_inv h.inv) p o, fun _ hv => byRdf_ok (bij_of_inv h.inv) hv,
   fun e => byRdf_error (bij_of_inv h.inv) p o e⟩

/-- `get_variable_by_ontology_term(term)` returns `v` exactly when one triple says `… bqbiol:is term` and its subject
    is the id `v` carries now; with no such triple it raises KeyError; and the term found a variable by is among the
    terms reachable through that variable (`get_ontology_terms_by_variable`) -/
theorem lookup_term (a : AState) (h : AInv a) (term : RNode) :
    (∀ v, byTerm a term = .ok v ↔
      ∃ c, a.rdf.filter (tripleMatches bqbiolIs (some term)) = [⟨c, bqbiolIs, term⟩] ∧ v ∈ a.m.live ∧
        cmetaOf a.m v = some c) ∧
    (a.rdf.filter (tripleMatches bqbiolIs (some term)) = [] → byTerm a term = .error .keyError) ∧
    (∀ v, byTerm a term = .ok v → localName term.text ∈ termsOf a v none) :=
  ⟨byTerm_ok_iff (bij_of_inv h.inv) term, byTerm_none term, fun _ hv => byTerm_reachable (bij_of_inv h.inv) hv⟩

/-- a variable's annotations are reachable through it: `get_ontology_terms_by_variable(v, ns)` lists exactly the local
    names of the objects of the `bqbiol:is` triples whose subject is the id `v` carries now -/
theorem annotations_reachable (a : AState) (v : Nat) (ns : Option String) (x : String) :
    x ∈ termsOf a v ns ↔
      ∃ t ∈ a.rdf, cmetaOf a.m v = some t.subj ∧ t.pred = bqbiolIs ∧ nsOk ns t.obj = true ∧ localName t.obj.text = x :=
  termsOf_mem

-- ================================================================================================ edits
/-- `remove_variable(v)` on a variable carrying `c`: the call returns; `v` is no longer in `variables()`; every triple
    about `c` is gone and every other triple is kept; `c` is free again (`has_cmeta_id` false, lookup raises KeyError);
    nobody else's id changes -/
theorem remove_drops_annotations (a : AState) (h : AInv a) (v : Nat) (c : String) (hv : v ∈ a.m.live)
    (hc : cmetaOf a.m v = some c) :
    (astep a (.base (.removeVariable v))).2 = .ok ∧
    v ∉ (astep a (.base (.removeVariable v))).1.m.live ∧
    (∀ t, t ∈ (astep a (.base (.removeVariable v))).1.rdf ↔ (t ∈ a.rdf ∧ t.subj ≠ c)) ∧
    hasCmetaId (astep a (.base (.removeVariable v))).1.m c = false ∧
    getVariableByCmetaId (astep a (.base (.removeVariable v))).1.m c = none ∧
    (∀ i, cmetaOf (astep a (.base (.removeVariable v))).1.m i = cmetaOf a.m i) ∧
    (∀ i, i ∈ (astep a (.base (.removeVariable v))).1.m.live ↔ (i ∈ a.m.live ∧ i ≠ v)) := by
  have hst : astep a (.base (.removeVariable v)) = removeVariableA a v := rfl
  rw [hst]
  obtain ⟨r1, r2, r3, r4, r5⟩ := removeVariableA_ok h.inv hv
  have B := bij_of_inv h.inv
  have B' : Bij (removeVariableA a v).1.m := bij_of_inv (by rw [← hst]; exact (ainv_step h _).inv)
  have hlive : ∀ i, i ∈ (removeVariableA a v).1.m.live ↔ (i ∈ a.m.live ∧ i ≠ v) := by
    intro i; rw [r2, h.inv.reg.liveNodup.mem_erase_iff]; exact And.comm
  have hnone : ∀ i ∈ (removeVariableA a v).1.m.live, cmetaOf (removeVariableA a v).1.m i ≠ some c := by
    intro i hi hci
    obtain ⟨hi1, hi2⟩ := (hlive i).mp hi
    rw [r4] at hci
    exact hi2 (B.distinct i hi1 v hv c hci hc)
  refine ⟨r1, fun hm => ((hlive v).mp hm).2 rfl, ?_, ?_, (lookup_none_iff B' c).mpr hnone, r4, hlive⟩
  · intro t
    rw [r5, hc, mem_dropSubject]
    constructor
    · rintro ⟨h1, h2⟩; exact ⟨h1, fun e => h2 (by rw [e])⟩
    · rintro ⟨h1, h2⟩; exact ⟨h1, fun e => h2 (Option.some.inj e).symm⟩
  · cases hh : hasCmetaId (removeVariableA a v).1.m c with
    | false => rfl
    | true =>
      exfalso
      rcases (B'.has_iff c).mp hh with hm | ⟨i, hi, hci⟩
      · rw [r3] at hm; exact B.notModel v hv c hc hm
      · exact hnone i hi hci

/-- a variable that later receives the id of a removed variable starts without annotations: after
    `remove_variable(v)`, `add_variable(n, cmeta_id=c)` (when it is accepted) creates a variable with no terms -/
theorem readd_has_no_annotations (a : AState) (h : AInv a) (v : Nat) (c : String) (hv : v ∈ a.m.live)
    (hc : cmetaOf a.m v = some c) (n : String) (iv : Option Rat) (ns : Option String) :
    let a1 := (astep a (.base (.removeVariable v))).1
    let a2 := (astep a1 (.base (.addVariable n (some c) iv))).1
    (astep a1 (.base (.addVariable n (some c) iv))).2 = .ok → termsOf a2 a1.m.heap.length ns = [] := by
  intro a1 a2 hok
  obtain ⟨_, _, hrdf, hfree, _, _, _⟩ := remove_drops_annotations a h v c hv hc
  have hnt : nameTaken a1.m n = false := by
    cases hx : nameTaken a1.m n with
    | false => rfl
    | true =>
      have : (astep a1 (.base (.addVariable n (some c) iv))).2 = .raised .valueError := by
        show (addVariable a1.m n (some c) iv).2 = _
        rw [addVariable_raised (Or.inl hx)]
      rw [this] at hok; cases hok
  obtain ⟨_, _, _, _, h5, _⟩ := addVariable_ok (s := a1.m) (n := n) (c := some c) (iv := iv) hnt hfree
  have hcm : cmetaOf a2.m a1.m.heap.length = some c := by
    show cmetaOf (addVariable a1.m n (some c) iv).1 a1.m.heap.length = some c
    rw [h5]; simp
  unfold termsOf annotationsOf
  simp only [hcm]
  have : a2.rdf = a1.rdf := rfl
  rw [this]
  have hemp : a1.rdf.filter (fun t => t.subj == c && t.pred == bqbiolIs) = [] := by
    rw [List.filter_eq_nil_iff]
    intro t ht
    have := ((hrdf t).mp ht).2
    simp [this]
  rw [hemp]; rfl

/-- `add_cmeta_id(v)` on a variable without id: the `while has_cmeta_id` loop terminates (the conventional out-of-fuel
    answer of the model never occurs); the id is the first of `name'`, `name'_`, `name'__`, … (`name'` = the name with
    `$` replaced by `__`) that is neither in use by a variable nor the model's own id; `v` carries it afterwards,
    nobody else's id changes, and looking it up returns `v` -/
theorem addCmetaId_fresh (a : AState) (h : AInv a) (v : Nat) (hv : v ∈ a.m.live) (hc : cmetaOf a.m v = none) :
    ∃ (c : String) (k : Nat), c = cand ((nameOfVar a.m v).replace "$" "__") k ∧
      (∀ j, j < k → hasCmetaId a.m (cand ((nameOfVar a.m v).replace "$" "__") j) = true) ∧
      hasCmetaId a.m c = false ∧ a.m.modelCmeta ≠ some c ∧ (∀ i ∈ a.m.live, cmetaOf a.m i ≠ some c) ∧
      (astep a (.base (.addCmetaId v))).2 = .ok ∧
      (∀ i, cmetaOf (astep a (.base (.addCmetaId v))).1.m i = if i = v then some c else cmetaOf a.m i) ∧
      (astep a (.base (.addCmetaId v))).1.m.live = a.m.live ∧
      getVariableByCmetaId (astep a (.base (.addCmetaId v))).1.m c = some v := by
  obtain ⟨c, k, he, hall, hfree, hok, hl, _, _, hcm, _⟩ := addCmetaId_ok h.inv.reg hv hc
  have B := bij_of_inv h.inv
  have B' := bij_of_inv (ainv_step h (.base (.addCmetaId v))).inv
  have hnot : ¬ (a.m.modelCmeta = some c ∨ ∃ i ∈ a.m.live, cmetaOf a.m i = some c) := by
    intro hx; have := (B.has_iff c).mpr hx; rw [hfree] at this; cases this
  refine ⟨c, k, he, hall, hfree, fun hm => hnot (Or.inl hm), fun i hi hci => hnot (Or.inr ⟨i, hi, hci⟩), hok, hcm, hl, ?_⟩
  exact (B'.lookup_iff c v).mpr ⟨by show v ∈ (addCmetaId a.m v).1.live; rw [hl]; exact hv,
    by show cmetaOf (addCmetaId a.m v).1 v = some c; rw [hcm]; simp⟩

/-- `add_cmeta_id` on a variable that already has an id does nothing -/
theorem addCmetaId_keeps (a : AState) (v : Nat) (c : String) (hc : cmetaOf a.m v = some c) :
    (astep a (.base (.addCmetaId v))).1 = a := by
  show ({ a with m := (addCmetaId a.m v).1 } : AState) = a
  rw [addCmetaId_noop (Or.inr (by rw [hc]; rfl))]

/-- `transfer_cmeta_id(src, dst)`: raises ValueError — and changes nothing — when `src` has no id or `dst` already has
    one; otherwise `src` loses the id, `dst` gains it, nothing else changes (no other variable, no triple), the id now
    leads to `dst`, and so does every annotation that led to `src` -/
theorem transfer_moves (a : AState) (h : AInv a) (src dst : Nat) (hs : src ∈ a.m.live) (hd : dst ∈ a.m.live) :
    ((cmetaOf a.m src = none ∨ (cmetaOf a.m dst).isSome = true) →
      astep a (.base (.transferCmetaId src dst)) = (a, .raised .valueError)) ∧
    (∀ c, cmetaOf a.m src = some c → cmetaOf a.m dst = none →
      (astep a (.base (.transferCmetaId src dst))).2 = .ok ∧
      (∀ i, cmetaOf (astep a (.base (.transferCmetaId src dst))).1.m i =
        if i = src then none else if i = dst then some c else cmetaOf a.m i) ∧
      (astep a (.base (.transferCmetaId src dst))).1.m.live = a.m.live ∧
      (astep a (.base (.transferCmetaId src dst))).1.rdf = a.rdf ∧
      getVariableByCmetaId (astep a (.base (.transferCmetaId src dst))).1.m c = some dst ∧
      (∀ term, byTerm a term = .ok src → byTerm (astep a (.base (.transferCmetaId src dst))).1 term = .ok dst)) := by
  constructor
  · intro hx
    show (({ a with m := (transferCmetaId a.m src dst).1 } : AState), (transferCmetaId a.m src dst).2) = _
    rw [transferCmetaId_raised hs hd hx]
  · intro c hcs hcd
    obtain ⟨t1, t2, _, _, t5, _⟩ := transferCmetaId_ok h.inv.reg hs hd hcs hcd
    have B := bij_of_inv h.inv
    have A' := ainv_step h (.base (.transferCmetaId src dst))
    have B' := bij_of_inv A'.inv
    have hne : src ≠ dst := by rintro rfl; rw [hcs] at hcd; cases hcd
    have hdst : dst ∈ (astep a (.base (.transferCmetaId src dst))).1.m.live ∧
        cmetaOf (astep a (.base (.transferCmetaId src dst))).1.m dst = some c := by
      refine ⟨by show dst ∈ (transferCmetaId a.m src dst).1.live; rw [t2]; exact hd, ?_⟩
      show cmetaOf (transferCmetaId a.m src dst).1 dst = some c
      rw [t5, if_neg (Ne.symm hne), if_pos rfl]
    refine ⟨t1, t5, t2, rfl, (B'.lookup_iff c dst).mpr hdst, ?_⟩
    intro term hterm
    obtain ⟨c', hl, _, hc'⟩ := (byTerm_ok_iff B term src).mp hterm
    have : c' = c := by rw [hcs] at hc'; exact (Option.some.inj hc').symm
    subst this
    exact (byTerm_ok_iff B' term dst).mpr ⟨c', hl, hdst.1, hdst.2⟩

end Cellml.Props.C13
