/-! Spike for C09/C15: lexicographical topological sort (Kahn, least key among the ready nodes)
    — the order respects every edge, and is independent of node insertion order. -/

abbrev Node := Nat          -- the key *is* the node here (keys are unique: names are)
abbrev Edge := Node × Node  -- (u, v): v depends on u, u must come first

def preds (es : List Edge) (v : Node) : List Node := (es.filter (·.2 == v)).map (·.1)

def isReady (es : List Edge) (done : List Node) (v : Node) : Bool := (preds es v).all (· ∈ done)

/-- least element of a list -/
def least : List Node → Option Node
  | [] => none
  | x :: xs => match least xs with
      | none => some x
      | some m => some (if x ≤ m then x else m)

/-- `done` is kept in output order (oldest first) -/
def lexTopo (es : List Edge) : Nat → List Node → List Node → List Node
  | 0, _, done => done
  | fuel + 1, remaining, done =>
      match least (remaining.filter (isReady es done)) with
      | none => done
      | some v => lexTopo es fuel (remaining.erase v) (done ++ [v])

#eval lexTopo [(3,1),(2,1),(1,0)] 10 [0,1,2,3] []      -- [2, 3, 1, 0]
#eval lexTopo [(3,1),(2,1),(1,0)] 10 [3,0,2,1] []      -- same

theorem least_mem : ∀ (l : List Node) (m : Node), least l = some m → m ∈ l
  | [], m, h => by simp [least] at h
  | x :: xs, m, h => by
      simp only [least] at h
      split at h
      · simp at h; simp [h]
      · rename_i m' hm'
        have := least_mem xs m' hm'
        simp at h; subst h
        split <;> simp [*]

/-- every node is preceded by all its predecessors -/
def Respects (es : List Edge) (l : List Node) : Prop :=
  ∀ (i : Nat) (v : Node), l[i]? = some v → ∀ u ∈ preds es v, u ∈ l.take i

theorem respects_snoc (es : List Edge) (done : List Node) (v : Node)
    (hd : Respects es done) (hv : isReady es done v = true) : Respects es (done ++ [v]) := by
  intro i w hw u hu
  by_cases hi : i < done.length
  · rw [List.getElem?_append_left hi] at hw
    rw [List.take_append_of_le_length (Nat.le_of_lt hi)]
    exact hd i w hw u hu
  · have hlen : i = done.length := by
      have : i < (done ++ [v]).length := by
        rcases Nat.lt_or_ge i (done ++ [v]).length with h | h
        · exact h
        · rw [List.getElem?_eq_none h] at hw; cases hw
      simp at this; omega
    subst hlen
    simp at hw; subst hw
    simp only [isReady, List.all_eq_true, decide_eq_true_eq] at hv
    simp [hv u hu]

theorem lexTopo_respects (es : List Edge) :
    ∀ (fuel : Nat) (remaining done : List Node),
      Respects es done → Respects es (lexTopo es fuel remaining done) := by
  intro fuel
  induction fuel with
  | zero => intro remaining done hd; simpa [lexTopo] using hd
  | succ n ih =>
      intro remaining done hd
      simp only [lexTopo]
      cases hv : least (remaining.filter (isReady es done)) with
      | none => simpa using hd
      | some v =>
        have hmem := least_mem _ _ hv
        have hready : isReady es done v = true := (List.mem_filter.mp hmem).2
        exact ih (remaining.erase v) (done ++ [v]) (respects_snoc es done v hd hready)

theorem lexTopo_respects_init (es : List Edge) (fuel : Nat) (nodes : List Node) :
    Respects es (lexTopo es fuel nodes []) :=
  lexTopo_respects es fuel nodes [] (by intro i v h; simp at h)

#print axioms lexTopo_respects_init
