import Cellml.Basic.Sexp
import Cellml.Model.ConvertVar

/-! Channel C06: one history of `convert_variable` calls per request.

    `(C06 (vars (name scale (d0 … d7) init cmeta) …) (eqs (lhs rhs) …) (steps (v scale (d0 … d7) cf in|out move) …)
          (points ((id value) …) …))`
    → one entry per step: `(ret raised (vars …) (eqs …) (vardef ids) (odedef ids) free (cmeta (id var) …) (rep …)
                            (values per point: ((var values) (derivative values)))
                            (per equation: both sides have the same units? `none` with function symbols))`.
    Expressions: `(v i) (d x t) (q value scale dims) (+ a b) (- a b) (* a b) (/ a b) (f1 "name" a) (f2 "name" a b)`.
    The points give values to the state variables and the free variable of the *initial* model; after an INPUT
    conversion of one of them the new variable takes over with `cf ×` the value. The model is then evaluated exactly
    over `Rat` (equations in any order, as many passes as there are equations). -/
namespace C06
open Sexp Model Model.CV

def ofOpt {α} (f : α → Sexp) : Option α → Sexp
  | some x => f x
  | none => .atom "none"

def optStr? : Sexp → Option (Option String)
  | .atom "none" => some none
  | .str s => some (some s)
  | _ => none

def optRat? : Sexp → Option (Option Rat)
  | .atom "none" => some none
  | e => (rat? e).map some

def dim? : Sexp → Option Dim
  | .list [a, b, c, d, e, f, g, h] => do
      some ⟨← int? a, ← int? b, ← int? c, ← int? d, ← int? e, ← int? f, ← int? g, ← int? h⟩
  | _ => none

def ofDim (d : Dim) : Sexp := .list [ofInt d.d0, ofInt d.d1, ofInt d.d2, ofInt d.d3, ofInt d.d4, ofInt d.d5, ofInt d.d6, ofInt d.d7]

def x? : Sexp → Option X
  | .list [.atom "v", i] => do some (.var (← nat? i))
  | .list [.atom "d", x, t] => do some (.deriv (← nat? x) (← nat? t))
  | .list [.atom "q", q, sc, d] => do some (.lit (← rat? q) ⟨← rat? sc, ← dim? d⟩)
  | .list [.atom "+", a, b] => do some (.add (← x? a) (← x? b))
  | .list [.atom "-", a, b] => do some (.sub (← x? a) (← x? b))
  | .list [.atom "*", a, b] => do some (.mul (← x? a) (← x? b))
  | .list [.atom "/", a, b] => do some (.div (← x? a) (← x? b))
  | .list [.atom "f1", .str f, a] => do some (.fn1 f (← x? a))
  | .list [.atom "f2", .str f, a, b] => do some (.fn2 f (← x? a) (← x? b))
  | _ => none

def ofX : X → Sexp
  | .var v => .list [.atom "v", ofNat v]
  | .deriv x t => .list [.atom "d", ofNat x, ofNat t]
  | .lit q u => .list [.atom "q", ofRat q, ofRat u.scale, ofDim u.dim]
  | .add a b => .list [.atom "+", ofX a, ofX b]
  | .sub a b => .list [.atom "-", ofX a, ofX b]
  | .mul a b => .list [.atom "*", ofX a, ofX b]
  | .div a b => .list [.atom "/", ofX a, ofX b]
  | .fn1 f a => .list [.atom "f1", .str f, ofX a]
  | .fn2 f a b => .list [.atom "f2", .str f, ofX a, ofX b]

def lhs? : Sexp → Option CLhs
  | .list [.atom "v", i] => do some (.var (← nat? i))
  | .list [.atom "d", x, t] => do some (.deriv (← nat? x) (← nat? t))
  | _ => none

def ofLhs : CLhs → Sexp
  | .var v => .list [.atom "v", ofNat v]
  | .deriv x t => .list [.atom "d", ofNat x, ofNat t]

def var? : Sexp → Option CVar
  | .list [.str n, sc, d, i, c] => do some ⟨n, ⟨← rat? sc, ← dim? d⟩, ← optRat? i, ← optStr? c⟩
  | _ => none

def eqn? : Sexp → Option CEqn
  | .list [l, r] => do some ⟨← lhs? l, ← x? r⟩
  | _ => none

structure Step where
  v : Nat
  u : U
  cf : Rat
  dir : Dir
  move : Bool

def step? : Sexp → Option Step
  | .list [v, sc, d, cf, dir, mv] => do
      some ⟨← nat? v, ⟨← rat? sc, ← dim? d⟩, ← rat? cf, if dir == .atom "in" then .input else .output, mv == .atom "true"⟩
  | _ => none

def point? : Sexp → Option (List (Nat × Rat))
  | .list ps => ps.mapM fun
      | .list [i, q] => do some (← nat? i, ← rat? q)
      | _ => none
  | _ => none

/-- the model as the API builds it: the variables, then `add_equation` for each equation in turn -/
def build (vars : List CVar) (eqs : List CEqn) : CState :=
  let cm := (vars.zipIdx.filterMap fun (x, i) => x.cmeta.map (·, i)).foldl (fun m p => insertKey p.1 p.2 m) []
  eqs.foldl (fun s e => addEq s e true) { vars := vars, cmetaMap := cm }

-- ------------------------------------------------------------------------------------------------ exact evaluation
abbrev Known := List (Nat × Rat) × List ((Nat × Nat) × Rat)

def evalO (k : Known) : X → Option Rat
  | .var v => k.1.lookup v
  | .deriv x t => k.2.lookup (x, t)
  | .lit q _ => some q
  | .add a b => do some ((← evalO k a) + (← evalO k b))
  | .sub a b => do some ((← evalO k a) - (← evalO k b))
  | .mul a b => do some ((← evalO k a) * (← evalO k b))
  | .div a b => do
      let d ← evalO k b
      if d = 0 then none else some ((← evalO k a) / d)
  | .fn1 _ _ => none
  | .fn2 _ _ _ => none

def pass (eqs : List CEqn) (k : Known) : Known :=
  eqs.foldl (fun k e =>
    match e.lhs with
    | .var v => if (k.1.lookup v).isSome then k else
        (match evalO k e.rhs with | some r => ((v, r) :: k.1, k.2) | none => k)
    | .deriv x t => if (k.2.lookup (x, t)).isSome then k else
        (match evalO k e.rhs with | some r => (k.1, ((x, t), r) :: k.2) | none => k)) k

def solve (s : CState) (pt : List (Nat × Rat)) : Known :=
  (List.range s.equations.length).foldl (fun k _ => pass s.equations k) (pt, [])

def ofValues (s : CState) (pt : List (Nat × Rat)) : Sexp :=
  let k := solve s pt
  .list [.list ((List.range s.vars.length).map fun i => ofOpt ofRat (k.1.lookup i)),
         .list (s.equations.filterMap fun e => match e.lhs with
            | .deriv x t => some (.list [ofNat x, ofNat t, ofOpt ofRat (k.2.lookup (x, t))])
            | .var _ => none)]

def snapshot (s : CState) (ret : Nat) (rep : Rep) (pts : List (List (Nat × Rat))) : Sexp :=
  .list [ofNat ret, ofBool s.raised,
    .list (s.vars.map fun x => .list [.str x.name, ofRat x.unit.scale, ofDim x.unit.dim, ofOpt ofRat x.init,
                                      ofOpt Sexp.str x.cmeta]),
    .list (s.equations.map fun e => .list [ofLhs e.lhs, ofX e.rhs]),
    .list (s.varDef.map fun p => ofNat p.1), .list (s.odeDef.map fun p => ofNat p.1), ofOpt ofNat (getFree s),
    .list (s.cmetaMap.map fun p => .list [.str p.1, ofNat p.2]),
    .list (rep.map fun p => .list [ofNat p.1.1, ofNat p.1.2, ofNat p.2]),
    .list (pts.map (ofValues s)),
    .list (s.equations.map fun e =>
      match unitOf ⟨fun _ _ => none, fun _ _ _ => none⟩ s e.rhs with
      | some u => ofBool (u == lhsUnit s e.lhs)
      | none => .atom "none")]

def movePoint (st : Step) (nv : Nat) (pt : List (Nat × Rat)) : List (Nat × Rat) :=
  match st.dir, pt.lookup st.v with
  | .input, some q => if st.cf = 1 then pt else (nv, st.cf * q) :: pt.filter (fun p => p.1 ≠ st.v)
  | _, _ => pt

def runSteps (s : CState) (pts : List (List (Nat × Rat))) : List Step → List Sexp
  | [] => []
  | st :: rest =>
      let (s', nv, rep) := convertVariable s st.v st.u st.cf st.dir st.move
      let pts' := pts.map (movePoint st nv)
      snapshot s' nv rep pts' :: runSteps s' pts' rest

def handle (args : List Sexp) : Sexp :=
  match args with
  | [.list (.atom "vars" :: vs), .list (.atom "eqs" :: es), .list (.atom "steps" :: ss), .list (.atom "points" :: ps)] =>
      match vs.mapM var?, es.mapM eqn?, ss.mapM step?, ps.mapM point? with
      | some vars, some eqs, some steps, some pts =>
          let s := build vars eqs
          .list (snapshot s 0 [] pts :: runSteps s pts steps)
      | _, _, _, _ => .atom "bad-request"
  | _ => .atom "bad-request"

end C06
