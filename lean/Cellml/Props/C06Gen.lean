import Cellml.Tie.GenDConvertVar
import Cellml.Props.C06

/-! # C06 — the property theorems of `Props/C06.lean`, stated about the GENERATED code

    `Props/C06.lean` proves its theorems about the hand model `Model.CV.convertVariable s v u cf dir move` (the factor
    `cf` is an input of the hand model). Here each headline theorem is restated about
    `Gen.ConvertVar.convertVariable view s v u dir move : Except PyErr (CState × Nat)` — the definition generated from
    the source of `Model.convert_variable`, calling the definitions generated from `_convert_variable_instance`,
    `_convert_state_variable_deriv`, `_convert_free_variable_deriv`, `_remove_ode_and_assign_rhs_to_new_variable`,
    `_replace_references_to_derivatives` — and proved as a corollary through the ties of `Tie/ConvertVar*.lean`.

    * The factor: python computes it (`self.units.get_conversion_factor`, the view's leaf `getConversionFactor`, subject
      of C07). Every theorem carries `hget : view.getConversionFactor (unitOfV s v) u = .ok cf`, which NAMES the factor
      the property speaks about (it replaces the hand model's argument `cf`; it is not a restriction of the domain: when
      the units module raises instead, `convertVariable_cf_error` says `convert_variable` raises the same exception).
    * "Python raises nothing" becomes part of the statements: `∃ s' nv, Gen… = .ok (s', nv) ∧ …`.
    * `get_unique_name` is the closed generated function `genUniqueName` (`Tie/GenDConvertVar.lean`).
    * Theorems whose original has NO invariant among its hypotheses (`convert_var_meta`, `convert_var_names_fresh`)
      carry the domain hypotheses of `convertVariable_tie` (`s.raised = false`, `DerivOdes s`, `KeysNodup s`) and speak
      about the case that python returns; `convert_var_noop_gen` needs only that the variable is in the model. These are
      not implied by the originals' hypotheses — see notes/reports/TIE2_GenD.md. On well-formed models (`WF`) all of
      them follow (`*_wf` variants). -/

namespace Cellml.Props.C06Gen
open Model Model.CV Cellml.Gen Cellml.Tie Cellml.Tie.CV Cellml.Tie.GenD Cellml.Props.C06

variable {K : Type} [Field K]

/-- on a well-formed model the generated `convert_variable` returns the hand model's state and variable -/
theorem gen_wf (view : CVView) {s : CState} (hwf : WF s) (v : Nat) (hv : v < s.vars.length) (u : U) (cf : Rat)
    (hget : view.getConversionFactor (unitOfV s v) u = .ok cf) (dir : Dir) (move : Bool) :
    ConvertVar.convertVariable view s v u dir move =
      .ok ((CV.convertVariable s v u cf dir move).1, (CV.convertVariable s v u cf dir move).2.1) :=
  convertVariable_tie_wf view s v u dir move cf hwf hv hget

-- ================================================================================================ soundness
/-- **Soundness of one call of the generated `convert_variable`** (`convert_var_sound`): from a well-formed model,
    for a factor other than 1 that is not read as zero, python raises nothing and returns a state `s'` and a variable
    `nv` for which `CallOK` holds (new variable returned, `s'` well-formed, every point solution of `s` extends to one
    of `s'`, every point solution of `s'` restricts to one of `s`).

    The third component of `CallOK`'s argument is the map `derivative_replacements`, a LOCAL of the python function
    that is not returned; it is named here by the hand model's ghost component. `convert_var_sound_gen_exists` hides
    it. -/
theorem convert_var_sound_gen (view : CVView) (I : Interp K) {s : CState} (hwf : WF s) (v : Nat)
    (hv : v < s.vars.length) (u : U) (cf : Rat) (hget : view.getConversionFactor (unitOfV s v) u = .ok cf)
    (hcf1 : cf ≠ 1) (hcf : I.lit cf ≠ 0) (dir : Dir) (move : Bool) :
    ∃ s' nv, ConvertVar.convertVariable view s v u dir move = .ok (s', nv) ∧
      CallOK I s v cf dir (s', nv, (CV.convertVariable s v u cf dir move).2.2) :=
  ⟨_, _, gen_wf view hwf v hv u cf hget dir move, convert_var_sound I hwf v hv u cf hcf1 hcf dir move⟩

theorem convert_var_sound_gen_exists (view : CVView) (I : Interp K) {s : CState} (hwf : WF s) (v : Nat)
    (hv : v < s.vars.length) (u : U) (cf : Rat) (hget : view.getConversionFactor (unitOfV s v) u = .ok cf)
    (hcf1 : cf ≠ 1) (hcf : I.lit cf ≠ 0) (dir : Dir) (move : Bool) :
    ∃ s' nv, ConvertVar.convertVariable view s v u dir move = .ok (s', nv) ∧
      ∃ rep, CallOK I s v cf dir (s', nv, rep) := by
  obtain ⟨s', nv, h1, h2⟩ := convert_var_sound_gen view I hwf v hv u cf hget hcf1 hcf dir move
  exact ⟨s', nv, h1, _, h2⟩

-- ================================================================================================ no-op
/-- **Equivalent units** (`convert_var_noop`): the generated code returns the untouched model and the original
    variable — any state. Domain hypothesis of the code that the hand-model theorem does not have: the variable is in
    the model (otherwise python's first `assert` fails: `convertVariable_not_in_model`). -/
theorem convert_var_noop_gen (view : CVView) (s : CState) (v : Nat) (hv : v < s.vars.length) (u : U)
    (hget : view.getConversionFactor (unitOfV s v) u = .ok 1) (dir : Dir) (move : Bool) :
    ConvertVar.convertVariable view s v u dir move = .ok (s, v) :=
  convertVariable_noop_gen view s v u dir move hv hget

/-- outside that hypothesis the code and the hand model differ: python raises, the model answers `(s, v, [])` -/
theorem convert_var_noop_outside (view : CVView) (s : CState) (v : Nat) (hv : nameOfV s v ∉ CV.names s) (u : U)
    (dir : Dir) (move : Bool) :
    ConvertVar.convertVariable view s v u dir move = .error ⟨"AssertionError"⟩ ∧
    CV.convertVariable s v u 1 dir move = (s, v, []) :=
  ⟨convertVariable_not_in_model view s v u dir move hv, convert_var_noop s v u dir move⟩

-- ================================================================================================ well-formedness
/-- **Nothing raises, the result is well-formed** (`convert_var_wf`), for the generated code -/
theorem convert_var_wf_gen (view : CVView) {s : CState} (hwf : WF s) (v : Nat) (hv : v < s.vars.length) (u : U)
    (cf : Rat) (hget : view.getConversionFactor (unitOfV s v) u = .ok cf) (dir : Dir) (move : Bool) :
    ∃ s' nv, ConvertVar.convertVariable view s v u dir move = .ok (s', nv) ∧ WF s' ∧ s'.raised = false :=
  ⟨_, _, gen_wf view hwf v hv u cf hget dir move, convert_var_wf hwf v hv u cf dir move⟩

-- ================================================================================================ names
/-- `convert_var_names_fresh` for the generated code: the closed generated `get_unique_name` answers a name no variable
    has; and whenever the generated `convert_variable` returns, distinct names stay distinct. -/
theorem convert_var_names_fresh_gen (view : CVView) (s : CState) (v : Nat) (hv : v < s.vars.length) (u : U) (cf : Rat)
    (hget : view.getConversionFactor (unitOfV s v) u = .ok cf) (dir : Dir) (move : Bool)
    (hs : s.raised = false) (hd : DerivOdes s) (hk : KeysNodup s) :
    (∀ base, genUniqueName s base ∉ CV.names s) ∧
    (∀ s' nv, ConvertVar.convertVariable view s v u dir move = .ok (s', nv) →
      (CV.names s).Nodup → (CV.names s').Nodup) := by
  refine ⟨genUniqueName_fresh s, ?_⟩
  intro s' nv hok hn
  obtain ⟨hr, _⟩ := gen_returns (convertVariable_tie view s v u dir move cf hs hv hd hk hget) hok
  have : s' = (CV.convertVariable s v u cf dir move).1 := congrArg Prod.fst hr
  rw [this]
  exact (convert_var_names_fresh s v hv u cf dir move).2 hn

-- ================================================================================================ metadata
/-- the initial value of the new variable: `cf ·` the original's for INPUT, none for OUTPUT (the `match` of
    `convert_var_meta`, named so that it can be written under a hypothesis that mentions `dir`) -/
abbrev newInitOf (dir : Dir) (i : Option Rat) (cf : Rat) : Option Rat :=
  match dir with | .input => i.map (· * cf) | .output => none

/-- the initial value the original variable keeps: none for INPUT, its own for OUTPUT -/
abbrev keptInitOf (dir : Dir) (i : Option Rat) : Option Rat :=
  match dir with | .input => none | .output => i

/-- **Initial values and annotations move as documented** (`convert_var_meta`), for the generated code: whenever the
    generated `convert_variable` returns `(s', nv)` for a factor other than 1, `nv` is the number of variables before
    the call, and `s'` has: variable `nv` = the new one (name from the generated `get_unique_name`, requested units,
    initial value `cf ·` the original's for INPUT and none for OUTPUT, the cmeta id of the original iff annotations
    move); the original with its initial value removed for INPUT and its cmeta id removed iff annotations move; every
    other old variable untouched; the cmeta map pointing to the new variable (or untouched).

    Domain hypotheses of the tie, NOT among the hypotheses of `convert_var_meta` (which has no invariant at all):
    `hs`, `hd`, `hk`. -/
theorem convert_var_meta_gen (view : CVView) (s : CState) (v : Nat) (hv : v < s.vars.length) (u : U) (cf : Rat)
    (hget : view.getConversionFactor (unitOfV s v) u = .ok cf) (hcf : cf ≠ 1) (dir : Dir) (move : Bool)
    (hs : s.raised = false) (hd : DerivOdes s) (hk : KeysNodup s)
    (s' : CState) (nv : Nat) (hok : ConvertVar.convertVariable view s v u dir move = .ok (s', nv)) :
    s'.vars[s.vars.length]? =
      some ⟨genUniqueName s (nameOfV s v ++ "_converted"), u,
            newInitOf dir (initOfV s v) cf,
            if move then cmetaOfV s v else none⟩ ∧
    s'.vars[v]? =
      (s.vars[v]?).map (fun y => ⟨y.name, y.unit, keptInitOf dir y.init,
                                  if move then none else y.cmeta⟩) ∧
    (∀ i, i < s.vars.length → i ≠ v → s'.vars[i]? = s.vars[i]?) ∧
    (∀ c, move = true → cmetaOfV s v = some c → s'.cmetaMap.lookup c = some s.vars.length) ∧
    ((move = false ∨ cmetaOfV s v = none) → s'.cmetaMap = s.cmetaMap) ∧
    s'.raised = false := by
  obtain ⟨hr, hflag⟩ := gen_returns (convertVariable_tie view s v u dir move cf hs hv hd hk hget) hok
  have h1 : s' = (CV.convertVariable s v u cf dir move).1 := congrArg Prod.fst hr
  obtain ⟨m1, m2, m3, m4, m5⟩ := convert_var_meta s v hv u cf hcf dir move
  rw [h1, genUniqueName_eq]
  exact ⟨m1, m2, m3, m4, m5, hflag⟩

/-- the same on a well-formed model, where python is known to return (and the returned variable is the new one) -/
theorem convert_var_meta_gen_wf (view : CVView) {s : CState} (hwf : WF s) (v : Nat) (hv : v < s.vars.length) (u : U)
    (cf : Rat) (hget : view.getConversionFactor (unitOfV s v) u = .ok cf) (hcf : cf ≠ 1) (dir : Dir) (move : Bool) :
    ∃ s', ConvertVar.convertVariable view s v u dir move = .ok (s', s.vars.length) ∧
    s'.vars[s.vars.length]? =
      some ⟨genUniqueName s (nameOfV s v ++ "_converted"), u,
            newInitOf dir (initOfV s v) cf,
            if move then cmetaOfV s v else none⟩ ∧
    s'.vars[v]? =
      (s.vars[v]?).map (fun y => ⟨y.name, y.unit, keptInitOf dir y.init,
                                  if move then none else y.cmeta⟩) ∧
    (∀ i, i < s.vars.length → i ≠ v → s'.vars[i]? = s.vars[i]?) ∧
    (∀ c, move = true → cmetaOfV s v = some c → s'.cmetaMap.lookup c = some s.vars.length) ∧
    ((move = false ∨ cmetaOfV s v = none) → s'.cmetaMap = s.cmetaMap) := by
  have hg := gen_wf view hwf v hv u cf hget dir move
  have hret : (CV.convertVariable s v u cf dir move).2.1 = s.vars.length := by
    by_cases h0 : cf = 0
    · let I : Interp ℚ := ⟨fun q => if q = 0 then 1 else q, fun _ x => x, fun _ x _ => x⟩
      exact (convert_var_sound I hwf v hv u cf hcf (by simp [I, h0]) dir move).ret
    · let I : Interp ℚ := ⟨fun q => q, fun _ x => x, fun _ x _ => x⟩
      exact (convert_var_sound I hwf v hv u cf hcf (by simpa [I] using h0) dir move).ret
  rw [hret] at hg
  obtain ⟨m1, m2, m3, m4, m5, _⟩ := convert_var_meta_gen view s v hv u cf hget hcf dir move hwf.inv.notRaised
    (derivOdes_of_inv0 hwf.inv) hwf.inv.odKeys _ _ hg
  exact ⟨_, hg, m1, m2, m3, m4, m5⟩

-- ================================================================================================ units
/-- **Unit-consistent equations stay unit-consistent** (`convert_var_units`), for the generated code -/
theorem convert_var_units_gen (view : CVView) (J : UI) {s : CState} (hwf : WF s) (hu : UnitsOK J s) (v : Nat)
    (hv : v < s.vars.length) (u : U) (cf : Rat) (hget : view.getConversionFactor (unitOfV s v) u = .ok cf) (dir : Dir)
    (move : Bool) (hvs : (unitOfV s v).scale ≠ 0) (hus : u.scale ≠ 0) :
    ∃ s' nv, ConvertVar.convertVariable view s v u dir move = .ok (s', nv) ∧ UnitsOK J s' :=
  ⟨_, _, gen_wf view hwf v hv u cf hget dir move, convert_var_units J hwf hu v hv u cf dir move hvs hus⟩

-- ================================================================================================ sequences
/-- a sequence of calls of the generated `convert_variable` (python: one after the other on the same `Model` object;
    the first exception ends the run): the final model and the variables returned. The `cf` field of a `Call` is not
    used: python computes the factor. -/
def runSeqGen (view : CVView) (s : CState) : List Call → Except PyErr (CState × List Nat)
  | [] => .ok (s, [])
  | a :: rest =>
      match ConvertVar.convertVariable view s a.v a.u a.dir a.move with
      | .error e => .error e
      | .ok (s1, r) =>
          match runSeqGen view s1 rest with
          | .error e => .error e
          | .ok (s2, rs) => .ok (s2, r :: rs)

/-- each call converts a variable that exists when the call is made; `a.cf` IS the factor the units module answers at
    that moment, and it is not read as zero. Stated along the run of the GENERATED code. -/
def ValidSeqGen (view : CVView) (I : Interp K) (s : CState) : List Call → Prop
  | [] => True
  | a :: rest => a.v < s.vars.length ∧ view.getConversionFactor (unitOfV s a.v) a.u = .ok a.cf ∧ I.lit a.cf ≠ 0 ∧
      ∀ s1 r, ConvertVar.convertVariable view s a.v a.u a.dir a.move = .ok (s1, r) → ValidSeqGen view I s1 rest

/-- along a valid run from a well-formed model the generated code and the hand model go through the same states -/
theorem runSeqGen_eq (view : CVView) (I : Interp K) : ∀ (cs : List Call) (s : CState), WF s →
    ValidSeqGen view I s cs → runSeqGen view s cs = .ok (runSeq s cs) ∧ ValidSeq I s cs
  | [], s, _, _ => ⟨rfl, trivial⟩
  | a :: rest, s, hwf, hval => by
    obtain ⟨hv, hget, hcf, hrest⟩ := hval
    have hg := gen_wf view hwf a.v hv a.u a.cf hget a.dir a.move
    have hwf1 := (convert_var_wf hwf a.v hv a.u a.cf a.dir a.move).1
    obtain ⟨ih1, ih2⟩ := runSeqGen_eq view I rest _ hwf1 (hrest _ _ hg)
    refine ⟨?_, hv, hcf, ih2⟩
    simp only [runSeqGen, hg, ih1, runSeq]

/-- **Any sequence of conversions** (`convert_var_seq`), for the generated code: python raises nothing along the
    whole run; the final model is well-formed; every point solution of the first model extends to one of the last in
    which every returned variable is `cf ·` its original; every point solution of the last gives one of the first. -/
theorem convert_var_seq_gen (view : CVView) (I : Interp K) (hI1 : I.lit 1 = 1) (cs : List Call) (s : CState)
    (hwf : WF s) (hval : ValidSeqGen view I s cs) :
    ∃ sN rets, runSeqGen view s cs = .ok (sN, rets) ∧
    WF sN ∧ s.vars.length ≤ sN.vars.length ∧
    (∀ σ : Val K, Sat I σ s → ∃ σ' : Val K, Sat I σ' sN ∧ Agree s.vars.length σ σ' ∧ Chain I σ' cs rets) ∧
    (∀ σ' : Val K, Sat I σ' sN → ∃ σ : Val K, Sat I σ s ∧ σ.v = σ'.v ∧ Chain I σ' cs rets) := by
  obtain ⟨hrun, hv⟩ := runSeqGen_eq view I cs s hwf hval
  exact ⟨_, _, hrun, convert_var_seq I hI1 cs s hwf hv⟩

/-- `convert_var_twice` for the generated code -/
theorem convert_var_twice_gen (view : CVView) (I : Interp K) (hI1 : I.lit 1 = 1) {s : CState} (hwf : WF s)
    (a b : Call) (hval : ValidSeqGen view I s [a, b])
    (hb : ∀ s1 r, ConvertVar.convertVariable view s a.v a.u a.dir a.move = .ok (s1, r) → b.v = r)
    (σ : Val K) (hσ : Sat I σ s) :
    ∃ sN rets, runSeqGen view s [a, b] = .ok (sN, rets) ∧
    ∃ σ' : Val K, Sat I σ' sN ∧ Agree s.vars.length σ σ' ∧
      ∃ r ∈ rets, σ'.v r = I.lit b.cf * I.lit a.cf * σ.v a.v := by
  obtain ⟨hrun, hv⟩ := runSeqGen_eq view I [a, b] s hwf hval
  have hg := gen_wf view hwf a.v hval.1 a.u a.cf hval.2.1 a.dir a.move
  exact ⟨_, _, hrun, convert_var_twice I hI1 hwf a b (hb _ _ hg) hv σ hσ⟩

-- ================================================================================================ non-vacuity
/-! The docstring model of `Props/C06.lean` (`demo`) run through the generated code, with a units module that answers
    1/1000 for mV → V and ms → s. -/

def demoView : CVView := ⟨fun _ _ => .ok (1 / 1000)⟩

/-- the generated code evaluated by the kernel: the INPUT conversion of the state variable `sv1` of the docstring -/
example : (ConvertVar.convertVariable demoView demo 1 uVolt .input true).map
      (fun r => (r.1.vars.map fun x => (x.name, x.init, x.cmeta), r.2)) =
    .ok ([("time", none, some "time"), ("sv1", none, none), ("sv1_converted", some (1/500), some "sv11"),
          ("sv1_orig_deriv", none, none)], 2) := by decide +kernel

example : ∃ s' nv, ConvertVar.convertVariable demoView demo 1 uVolt .input true = .ok (s', nv) ∧
    CallOK (K := ℚ) ⟨fun q => q, fun _ x => x, fun _ x _ => x⟩ demo 1 (1/1000) .input
      (s', nv, (CV.convertVariable demo 1 uVolt (1/1000) .input true).2.2) :=
  convert_var_sound_gen demoView _ demo_wf 1 (by decide) uVolt (1/1000) rfl (by decide +kernel) (by decide +kernel)
    .input true

end Cellml.Props.C06Gen

-- ================================================================================================ axiom audit
/-- info: 'Cellml.Props.C06Gen.convert_var_sound_gen' depends on axioms: [propext, Classical.choice, Quot.sound] -/
#guard_msgs in
#print axioms Cellml.Props.C06Gen.convert_var_sound_gen
/-- info: 'Cellml.Props.C06Gen.convert_var_noop_gen' depends on axioms: [propext, Classical.choice, Quot.sound] -/
#guard_msgs in
#print axioms Cellml.Props.C06Gen.convert_var_noop_gen
/-- info: 'Cellml.Props.C06Gen.convert_var_wf_gen' depends on axioms: [propext, Classical.choice, Quot.sound] -/
#guard_msgs in
#print axioms Cellml.Props.C06Gen.convert_var_wf_gen
/-- info: 'Cellml.Props.C06Gen.convert_var_names_fresh_gen' depends on axioms: [propext, Classical.choice, Quot.sound] -/
#guard_msgs in
#print axioms Cellml.Props.C06Gen.convert_var_names_fresh_gen
/-- info: 'Cellml.Props.C06Gen.convert_var_meta_gen' depends on axioms: [propext, Classical.choice, Quot.sound] -/
#guard_msgs in
#print axioms Cellml.Props.C06Gen.convert_var_meta_gen
/-- info: 'Cellml.Props.C06Gen.convert_var_meta_gen_wf' depends on axioms: [propext, Classical.choice, Quot.sound] -/
#guard_msgs in
#print axioms Cellml.Props.C06Gen.convert_var_meta_gen_wf
/-- info: 'Cellml.Props.C06Gen.convert_var_units_gen' depends on axioms: [propext, Classical.choice, Quot.sound] -/
#guard_msgs in
#print axioms Cellml.Props.C06Gen.convert_var_units_gen
/-- info: 'Cellml.Props.C06Gen.convert_var_seq_gen' depends on axioms: [propext, Classical.choice, Quot.sound] -/
#guard_msgs in
#print axioms Cellml.Props.C06Gen.convert_var_seq_gen
/-- info: 'Cellml.Props.C06Gen.convert_var_twice_gen' depends on axioms: [propext, Classical.choice, Quot.sound] -/
#guard_msgs in
#print axioms Cellml.Props.C06Gen.convert_var_twice_gen
