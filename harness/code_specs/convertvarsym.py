"""Code-translator spec: Model.convert_variable and the helpers that add equations, run on SYMBOLIC values, for the
hand model of C19 (`Units.convertVariable`, lean/Cellml/Units/Rules.lean: the part of convert_variable that depends on
the conversion factor). View: lean/Cellml/Tie/ConvertVarSymView.lean; tie: lean/Cellml/Tie/ConvertVarSym.lean.
The same python functions are tied to the hand model of C06 by the group ConvertVar (convertvar.py)."""

F = 'cellmlmanip/model.py'

PATTERNS = [
    ('__A.initial_value', '(self.initOf {A})'),
    ('__A._cmeta_id', '(self.cmetaOf {A})'),
    ('__A.name', '()'),                                   # names do not matter for the outcome
    ('self.get_unique_name(__A)', '()'),
    ('self.units.evaluate_units(__A)', '()'),
    ('self._var_definition_map.get(__A)', '(self.varDefOf {A})'),
    ('self._ode_definition_map[__A]', '(self.odeOf {A})'),
    ('sympy.Eq(__A, __B)', '(SEq.mk {A} {B})'),
    ('sympy.Derivative(__A, __B)', '(SV.deriv {A} {B})'),
    ('__A.lhs.args[0]', '(SV.arg0 ({A}).lhs)'),
    ('__A.lhs.args[1]', '(SV.arg1 ({A}).lhs)'),
    ('__A.args[0].args[1].args[0]', '(SV.arg1 ({A}).lhs)'),
    ('__A.args[1]', '(eqArg1 {A})'),
    ('__A / __B', '({A} / {B})'),
    ('float(__A)', '← floatM {A}'),
    ('{__A: __B}', '[()]'),                               # the replacement map is only tested for emptiness
    ('DataDirectionFlow.INPUT', 'Dir.input'),
    ('DataDirectionFlow.OUTPUT', 'Dir.output'),
]

STMT_PATTERNS = [
    ('return __A', 'return (st, {A})'),
    ('self.add_equation(__A, check_duplicates=__B)', 'st := st.addEquation {A}'),   # the flag does not reach the outcome
    ('self.add_equation(__A)', 'st := st.addEquation {A}'),
    ('self.remove_equation(__A)', 'st := st'),             # removes an equation that does not mention the factor
    ('self.transfer_cmeta_id(__A, __B)', 'st := st'),
    ('__A.initial_value = __B', 'st := st'),
    ('__X = self._remove_ode_and_assign_rhs_to_new_variable(__A, __B)',
     'let (st1__, {X}) ← removeOdeAndAssignRhsToNewVariable self st {A} {B}\nst := st1__'),
    ('__X = self._convert_variable_instance(__A, __B, __C, __D, __E)',
     'let (st1__, {X}) ← convertVariableInstance self st {A} (cfGet {B}) {D} {E}\nst := st1__'),
    ('derivative_replacements.update(self._convert_state_variable_deriv(__A, __B, __C))',
     'let (st1__, upd__) ← convertStateVariableDeriv self st {A} {B} (cfGet {C})\nst := st1__\n'
     'derivative_replacements := derivative_replacements ++ upd__'),
    ('derivative_replacements.update(self._convert_free_variable_deriv(__A, __B, __C))',
     'let (st1__, upd__) ← convertFreeVariableDeriv self st {A} {B} (cfGet {C})\nst := st1__\n'
     'derivative_replacements := derivative_replacements ++ upd__'),
    ('self._replace_references_to_derivatives(__A)', 'st := st'),   # rewrites equations without touching the factor
]

GROUP = {
    'name': 'ConvertVarSym',
    'imports': ['Cellml.Tie.ConvertVarSymView'],
    'header': 'open Units Cellml.Tie.CVSym',
    'patterns': PATTERNS,
    'stmt_patterns': STMT_PATTERNS,
    'functions': [
        {'file': F, 'func': 'Model._remove_ode_and_assign_rhs_to_new_variable',
         'lean_name': 'removeOdeAndAssignRhsToNewVariable', 'state': ['st'],
         'signature': '(self : SymView) (st : SymSt) (original_ode : SEq) (original_state_variable : SV) : '
                      'Except PyErr (SymSt × SV)',
         'stmt_patterns': [('__X = self.add_variable(name=__A, units=__B)',
                            'st := st.addVariable none\nlet {X} := SV.rhsVar')]},
        {'file': F, 'func': 'Model._convert_free_variable_deriv', 'lean_name': 'convertFreeVariableDeriv',
         'state': ['st'],
         'signature': '(self : SymView) (st : SymSt) (original_ode : SEq) (new_time : SV) (cf : Factor) : '
                      'Except PyErr (SymSt × List Unit)'},
        {'file': F, 'func': 'Model._convert_state_variable_deriv', 'lean_name': 'convertStateVariableDeriv',
         'state': ['st'],
         'signature': '(self : SymView) (st : SymSt) (original_variable new_variable : SV) (cf : Factor) : '
                      'Except PyErr (SymSt × List Unit)'},
        {'file': F, 'func': 'Model._convert_variable_instance', 'lean_name': 'convertVariableInstance',
         'state': ['st'],
         'signature': '(self : SymView) (st : SymSt) (original_variable : SV) (cf : Factor) (direction : Dir) '
                      '(move_annotations : Bool) : Except PyErr (SymSt × SV)',
         'stmt_patterns': [('__X = self.add_variable(name=__A, units=__B, initial_value=__C)',
                            'st := st.addVariable {C}\nlet {X} := SV.new')]},
        {'file': F, 'func': 'Model.convert_variable', 'lean_name': 'convertVariable', 'state': ['st'],
         'mutable': ['derivative_replacements'],
         'skip_calls': ['logger.', 'self._invalidate_cache'],
         'signature': '(self : SymView) (st : SymSt) (original_variable : SV) (direction : Dir) '
                      '(move_annotations : Bool) : Except PyErr (SymSt × SV)',
         'patterns': [('__A.name in self._name_to_variable', '(self.inModel {A})'),
                      ('self.units.get_conversion_factor(from_unit=__A, to_unit=__B)', '← self.getCf'),
                      ('cf == 1', '(cfIsOne cf)'),    # representation: the int 1 is `none`
                      ('isinstance(__A, numbers.Number)', '(cfIsNumber {A})'),
                      ('self.create_quantity(__A, __B)', '{A}'),     # a Quantity keeps its number; the units do not matter
                      ('self.get_state_variables()', '(self.stateSymbols)'),
                      ('self.get_free_variable()', '← self.getFreeVariable'),
                      ('{}', '([] : List Unit)'),
                      ('sorted(self._ode_definition_map.items(), key=lambda v_eq: v_eq[0].order_added)',
                       '(self.sortedOdeItems)')]},
    ],
}
