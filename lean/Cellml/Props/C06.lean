/-! Property theorems for C06 (not built yet). -/
