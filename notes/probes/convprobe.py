"""Scratch probe: random sequences of convert_variable on generated ODE models, evaluated numerically (C06)."""
import random, sys, collections, logging, math
import sympy as sp
from cellmlmanip.model import Model, Quantity, Variable, DataDirectionFlow as D
from cellmlmanip import units as U
logging.disable(logging.CRITICAL)
seed = int(sys.argv[1]) if len(sys.argv) > 1 else 0; N = int(sys.argv[2]) if len(sys.argv) > 2 else 100
rng = random.Random(seed); finds = collections.defaultdict(list); stats = collections.Counter()
def build():
    m = Model('m'); s = m.units
    un = {'mV': s.add_unit('mV','volt/1000'), 'V': s.get_unit('volt'), 'uV': s.add_unit('uV','volt*1e-6'),
          'ms': s.add_unit('ms','second/1000'), 's': s.get_unit('second'), 'us': s.add_unit('us', 'second*1e-6'),
          'dl': s.get_unit('dimensionless')}
    t = m.add_variable('t', un['ms'], cmeta_id='time')
    nst = rng.randint(1, 3); nal = rng.randint(1, 4)
    st = [m.add_variable('x%d' % i, un[rng.choice(['mV','V'])], initial_value=float(rng.randint(-5, 5)), cmeta_id='x%d' % i) for i in range(nst)]
    al = [m.add_variable('a%d' % i, un[rng.choice(['mV','V','uV'])]) for i in range(nal)]
    Q = m.create_quantity
    def term(v, target_unit):   # k * v with k carrying units so that result is in target_unit
        return Q(float(rng.randint(1, 4)), target_unit / v.units) * v
    defined = []
    for a in al:
        pool = st + defined
        rhs = Q(float(rng.randint(1, 3)), a.units)
        for v in rng.sample(pool, rng.randint(0, min(2, len(pool)))): rhs = rhs + term(v, a.units)
        if rng.random() < 0.4: rhs = rhs + Q(0.5, a.units / t.units) * t
        m.add_equation(sp.Eq(a, rhs)); defined.append(a)
    odes = []
    for x in st:
        ru = x.units / t.units
        rhs = Q(float(rng.randint(1, 3)), ru)
        for v in rng.sample(st + al, rng.randint(1, 2)): rhs = rhs + term(v, ru)
        m.add_equation(sp.Eq(sp.Derivative(x, t), rhs)); odes.append(x)
    # derivative referenced on another rhs
    if rng.random() < 0.7:
        x = rng.choice(st); d = m.add_variable('dref', x.units / t.units)
        m.add_equation(sp.Eq(d, sp.Derivative(x, t) * Q(2.0, un['dl'])))
    return m, un
def evaluate(m, point):
    """point: name -> value for current states and current free var. returns name-> value for everything (derivs as 'd/dt x')"""
    vals = {}
    free = m.get_free_variable(); vals[free] = point[free.name]
    for sv in m.get_state_variables(): vals[sv] = point[sv.name]
    targets = m.get_derivatives() + [v for v in m.variables() if m.get_definition(v) is not None and not m.is_state(v)]
    for eq in m.get_equations_for(targets, strip_units=True):
        vals[eq.lhs] = float(eq.rhs.xreplace(vals))
    out = {}
    for k, v in vals.items():
        out[('d:' + k.args[0].name) if isinstance(k, sp.Derivative) else k.name] = v
    return out
def close(a, b): return abs(a-b) <= 1e-9*max(1.0, abs(a), abs(b))
for case in range(N):
    m, un = build(); s = m.units
    # logical point in *original* units
    free0 = m.get_free_variable(); states0 = m.get_state_variables()
    point = {free0.name: 1.5}; point.update({x.name: float(rng.randint(-3, 3)) + 0.25 for x in states0})
    base = evaluate(m, point)
    # track: current representative of each original state/time: (variable, factor)  current = orig * factor
    cur = {v.name: (v, 1.0) for v in [free0] + states0}
    tfac = 1.0
    for step in range(rng.randint(1, 4)):
        cands = [v for v in m.variables()]
        v = rng.choice(cands)
        dimV = s._registry.get_dimensionality(v.units)
        tgt = rng.choice([u for u in un.values() if s._registry.get_dimensionality(u) == dimV] or [v.units])
        direction = rng.choice([D.INPUT, D.OUTPUT]); move = rng.random() < 0.7
        before_vars = {x.name for x in m.variables()}
        try: nv = m.convert_variable(v, tgt, direction, move_annotations=move)
        except Exception as ex: finds['convert EXC ' + type(ex).__name__ + ' ' + str(ex)[:60]].append((case, v.name, str(tgt), direction.name)); break
        stats['conv ' + direction.name + (' noop' if nv is v else '')] += 1
        if nv is v: continue
        cf = s.get_conversion_factor(v.units, tgt)
        if direction == D.INPUT:
            for k, (rv, f) in list(cur.items()):
                if rv is v: cur[k] = (nv, f * cf)
        # evaluate at the same logical point
        p2 = {rv.name: point[k] * f for k, (rv, f) in cur.items()}
        try: now = evaluate(m, p2)
        except Exception as ex: finds['evaluate EXC ' + type(ex).__name__ + ' ' + str(ex)[:80]].append((case, v.name, direction.name)); break
        tf = cur[free0.name][1]
        for name, val in base.items():
            if name.startswith('d:'): continue
            if name in now and not close(now[name], val): finds['pre-existing variable changed value'].append((case, name, val, now[name], v.name, direction.name))
        if not close(now[nv.name], now[v.name] * cf): finds['new != old*cf'].append((case, v.name, direction.name))
        # derivatives: d(cur state)/d(cur time) = orig * sf / tf
        for k in [x.name for x in states0]:
            rv, sf = cur[k]
            key = 'd:' + rv.name
            if key not in now: finds['missing derivative'].append((case, k)); continue
            if not close(now[key], base['d:' + k] * sf / tf): finds['derivative not rescaled'].append((case, k, base['d:'+k], now[key], sf, tf))
        # units consistency
        for e in m.equations:
            try:
                if not s.is_equivalent(s.evaluate_units(e.lhs), s.evaluate_units(e.rhs)): finds['equation units not equivalent'].append((case, str(e)))
            except U.UnitError as ex: finds['unit-inconsistent after conversion ' + type(ex).__name__].append((case, str(e)))
        base.update({n: now[n] for n in now if n not in base and not n.startswith('d:')})
print(dict(stats))
for k, v in finds.items(): print('##', k, len(v), v[:2])
