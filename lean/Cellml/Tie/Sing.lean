import Cellml.Tie.SingPw
import Cellml.Tie.SingFix
import Cellml.Tie.SingTrav

/-! # Ties of `cellmlmanip/_singularity_fixes.py` to the hand models of C12 / C18 — summary and composition

    * `generatePiecewise_tie`, `generatePiecewise_eval` (SingPw): `_generate_piecewise` = `C12.generate`, and the `pw`
      node built by `C12.wrapWin` evaluates to it;
    * `removeSingularities_tie`, `fixOf_pyRemoveSing` (SingFix): `_remove_singularities` = `C12.removeSing`;
    * `fixExprParts_tie`, `fixParts_fixpoint` (SingFixAdd; the `_partial` versions of SingFix are the non-`Add`
      branches): `_fix_expr_parts` = body of `C12.fixParts`, every branch;
    * `isNegativePower_spec`, `solveReal_tie`, `checkUMatch_spec`, `onTopLoop_tie` (SingDet): decision logic of the
      helpers and of the top-candidate loop of `_get_singularity` = `C12.onTop`;
    * `removeFixable_tie` (SingTrav): `remove_fixable_singularities` = `C12.traverse`, units of the re-created
      quantities = `C18.creatorRef .fixed _ .singQuantity`;
    * below: the traversal generated from the source, run with the `_remove_singularities` generated from the source,
      is the model's `traverse (removeSing det)` — the function the theorems of `Cellml/Props/C12.lean` are about. -/

namespace Cellml.Tie.Sing
open C12 C12.Expr Cellml.Gen

theorem removeFixable_removeSing_tie (det : List Expr → List (Win Rat)) (sid : Nat) (vUnits : C18.UnitArg)
    (hV : vUnits = .ownUnit ∨ vUnits = .sharedUnit) (order : List (Option Eqn)) (excl : List String)
    (eqs : List Eqn) (hn : (lhss (order.filterMap id)).Nodup) :
    ∃ created, (∀ r ∈ created, r = C18.creatorRef .fixed sid .singQuantity) ∧
      SingTrav.removeFixableSingularities sid vUnits order
          (SingFix.removeSingularities (fun x => .ok (enc (fixParts det (x.size + 1) x)))) excl eqs
        = .ok ((traverse (removeSing det) excl (order.filterMap id) eqs).eqs,
               (traverse (removeSing det) excl (order.filterMap id) eqs).env, created) := by
  have h1 : SingFix.removeSingularities (fun x => .ok (enc (fixParts det (x.size + 1) x)))
      = fun e => .ok (pyRemoveSing det e) := funext (removeSingularities_tie det)
  rw [h1, ← fixOf_pyRemoveSing]
  exact removeFixable_tie sid vUnits hV order (pyRemoveSing det) excl eqs hn

/-- every unit hung on a quantity by the re-unit step is a unit of the model's store (C18 `AllUnits` needs exactly this
    of the `singQuantity` creation site) -/
theorem singQuantity_ofStore (sid : Nat) : C18.creatorRef .fixed sid .singQuantity = .ofStore sid := rfl

end Cellml.Tie.Sing
