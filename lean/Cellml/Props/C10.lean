import Cellml.C10.Builds
import Cellml.Props.C08

/-! # C10 — variable roles and initial-state values follow from the equations alone

    Model: `Cellml/Model/Roles.lean` (`RModel` = the C08 model state + the right-hand side of every equation;
    `stateVars`, `freeVar`, `derivatives`, `derivedQuantities`, `isState`, `isConstant`, `getValue`), the code of
    cellmlmanip/model.py 96-176 and 334-388 after the two `fix:` commits recorded in findings/C10.json.
    Specification: `Cellml/C10/Den.lean` (`Den M (.v v) q`: the definition closure of `v` denotes `q` at the initial
    state — an inductive relation, no fuel, no memo, no evaluation order); `Cellml/C10/WF.lean` (`WF`: well-formed).

    Every theorem is for ALL well-formed models / all histories of API calls (no bound on the number of variables,
    the depth of the definitions or the length of the history). The tie to the Python code is the correspondence check
    `harness/props/c10.py`. -/

namespace Cellml.Props.C10
open Model

-- ------------------------------------------------------------------------------------------------ roles
/-- the state variables are exactly the variables defined by an ODE … -/
theorem states_iff_ode (M : RModel) (W : WF M) (v : Nat) :
    v ∈ stateVars M ↔ ∃ e ∈ M.st.equations, ∃ t o, e.lhs = .deriv v t o :=
  (mem_stateVars v).trans (isState_iff W.inv.eq v)

/-- … listed in the order in which they were introduced: `get_state_variables()` is `variables()` filtered by
    `is_state`, and `order_added` strictly increases along it -/
theorem states_in_order (M : RModel) (W : WF M) :
    stateVars M = M.st.live.filter (isState M) ∧ ((stateVars M).map (orderOf M.st)).Pairwise (· < ·) := by
  have hlive : ∀ k ∈ stateKeys M.st, k ∈ M.st.live := by
    intro k hk
    have hs : isState M k = true := (hasKey_iff_mem_keys k M.st.odeDef).mpr hk
    obtain ⟨e, he, t, o, hl⟩ := (isState_iff W.inv.eq k).mp hs
    exact W.live e he k (by simp [Eqn.atoms, hl])
  have h := states_in_variables_order W.inv hlive
  refine ⟨h, ?_⟩
  show ((getStateVariables M.st).map (orderOf M.st)).Pairwise (· < ·)
  rw [h]
  have := W.inv.reg.orderInc
  rw [List.pairwise_map] at this ⊢
  exact this.filter _

/-- `is_state` says the same -/
theorem is_state_iff_ode (M : RModel) (W : WF M) (v : Nat) :
    isState M v = true ↔ ∃ e ∈ M.st.equations, ∃ t o, e.lhs = .deriv v t o := isState_iff W.inv.eq v

/-- the free variable is the variable all ODEs differentiate by (whichever ODE comes first in the dictionary) … -/
theorem free_is_bvar (M : RModel) (W : WF M) (e : Eqn) (he : e ∈ M.st.equations) (s t o : Nat)
    (hl : e.lhs = .deriv s t o) : freeVar M = some t := freeVar_of_ode W he hl

/-- … and there is none (`ValueError`) exactly when there is no ODE -/
theorem free_none_iff (M : RModel) (W : WF M) : freeVar M = none ↔ ∀ e ∈ M.st.equations, bvarOf e = none := by
  constructor
  · intro h e he
    cases hl : e.lhs with
    | deriv s t o => rw [freeVar_of_ode W he hl] at h; cases h
    | var v => simp [bvarOf, hl]
    | other => simp [bvarOf, hl]
  · exact freeVar_none W.inv.eq

/-- the derivatives are exactly the left-hand sides of the ODEs, sorted by the `order_added` of their state -/
theorem derivs_exact (M : RModel) (W : WF M) (l : List (Nat × Nat)) (h : derivatives M = .ok l) :
    (∀ s t, (s, t) ∈ l ↔ ∃ e ∈ M.st.equations, ∃ o, e.lhs = .deriv s t o) ∧
    l.Pairwise (fun a b => orderOf M.st a.1 ≤ orderOf M.st b.1) ∧
    l.Perm (derivLhs M.st.equations) := by
  rw [derivatives_spec W.inv h]
  exact ⟨fun s t => ((sortBy_perm _ _).mem_iff).trans (mem_derivLhs _ s t), sortBy_sorted _ _, sortBy_perm _ _⟩

/-- the derived quantities are exactly the variables defined by an assignment whose right-hand side is not a bare
    number with units, sorted by `order_added` -/
theorem derived_exact (M : RModel) (W : WF M) (l : List Nat) (h : derivedQuantities M = .ok l) :
    (∀ v, v ∈ l ↔ ∃ e ∈ M.st.equations, e.lhs = .var v ∧ e.bareQuantity = false) ∧
    l.Pairwise (fun a b => orderOf M.st a ≤ orderOf M.st b) := by
  rw [derivedQuantities_spec W.inv h]
  exact ⟨fun v => ((sortBy_perm _ _).mem_iff).trans (mem_computedLhs W v), sortBy_sorted _ _⟩

/-- … and both queries do return (the graph builds) for a well-formed model, provided the left-hand sides print
    differently — the builder's own sanity assertion; a variable may legally be *named* `Derivative(_x, _t)` -/
theorem graph_queries_return (M : RModel) (W : WF M)
    (hstr : ((M.st.equations.filterMap (fun e => lhsNode e.lhs)).map (nodeStr (names M.st))).Nodup) :
    (∃ l, derivatives M = .ok l) ∧ ∃ l, derivedQuantities M = .ok l := by
  obtain ⟨g, hg⟩ := graph_builds W hstr
  exact ⟨⟨_, by unfold derivatives; rw [hg]⟩, ⟨_, by unfold derivedQuantities; rw [hg]⟩⟩

/-- the constants are the variables whose definition mentions no variable -/
theorem constant_iff_no_var (M : RModel) (W : WF M) (v : Nat) :
    isConstant M v = true ↔ ∃ e ∈ M.st.equations, e.lhs = .var v ∧ (M.rhs e.tok).vars = [] :=
  isConstant_iff W.inv.eq v

-- ------------------------------------------------------------------------------------------------ get_value
/-- `get_value` terminates: with `|variables| + 1` levels of recursion (or more) it never runs out of fuel — the Python
    code never reaches `RecursionError` on a well-formed model — and more fuel changes no value -/
theorem getValue_fuel (fn : Interp) (M : RModel) (W : WF M) (v : Nat) :
    getValue fn M v ≠ .error .fuel ∧
    ∀ F, M.st.live.length < F → ∀ q, getValueFuel fn M F v = .ok q ↔ getValue fn M v = .ok q := by
  have h0 := getValueFuel_good fn W (M.st.live.length + 1) (Nat.lt_succ_self _) v
  refine ⟨fun hc => ?_, fun F hF q => ?_⟩
  · unfold getValue at hc; rw [hc] at h0; exact h0.1 rfl
  · have h1 := getValueFuel_good fn W F hF v
    unfold getValue
    constructor
    · intro hq
      rw [hq] at h1
      rcases hr : getValueFuel fn M (M.st.live.length + 1) v with err | q'
      · rw [hr] at h0; exact absurd h1 (h0.2 q)
      · rw [hr] at h0; rw [den_unique h0 h1]
    · intro hq
      rw [hq] at h0
      rcases hr : getValueFuel fn M F v with err | q'
      · rw [hr] at h1; exact absurd h0 (h1.2 q)
      · rw [hr] at h1; rw [den_unique h1 h0]

/-- **`get_value` returns exactly what the definitions denote**: for every variable of every well-formed model,
    `get_value(v)` returns `q` iff evaluating the definition of `v` recursively — states at their initial values, the
    free variable at 0, a derivative standing for the right-hand side of its ODE — gives `q`; and when the definitions
    give no number (no definition, a state without initial value, a division by zero) it raises -/
theorem getValue_denotes (fn : Interp) (M : RModel) (W : WF M) (v : Nat) (q : Rat) :
    getValue fn M v = .ok q ↔ Den fn M (.v v) q := by
  have h0 := getValueFuel_good fn W (M.st.live.length + 1) (Nat.lt_succ_self _) v
  unfold getValue
  constructor
  · intro hq; rw [hq] at h0; exact h0
  · intro hd
    rcases hr : getValueFuel fn M (M.st.live.length + 1) v with err | q'
    · rw [hr] at h0; exact absurd hd (h0.2 q)
    · rw [hr] at h0; rw [den_unique h0 hd]

/-- the value does not depend on the order in which `_get_value` visits the dependencies, on the memo, or on which
    equation comes first: it is a function of the definitions (`Den` is single-valued) -/
theorem value_unique (fn : Interp) (M : RModel) (v : Nat) (q q' : Rat) (h : Den fn M (.v v) q) (h' : Den fn M (.v v) q') : q = q' :=
  den_unique h h'

-- ------------------------------------------------------------------------------------------------ history independence
/-- **none of this depends on how the model was reached**: two histories of API calls (valid edits, rejected edits,
    graph reads, in any order) that arrive at the same variables and equations give the same answers to all six role
    queries and the same `get_value` for every variable. Corollary of the C08 invariant (`inv_reachable`): the
    definition maps and a cached graph are functions of the content. -/
theorem roles_history_independent (fn : Interp) (mc₁ mc₂ : Option String) (ops₁ ops₂ : List Op) (rhs : Nat → Expr)
    (h : content (run mc₁ ops₁) = content (run mc₂ ops₂)) :
    roles fn ⟨run mc₁ ops₁, rhs⟩ = roles fn ⟨run mc₂ ops₂, rhs⟩ :=
  roles_of_content fn (C08.inv_reachable mc₁ ops₁) (C08.inv_reachable mc₂ ops₂) h rhs

/-- in particular every answer is the one a freshly built model with the same content gives -/
theorem roles_as_fresh (fn : Interp) (mc : Option String) (ops : List Op) (rhs : Nat → Expr) :
    roles fn ⟨run mc ops, rhs⟩ = roles fn ⟨fresh (content (run mc ops)), rhs⟩ := by
  have i₁ := C08.inv_reachable mc ops
  refine roles_congr fn rhs rfl i₁.eq.varDef i₁.eq.odeDef ?_ ?_ ?_
  · exact ((sameButTypes_eraseTypes _).initOf (s := run mc ops) (s' := fresh (content (run mc ops)))).symm
  · exact ((sameButTypes_eraseTypes _).orderOf (s := run mc ops) (s' := fresh (content (run mc ops)))).symm
  · have := congrArg Obs.graph (C08.coherent mc ops)
    exact this

/-- **… nor on the order of the equations**: two well-formed models holding the same variables and the same SET of
    equations (`SameSet`: equation lists that are permutations of each other — what histories that add, remove and
    re-add equations in different orders produce) give the same states in the same order, the same free variable, the
    same `is_state` / `is_constant`, the same lists of derivatives and derived quantities, and `get_value` returns the
    same number for every variable. -/
theorem roles_equation_order_independent (fn : Interp) (M₁ M₂ : RModel) (W₁ : WF M₁) (W₂ : WF M₂) (h : SameSet M₁ M₂) :
    stateVars M₁ = stateVars M₂ ∧ freeVar M₁ = freeVar M₂ ∧ isState M₁ = isState M₂ ∧ isConstant M₁ = isConstant M₂ ∧
    (∀ l₁ l₂, derivatives M₁ = .ok l₁ → derivatives M₂ = .ok l₂ → l₁ = l₂) ∧
    (∀ l₁ l₂, derivedQuantities M₁ = .ok l₁ → derivedQuantities M₂ = .ok l₂ → l₁ = l₂) ∧
    (∀ v q, getValue fn M₁ v = .ok q ↔ getValue fn M₂ v = .ok q) ∧
    (∀ i q, Den fn M₁ i q ↔ Den fn M₂ i q) :=
  ⟨stateVars_sameSet W₁ W₂ h, freeVar_sameSet W₁ W₂ h, isState_sameSet W₁.inv.eq W₂.inv.eq h,
   isConstant_sameSet W₁ W₂ h, fun _ _ => derivatives_sameSet W₁ W₂ h, fun _ _ => derivedQuantities_sameSet W₁ W₂ h,
   getValue_sameSet W₁ W₂ h, den_sameSet W₁ W₂ h⟩

/-- **the role of every variable is a function of the SET of equations — well-formed or not** (since the `fix:` commit
    "the roles that come from the ODEs win"): `Model.graph` types all left-hand sides first and assigns STATE, then
    FREE, for every ODE afterwards, so permuting the equation list changes the `Variable.type` (and with it the
    `variable_type` of the graph node) of NO variable — in particular not of a free variable that has a defining
    equation, which `WF` excludes (`freeOk`). Hypothesis: no variable is assigned both a bare number and something else
    (`Model.graph` refuses two equations with the same left-hand side). -/
theorem variable_types_equation_order_independent (eqs eqs' : List Eqn) (hp : eqs'.Perm eqs)
    (hfun : ∀ e₁ ∈ eqs, ∀ e₂ ∈ eqs, ∀ v, e₁.lhs = .var v → e₂.lhs = .var v → e₁.bareQuantity = e₂.bareQuantity)
    (x : Nat) : tyOf (typeMap eqs') x = tyOf (typeMap eqs) x :=
  tyOf_typeMap_perm hp hfun x

/-- BEFORE that fix (`typeMapOld`: one loop, the last write stays): `t = …` and `dx/dt = …` in the two orders made `t`
    FREE or COMPUTED; now FREE in both -/
theorem variable_types_order_dependent_before_fix :
    tyOf (typeMapOld [⟨0, .var 0, [], [], false⟩, ⟨1, .deriv 1 0 1, [], [], false⟩]) 0 = some .free ∧
    tyOf (typeMapOld [⟨1, .deriv 1 0 1, [], [], false⟩, ⟨0, .var 0, [], [], false⟩]) 0 = some .computed ∧
    tyOf (typeMap [⟨0, .var 0, [], [], false⟩, ⟨1, .deriv 1 0 1, [], [], false⟩]) 0 = some .free ∧
    tyOf (typeMap [⟨1, .deriv 1 0 1, [], [], false⟩, ⟨0, .var 0, [], [], false⟩]) 0 = some .free :=
  typeMapOld_order_dependent

-- ------------------------------------------------------------------------------------------------ non-vacuity
/-- x (2.5), z (1), t, a, y, w with `a = 3`, `dx/dt = a*x + t`, `dz/dt = dx/dt * 2` (an ODE whose right-hand side
    mentions another derivative), `y = dx/dt + 1`, `w = dz/dt + y`; the graph is read in between -/
def demoOps : List Op :=
  [.addVariable "x" none (some (5/2)), .addVariable "z" none (some 1), .addVariable "t" none none,
   .addVariable "a" none none, .addVariable "y" none none, .addVariable "w" none none,
   .addEquation ⟨0, .var 3, [], [], true⟩,
   .addEquation ⟨1, .deriv 0 2 1, [.var 3, .var 0, .var 2], [.var 3, .var 0, .var 2], false⟩,
   .qGraph,
   .addEquation ⟨2, .deriv 1 2 1, [.deriv 0 2], [.deriv 0 2], false⟩,
   .addEquation ⟨3, .var 4, [.deriv 0 2], [.deriv 0 2], false⟩,
   .addEquation ⟨4, .var 5, [.deriv 1 2, .var 4], [.deriv 1 2, .var 4], false⟩]

def demoRhs : Nat → Expr
  | 0 => .num 3
  | 1 => .bin .add (.bin .mul (.var 3) (.var 0)) (.var 2)
  | 2 => .bin .mul (.deriv 0 2) (.num 2)
  | 3 => .bin .add (.deriv 0 2) (.num 1)
  | 4 => .bin .add (.deriv 1 2) (.var 4)
  | _ => .num 0

def demoM : RModel := ⟨run none demoOps, demoRhs⟩

def demoRank : Node → Nat
  | .deriv 0 2 => 1
  | .deriv 1 2 => 2
  | .var 4 => 2
  | .var 5 => 3
  | _ => 0

/-- the demo model is well-formed -/
theorem demo_wf : WF demoM where
  inv := C08.inv_reachable none demoOps
  refs := by decide +kernel
  oneBvar := by decide +kernel
  freeOk := by decide +kernel
  live := by decide +kernel
  closed := by decide +kernel
  acyclic := ⟨demoRank, by decide +kernel⟩
  inits := by decide +kernel

example : ((demoM.st.equations.filterMap (fun e => lhsNode e.lhs)).map (nodeStr (names demoM.st))).Nodup := by
  decide +kernel

/-- all six roles and every value of the demo model, computed by the model of the code -/
example : stateVars demoM = [0, 1] ∧ freeVar demoM = some 2 ∧ derivatives demoM = .ok [(0, 2), (1, 2)] ∧
    derivedQuantities demoM = .ok [4, 5] ∧ (demoM.st.live.filter (isConstant demoM)) = [3] := by decide +kernel

example (fn : Interp) : (demoM.st.live.map (getValue fn demoM)) =
    [.ok (5/2), .ok 1, .ok 0, .ok 3, .ok (17/2), .ok (47/2)] := by
  exact of_decide_eq_true (by with_unfolding_all rfl)      -- evaluation never asks `fn`: no opaque term in the demo

/-- hence (by `getValue_denotes`) `y = dx/dt + 1` denotes 3·2.5 + 0 + 1 = 8.5 and `w = dz/dt + y` denotes 2·7.5 + 8.5 -/
example (fn : Interp) : Den fn demoM (.v 4) (17/2) ∧ Den fn demoM (.v 5) (47/2) :=
  ⟨(getValue_denotes fn demoM demo_wf 4 _).mp (of_decide_eq_true (by with_unfolding_all rfl)),
   (getValue_denotes fn demoM demo_wf 5 _).mp (of_decide_eq_true (by with_unfolding_all rfl))⟩

/-- a second history: equations in another order, `y` removed and re-introduced, a rejected duplicate definition — the
    same role answers for the variables both models share -/
def demoOps2 : List Op :=
  [.addVariable "x" none (some (5/2)), .addVariable "z" none (some 1), .addVariable "t" none none,
   .addVariable "a" none none, .addVariable "y" none none, .addVariable "w" none none,
   .addEquation ⟨3, .var 4, [.deriv 0 2], [.deriv 0 2], false⟩,
   .addEquation ⟨2, .deriv 1 2 1, [.deriv 0 2], [.deriv 0 2], false⟩,
   .addEquation ⟨1, .deriv 0 2 1, [.var 3, .var 0, .var 2], [.var 3, .var 0, .var 2], false⟩,
   .addEquation ⟨0, .var 3, [], [], true⟩,
   .addEquation ⟨9, .var 3, [], [], true⟩,
   .qGraphNum,
   .removeEquation ⟨1, .deriv 0 2 1, [.var 3, .var 0, .var 2], [.var 3, .var 0, .var 2], false⟩,
   .addEquation ⟨1, .deriv 0 2 1, [.var 3, .var 0, .var 2], [.var 3, .var 0, .var 2], false⟩,
   .addEquation ⟨4, .var 5, [.deriv 1 2, .var 4], [.deriv 1 2, .var 4], false⟩]

example (fn : Interp) : let M2 : RModel := ⟨run none demoOps2, demoRhs⟩
    stateVars M2 = [0, 1] ∧ freeVar M2 = some 2 ∧ derivatives M2 = .ok [(0, 2), (1, 2)] ∧
    derivedQuantities M2 = .ok [4, 5] ∧ M2.st.live.map (getValue fn M2) = demoM.st.live.map (getValue fn demoM) := by
  exact of_decide_eq_true (by with_unfolding_all rfl)

/-- the second history satisfies the hypotheses of `roles_equation_order_independent` together with the first -/
example : WF ⟨run none demoOps2, demoRhs⟩ ∧ SameSet demoM ⟨run none demoOps2, demoRhs⟩ :=
  ⟨{ inv := C08.inv_reachable none demoOps2, refs := by decide +kernel, oneBvar := by decide +kernel,
     freeOk := by decide +kernel, live := by decide +kernel, closed := by decide +kernel,
     acyclic := ⟨demoRank, by decide +kernel⟩, inits := by decide +kernel },
   { rhs := rfl, live := by decide +kernel,
     init := by
      funext i
      have : ∀ j, j < 6 → initOf demoM.st j = initOf (run none demoOps2) j := by decide +kernel
      by_cases hi : i < 6
      · exact this i hi
      · have h1 : demoM.st.heap.length = 6 := by decide +kernel
        have h2 : (run none demoOps2).heap.length = 6 := by decide +kernel
        simp only [initOf]
        rw [List.getElem?_eq_none (by omega), List.getElem?_eq_none (by omega)],
     order := by
      funext i
      have : ∀ j, j < 6 → orderOf demoM.st j = orderOf (run none demoOps2) j := by decide +kernel
      by_cases hi : i < 6
      · exact this i hi
      · have h1 : demoM.st.heap.length = 6 := by decide +kernel
        have h2 : (run none demoOps2).heap.length = 6 := by decide +kernel
        simp only [orderOf]
        rw [List.getElem?_eq_none (by omega), List.getElem?_eq_none (by omega)],
     eqs := by decide +kernel }⟩

-- ------------------------------------------------------------------------------------------------ opaque terms
/-- a (3), b with `a = 3` and `b = exp(a) * 2`: the right-hand side of `b` holds an uninterpreted application (what the
    harness sends for `exp(a)`: its printed form and its one reference) -/
def opqOps : List Op :=
  [.addVariable "a" none none, .addVariable "b" none none,
   .addEquation ⟨0, .var 0, [], [], true⟩, .addEquation ⟨1, .var 1, [.var 0], [.var 0], false⟩]

def opqRhs : Nat → Expr
  | 1 => .bin .mul (Expr.ofWire "exp(v0)" [.var 0]) (.num 2)
  | _ => .num 3

def opqM : RModel := ⟨run none opqOps, opqRhs⟩

theorem opq_wf : WF opqM where
  inv := C08.inv_reachable none opqOps
  refs := by decide +kernel
  oneBvar := by decide +kernel
  freeOk := by decide +kernel
  live := by decide +kernel
  closed := by decide +kernel
  acyclic := ⟨fun n => match n with | .var 1 => 1 | _ => 0, by decide +kernel⟩
  inits := by decide +kernel

/-- **for EVERY interpretation** under which `exp(a)` has a value `r` at `a = 3`, the definitions denote `r * 2` for `b`,
    and hence (by `getValue_denotes`, right to left) the model of the code returns it - `fn` stays unknown -/
theorem opaque_value (fn : Interp) (r : Rat) (h : fn "exp(v0)" [3] = some r) :
    Den fn opqM (.v 1) (r * 2) ∧ getValue fn opqM 1 = .ok (r * 2) := by
  have ha : Den fn opqM (.v 0) 3 :=
    Den.defn (r := .num 3) (by decide +kernel) (by with_unfolding_all rfl) (Den.num 3)
  have hb : Den fn opqM (.v 1) (r * 2) :=
    Den.defn (r := opqRhs 1) (by decide +kernel) (by with_unfolding_all rfl)
      (Den.bin (den_opq_iff.mpr ⟨[3], Dens.cons (Den.var ha) Dens.nil, h⟩) (Den.num 2) rfl)
  exact ⟨hb, (getValue_denotes fn opqM opq_wf 1 _).mpr hb⟩

/-- … and where the interpretation has no value (SymPy: `zoo`, `nan`, a complex number) `get_value(b)` raises -/
theorem opaque_no_value (fn : Interp) (h : fn "exp(v0)" [3] = none) (q : Rat) : getValue fn opqM 1 ≠ .ok q := by
  intro hq
  have hd := (getValue_denotes fn opqM opq_wf 1 q).mp hq
  have ha : Den fn opqM (.v 0) 3 :=
    Den.defn (r := .num 3) (by decide +kernel) (by with_unfolding_all rfl) (Den.num 3)
  have hr : varRhs opqM 1 = some (opqRhs 1) := by with_unfolding_all rfl
  cases hd with
  | state hs _ => exact absurd hs (by decide +kernel)
  | free _ hr' _ => rw [hr] at hr'; cases hr'
  | defn _ hr' hd =>
    rw [hr] at hr'; cases hr'
    obtain ⟨p, _, hp, _, _⟩ := den_bin_iff.mp hd
    obtain ⟨vals, hv, hf⟩ := den_opq_iff.mp hp
    obtain ⟨p0, ps, rfl, h0, hs⟩ := dens_cons_iff.mp hv
    rw [dens_nil_iff.mp hs, den_unique (den_var_iff.mp h0) ha, h] at hf
    cases hf

-- ------------------------------------------------------------------------------------------------ before the fixes
/-- `_get_value` as it was: a definition that mentions a derivative raises (`Can't calculate derivative wrt 0`) although
    the definitions denote 8.5 — the repaired evaluator returns it -/
theorem today_derivative_raises (fn : Interp) :
    getValueToday fn demoM 4 = .error .derivativeWrtNumber ∧ getValueToday fn demoM 5 = .error .derivativeWrtNumber ∧
    getValue fn demoM 4 = .ok (17/2) := by exact of_decide_eq_true (by with_unfolding_all rfl)

/-- … and a variable defined as another variable (`y = x`) raises `AttributeError` although it denotes 2.5 -/
theorem today_alias_raises (fn : Interp) :
    let ops : List Op := [.addVariable "x" none (some (5/2)), .addVariable "t" none none, .addVariable "y" none none,
      .addEquation ⟨0, .deriv 0 1 1, [], [], true⟩, .addEquation ⟨1, .var 2, [.var 0], [.var 0], false⟩]
    let M : RModel := ⟨run none ops, fun tok => if tok = 1 then .var 0 else .num 1⟩
    getValueToday fn M 2 = .error .floatHasNoAtoms ∧ getValue fn M 2 = .ok (5/2) := by
  exact of_decide_eq_true (by with_unfolding_all rfl)

/-- outside well-formedness the answers do depend on more than the set of equations: with a definition for the free
    variable, `get_value(t)` is that definition while every other right-hand side sees `t = 0` (the preloaded memo) -/
theorem free_variable_with_definition (fn : Interp) :
    let ops : List Op := [.addVariable "x" none (some 1), .addVariable "t" none none, .addVariable "y" none none,
      .addEquation ⟨0, .deriv 0 1 1, [.var 1], [.var 1], false⟩, .addEquation ⟨1, .var 1, [], [], true⟩,
      .addEquation ⟨2, .var 2, [.var 1], [.var 1], false⟩]
    let M : RModel := ⟨run none ops, fun tok => if tok = 0 then .var 1 else if tok = 1 then .num 5 else
      .bin .add (.var 1) (.num 1)⟩
    getValue fn M 1 = .ok 5 ∧ getValue fn M 2 = .ok 1 := by exact of_decide_eq_true (by with_unfolding_all rfl)

end Cellml.Props.C10
