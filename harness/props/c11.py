"""C11 — generated Python code computes exactly what the expression means."""
import ast
import math
import signal

import mpmath

from common import Str, sx

ID = 'C11'
LEAN_MODULES = ['Cellml.Props.C11', 'Cellml.Tie.Printer', 'Cellml.Tie.PrinterAdd', 'Cellml.Tie.PrinterMul', 'Cellml.Tie.PrinterPr', 'Cellml.Tie.PrinterMul2', 'Cellml.Tie.PrinterClosed', 'Cellml.Tie.PrinterSign', 'Cellml.Tie.PrinterReject', 'Cellml.Props.C11Gen']
N = {'quick': 3000, 'thorough': 100000}
RULE = ('cases are construction recipes for SymPy trees (evaluate=True / evaluate=False per node). Fixed family, 56 693 '
        'cases: every (parent, child, operand position) over sums, differences, products, quotients, powers (integer, '
        'negative, rational, float, symbolic exponents, towers), negation, abs, the 22 one-argument table functions, '
        'atan2, the 12 secondary trig functions, 6 relations, piecewise, 3-term sums/products and double divisions, '
        'with negative / rational / float literals as the other operand, parents and children each evaluated and held; '
        'and/or/piecewise/relation-of-relation combinations; unsupported constructs (gamma, Max, Min, Mod, erf, Matrix, '
        'sign, Heaviside, Not, nan, oo) bare and nested; derivatives. Random family: trees of depth 2-6 over the same '
        'vocabulary. quick = 1800 sampled fixed + 1200 random; thorough = all fixed + random up to 100 000. '
        'non-trivial = the built tree is not a leaf; distinct = distinct recipe JSON')
TRUSTED = ['Lean 4.33 kernel', 'axioms: propext, Classical.choice, Quot.sound',
           'harness/translate_tables.py (the three printer tables)',
           'correspondence harness harness/props/c11.py (emitted string = model string; CPython ast.parse = model tree)',
           "SymPy 1.14 is modelled, not verified: precedence(), as_coeff_Mul/_keep_coeff/make_args, evaluation of Pow(b, 1), "
           "the rebuilding done by codegen.rewriting.optimize (the model prints the tree optimize returns)",
           'CPython\'s grammar is transcribed as C11.PyOK / C11.level and compared with ast.parse on every case']
ASSUMPTIONS = ['real-number semantics: x*(y*z) printed as x * y * z is the same number (floating-point re-association is '
               'not modelled); the oracle compares values at relative 1e-9',
               'transcendental functions are uninterpreted in the theorems; their values are compared numerically by '
               'the oracle (math vs mpmath)',
               'symbol names are Python identifiers (the default symbol_function)']
FINGERPRINT = {'cellmlmanip/printer.py': [
    'Printer.doprint', 'Printer._bracket', 'Printer._bracket_args', 'Printer.emptyPrinter', 'Printer._print_Add',
    'Printer._print_And', 'Printer._print_BooleanFalse', 'Printer._print_BooleanTrue', 'Printer._print_Derivative',
    'Printer._print_Exp1', 'Printer._print_float', 'Printer._print_Float', 'Printer._print_Function',
    'Printer._print_int', 'Printer._print_Integer', 'Printer._print_Mul', 'Printer._print_Or', 'Printer._print_Pi',
    'Printer._print_ternary', 'Printer._print_Piecewise', 'Printer._print_ordinary_pow', 'Printer._print_Pow',
    'Printer._print_Rational', 'Printer._print_Relational', 'Printer._print_Symbol', 'Printer.__init__']}
MANIFEST = {
    'technique': 'Lean 4 theorems over a model of the printer (layout tree + Python grammar predicate) + differential '
                 'correspondence (string equality and CPython ast shape)',
    'text': ('Proved in Lean for every SymPy tree of the printer\'s domain, any depth (lean/Cellml/Props/C11.lean): '
             'print_groups — CPython parses the emitted string to exactly the tree the printer built (no regrouping, no '
             'moved sign, no comparison chain); print_means — evaluating that tree gives the value of the expression '
             'over any field, with functions uninterpreted and matched through the generated name table; print_rejects '
             '— any construct without a print method or table entry in a printed position gives ValueError; one '
             'theorem per entry of the generated _function_names, _literal_names and _extra_trig tables against '
             'hand-written expected names/definitions. The pre-fix bracketing rules are kept with their proved '
             'counterexamples (x**y**z, z / 1 / x, x - y + z). Tie: every (parent, child, position) triple, evaluated '
             'and held forms, negative/rational/float literals in every position, random trees to depth 6: the '
             'emitted string equals the model\'s string and ast.parse of it equals the model\'s tree. An independent '
             'oracle evaluates the emitted code with math against an mpmath evaluation of the tree SymPy built.'),
    'note': ('Trusted: Lean kernel; propext, Classical.choice, Quot.sound; the table translator; the harness. SymPy '
             '(precedence, coefficient extraction, optimize) is modelled; about 6 % of random held trees fall outside '
             'the modelled fragment of SymPy\'s re-evaluation and are checked by the oracle only. Known findings: '
             'math.factorial rejects floats; acot(0); secondary trig left unrewritten in a top-level condition; a '
             'SymPy bug (cos(w + (x + pi)) with a held inner sum) reaching the output through the sec/csc/cot rewrite.'),
}

# ------------------------------------------------------------------------------------------------ recipes -> SymPy
# A case is {'r': recipe}. A recipe is a JSON list describing HOW the expression is constructed:
#   ['sym', name] ['int', n] ['rat', p, q] ['flt', text] ['const', pi|E|nan|oo|true|false]
#   ['add'|'mul', ev, a, b, ...] ['pow', ev, a, b] ['fn', name, ev, a...] ['rel', op, ev, a, b]
#   ['and'|'or', ev, a, b...] ['not', a] ['pw', ev, [e, c]...] ['deriv', x, t] ['other', what, a...]
# ev = SymPy's `evaluate` flag (True: automatically simplified form, False: held unevaluated).
REL = {'==': 'Eq', '!=': 'Ne', '<': 'Lt', '<=': 'Le', '>': 'Gt', '>=': 'Ge'}
OTHERS = ('gamma', 'Max', 'Min', 'Mod', 'erf', 'Matrix', 'sign', 'Heaviside')


def build(r):
    import sympy as sp
    from sympy.codegen import cfunctions as cf
    k = r[0]
    if k == 'sym':
        return sp.Symbol(r[1], real=True)
    if k == 'int':
        return sp.Integer(r[1])
    if k == 'rat':
        return sp.Rational(r[1], r[2])
    if k == 'flt':
        return sp.Float(r[1])
    if k == 'const':
        return {'pi': sp.pi, 'E': sp.E, 'nan': sp.nan, 'oo': sp.oo, 'true': sp.true, 'false': sp.false}[r[1]]
    if k in ('add', 'mul'):
        return (sp.Add if k == 'add' else sp.Mul)(*[build(a) for a in r[2:]], evaluate=r[1])
    if k == 'pow':
        return sp.Pow(build(r[2]), build(r[3]), evaluate=r[1])
    if k == 'fn':
        f = getattr(sp, r[1], None) or getattr(cf, r[1])
        return f(*[build(a) for a in r[3:]], evaluate=r[2])
    if k == 'rel':
        return getattr(sp, REL[r[1]])(build(r[3]), build(r[4]), evaluate=r[2])
    if k in ('and', 'or'):
        return (sp.And if k == 'and' else sp.Or)(*[build(a) for a in r[2:]], evaluate=r[1])
    if k == 'not':
        return sp.Not(build(r[1]))
    if k == 'pw':
        return sp.Piecewise(*[(build(e), build(c)) for e, c in r[2:]], evaluate=r[1])
    if k == 'deriv':
        return sp.Derivative(sp.Symbol(r[1], real=True), sp.Symbol(r[2], real=True))
    if k == 'other':
        if r[1] == 'Matrix':
            return sp.Matrix([build(a) for a in r[2:]])
        return getattr(sp, r[1])(*[build(a) for a in r[2:]])
    raise KeyError(k)


def ser(e):
    """The SymPy tree actually built, via func/args (never from printed text)."""
    import sympy as sp
    if e is sp.true or e is True:
        return ['True']
    if e is sp.false or e is False:
        return ['False']
    if isinstance(e, sp.Symbol):
        return ['Symbol', Str(e.name), 'c' if e.is_commutative else 'nc']
    if isinstance(e, sp.Integer):
        if int(e.p).bit_length() > 1000:
            raise OverflowError('huge integer')
        return ['Int', int(e.p)]
    if isinstance(e, sp.Rational):
        if int(e.p).bit_length() > 1000 or int(e.q).bit_length() > 1000:
            raise OverflowError('huge rational')
        return ['Rat', int(e.p), int(e.q)]
    if isinstance(e, sp.Float):
        return ['Float', Str(repr(float(e))), 'neg' if e < 0 else 'pos']
    if e is sp.pi:
        return ['Pi']
    if e is sp.E:
        return ['E']
    if e is sp.nan:
        return ['NaN']
    if e in (sp.oo, -sp.oo, sp.zoo):
        return ['Other', Str(type(e).__name__)]
    if isinstance(e, (sp.Add, sp.Mul, sp.And, sp.Or)):
        return [type(e).__name__] + [ser(a) for a in e.args]
    if isinstance(e, sp.Pow):
        return ['Pow', ser(e.base), ser(e.exp)]
    if isinstance(e, sp.Not):
        return ['Not', ser(e.args[0])]
    if isinstance(e, sp.core.relational.Relational):
        if e.rel_op not in REL:
            return ['Other', Str(type(e).__name__)]
        return ['Rel', Str(e.rel_op), ser(e.lhs), ser(e.rhs)]
    if isinstance(e, sp.Piecewise):
        return ['Piecewise'] + [[ser(a), ser(c)] for a, c in e.args]
    if isinstance(e, sp.Derivative):
        if len(e.args) == 2 and isinstance(e.args[0], sp.Symbol) and e.args[1][1] == 1:
            return ['Derivative', Str(e.args[0].name), Str(e.args[1][0].name)]
        return ['Other', Str('Derivative')]
    if isinstance(e, sp.Function):
        return ['Fn', Str(type(e).__name__)] + [ser(a) for a in e.args]
    return ['Other', Str(type(e).__name__)]


# ------------------------------------------------------------------------------------------------ reference meaning
# An independent evaluator of the tree SymPy built (mpmath, 30 digits). It also records whether every intermediate
# value is a finite real of moderate size ("clean"): only then must the emitted Python evaluate without error.
ENVS = [{'x': 1.75, 'y': 0.625, 'z': 1.3125, 'w': 2.1875, 'v': 0.40625},
        {'x': 0.59375, 'y': 2.84375, 'z': 0.21875, 'w': 1.09375, 'v': 3.53125}]
mpmath.mp.dps = 30
M = mpmath
FN1 = {'sin': M.sin, 'cos': M.cos, 'tan': M.tan, 'asin': M.asin, 'acos': M.acos, 'atan': M.atan,
       'sinh': M.sinh, 'cosh': M.cosh, 'tanh': M.tanh, 'asinh': M.asinh, 'acosh': M.acosh, 'atanh': M.atanh,
       'exp': M.exp, 'log': M.log, 'expm1': M.expm1, 'log1p': M.log1p, 'log2': lambda a: M.log(a) / M.log(2),
       'log10': M.log10, 'floor': M.floor, 'ceiling': M.ceil, 'Abs': abs, 'factorial': M.factorial,
       'sec': M.sec, 'csc': M.csc, 'cot': M.cot, 'sech': M.sech, 'csch': M.csch, 'coth': M.coth,
       'asec': M.asec, 'acsc': M.acsc, 'acot': M.acot, 'asech': M.asech, 'acsch': M.acsch, 'acoth': M.acoth}


class Undefined(Exception):
    pass


class TooSlow(BaseException):
    pass


def limited(seconds, f, *args):
    """run f(*args) under a repeating timer (SymPy's evaluation and big-number arithmetic can be unbounded, and SymPy
    has bare `except:` clauses that may swallow a single alarm)"""
    def on_alarm(signum, frame):
        raise TooSlow()
    old = signal.signal(signal.SIGALRM, on_alarm)
    signal.setitimer(signal.ITIMER_REAL, seconds, 0.2)
    try:
        return f(*args)
    finally:
        signal.setitimer(signal.ITIMER_REAL, 0)
        signal.signal(signal.SIGALRM, old)


NUMERIC_TROUBLE = (OverflowError, ZeroDivisionError, ValueError, TypeError, mpmath.libmp.NoConvergence)


class Ref:
    def __init__(self, env, eps=0):
        self.env, self.clean, self.big, self.acot0 = env, True, M.mpf(1), False
        self.k = 1 + M.mpf(eps)     # relative perturbation of every intermediate value (conditioning probe)

    def note(self, v):
        if isinstance(v, bool):
            return v
        if not M.isfinite(v):
            raise Undefined('non-finite')
        v = v * self.k
        if abs(M.im(v)) > M.mpf(10) ** -20 * max(1, abs(v)):
            self.clean = False
        else:
            v = M.mpc(M.re(v), 0)
        self.big = max(self.big, abs(v))
        if 0 < abs(v) < 1e-9:
            raise Undefined('ill-conditioned: an intermediate value is zero up to rounding')
        if abs(v) > 1e60:
            self.clean = False
        return v

    def num(self, t):
        v = self.ev(t)
        if isinstance(v, (bool, str)):
            raise Undefined('boolean or undefined value where a number is needed')
        return v

    def boo(self, t):
        v = self.ev(t)
        if not isinstance(v, bool):
            raise Undefined('number where a truth value is needed')
        return v

    def ev(self, t):
        k = t[0]
        if k == 'True' or k == 'False':
            return k == 'True'
        if k == 'Symbol':
            return self.note(M.mpc(self.env[str(t[1])]))
        if k == 'Int':
            return self.note(M.mpc(t[1]))
        if k == 'Rat':
            return self.note(M.mpc(t[1]) / t[2])
        if k == 'Float':
            return self.note(M.mpc(float(t[1])))
        if k == 'Pi':
            return self.note(M.mpc(M.pi))
        if k == 'E':
            return self.note(M.mpc(M.e))
        if k == 'Add':
            return self.note(sum((self.num(a) for a in t[1:]), M.mpc(0)))
        if k == 'Mul':
            p = M.mpc(1)
            for a in t[1:]:
                p *= self.num(a)
            return self.note(p)
        if k == 'Pow':
            b, e = self.num(t[1]), self.num(t[2])
            if b == 0:
                if M.re(e) <= 0:
                    raise Undefined('0**nonpositive')
                return self.note(M.mpc(0))
            if abs(e) * max(1, abs(M.log(abs(b)))) > 400:
                raise Undefined('huge power')
            if M.im(b) == 0 and M.re(b) < 0 and not M.isint(M.re(e)):
                self.clean = False          # Python: complex result or math domain error, both acceptable
            return self.note(M.power(b, e))
        if k == 'Fn':
            name, args = str(t[1]), [self.num(a) for a in t[2:]]
            if name not in FN1 and name != 'atan2':
                raise Undefined('no reference for ' + name)     # re, im, arg, sign … introduced by SymPy's evaluation
            try:
                if name == 'atan2':
                    if any(M.im(a) != 0 for a in args) or (args[0] == 0 and M.re(args[1]) <= 0):
                        raise Undefined('complex atan2, or on the branch cut (signed zero)')
                    return self.note(M.mpc(M.atan2(M.re(args[0]), M.re(args[1]))))
                if name in ('floor', 'ceiling', 'factorial') and M.im(args[0]) != 0:
                    raise Undefined('complex ' + name)
                if name == 'acot' and args[0] == 0:
                    self.acot0 = True
                if name in ('factorial', 'exp', 'expm1', 'sinh', 'cosh') and abs(args[0]) > 150:
                    raise Undefined('huge')
                if name == 'factorial' and not (M.isint(M.re(args[0])) and M.re(args[0]) >= 0):
                    self.clean = False      # math.factorial is defined on non-negative integers only
                return self.note(M.mpc(FN1[name](*args)))
            except (ZeroDivisionError, ValueError, OverflowError):
                raise Undefined('pole of ' + name)
        if k == 'Rel':
            a, b = self.ev(t[2]), self.ev(t[3])
            op = str(t[1])
            if isinstance(a, str) or isinstance(b, str) or isinstance(a, bool) != isinstance(b, bool):
                raise Undefined('mixed relation')
            if op in ('==', '!='):
                if not isinstance(a, bool) and abs(a - b) <= M.mpf(10) ** -7 * max(1, abs(a)):
                    raise Undefined('equality within rounding')
                return (a == b) == (op == '==')
            if isinstance(a, bool) or M.im(a) != 0 or M.im(b) != 0:
                raise Undefined('order on non-reals')
            a, b = M.re(a), M.re(b)
            if abs(a - b) <= M.mpf(10) ** -7 * max(1, abs(a)):
                raise Undefined('comparison within rounding')
            return {'<': a < b, '<=': a <= b, '>': a > b, '>=': a >= b}[op]
        if k == 'And':
            return all([self.boo(a) for a in t[1:]])
        if k == 'Or':
            return any([self.boo(a) for a in t[1:]])
        if k == 'Not':
            return not self.boo(t[1])
        if k == 'Piecewise':
            for e, c in t[1:]:
                if self.boo(c):
                    return self.ev(e)
            return 'nan'
        raise Undefined('no meaning: ' + k)


# ------------------------------------------------------------------------------------------------ implementation
def impl(case):
    import sympy  # noqa: F401  (imports are done outside the timed region: an interrupted import poisons the worker)
    import sympy.codegen.rewriting  # noqa: F401
    import cellmlmanip.printer  # noqa: F401
    try:
        return limited(8, impl_, case)
    except TooSlow:
        # the interrupt may have left half-built objects in SymPy's cache (it has bare `except:` clauses)
        from sympy.core.cache import clear_cache
        clear_cache()
        return {'built': None, 'why': 'timeout'}
    except (MemoryError, RecursionError, OverflowError) as ex:
        return {'built': None, 'why': type(ex).__name__}


def impl_(case):
    import sympy as sp
    from cellmlmanip.printer import Printer
    try:
        e = build(case['r'])
    except Exception as ex:
        return {'built': None, 'why': type(ex).__name__}
    if isinstance(e, (bool, int, float)):
        e = sp.sympify(e)
    obs = {'built': ser(e)}
    p = Printer()
    for attempt in (0, 1):
        try:
            obs['out'] = p.doprint(e)
            break
        except Exception as ex:
            obs['out'] = 'err:' + type(ex).__name__
            obs['msg'] = str(ex)[:160]
            if isinstance(ex, (ValueError, TypeError)) or attempt == 1:
                break
            # anything else may be an artefact of an earlier interrupted evaluation in this worker: retry once on
            # a clean SymPy cache with a freshly built expression
            from sympy.core.cache import clear_cache
            clear_cache()
            e = build(case['r'])
            if isinstance(e, (bool, int, float)):
                e = sp.sympify(e)
            obs = {'built': ser(e)}
    # the tree after the secondary-trig rewriting doprint() performs first (sympy's `optimize`, rebuilding parents)
    try:
        from sympy.codegen.rewriting import optimize
        obs['post'] = ser(optimize(e, p._optims)) if isinstance(e, sp.Expr) else obs['built']
    except Exception as ex:
        obs['post'] = 'err:' + type(ex).__name__     # SymPy's own rewriting machinery refuses the tree
    return obs


SAFE_BUILTINS = {'abs': abs, 'float': float, 'True': True, 'False': False}


def run_python(code, env):
    """eval the emitted string with the math module: ('ok', value) | ('exc', class name)"""
    try:
        return 'ok', eval(code, {'math': math, '__builtins__': SAFE_BUILTINS}, dict(env))
    except Exception as ex:
        return 'exc', type(ex).__name__


ALLOWED_NODES = (ast.Expression, ast.BinOp, ast.UnaryOp, ast.BoolOp, ast.Compare, ast.IfExp, ast.Call, ast.Name,
                 ast.Attribute, ast.Constant, ast.Load, ast.operator, ast.unaryop, ast.boolop, ast.cmpop)


def oracle(case, obs):
    if obs.get('built') is None:
        return []
    try:
        return limited(10, oracle_, case, obs)
    except (TooSlow, MemoryError, RecursionError):
        return []


def oracle_(case, obs):
    t, out = obs['built'], obs['out']
    fails = []
    # what reaches the _print_* methods is the tree after doprint's secondary-trig rewriting (SymPy re-evaluates the
    # rewritten nodes and their parents: acsc(0.5) becomes asin(2.0), a complex number)
    seen = obs.get('post') or t
    if isinstance(seen, str):
        return [] if out == seen else [{'key': 'wrong-exception', 'detail': '%s vs %s for %s' % (out, seen, sx(t))}]
    why = unprintable(seen)
    if out.startswith('err:'):
        if degenerate(t) or degenerate(seen) or out in SYMPY_INTERNAL:
            return []
        if out != 'err:ValueError':
            return [{'key': 'wrong-exception', 'detail': '%s raised by doprint for %s' % (out, sx(t))}]
        if not why and any(c in obs.get('msg', '') for c in NONFINITE):
            return []   # SymPy's own re-evaluation inside _print_Mul (k*r, Pow(b, 1)) met a pole or a complex value
        if not why:
            return [{'key': 'rejects-supported', 'detail': 'ValueError for a supported expression %s' % sx(t)}]
        if all(w in EXTRA for w in why):
            return [{'key': 'rejects-supported:secondary-trig', 'detail': 'ValueError: %s is left unrewritten in %s'
                     % (','.join(sorted(set(why))), sx(t))}]
        return []
    if any(w != 'NaN' and not (w.startswith('Other:') and w[6:] in NONFINITE + ('NegativeInfinity',)) for w in why):
        fails.append({'key': 'accepts-unsupported', 'detail': '%s printed as %r' % (sx(t), out)})
        return fails
    try:
        tree = ast.parse(out, mode='eval')
    except SyntaxError as ex:
        return [{'key': 'not-python', 'detail': '%r does not parse: %s' % (out, ex)}]
    for node in ast.walk(tree):
        if not isinstance(node, ALLOWED_NODES):
            return [{'key': 'strange-syntax', 'detail': '%r contains %s' % (out, type(node).__name__)}]
        if isinstance(node, ast.Attribute) and not (isinstance(node.value, ast.Name) and node.value.id == 'math'
                                                    and hasattr(math, node.attr)):
            return [{'key': 'no-such-math-name', 'detail': '%r uses %s' % (out, ast.unparse(node))}]
    if has_deriv(t):
        return fails
    for env in ENVS:
        ref = Ref(env)
        try:
            want = ref.ev(t)
        except (Undefined,) + NUMERIC_TROUBLE:
            continue
        if not isinstance(want, (bool, str)):
            # ill-conditioned at this point (next to a pole, catastrophic cancellation): double rounding decides
            try:
                w2 = Ref(env, 1e-14).ev(t)
            except (Undefined,) + NUMERIC_TROUBLE:
                continue
            if isinstance(w2, (bool, str)) or abs(w2 - want) > M.mpf(10) ** -10 * max(1, abs(want)):
                continue
        kind, got = run_python(out, env)
        if kind == 'exc':
            if ref.clean and isinstance(seen, list) and seen != t:
                # SymPy's evaluation may have produced a form that is real only through complex intermediates
                # (sqrt(a) * sqrt(b) with a, b < 0): math cannot evaluate it, which is not a grouping matter
                r2 = Ref(env)
                try:
                    r2.ev(seen)
                except (Undefined,) + NUMERIC_TROUBLE:
                    continue
                if not r2.clean:
                    continue
            if ref.clean and got not in ('OverflowError',):
                key = 'factorial-float' if (got == 'TypeError' and 'math.factorial' in out) else \
                    'acot-at-zero' if (got == 'ZeroDivisionError' and ref.acot0) else 'eval-error'
                fails.append({'key': key, 'detail': '%r raises %s at %s; the expression %s is %s there'
                              % (out, got, env, sx(t), want)})
            continue
        if want == 'nan':
            ok = isinstance(got, float) and got != got
        elif isinstance(want, bool):
            ok = isinstance(got, bool) and got == want
        else:
            if isinstance(got, bool) or not isinstance(got, (int, float, complex)):
                ok = False
            else:
                try:
                    g = M.mpc(complex(got))
                    ok = abs(g - want) <= M.mpf(10) ** -9 * ref.big
                except (OverflowError, ValueError):
                    ok = not ref.clean
        if not ok:
            fails.append({'key': classify(t, out), 'detail': '%r evaluates to %r at %s; the expression %s is %s'
                          % (out, got, env, sx(t), want)})
            break
    return fails


PRINTABLE1 = ['Abs', 'acos', 'acosh', 'asin', 'asinh', 'atan', 'atanh', 'ceiling', 'cos', 'cosh', 'exp', 'expm1',
              'factorial', 'floor', 'log', 'log10', 'log1p', 'log2', 'sin', 'sinh', 'tan', 'tanh']
EXTRA = ['sec', 'csc', 'cot', 'sech', 'csch', 'coth', 'asec', 'acsc', 'acot', 'asech', 'acsch', 'acoth']


SYMPY_INTERNAL = ('err:InconsistentAssumptions',)     # raised by SymPy's assumption system on some held trees
NONFINITE = ('ComplexInfinity', 'NaN', 'Infinity', 'ImaginaryUnit')


def walk_printed(t):
    """sub-trees the printer visits (a Piecewise stops at its first `True` condition)"""
    yield t
    if t[0] == 'Piecewise':
        for e, c in t[1:]:
            if c == ['True']:
                yield from walk_printed(e)
                return
            yield from walk_printed(e)
            yield from walk_printed(c)
    elif t[0] in ('Add', 'Mul', 'And', 'Or', 'Pow', 'Not'):
        for a in t[1:]:
            yield from walk_printed(a)
    elif t[0] in ('Fn', 'Rel'):
        for a in t[2:]:
            yield from walk_printed(a)


def unprintable(t):
    """constructs in the tree handed to the _print_* methods for which Python's math module has no expression
    (hand-written list: anything but the 22 one-argument functions below, atan2 and the basic operators)"""
    out = []
    for s in walk_printed(t):
        if s[0] == 'Other':
            out.append('Other:' + str(s[1]))
        elif s[0] in ('NaN', 'Not'):
            out.append(s[0])
        elif s[0] == 'Fn' and not (str(s[1]) in PRINTABLE1 and len(s) == 3 or str(s[1]) == 'atan2' and len(s) == 4):
            out.append(str(s[1]))
    return out


def degenerate(t):
    """SymPy itself produced a non-finite or non-real constant, or an empty Piecewise, while building the tree"""
    return any(s[0] in ('Other', 'NaN') or s == ['Piecewise'] or (s[0] == 'Rel' and not has_symbol(s))
               or (s[0] == 'Pow' and s[1] == ['Int', 0])
               or (s[0] == 'Pow' and s[1][0] in ('Int', 'Rat', 'Float') and s[2][0] in ('Rat', 'Float')
                   and (s[1][1] < 0 if s[1][0] != 'Float' else s[1][2] == 'neg'))
               for s in walk_all(t))


def has_symbol(t):
    return any(s[0] == 'Symbol' for s in walk_all(t))


def walk_all(t):
    yield t
    for a in t[1:]:
        if isinstance(a, list):
            if a and isinstance(a[0], list):
                for b in a:
                    yield from walk_all(b)
            else:
                yield from walk_all(a)


def has_deriv(t):
    return any(s[0] == 'Derivative' for s in walk_printed(t))


def classify(t, out):
    """SymPy 1.14 evaluates cos/sin/tan(w + (x + pi)) with a held inner sum to -cos(w) (the inner sum is lost while
    peeling off pi); doprint's rewriting of sec/csc/cot builds exactly such a call"""
    for s in walk_all(t):
        if s[0] == 'Fn' and str(s[1]) in ('sec', 'csc', 'cot') and s[2][0] == 'Add':
            for a in s[2][1:]:
                if a[0] == 'Add' and any(q[0] == 'Pi' for q in walk_all(a)):
                    return 'wrong-value:sympy-held-sum-with-pi'
    return 'wrong-value'


# ------------------------------------------------------------------------------------------------ generators
def S(n):
    return ['sym', n]


SYMS = [S(n) for n in 'xyzwv']
LITS = [['int', 0], ['int', 1], ['int', -1], ['int', 2], ['int', -3], ['int', 5], ['rat', 2, 3], ['rat', -1, 2],
        ['rat', 1, 3], ['rat', -5, 7], ['rat', 1, 2], ['flt', '2.5'], ['flt', '-1.5'], ['flt', '0.5'], ['flt', '-0.5'],
        ['flt', '1e-05'], ['flt', '3.0'], ['flt', '-2.0'], ['const', 'pi'], ['const', 'E']]
TABLE_FN1 = ['Abs', 'acos', 'acosh', 'asin', 'asinh', 'atan', 'atanh', 'ceiling', 'cos', 'cosh', 'exp', 'expm1',
             'factorial', 'floor', 'log', 'log10', 'log1p', 'log2', 'sin', 'sinh', 'tan', 'tanh']
EXTRA = ['sec', 'csc', 'cot', 'sech', 'csch', 'coth', 'asec', 'acsc', 'acot', 'asech', 'acsch', 'acoth']
BIN = {
    'add': lambda a, b, ev: ['add', ev, a, b],
    'sub': lambda a, b, ev: ['add', ev, a, ['mul', ev, ['int', -1], b]],
    'mul': lambda a, b, ev: ['mul', ev, a, b],
    'div': lambda a, b, ev: ['mul', ev, a, ['pow', ev, b, ['int', -1]]],
    'pow': lambda a, b, ev: ['pow', ev, a, b],
}
UN = {
    'neg': lambda a, ev: ['mul', ev, ['int', -1], a],
    'inv': lambda a, ev: ['pow', ev, a, ['int', -1]],
    'sqrt': lambda a, ev: ['pow', ev, a, ['rat', 1, 2]],
    'rsqrt': lambda a, ev: ['pow', ev, a, ['rat', -1, 2]],
    'sq': lambda a, ev: ['pow', ev, a, ['int', 2]],
    'cuberoot': lambda a, ev: ['pow', ev, a, ['rat', 1, 3]],
    'negpow': lambda a, ev: ['pow', ev, a, ['int', -2]],
    'fpow': lambda a, ev: ['pow', ev, a, ['flt', '-0.5']],
    'twice': lambda a, ev: ['mul', ev, ['int', 2], a],
    'mtwice': lambda a, ev: ['mul', ev, ['int', -2], a],
    'third': lambda a, ev: ['mul', ev, ['rat', -1, 3], a],
    'rcoef': lambda a, ev: ['mul', ev, a, ['int', -2]],
}
for _f in TABLE_FN1 + EXTRA:
    UN[_f] = (lambda f: lambda a, ev: ['fn', f, ev, a])(_f)
COND = [['rel', '<', True, S('x'), S('y')], ['rel', '>=', True, S('z'), ['int', 1]], ['rel', '==', True, S('x'), S('w')]]


def pw(a, b, ev, c=0):
    return ['pw', ev, [a, COND[c]], [b, ['const', 'true']]]


def kids():
    out = []
    for ev in (True, False):
        for nm, f in BIN.items():
            for a, b in [(S('x'), S('y')), (S('x'), ['int', 2]), (['int', -3], S('y')), (S('x'), ['rat', -1, 2]),
                         (['flt', '-1.5'], S('y')), (['rat', 2, 3], S('y')), (S('x'), ['flt', '2.5'])]:
                out.append(('%s%s' % (nm, 'T' if ev else 'F'), f(a, b, ev)))
        for nm, f in UN.items():
            for a in (S('x'), ['int', -3], ['rat', 2, 3]):
                if nm in TABLE_FN1 + EXTRA and a != S('x'):
                    continue
                out.append(('%s%s' % (nm, 'T' if ev else 'F'), f(a, ev)))
        out.append(('pw%s' % ev, pw(S('x'), S('y'), ev)))
        out.append(('add3', ['add', ev, S('x'), ['int', -2], ['mul', ev, ['int', -1], S('y')]]))
        out.append(('mul3', ['mul', ev, ['int', -2], S('x'), ['pow', ev, S('y'), ['int', -1]]]))
        out.append(('muldd', ['mul', ev, S('x'), ['pow', ev, S('y'), ['int', -1]], ['pow', ev, S('w'), ['int', -2]]]))
        out.append(('atan2', ['fn', 'atan2', ev, S('x'), S('y')]))
    out += [('atom', a) for a in SYMS[:2] + LITS]
    return out


def exhaustive():
    """every (parent, child, position) with evaluated and unevaluated parents and children"""
    ks = kids()
    others = [S('z'), ['int', 2], ['int', -2], ['rat', 1, 3], ['flt', '-2.5']]
    for pev in (True, False):
        for kn, k in ks:
            for pn, f in BIN.items():
                for o in others:
                    yield {'r': f(k, o, pev), 'g': '%s%s/0/%s' % (pn, 'T' if pev else 'F', kn)}
                    yield {'r': f(o, k, pev), 'g': '%s%s/1/%s' % (pn, 'T' if pev else 'F', kn)}
            for pn, f in UN.items():
                yield {'r': f(k, pev), 'g': '%s%s/0/%s' % (pn, 'T' if pev else 'F', kn)}
            yield {'r': ['fn', 'atan2', pev, k, S('z')], 'g': 'atan2/0/' + kn}
            yield {'r': ['fn', 'atan2', pev, S('z'), k], 'g': 'atan2/1/' + kn}
            yield {'r': pw(k, S('z'), pev), 'g': 'pw/0/' + kn}
            yield {'r': pw(S('z'), k, pev), 'g': 'pw/1/' + kn}
            yield {'r': ['add', pev, S('z'), k, S('w')], 'g': 'add3/1/' + kn}
            yield {'r': ['mul', pev, S('z'), k, S('w')], 'g': 'mul3/1/' + kn}
            yield {'r': ['mul', pev, S('z'), ['pow', pev, S('w'), ['int', -1]], ['pow', pev, k, ['int', -1]]],
                   'g': 'div2/2/' + kn}
            for op in REL:
                yield {'r': ['rel', op, pev, k, S('z')], 'g': 'rel%s/0/%s' % (op, kn)}
                yield {'r': ['rel', op, pev, S('z'), k], 'g': 'rel%s/1/%s' % (op, kn)}


def logic_cases():
    rels = [['rel', '<', True, S('x'), S('y')], ['rel', '<', True, S('y'), S('z')], ['rel', '==', True, S('x'), S('w')],
            ['rel', '>', True, S('x'), S('y')], ['rel', '!=', True, ['add', True, S('x'), ['int', 1]], S('v')]]
    for ev in (True, False):
        for a in rels:
            for b in rels:
                for c in rels[:3]:
                    yield {'r': ['and', ev, a, ['or', ev, b, c]], 'g': 'and/or'}
                    yield {'r': ['or', ev, a, ['and', ev, b, c]], 'g': 'or/and'}
                    yield {'r': ['and', ev, a, b, c], 'g': 'and3'}
                    yield {'r': ['or', ev, ['and', ev, a, b], ['and', ev, b, c]], 'g': 'or/and2'}
                    yield {'r': ['pw', ev, [S('x'), ['and', ev, a, b]], [S('y'), ['or', ev, b, c]],
                                 [S('z'), ['const', 'true']]], 'g': 'pw/logic'}
                yield {'r': ['rel', '==', ev, a, b], 'g': 'eq/rel'}
                yield {'r': ['rel', '!=', ev, a, ['rel', '==', ev, b, ['const', 'true']]], 'g': 'ne/rel'}
                yield {'r': ['pw', ev, [S('x'), a], [S('y'), b]], 'g': 'pw/nodefault'}
                yield {'r': ['pw', ev, [S('x'), a], [S('y'), ['const', 'true']], [S('z'), b]], 'g': 'pw/after-true'}
                yield {'r': ['or', ev, ['not', ['and', ev, a, b]], b], 'g': 'not'}
    for what in OTHERS:
        args = [S('x')] if what in ('gamma', 'erf', 'sign', 'Heaviside') else [S('x'), S('y')]
        yield {'r': ['other', what] + args, 'g': 'other'}
        yield {'r': ['add', True, S('z'), ['other', what] + args], 'g': 'other'}
        yield {'r': ['fn', 'sin', True, ['other', what] + args], 'g': 'other'}
    for c in ('nan', 'oo', 'true', 'false'):
        yield {'r': ['const', c], 'g': 'const'}
        if c in ('nan', 'oo'):
            yield {'r': ['add', False, S('x'), ['const', c]], 'g': 'const'}
    yield {'r': ['deriv', 'x', 'y'], 'g': 'deriv'}
    yield {'r': ['add', True, ['deriv', 'x', 'y'], S('z')], 'g': 'deriv'}
    yield {'r': ['mul', True, ['int', -2], ['deriv', 'x', 'y']], 'g': 'deriv'}


def rnd_bool(rng, d):
    r = rng.random()
    ev = rng.random() < 0.5
    if d <= 0 or r < 0.5:
        return ['rel', rng.choice(list(REL)), ev, rnd(rng, d - 1), rnd(rng, d - 1)]
    if r < 0.95:
        return [rng.choice(['and', 'or']), ev] + [rnd_bool(rng, d - 1) for _ in range(rng.choice([2, 2, 3]))]
    return ['const', rng.choice(['true', 'false'])]


def rnd(rng, d):
    if d <= 0 or rng.random() < 0.18:
        return rng.choice(SYMS + SYMS + LITS)
    r = rng.random()
    ev = rng.random() < 0.5
    if r < 0.55:
        return BIN[rng.choice(list(BIN))](rnd(rng, d - 1), rnd(rng, d - 1), ev)
    if r < 0.65:
        return [rng.choice(['add', 'mul']), ev] + [rnd(rng, d - 1) for _ in range(rng.choice([3, 3, 4]))]
    if r < 0.9:
        return UN[rng.choice(list(UN))](rnd(rng, d - 1), ev)
    if r < 0.93:
        return ['fn', 'atan2', ev, rnd(rng, d - 1), rnd(rng, d - 1)]
    pairs = [[rnd(rng, d - 1), rnd_bool(rng, min(d - 1, 2))] for _ in range(rng.choice([1, 1, 2]))]
    if rng.random() < 0.85:
        pairs.append([rnd(rng, d - 1), ['const', 'true']])
    return ['pw', ev] + pairs


_FIXED = None


def fixed_cases():
    global _FIXED
    if _FIXED is None:
        _FIXED = list(exhaustive()) + list(logic_cases())
    return _FIXED


def W(r, g):
    return {'r': r, 'g': g}


def corpus():
    x, y, z = S('x'), S('y'), S('z')
    out = [
        W(['pow', True, ['pow', True, x, y], z], 'witness/tower'),
        W(['pow', False, ['pow', False, x, ['int', 2]], ['int', 3]], 'witness/tower'),
        W(['add', False, x, ['mul', False, ['int', -1], ['add', False, y, z]]], 'witness/negsum'),
        W(['mul', False, ['int', -1], ['add', True, ['int', 2], x]], 'witness/negsum'),
        W(['mul', False, z, ['pow', False, ['pow', False, x, ['int', -1]], ['int', -1]]], 'witness/denominator'),
        W(['mul', False, x, ['pow', False, ['rat', 1, 3], ['int', -1]]], 'witness/denominator'),
        W(['add', False, z, ['mul', False, ['int', -1], ['pow', False, ['rat', 2, 3], ['int', -1]]]],
          'witness/denominator'),
        # strings pinned by tests/test_printer.py
        W(['mul', False, ['int', -2], x, ['pow', False, ['mul', False, y, y], ['int', -1]]], 'pinned'),
        W(['mul', True, x, ['pow', True, y, ['rat', -2, 3]]], 'pinned'),
        W(['pow', True, ['int', 2], ['fn', 'sec', True, x]], 'pinned'),
        W(['rel', '==', True, x, ['rel', '==', True, y, z]], 'pinned'),
        W(['pw', True, [['int', 0], ['rel', '>', True, x, ['int', 0]]], [['int', 1], ['rel', '>', True, x, ['int', 1]]],
           [['int', 2], ['const', 'true']]], 'pinned'),
    ]
    for f in EXTRA:       # the rewriting itself, where SymPy's rebuilding is the identity
        for a in (x, ['add', True, x, ['int', 1]], ['pow', True, x, ['int', -1]]):
            out.append({'r': ['fn', f, True, a], 'g': 'rewrite', 'rw': True})
    return out


def gen(rng, n, tier):
    fx = fixed_cases()
    # the unsupported constructs and the constants are few and each stands for a table entry: always run them all
    must = [c for c in fx if c['g'] in ('other', 'const')]
    yield from must
    fx = [c for c in fx if c['g'] not in ('other', 'const')]
    n = max(0, n - len(must))
    if tier == 'thorough':
        take = fx if n >= 2 * len(fx) else rng.sample(fx, n // 2)
    else:
        take = rng.sample(fx, min(len(fx), (n * 3) // 5))
    yield from take
    for _ in range(max(0, n - len(take))):
        d = rng.choice([2, 3, 3, 4, 4, 5, 6])
        r = rnd(rng, d) if rng.random() < 0.9 else rnd_bool(rng, min(d, 3))
        yield {'r': r, 'g': 'random/d%d' % d}


# ------------------------------------------------------------------------------------------------ model side
def py_shape(code):
    """CPython's parse of the emitted string, in the vocabulary of the model's Doc (parentheses leave no trace)"""
    tree = ast.parse(code, mode='eval').body
    seg = lambda n: ast.get_source_segment(code, n)
    BOP = {ast.Add: 'add', ast.Sub: 'sub', ast.Mult: 'mul', ast.Div: 'div', ast.Pow: 'pow'}
    CMP = {ast.Eq: '==', ast.NotEq: '!=', ast.Lt: '<', ast.LtE: '<=', ast.Gt: '>', ast.GtE: '>='}

    def go(n):
        if isinstance(n, (ast.Constant, ast.Name, ast.Attribute)):
            return ['atom', seg(n)]
        if isinstance(n, ast.Call):
            return ['call', seg(n.func)] + [go(a) for a in n.args]
        if isinstance(n, ast.UnaryOp) and isinstance(n.op, ast.USub):
            return ['neg', go(n.operand)]
        if isinstance(n, ast.BinOp) and type(n.op) in BOP:
            return [BOP[type(n.op)], go(n.left), go(n.right)]
        if isinstance(n, ast.Compare):
            if len(n.ops) != 1 or type(n.ops[0]) not in CMP:
                return ['chain'] + [go(x) for x in [n.left] + n.comparators]
            return ['cmp', CMP[type(n.ops[0])], go(n.left), go(n.comparators[0])]
        if isinstance(n, ast.BoolOp):
            acc = go(n.values[0])
            for v in n.values[1:]:
                acc = ['and' if isinstance(n.op, ast.And) else 'or', acc, go(v)]
            return acc
        if isinstance(n, ast.IfExp):
            return ['ite', go(n.body), go(n.test), go(n.orelse)]
        return ['?', type(n).__name__]
    return go(tree)


def plain(x):
    return [plain(a) for a in x] if isinstance(x, list) else str(x)


def has_extra(t):
    return any(s[0] == 'Fn' and str(s[1]) in EXTRA for s in walk_all(t))


def requests(case, obs):
    if obs.get('built') is None:
        return []
    post = obs.get('post')
    if isinstance(post, str) or post is None:
        return []
    return [sx(['C11', 'print', post]), sx(['C11', 'rewrite', obs['built'], post])]


def compare(case, obs, replies):
    if len(replies) != 2:
        return None
    rep, rw = replies
    out = obs['out']
    degen = degenerate(obs['built']) or degenerate(obs['post'])
    if degen:
        rw = None
    if rw == ['differs'] and (case.get('rw') or not has_extra(obs['built'])):
        return 'secondary-trig rewriting: the model\'s rewritten tree differs from what doprint prints: %s' % sx(obs['post'])
    if rw == ['unsupported'] and not has_extra(obs['built']):
        return 'rewriting: model does not handle a tree without secondary trig functions'
    if rep == ['unsupported']:
        return None
    if not isinstance(rep, list) or not rep:
        return 'model reply malformed: %r' % (rep,)
    if rep[0] == 'err':
        if out.startswith('err:') and degen:
            return None     # e.g. Mul(nan, x): `c < 0` raises TypeError before the printer can reject nan
        return None if out == 'err:' + rep[1] else 'model raises %s, implementation gives %r' % (rep[1], out)
    if out in SYMPY_INTERNAL:
        return None
    if out.startswith('err:'):
        return 'implementation %s, model prints %r' % (out, str(rep[1][1]))
    mstr, mshape, mok = str(rep[1][1]), plain(rep[2][1]), rep[3][1] == 'true'
    if mstr != out:
        return 'strings differ: implementation %r, model %r' % (out, mstr)
    try:
        pshape = py_shape(out)
    except SyntaxError:
        return None if not mok else 'PyOK holds for %r, which CPython does not parse' % out
    if mok != (pshape == mshape):
        return 'grammar model: PyOK=%s for %r but CPython parses it to %s, the model\'s tree is %s' % (
            mok, out, sx(pshape).replace('\\', ''), sx(mshape).replace('\\', ''))
    return None


def nontrivial(case, obs):
    t = obs.get('built')
    return bool(t) and t[0] not in ('Symbol', 'Int', 'Rat', 'Float', 'Pi', 'E', 'True', 'False', 'Other', 'NaN')


def tag(case, obs):
    g = case.get('g', '?').split('/')[0].rstrip('TF')
    if obs.get('built') is None:
        return g + ':not-built'
    return g + (':ValueError' if obs['out'].startswith('err:') else ':printed')
