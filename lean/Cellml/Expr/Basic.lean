import Cellml.Units.Conv
import Cellml.Basic.Sexp

/-! SymPy expression trees as cellmlmanip handles them (units.py 442-801), as ONE plain inductive type so that
    structural recursion and `induction` apply. SymPy's n-ary `Add`/`Mul`/`And`/`Or` are left-nested by the
    serialiser (both traversals in units.py are left folds over `expr.args`, so this is faithful); a `Piecewise` is a
    first-match chain `ite cond piece rest` ending in `undef`. Core Lean only. -/

inductive Rel where | eq | ne | lt | le | gt | ge
deriving Repr, DecidableEq

inductive E where
  | qty (val : Rat) (u : Container)      -- model.Quantity: float value (exact rational), pint unit
  | cf (s : Scale) (u : Container)       -- a conversion-factor Quantity: value ⟦s⟧ (possibly irrational), pint unit
  | var (i : Nat)                        -- model.Variable, by index into the variable environment
  | int (n : Int) | rat (q : Rat) | flt (q : Rat)    -- sympy Integer / Rational / Float
  | pi | e | oo | nan
  | add (a b : E) | mul (a b : E) | pow (b x : E)
  | abs (a : E) | floor (a : E) | ceil (a : E)
  | fn1 (f : String) (a : E)             -- one-argument function, by SymPy class name (exp, log, sin, acos, …)
  | fnN (f : String) (a b : E)           -- two-argument function (Max, Min, Mod)
  | ite (c t el : E) | undef             -- Piecewise chain
  | deriv (v t : Nat)                    -- first-order Derivative(Variable, Variable)
  | rel (r : Rel) (a b : E)
  | and (a b : E) | or (a b : E) | not (a : E) | tt | ff
  | other (name : String)                -- anything else (Matrix, higher derivatives, …)
deriving Repr, DecidableEq

structure VarInfo where
  unit : Container
  init : Option Rat := none
deriving Repr, DecidableEq

abbrev VarEnv := List VarInfo

/-- magnitude carried along by `traverse` (it feeds exponents) -/
inductive Mag where
  | num (q : Rat)
  | sym                 -- a SymPy expression
  | weird               -- inf, nan, complex: outside the exact model
deriving Repr, DecidableEq

inductive UnitErr where
  | unexpectedMath | argsInvalidUnits | mustBeDimensionless | mustBeNumber | boolean | cannotConvert
  | deferredFn                          -- UnexpectedMathUnitsError raised by an n-ary function after ALL its operands
  | otherException (what : String)      -- a Python-level failure that is NOT a UnitError
  | unsupported (what : String)         -- outside the modelled fragment (the correspondence skips the case)
deriving Repr, DecidableEq

namespace E
open Sexp

def relOf? : String → Option Rel
  | "Eq" => some .eq | "Ne" => some .ne | "Lt" => some .lt | "Le" => some .le | "Gt" => some .gt | "Ge" => some .ge
  | _ => none

/-- container given on the wire as `((name exp) …)` with already qualified names -/
def container? (e : Sexp) : Option Container := do
  let xs ← listOf? e
  xs.mapM (fun x => match x with
    | .list [n, q] => do let n ← atomOf? n; let q ← rat? q; some (n, q)
    | _ => none)

def scale? (e : Sexp) : Option Scale := do
  let xs ← listOf? e
  xs.mapM (fun x => match x with
    | .list [p, q] => do let p ← nat? p; let q ← rat? q; some (p, q)
    | _ => none)

/-- wire format of expressions (head atom = constructor) -/
partial def ofSexpWith? (resolve : Sexp → Option Container) : Sexp → Option E
  | .list [.atom "qty", v, u] => do some (.qty (← rat? v) (← resolve u))
  | .list [.atom "var", i] => do some (.var (← nat? i))
  | .list [.atom "cf", sc, u] => do some (.cf (← scale? sc) (← resolve u))
  | .list [.atom "int", n] => do some (.int (← int? n))
  | .list [.atom "rat", q] => do some (.rat (← rat? q))
  | .list [.atom "flt", q] => do some (.flt (← rat? q))
  | .atom "pi" => some .pi | .atom "e" => some .e | .atom "oo" => some .oo | .atom "nan" => some .nan
  | .atom "tt" => some .tt | .atom "ff" => some .ff | .atom "undef" => some .undef
  | .list [.atom "add", a, b] => do some (.add (← ofSexpWith? resolve a) (← ofSexpWith? resolve b))
  | .list [.atom "mul", a, b] => do some (.mul (← ofSexpWith? resolve a) (← ofSexpWith? resolve b))
  | .list [.atom "pow", a, b] => do some (.pow (← ofSexpWith? resolve a) (← ofSexpWith? resolve b))
  | .list [.atom "abs", a] => do some (.abs (← ofSexpWith? resolve a))
  | .list [.atom "floor", a] => do some (.floor (← ofSexpWith? resolve a))
  | .list [.atom "ceil", a] => do some (.ceil (← ofSexpWith? resolve a))
  | .list [.atom "fn1", f, a] => do some (.fn1 (← atomOf? f) (← ofSexpWith? resolve a))
  | .list [.atom "fnN", f, a, b] => do some (.fnN (← atomOf? f) (← ofSexpWith? resolve a) (← ofSexpWith? resolve b))
  | .list [.atom "ite", c, t, el] => do some (.ite (← ofSexpWith? resolve c) (← ofSexpWith? resolve t) (← ofSexpWith? resolve el))
  | .list [.atom "deriv", v, t] => do some (.deriv (← nat? v) (← nat? t))
  | .list [.atom "rel", r, a, b] => do some (.rel (← relOf? (← atomOf? r)) (← ofSexpWith? resolve a) (← ofSexpWith? resolve b))
  | .list [.atom "and", a, b] => do some (.and (← ofSexpWith? resolve a) (← ofSexpWith? resolve b))
  | .list [.atom "or", a, b] => do some (.or (← ofSexpWith? resolve a) (← ofSexpWith? resolve b))
  | .list [.atom "not", a] => do some (.not (← ofSexpWith? resolve a))
  | .list [.atom "other", n] => do some (.other (← atomOf? n))
  | _ => none

/-- containers given directly as `((name exp) …)` -/
def ofSexp? (e : Sexp) : Option E := ofSexpWith? (fun u => PMap.norm <$> container? u) e

def relName : Rel → String
  | .eq => "Eq" | .ne => "Ne" | .lt => "Lt" | .le => "Le" | .gt => "Gt" | .ge => "Ge"

def containerSexp (c : Container) : Sexp := .list (c.map (fun (n, q) => .list [.str n, ofRat q]))

def toSexp : E → Sexp
  | .qty v u => .list [.atom "qty", ofRat v, containerSexp u]
  | .var i => .list [.atom "var", ofNat i]
  | .cf sc u => .list [.atom "cf", .list (sc.map (fun (p, q) => .list [ofNat p, ofRat q])), containerSexp u]
  | .int n => .list [.atom "int", ofInt n]
  | .rat q => .list [.atom "rat", ofRat q]
  | .flt q => .list [.atom "flt", ofRat q]
  | .pi => .atom "pi" | .e => .atom "e" | .oo => .atom "oo" | .nan => .atom "nan"
  | .tt => .atom "tt" | .ff => .atom "ff" | .undef => .atom "undef"
  | .add a b => .list [.atom "add", toSexp a, toSexp b]
  | .mul a b => .list [.atom "mul", toSexp a, toSexp b]
  | .pow a b => .list [.atom "pow", toSexp a, toSexp b]
  | .abs a => .list [.atom "abs", toSexp a]
  | .floor a => .list [.atom "floor", toSexp a]
  | .ceil a => .list [.atom "ceil", toSexp a]
  | .fn1 f a => .list [.atom "fn1", .atom f, toSexp a]
  | .fnN f a b => .list [.atom "fnN", .atom f, toSexp a, toSexp b]
  | .ite c t el => .list [.atom "ite", toSexp c, toSexp t, toSexp el]
  | .deriv v t => .list [.atom "deriv", ofNat v, ofNat t]
  | .rel r a b => .list [.atom "rel", .atom (relName r), toSexp a, toSexp b]
  | .and a b => .list [.atom "and", toSexp a, toSexp b]
  | .or a b => .list [.atom "or", toSexp a, toSexp b]
  | .not a => .list [.atom "not", toSexp a]
  | .other n => .list [.atom "other", .atom n]

end E

def UnitErr.name : UnitErr → String
  | .unexpectedMath => "UnexpectedMathUnitsError"
  | .deferredFn => "UnexpectedMathUnitsError"
  | .argsInvalidUnits => "InputArgumentsInvalidUnitsError"
  | .mustBeDimensionless => "InputArgumentsMustBeDimensionlessError"
  | .mustBeNumber => "InputArgumentMustBeNumberError"
  | .boolean => "BooleanUnitsError"
  | .cannotConvert => "UnitConversionError"
  | .otherException w => "Other:" ++ w
  | .unsupported w => "unsupported:" ++ w
