import Cellml.C12.Lemmas
import Cellml.C12.Detect
set_option linter.unusedSectionVars false
set_option linter.unusedSimpArgs false

/-! # C12 — the four documented forms as trees, and how `Detect` classifies their factors (proof side only).
    `U = k·V + c` is the tree `k*V + c` SymPy holds for it; `emPos = exp(U) − 1`, `emNeg = 1 − exp(U)`;
    `form n P k c` are the arguments of the product `P·U/(exp U − 1)`, `P·U/(1 − exp U)`, `P·(exp U − 1)/U`,
    `P·(1 − exp U)/U`. All lemmas are for symbolic rational `P`, `k`, `c`. -/

namespace C12
open C12.Expr

def U (k c : Rat) : Expr := add [mul [num k, volt], num c]

theorem aff_U (k c : Rat) : aff? (U k c) = some (k, c) := by
  simp [U, aff?, affSum, affProd]

theorem aff_num (q : Rat) : aff? (num q) = some (0, q) := by simp [aff?]

theorem aff_em_pos (k c : Rat) : aff? (add [num (-1), exp (U k c)]) = none := by
  simp [aff?, affSum]

theorem classify_U (k c : Rat) (hk : k ≠ 0) (hc : c ≠ 0) (i : Nat) : classifyFactor i (U k c) = [(.aff k c, 1)] := by
  have h : aff? (U k c) = some (k, c) := aff_U k c
  unfold classifyFactor
  simp only [U] at h ⊢
  simp [classifyBase, h, hk, hc]

theorem classify_num (q : Rat) (i : Nat) : classifyFactor i (num q) = [(.const q, 1)] := by
  simp [classifyFactor, classifyBase, aff?, zpow, npow]


theorem sum_em_pos (k c : Rat) (hk : k ≠ 0) (i : Nat) :
    classifySum i [num (-1), exp (U k c)] = .em k c true := by
  have h : aff? (U k c) = some (k, c) := aff_U k c
  have h3 : aff? (exp (U k c)) = none := by simp [aff?]
  have hn : aff? (num (-1)) = some (0, -1) := by simp [aff?]
  unfold classifySum
  simp only [List.filter_cons, List.filter_nil, h3, hn]
  simp [expTerm?, h, hk, affSum, aff?]

theorem sum_em_neg (k c : Rat) (hk : k ≠ 0) (i : Nat) :
    classifySum i [num 1, mul [num (-1), exp (U k c)]] = .em k c false := by
  have h : aff? (U k c) = some (k, c) := aff_U k c
  have h3 : aff? (exp (U k c)) = none := by simp [aff?]
  have h4 : aff? (mul [num (-1), exp (U k c)]) = none := by simp [aff?, affProd]
  have hn : aff? (num 1) = some (0, 1) := by simp [aff?]
  have hm : aff? (num (-1)) = some (0, -1) := by simp [aff?]
  unfold classifySum
  simp only [List.filter_cons, List.filter_nil, h4, hn]
  simp [expTerm?, List.filter_cons, h, h3, hm, hk, affSum, affProd, aff?]


def emPos (k c : Rat) : Expr := add [num (-1), exp (U k c)]
def emNeg (k c : Rat) : Expr := add [num 1, mul [num (-1), exp (U k c)]]

theorem base_emPos (k c : Rat) (hk : k ≠ 0) (i : Nat) : classifyBase i (emPos k c) = .em k c true := by
  have h2 : aff? (emPos k c) = none := by simp [emPos, aff?, affSum]
  unfold classifyBase
  rw [h2]
  exact sum_em_pos k c hk i

theorem base_emNeg (k c : Rat) (hk : k ≠ 0) (i : Nat) : classifyBase i (emNeg k c) = .em k c false := by
  have h2 : aff? (emNeg k c) = none := by simp [emNeg, aff?, affSum, affProd]
  unfold classifyBase
  rw [h2]
  exact sum_em_neg k c hk i

theorem factor_emPos (k c : Rat) (hk : k ≠ 0) (i : Nat) (n : Int) :
    classifyFactor i (pow (emPos k c) n) = [(.em k c true, n)] := by
  simp [classifyFactor, base_emPos k c hk i]

theorem factor_emNeg (k c : Rat) (hk : k ≠ 0) (i : Nat) (n : Int) :
    classifyFactor i (pow (emNeg k c) n) = [(.em k c false, n)] := by
  simp [classifyFactor, base_emNeg k c hk i]

theorem factor_emPos1 (k c : Rat) (hk : k ≠ 0) (i : Nat) :
    classifyFactor i (emPos k c) = [(.em k c true, 1)] := by
  have hb := base_emPos k c hk i
  simp only [emPos] at hb ⊢
  simp [classifyFactor, hb]

theorem factor_emNeg1 (k c : Rat) (hk : k ≠ 0) (i : Nat) :
    classifyFactor i (emNeg k c) = [(.em k c false, 1)] := by
  have hb := base_emNeg k c hk i
  simp only [emNeg] at hb ⊢
  simp [classifyFactor, hb]

/-- the four documented forms with an outer factor `P`, `U = k·V + c` written as a sum -/
def form (n : Nat) (P k c : Rat) : List Expr :=
  match n with
  | 0 => [num P, U k c, pow (emPos k c) (-1)]
  | 1 => [num P, U k c, pow (emNeg k c) (-1)]
  | 2 => [num P, pow (U k c) (-1), emPos k c]
  | _ => [num P, pow (U k c) (-1), emNeg k c]

theorem classify_Upow (k c : Rat) (hk : k ≠ 0) (hc : c ≠ 0) (i : Nat) (n : Int) :
    classifyFactor i (pow (U k c) n) = [(.aff k c, n)] := by
  have h : aff? (U k c) = some (k, c) := aff_U k c
  unfold classifyFactor
  simp only [U] at h ⊢
  simp [classifyBase, h, hk, hc]

theorem classify_U0 (k : Rat) (hk : k ≠ 0) (hk1 : k ≠ 1) (i : Nat) (n : Int) :
    classifyFactor i (pow (U k 0) n) = [(.const (zpow k n), 1), (.aff 1 0, n)] := by
  have h : aff? (U k 0) = some (k, 0) := aff_U k 0
  unfold classifyFactor
  simp only [U] at h ⊢
  simp [classifyBase, h, hk, hk1]

theorem classify_U0' (k : Rat) (hk : k ≠ 0) (hk1 : k ≠ 1) (i : Nat) :
    classifyFactor i (U k 0) = [(.const (zpow k 1), 1), (.aff 1 0, 1)] := by
  have h : aff? (U k 0) = some (k, 0) := aff_U k 0
  unfold classifyFactor
  simp only [U] at h ⊢
  simp [classifyBase, h, hk, hk1]

theorem form_hasExp (n : Nat) (P k c : Rat) : (mul (form n P k c)).hasExp = true := by
  match n with
  | 0 => simp [form, hasExp, anyExp, emPos, emNeg, U]
  | 1 => simp [form, hasExp, anyExp, emPos, emNeg, U]
  | 2 => simp [form, hasExp, anyExp, emPos, emNeg, U]
  | n + 3 => simp [form, hasExp, anyExp, emPos, emNeg, U]

theorem form_dropOnes (n : Nat) (P k c : Rat) (hP : P ≠ 1) : dropOnes (mul (form n P k c)) = mul (form n P k c) := by
  match n with
  | 0 => simp [form, dropOnes, isOne, mkMul, hP, emPos, emNeg, U]
  | 1 => simp [form, dropOnes, isOne, mkMul, hP, emPos, emNeg, U]
  | 2 => simp [form, dropOnes, isOne, mkMul, hP, emPos, emNeg, U]
  | n + 3 => simp [form, dropOnes, isOne, mkMul, hP, emPos, emNeg, U]

end C12
