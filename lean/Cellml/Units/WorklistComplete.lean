import Cellml.Units.WorklistSound

/-! Completeness of the work list and independence of the order.
    `Loadable id defs` collects the conditions under which `_add_units` succeeds: unique names, none of them built-in,
    every definition locally well-formed, and an order exists in which each definition refers only to built-ins, base
    units and earlier definitions (no cycle, no dangling reference). None of the conditions mentions the order of the
    document. `addUnits_loadable`: success ⇒ loadable. `addUnits_complete`: loadable (and references that are
    identifiers starting with a letter or underscore) ⇒ success — proved through `loop_complete`, an invariant of the
    rotation: the last `iteration` entries of the deque are not ready, so the counter cannot pass the length while a
    ready definition exists. -/

namespace Units
open PMap

/-! ### keys of a normal form are keys of the map -/

theorem key_of_mem_ins {k : String} {e : Rat} : ∀ (m : PMap String) (p : String × Rat), p ∈ ins k e m →
    p.1 = k ∨ ∃ p' ∈ m, p'.1 = p.1 := by
  intro m
  induction m with
  | nil =>
      intro p h
      unfold ins at h
      split at h
      · cases h
      · simp only [List.mem_singleton] at h; left; rw [h]
  | cons hd tl ih =>
      intro p h
      obtain ⟨k', f⟩ := hd
      unfold ins at h
      split at h
      · split at h
        · right; exact ⟨p, h, rfl⟩
        · rcases List.mem_cons.mp h with h | h
          · left; rw [h]
          · right; exact ⟨p, h, rfl⟩
      · split at h
        · rename_i hk
          split at h
          · right; exact ⟨p, List.mem_cons_of_mem _ h, rfl⟩
          · rcases List.mem_cons.mp h with h | h
            · left; rw [h, hk]
            · right; exact ⟨p, List.mem_cons_of_mem _ h, rfl⟩
        · rcases List.mem_cons.mp h with h | h
          · right; exact ⟨(k', f), List.mem_cons_self, by rw [h]⟩
          · rcases ih p h with h' | ⟨p', hp', he⟩
            · left; exact h'
            · right; exact ⟨p', List.mem_cons_of_mem _ hp', he⟩

theorem key_of_mem_norm : ∀ (m : PMap String) (p : String × Rat), p ∈ norm m → ∃ p' ∈ m, p'.1 = p.1 := by
  intro m
  induction m with
  | nil => intro p h; cases h
  | cons hd tl ih =>
      intro p h
      obtain ⟨k, e⟩ := hd
      simp only [norm] at h
      rcases key_of_mem_ins _ p h with h' | ⟨p', hp', he⟩
      · exact ⟨(k, e), List.mem_cons_self, h'.symm⟩
      · obtain ⟨p'', hp'', he'⟩ := ih p' hp'
        exact ⟨p'', List.mem_cons_of_mem _ hp'', he'.trans he⟩

theorem allKnown_norm {reg : Registry} {c : Container} (h : allKnown reg c = true) : allKnown reg (norm c) = true := by
  rw [allKnown_iff] at h ⊢
  intro p hp
  obtain ⟨p', hp', he⟩ := key_of_mem_norm c p hp
  rw [← he]; exact h p' hp'

theorem allKnown_add {reg : Registry} {a b : Container} (ha : allKnown reg a = true) (hb : allKnown reg b = true) :
    allKnown reg (add a b) = true := by
  rw [allKnown_iff] at ha hb ⊢
  intro p hp
  rcases List.mem_append.mp hp with h | h
  · exact ha p h
  · exact hb p h

theorem allKnown_smul {reg : Registry} {a : Container} (q : Rat) (ha : allKnown reg a = true) :
    allKnown reg (smul q a) = true := by
  rw [allKnown_iff] at ha ⊢
  intro p hp
  obtain ⟨p', hp', he⟩ := List.mem_map.mp hp
  rw [← he]; exact ha p' hp'

/-- every reference resolves ⇒ the container of the whole definition resolves -/
theorem defMeaning_allKnown {id : Nat} {reg : Registry} : ∀ (elems : List UnitElem) (k : Scale) (c : Container)
    (md : Bool), defMeaning id elems = .ok (k, c, md) →
    (∀ e ∈ elems, allKnown reg (nameContainer (mangle id e.units)) = true) → allKnown reg c = true := by
  intro elems
  induction elems with
  | nil =>
      intro k c md h _
      simp only [defMeaning, pure, Except.pure, Except.ok.injEq, Prod.mk.injEq] at h
      rw [← h.2.1]; rfl
  | cons e es ih =>
      intro k c md h hres
      obtain ⟨s, c1, b, s', c', b', he, hes, _, rfl, _⟩ := defMeaning_cons_ok h
      obtain ⟨kp, q, m, _, _, _, _, _, rfl, _⟩ := elemMeaning_ok he
      exact allKnown_add (allKnown_smul q (hres e List.mem_cons_self))
        (ih s' c' b' hes (fun e' he' => hres e' (List.mem_cons_of_mem _ he')))


theorem allKnown_smul_eq (reg : Registry) (q : Rat) (a : Container) : allKnown reg (smul q a) = allKnown reg a := by
  simp [allKnown, smul, List.all_map, Function.comp_def]

/-- the test pint makes (`refsKnown`: every identifier of the expression is a registry key) is `allKnown` of the
    UN-normalised container of the definition: a name with total exponent zero still counts -/
theorem refsKnown_eq_allKnown {id : Nat} {reg : Registry} : ∀ (elems : List UnitElem) (k : Scale) (c : Container)
    (md : Bool), defMeaning id elems = .ok (k, c, md) → refsKnown reg id elems = allKnown reg c := by
  intro elems
  induction elems with
  | nil =>
      intro k c md h
      simp only [defMeaning, pure, Except.pure, Except.ok.injEq, Prod.mk.injEq] at h
      rw [← h.2.1]; rfl
  | cons e es ih =>
      intro k c md h
      obtain ⟨s, c1, b, s', c', b', he, hes, _, rfl, _⟩ := defMeaning_cons_ok h
      obtain ⟨kp, q, m, _, _, _, _, _, rfl, _⟩ := elemMeaning_ok he
      have ih' := ih s' c' b' hes
      simp only [refsKnown, List.all_cons] at ih' ⊢
      rw [ih']
      simp [allKnown, add, smul, List.all_append, List.all_map, Function.comp_def]


/-! ### conditions under which the work list succeeds -/

/-- what a definition must satisfy on its own, whatever the state: zero offsets, a supported name, numbers that
    parse (positive multiplier), and no product of `dimensionless` with units that do not cancel -/
def LocalOK (id : Nat) (d : UDef) : Prop :=
  d.elems.any elemOffsetBad = false ∧ Cellml.Gen.unsupportedUnits.contains d.name = false ∧
    ∃ k c md, defMeaning id d.elems = .ok (k, c, md) ∧ (md = true → norm c = [])

/-- `Topo P ord`: every reference of a member of `ord` satisfies `P` or is the name of an earlier member -/
def Topo (P : String → Prop) : List UDef → Prop
  | [] => True
  | d :: ds => (∀ e ∈ d.elems, P e.units) ∧ Topo (fun n => P n ∨ n = d.name) ds

theorem Topo.mono {P Q : String → Prop} (h : ∀ n, P n → Q n) : ∀ (l : List UDef), Topo P l → Topo Q l := by
  intro l
  induction l generalizing P Q with
  | nil => intro _; trivial
  | cons d ds ih =>
      intro ht
      exact ⟨fun e he => h _ (ht.1 e he), ih (fun n hn => hn.elim (fun a => Or.inl (h n a)) Or.inr) ht.2⟩

/-- a member whose references already satisfy `P` can be moved to the front -/
theorem Topo.erase {P : String → Prop} : ∀ (l : List UDef) (d : UDef), Topo P l → d ∈ l → (∀ e ∈ d.elems, P e.units) →
    Topo (fun n => P n ∨ n = d.name) (l.erase d) := by
  intro l
  induction l generalizing P with
  | nil => intro d _ hd; cases hd
  | cons x xs ih =>
      intro d ht hd hready
      by_cases hx : x = d
      · subst hx
        rw [List.erase_cons_head]
        exact ht.2
      · have hbeq : (x == d) = false := by simpa using hx
        rw [List.erase_cons_tail (by simp [hbeq])]
        have hd' : d ∈ xs := by
          rcases List.mem_cons.mp hd with h | h
          · exact absurd h.symm hx
          · exact h
        refine ⟨fun e he => Or.inl (ht.1 e he), ?_⟩
        have := ih d ht.2 hd' (fun e he => Or.inl (hready e he))
        exact Topo.mono (fun n hn => by
          rcases hn with (h | h) | h
          · exact Or.inl (Or.inl h)
          · exact Or.inr h
          · exact Or.inl (Or.inr h)) _ this

/-- the part of the invariant that success depends on: every defined name has its key in the registry -/
structure KeysInv (id : Nat) (reg : Registry) (st : Store) : Prop where
  sid : st.id = id
  keys : ∀ n, st.isDefined n = true → allKnown reg (nameContainer (prefixName id n)) = true

theorem keysInv_of_inv {id : Nat} {defs : List UDef} {reg : Registry} {st : Store} (inv : Inv id defs reg st) :
    KeysInv id reg st := ⟨inv.sid, fun n hn => (inv.known n hn).1⟩

theorem keysInv_cons {id : Nat} {reg : Registry} {st : Store} (inv : KeysInv id reg st) {name : String} (df : UnitDef)
    (hnew : st.isDefined name = false) :
    KeysInv id ((prefixName id name, df) :: reg) { st with known := name :: st.known } where
  sid := inv.sid
  keys := by
    intro n hn
    rw [isDefined_cons] at hn
    by_cases hold : st.isDefined n = true
    · exact allKnown_cons _ (inv.keys n hold)
    · have hnn : n = name := by
        cases h : st.isDefined n
        · rw [h] at hn; simpa using hn
        · exact absurd h hold
      subst hnn
      rw [nameContainer_storeLike (prefixName_storeLike id (isDefined_false_cellml hnew))]
      refine allKnown_iff.mpr ?_
      intro p hp
      simp only [List.mem_singleton] at hp
      rw [hp]; exact mem_keys_cons.mpr (Or.inl rfl)

/-- a ready, locally well-formed definition with a fresh name is added without error -/
theorem addNow_succeeds {id : Nat} {reg : Registry} {st : Store} {d : UDef} (inv : KeysInv id reg st)
    (hloc : LocalOK id d) (hgood : ∀ e ∈ d.elems, mangle id e.units = prefixName id e.units)
    (hnew : st.isDefined d.name = false) (hr : ready st d = true) :
    ∃ K c, addNow reg st d =
      .ok ((prefixName id d.name, .derived K c) :: reg, { st with known := d.name :: st.known }) := by
  obtain ⟨hoff, hsup, k, c, md, hdm, hmd⟩ := hloc
  have hid := inv.sid
  subst hid
  have hres : ∀ e ∈ d.elems, allKnown reg (nameContainer (mangle st.id e.units)) = true := by
    intro e he
    rw [hgood e he]
    exact inv.keys _ (List.all_eq_true.mp hr e he)
  have hrr : refsResolve reg st d = true := List.all_eq_true.mpr hres
  rw [addNow_of hoff hnew]
  have hnew' := hnew
  simp only [Store.isDefined, Bool.or_eq_false_iff] at hnew'
  refine ⟨norm k, norm c, ?_⟩
  exact addUnit_of hdm hnew'.1 hnew'.2 hsup hrr hmd


/-- what is still to be done can be done: the remaining definitions are locally well-formed, have fresh and distinct
    names, and can be put in an order in which each only refers to what is defined by then -/
structure Pending (id : Nat) (reg : Registry) (st : Store) (dq : List UDef) : Prop where
  inv : KeysInv id reg st
  loc : ∀ d ∈ dq, LocalOK id d ∧ ∀ e ∈ d.elems, mangle id e.units = prefixName id e.units
  nodup : (dq.map (·.name)).Nodup
  new : ∀ d ∈ dq, st.isDefined d.name = false
  topo : ∃ ord, ord.Perm dq ∧ Topo (fun n => st.isDefined n = true) ord

theorem Pending.perm {id : Nat} {reg : Registry} {st : Store} {dq dq' : List UDef} (h : Pending id reg st dq)
    (hp : dq'.Perm dq) : Pending id reg st dq' where
  inv := h.inv
  loc := fun d hd => h.loc d (hp.mem_iff.mp hd)
  nodup := ((hp.map (·.name)).nodup_iff).mpr h.nodup
  new := fun d hd => h.new d (hp.mem_iff.mp hd)
  topo := by obtain ⟨ord, ho, ht⟩ := h.topo; exact ⟨ord, ho.trans hp.symm, ht⟩

theorem ready_iff {st : Store} {d : UDef} : ready st d = true ↔ ∀ e ∈ d.elems, st.isDefined e.units = true := by
  unfold ready; exact List.all_eq_true

/-- some pending definition is ready (the first one of the topological order) -/
theorem Pending.exists_ready {id : Nat} {reg : Registry} {st : Store} {dq : List UDef} (h : Pending id reg st dq)
    (hne : dq ≠ []) : ∃ d ∈ dq, ready st d = true := by
  obtain ⟨ord, ho, ht⟩ := h.topo
  cases ord with
  | nil => exact absurd (List.Perm.nil_eq ho).symm hne
  | cons d ds => exact ⟨d, ho.mem_iff.mp List.mem_cons_self, ready_iff.mpr ht.1⟩

theorem Pending.step {id : Nat} {reg : Registry} {st : Store} {d : UDef} {rest : List UDef}
    (h : Pending id reg st (d :: rest)) (hr : ready st d = true) (df : UnitDef) :
    Pending id ((prefixName id d.name, df) :: reg) { st with known := d.name :: st.known } rest where
  inv := keysInv_cons h.inv df (h.new d List.mem_cons_self)
  loc := fun x hx => h.loc x (List.mem_cons_of_mem _ hx)
  nodup := by have := h.nodup; rw [List.map_cons, List.nodup_cons] at this; exact this.2
  new := by
    intro x hx
    rw [isDefined_cons, h.new x (List.mem_cons_of_mem _ hx)]
    have := h.nodup
    rw [List.map_cons, List.nodup_cons] at this
    have hne : x.name ≠ d.name := fun heq => this.1 (heq ▸ List.mem_map_of_mem (f := (·.name)) hx)
    simpa using hne
  topo := by
    obtain ⟨ord, ho, ht⟩ := h.topo
    refine ⟨ord.erase d, ?_, ?_⟩
    · have := ho.erase d
      rwa [List.erase_cons_head] at this
    · have := Topo.erase ord d ht (ho.mem_iff.mpr List.mem_cons_self) (ready_iff.mp hr)
      refine Topo.mono ?_ _ this
      intro n hn
      rw [isDefined_cons]
      rcases hn with hn | hn
      · rw [hn]; rfl
      · rw [hn]; simp

/-- COMPLETENESS of the loop: whatever the rotation state, pending work that can be done is done -/
theorem loop_complete {id : Nat} (reg : Registry) (st : Store) (dq : List UDef) (it : Nat) (hit : it ≤ dq.length) :
    Pending id reg st dq →
    (∃ front back, dq = front ++ back ∧ back.length = it ∧ ∀ d ∈ back, ready st d = false) →
    ∃ r, loop reg st dq it hit = .ok r := by
  fun_induction loop reg st dq it hit with
  | case1 reg st it hit _ => intro _ _; exact ⟨_, rfl⟩
  | case2 reg st it d rest hit hr reg' st' hn _ ih =>
      intro hp _
      obtain ⟨K, c, hok⟩ := addNow_succeeds hp.inv (hp.loc d List.mem_cons_self).1 (hp.loc d List.mem_cons_self).2
        (hp.new d List.mem_cons_self) hr
      rw [hn] at hok
      simp only [Except.ok.injEq, Prod.mk.injEq] at hok
      obtain ⟨rfl, rfl⟩ := hok
      exact ih (hp.step hr _) ⟨rest, [], by simp, rfl, fun _ h => by cases h⟩
  | case3 reg st it d rest hit hr e hn _ =>
      intro hp _
      obtain ⟨K, c, hok⟩ := addNow_succeeds hp.inv (hp.loc d List.mem_cons_self).1 (hp.loc d List.mem_cons_self).2
        (hp.new d List.mem_cons_self) hr
      rw [hn] at hok; cases hok
  | case4 reg st it d rest hit hr hgt _ =>
      intro hp ⟨front, back, hsplit, hlen, hback⟩
      exfalso
      obtain ⟨d0, hd0, hr0⟩ := hp.exists_ready (by simp)
      have hd0f : d0 ∈ front := by
        rw [hsplit] at hd0
        rcases List.mem_append.mp hd0 with h | h
        · exact h
        · rw [hback d0 h] at hr0; cases hr0
      cases front with
      | nil => cases hd0f
      | cons f0 front' =>
          simp only [List.cons_append, List.cons.injEq] at hsplit
          have hne : d0 ≠ d := fun heq => hr (heq ▸ hr0)
          have hd0f' : d0 ∈ front' := by
            rcases List.mem_cons.mp hd0f with h | h
            · exact absurd (h.trans hsplit.1.symm) hne
            · exact h
          have hpos : 0 < front'.length := List.length_pos_of_mem hd0f'
          have hl : rest.length = front'.length + back.length := by rw [hsplit.2, List.length_append]
          simp only [List.length_append, List.length_cons, List.length_nil] at hgt
          omega
  | case5 reg st it d rest hit hr hgt _ ih =>
      intro hp ⟨front, back, hsplit, hlen, hback⟩
      have hr' : ready st d = false := by cases h : ready st d; rfl; exact absurd h hr
      refine ih (hp.perm (List.perm_append_singleton d rest)) ?_
      cases front with
      | nil =>
          exfalso
          simp only [List.nil_append] at hsplit
          have : (d :: rest).length = it := by rw [hsplit]; exact hlen
          simp only [List.length_append, List.length_cons, List.length_nil] at hgt this
          omega
      | cons f0 front' =>
          simp only [List.cons_append, List.cons.injEq] at hsplit
          refine ⟨front', back ++ [d], ?_, ?_, ?_⟩
          · rw [hsplit.2, List.append_assoc]
          · simp [hlen]
          · intro x hx
            rcases List.mem_append.mp hx with h | h
            · exact hback x h
            · simp only [List.mem_singleton] at h; rw [h]; exact hr'


/-! ### the work list succeeds exactly on loadable documents -/

/-- the conditions on a document under which `_add_units` succeeds — none of them mentions the order -/
structure Loadable (id : Nat) (defs : List UDef) : Prop where
  nodup : (defs.map (·.name)).Nodup
  notBuiltin : ∀ d ∈ defs, Cellml.Gen.cellmlUnits.contains d.name = false
  loc : ∀ d ∈ defs, d.base = false → LocalOK id d
  topo : ∃ ord, ord.Perm (queue defs) ∧
    Topo (fun n => Cellml.Gen.cellmlUnits.contains n = true ∨ n ∈ (basesOf defs).map (·.name)) ord

theorem addNow_local {reg : Registry} {st : Store} {d : UDef} {r : Registry × Store} (h : addNow reg st d = .ok r) :
    LocalOK st.id d := by
  obtain ⟨h1, _, h3, _, hu⟩ := addNow_ok h
  obtain ⟨k, c, md, hdm, _, _, _, _, hmd, _⟩ := addUnit_ok hu
  exact ⟨h1, h3, k, c, md, hdm, hmd⟩

theorem seqAdd_local : ∀ (ord : List UDef) (reg : Registry) (st : Store) (r : Registry × Store),
    seqAdd reg st ord = .ok r → ∀ d ∈ ord, LocalOK st.id d := by
  intro ord
  induction ord with
  | nil => intro reg st r _ d hd; cases hd
  | cons d ds ih =>
      intro reg st r h x hx
      simp only [seqAdd] at h
      split at h
      · split at h
        · rename_i r1 s1 hadd
          rcases List.mem_cons.mp hx with rfl | hx
          · exact addNow_local hadd
          · have := ih _ _ _ h x hx
            rwa [(addNow_state hadd).1] at this
        · cases h
      · cases h

theorem seqAdd_Topo : ∀ (ord : List UDef) (reg : Registry) (st : Store) (r : Registry × Store),
    seqAdd reg st ord = .ok r → Topo (fun n => st.isDefined n = true) ord := by
  intro ord
  induction ord with
  | nil => intro _ _ _ _; trivial
  | cons d ds ih =>
      intro reg st r h
      simp only [seqAdd] at h
      split at h
      · rename_i hr
        split at h
        · rename_i r1 s1 hadd
          refine ⟨ready_iff.mp hr, Topo.mono ?_ _ (ih _ _ _ h)⟩
          intro n hn
          rw [(addNow_state hadd).1, isDefined_cons] at hn
          cases hx : st.isDefined n
          · rw [hx] at hn; right; simpa using hn
          · left; exact hx
        · cases h
      · cases h

theorem isDefined_iff {st : Store} {n : String} :
    st.isDefined n = true ↔ Cellml.Gen.cellmlUnits.contains n = true ∨ n ∈ st.known := by
  simp only [Store.isDefined, Bool.or_eq_true, List.contains_iff_mem]

theorem addUnits_loadable {id : Nat} {defs : List UDef} {r : Registry × Store} (h : addUnits id defs = .ok r) :
    Loadable id defs := by
  obtain ⟨reg0, st0, ord, hb, hp, hs⟩ := addUnits_ok h
  obtain ⟨k0, hid0⟩ := addBases_known defs _ _ _ _ hb
  simp only [List.append_nil] at k0
  have hfreshB := addBases_fresh defs _ _ _ hb
  have hfreshQ := seqAdd_fresh ord _ _ _ hs
  have hmemQ : ∀ d, d ∈ ord ↔ d ∈ defs ∧ d.base = false := fun d => hp.mem_iff.trans mem_queue
  refine ⟨?_, ?_, ?_, ?_⟩
  · -- names are unique
    have hperm : ((basesOf defs).map (·.name) ++ ord.map (·.name)).Perm (defs.map (·.name)) := by
      rw [← List.map_append]
      exact ((List.Perm.append_left _ hp).trans (bases_queue_perm defs)).map _
    rw [← hperm.nodup_iff, List.nodup_append]
    refine ⟨addBases_nodup defs _ _ _ hb, seqAdd_nodup ord _ _ _ hs, ?_⟩
    intro a ha b hbm hab
    obtain ⟨x, hx, rfl⟩ := List.mem_map.mp hbm
    have := hfreshQ x hx
    have hk : st0.isDefined x.name = true := isDefined_iff.mpr (Or.inr (by rw [k0, List.mem_reverse, ← hab]; exact ha))
    rw [hk] at this; cases this
  · intro d hd
    cases hbase : d.base
    · exact isDefined_false_cellml (hfreshQ d ((hmemQ d).mpr ⟨hd, hbase⟩))
    · exact isDefined_false_cellml (hfreshB d (mem_basesOf.mpr ⟨hd, hbase⟩))
  · intro d hd hbase
    have := seqAdd_local ord _ _ _ hs d ((hmemQ d).mpr ⟨hd, hbase⟩)
    rwa [hid0] at this
  · refine ⟨ord, hp, Topo.mono ?_ _ (seqAdd_Topo ord _ _ _ hs)⟩
    intro n hn
    rcases isDefined_iff.mp hn with h | h
    · exact Or.inl h
    · right; rw [k0, List.mem_reverse] at h; exact h

theorem addBases_succeeds {id : Nat} : ∀ (ds : List UDef) (reg : Registry) (st : Store), KeysInv id reg st →
    ((basesOf ds).map (·.name)).Nodup → (∀ d ∈ basesOf ds, st.isDefined d.name = false) →
    ∃ reg' st', addBases reg st ds = .ok (reg', st') ∧ KeysInv id reg' st' := by
  intro ds
  induction ds with
  | nil => intro reg st inv _ _; exact ⟨reg, st, rfl, inv⟩
  | cons d ds ih =>
      intro reg st inv hnd hnew
      cases hbase : d.base
      · simp only [addBases, hbase, Bool.false_eq_true, if_false]
        have hb' : basesOf (d :: ds) = basesOf ds := by simp [basesOf, hbase]
        rw [hb'] at hnd hnew
        exact ih reg st inv hnd hnew
      · have hb' : basesOf (d :: ds) = d :: basesOf ds := by simp [basesOf, hbase]
        rw [hb'] at hnd hnew
        rw [List.map_cons, List.nodup_cons] at hnd
        have hd := hnew d List.mem_cons_self
        simp only [addBases, hbase, if_true, addBaseUnit_of hd]
        have hid := inv.sid
        subst hid
        refine ih _ _ (keysInv_cons inv _ hd) hnd.2 ?_
        intro x hx
        rw [isDefined_cons, hnew x (List.mem_cons_of_mem _ hx)]
        have hne : x.name ≠ d.name := fun heq => hnd.1 (heq ▸ List.mem_map_of_mem (f := (·.name)) hx)
        simpa using hne

theorem keysInv_init (id : Nat) : KeysInv id builtinRegistry { id := id, known := [] } :=
  keysInv_of_inv (inv_init id [])

/-- COMPLETENESS: a loadable document whose references are well-shaped identifiers is loaded without error -/
theorem addUnits_complete {id : Nat} {defs : List UDef} (hgood : GoodRefs id defs) (hl : Loadable id defs) :
    ∃ r, addUnits id defs = .ok r := by
  have hperm : ((basesOf defs).map (·.name) ++ (queue defs).map (·.name)).Perm (defs.map (·.name)) := by
    rw [← List.map_append]; exact (bases_queue_perm defs).map _
  have hnd := hperm.nodup_iff.mpr hl.nodup
  rw [List.nodup_append] at hnd
  obtain ⟨hndB, hndQ, hdisj⟩ := hnd
  have hnewB : ∀ d ∈ basesOf defs, ({ id := id, known := [] } : Store).isDefined d.name = false := by
    intro d hd
    simp only [Store.isDefined, List.contains_nil, Bool.or_false]
    exact hl.notBuiltin d (mem_basesOf.mp hd).1
  obtain ⟨reg0, st0, hb, inv0⟩ := addBases_succeeds defs _ _ (keysInv_init id) hndB hnewB
  obtain ⟨k0, _⟩ := addBases_known defs _ _ _ _ hb
  simp only [List.append_nil] at k0
  unfold addUnits
  rw [hb]
  simp only
  apply loop_complete (id := id)
  · refine ⟨inv0, ?_, hndQ, ?_, ?_⟩
    · intro d hd
      have := mem_queue.mp hd
      exact ⟨hl.loc d this.1 this.2, hgood d this.1 this.2⟩
    · intro d hd
      cases hx : st0.isDefined d.name
      · rfl
      · exfalso
        rcases isDefined_iff.mp hx with h | h
        · rw [hl.notBuiltin d (mem_queue.mp hd).1] at h; cases h
        · rw [k0, List.mem_reverse] at h
          exact hdisj _ h _ (List.mem_map_of_mem (f := (·.name)) hd) rfl
    · obtain ⟨ord, ho, ht⟩ := hl.topo
      refine ⟨ord, ho, Topo.mono ?_ _ ht⟩
      intro n hn
      refine isDefined_iff.mpr ?_
      rcases hn with h | h
      · exact Or.inl h
      · right; rw [k0, List.mem_reverse]; exact h
  · exact ⟨queue defs, [], by simp, rfl, fun _ h => by cases h⟩

theorem queue_perm {defs₁ defs₂ : List UDef} (hp : defs₁.Perm defs₂) : (queue defs₁).Perm (queue defs₂) :=
  ((List.reverse_perm _).trans (hp.filter _)).trans (List.reverse_perm _).symm

theorem basesOf_perm {defs₁ defs₂ : List UDef} (hp : defs₁.Perm defs₂) : (basesOf defs₁).Perm (basesOf defs₂) :=
  hp.filter _

/-- loadability does not depend on the order of the definitions -/
theorem Loadable.perm {id : Nat} {defs₁ defs₂ : List UDef} (hp : defs₁.Perm defs₂) (h : Loadable id defs₁) :
    Loadable id defs₂ where
  nodup := ((hp.map (·.name)).nodup_iff).mp h.nodup
  notBuiltin := fun d hd => h.notBuiltin d (hp.mem_iff.mpr hd)
  loc := fun d hd => h.loc d (hp.mem_iff.mpr hd)
  topo := by
    obtain ⟨ord, ho, ht⟩ := h.topo
    refine ⟨ord, ho.trans (queue_perm hp), Topo.mono ?_ _ ht⟩
    intro n hn
    rcases hn with hn | hn
    · exact Or.inl hn
    · exact Or.inr ((((basesOf_perm hp).map (·.name)).mem_iff).mp hn)

theorem GoodRefs.perm {id : Nat} {defs₁ defs₂ : List UDef} (hp : defs₁.Perm defs₂) (h : GoodRefs id defs₁) :
    GoodRefs id defs₂ := fun d hd => h d (hp.mem_iff.mpr hd)

/-! ### what a topological order excludes -/

theorem Topo.refs {P : String → Prop} : ∀ (ord : List UDef), Topo P ord →
    ∀ d ∈ ord, ∀ e ∈ d.elems, P e.units ∨ e.units ∈ ord.map (·.name) := by
  intro ord
  induction ord generalizing P with
  | nil => intro _ d hd; cases hd
  | cons x xs ih =>
      intro ht d hd e he
      rcases List.mem_cons.mp hd with rfl | hd
      · exact Or.inl (ht.1 e he)
      · rcases ih ht.2 d hd e he with (h | h) | h
        · exact Or.inl h
        · right; rw [h]; simp
        · right; simp only [List.map_cons, List.mem_cons]; exact Or.inr h

/-- a successful sequential addition contains no group of definitions that all wait for one another -/
theorem seqAdd_no_cycle : ∀ (ord : List UDef) (reg : Registry) (st : Store) (r : Registry × Store),
    seqAdd reg st ord = .ok r → ∀ (cyc : List UDef),
    (∀ d ∈ cyc, d ∈ ord ∧ ∃ e ∈ d.elems, ∃ d' ∈ cyc, e.units = d'.name) → cyc = [] := by
  intro ord
  induction ord with
  | nil =>
      intro reg st r _ cyc hc
      cases cyc with
      | nil => rfl
      | cons d ds => exact absurd (hc d List.mem_cons_self).1 (by simp)
  | cons x xs ih =>
      intro reg st r h cyc hc
      have hfresh := seqAdd_fresh (x :: xs) reg st r h
      simp only [seqAdd] at h
      split at h
      · rename_i hr
        split at h
        · rename_i r1 s1 hadd
          have hx : x ∉ cyc := by
            intro hx
            obtain ⟨_, e, he, d', hd', heq⟩ := hc x hx
            have h1 := ready_iff.mp hr e he
            have h2 := hfresh d' (hc d' hd').1
            rw [heq, h2] at h1; cases h1
          refine ih _ _ _ h cyc ?_
          intro d hd
          obtain ⟨hm, rest⟩ := hc d hd
          refine ⟨?_, rest⟩
          rcases List.mem_cons.mp hm with heq | hm
          · exact absurd (heq ▸ hd) hx
          · exact hm
        · cases h
      · cases h

end Units
