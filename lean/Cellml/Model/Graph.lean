/-! # The dependency graph of a `cellmlmanip.model.Model` (model.py `graph`, `graph_with_sympy_numbers`)

    Core Lean only. Variables are identity numbers (the n-th `Variable` object the model created), so a variable that
    was removed and a later variable with the same name are different things, exactly as the Python objects are.

    `buildGraph names eqs` is the repaired `Model.graph` builder: since the `fix:` commit "graph forgets Variable.type
    from earlier builds" every `type` field the builder reads has been reset and rewritten by the builder's own first
    loop, so the roles are a function `typeMap eqs` of the equation list alone; the builder then writes them back to the
    objects (`State.applyTypes`). -/

namespace Model

inductive VType | state | free | parameter | computed
deriving DecidableEq, Repr, Inhabited

/-- a node of the graph: a variable, or a first-order derivative `d s / d t` (compared structurally, as sympy does) -/
inductive Node | var (v : Nat) | deriv (s t : Nat)
deriving DecidableEq, Repr, Inhabited

/-- the left-hand side of an equation as `add_equation` classifies it -/
inductive Lhs | var (v : Nat) | deriv (s t : Nat) (order : Nat) | other
deriving DecidableEq, Repr, Inhabited

/-- An equation. `tok` stands for everything `==` looks at that is not listed otherwise (the numbers and the shape
    of the right-hand side); two `Eqn` are the same equation for `list.remove` iff they are equal. -/
structure Eqn where
  tok : Nat
  lhs : Lhs
  refs : List Node          -- find_variables_and_derivatives([rhs]), a set: `Model.graph` walks it sorted by `str`; the
                            -- theorems of C08 / C10 only use the node and edge SETS, so any listing of it will do
  numRefs : List Node       -- the same after replacing Quantity objects by numbers (sympy may simplify references away)
  bareQuantity : Bool       -- isinstance(rhs, Quantity)
deriving DecidableEq, Repr, Inhabited

def lhsNode : Lhs → Option Node
  | .var v => some (.var v)
  | .deriv s t _ => some (.deriv s t)
  | .other => none

/-- the variable an equation defines (key of `_var_definition_map` / `_ode_definition_map`) -/
def defKey (e : Eqn) : Option Nat :=
  match e.lhs with
  | .var v => some v
  | .deriv s _ _ => some s
  | .other => none

/-- `equation.atoms(Variable)` -/
def Node.atoms : Node → List Nat
  | .var v => [v]
  | .deriv s t => [s, t]

def Eqn.atoms (e : Eqn) : List Nat :=
  (match e.lhs with | .var v => [v] | .deriv s t _ => [s, t] | .other => []) ++ e.refs.flatMap Node.atoms

/-- everything `graph` writes into `Variable.type` because of ONE equation: the role of an assigned left-hand side, or
    the two roles an ODE gives (state, free variable). Used to state where a role comes from (`tyOf_typeMap_some`). -/
def typeWrites (e : Eqn) : List (Nat × VType) :=
  match e.lhs with
  | .deriv s t _ => [(t, .free), (s, .state)]
  | .var v => [(v, if e.bareQuantity then .parameter else .computed)]
  | .other => []

/-- first loop of `graph`: the left-hand side of an ordinary equation is PARAMETER or COMPUTED; an ODE writes nothing
    here (since the `fix:` commit "the roles that come from the ODEs win") -/
def lhsWrites (e : Eqn) : List (Nat × VType) :=
  match e.lhs with
  | .var v => [(v, if e.bareQuantity then .parameter else .computed)]
  | _ => []

/-- the loop after it: the state variable of every ODE is STATE -/
def stateWrites (e : Eqn) : List (Nat × VType) :=
  match e.lhs with
  | .deriv s _ _ => [(s, .state)]
  | _ => []

/-- the last of the three: the free variable of every ODE is FREE -/
def freeWrites (e : Eqn) : List (Nat × VType) :=
  match e.lhs with
  | .deriv _ t _ => [(t, .free)]
  | _ => []

/-- one loop `for equation in self.equations` that writes types: association list, most recent write first -/
def tmAcc (w : Eqn → List (Nat × VType)) (acc : List (Nat × VType)) (eqs : List Eqn) : List (Nat × VType) :=
  eqs.foldl (fun tm e => w e ++ tm) acc

/-- the three type-writing loops of `graph` one after the other (most recent write first): all left-hand sides, then
    all states, then all free variables. A role that comes from an ODE therefore wins over PARAMETER / COMPUTED, and
    FREE over STATE, wherever the ODE stands in `eqs`: the roles are a function of the SET of equations
    (`tyOf_typeMap_perm`). -/
def typeMap (eqs : List Eqn) : List (Nat × VType) :=
  tmAcc freeWrites (tmAcc stateWrites (tmAcc lhsWrites [] eqs) eqs) eqs

/-- `graph` BEFORE that fix: one loop, `typeWrites` equation by equation, the LAST assignment stays — so a free
    variable that also has a defining equation was FREE or COMPUTED depending on the order of the equations
    (`typeMapOld_order_dependent`) -/
def typeMapOld (eqs : List Eqn) : List (Nat × VType) := tmAcc typeWrites [] eqs

def tyOf (tm : List (Nat × VType)) (v : Nat) : Option VType := tm.lookup v

structure GNode where
  node : Node
  eqn : Option Eqn          -- the `equation` attribute
  vtype : Option VType      -- the `variable_type` attribute (absent on derivative nodes)
deriving DecidableEq, Repr, Inhabited

structure Graph where
  nodes : List GNode
  edges : List (Node × Node)
deriving DecidableEq, Repr, Inhabited

/-- why `graph` raised: an assertion (`duplicate`: two equations with the same left-hand side or the same printed
    left-hand side; `lhs`: a left-hand side that is neither variable nor derivative), or, at the first equation with an
    unusable reference, `badRef hasVar hasDeriv`: an undefined variable raises AssertionError, an undefined derivative
    AttributeError, and which one is met first depends on set iteration order -/
inductive GErr | duplicate | lhs | badRef (hasVar hasDeriv : Bool)
deriving DecidableEq, Repr, Inhabited

def allDistinct {α} [DecidableEq α] : List α → Bool
  | [] => true
  | x :: xs => !(xs.contains x) && allDistinct xs

def nameOf (names : List String) (i : Nat) : String := (names[i]?).getD ""

/-- `str(node)`: `Variable.__str__` is the name; sympy prints a derivative of dummies as `Derivative(_x, _t)` -/
def nodeStr (names : List String) : Node → String
  | .var v => nameOf names v
  | .deriv s t => "Derivative(_" ++ nameOf names s ++ ", _" ++ nameOf names t ++ ")"

def hasNode (g : Graph) (n : Node) : Bool := g.nodes.any (fun x => x.node == n)

def nodeType (tm : List (Nat × VType)) : Node → Option VType
  | .var v => tyOf tm v
  | .deriv _ _ => none

def addBareNode (tm : List (Nat × VType)) (g : Graph) (n : Node) : Graph :=
  if hasNode g n then g else { g with nodes := g.nodes ++ [⟨n, none, nodeType tm n⟩] }

/-- a reference the edge loop cannot handle: not a node, and not a variable typed STATE or FREE -/
def badRef (tm : List (Nat × VType)) (g : Graph) (r : Node) : Bool :=
  !hasNode g r && (match r with
    | .deriv _ _ => true
    | .var v => !(tyOf tm v == some .state || tyOf tm v == some .free))

def isVarNode : Node → Bool | .var _ => true | .deriv _ _ => false

/-- second loop of `graph`, one equation -/
def addEdges (tm : List (Nat × VType)) (g : Graph) (e : Eqn) : Except GErr Graph :=
  match lhsNode e.lhs with
  | none => .error .lhs
  | some l =>
    let bad := e.refs.filter (badRef tm g)
    if !bad.isEmpty then .error (.badRef (bad.any isVarNode) (bad.any (fun r => !isVarNode r)))
    else
      let g1 := e.refs.foldl (fun g r => { addBareNode tm g r with edges := (addBareNode tm g r).edges ++ [(r, l)] }) g
      match e.lhs with
      | .deriv s t _ => .ok (addBareNode tm (addBareNode tm g1 (.var t)) (.var s))
      | _ => .ok g1

def addAllEdges (tm : List (Nat × VType)) : Graph → List Eqn → Except GErr Graph
  | g, [] => .ok g
  | g, e :: es =>
    match addEdges tm g e with
    | .error x => .error x
    | .ok g' => addAllEdges tm g' es

def lhsNodes : List Eqn → Option (List GNode)
  | [] => some []
  | e :: es =>
    match lhsNode e.lhs, lhsNodes es with
    | some n, some ns => some (⟨n, some e, none⟩ :: ns)
    | _, _ => none

/-- `Model.graph` (the build, without the cache) -/
def buildGraph (names : List String) (eqs : List Eqn) : Except GErr Graph :=
  let tm := typeMap eqs
  match lhsNodes eqs with
  | none => .error .lhs
  | some ns =>
    if !allDistinct (ns.map (·.node)) then .error .duplicate
    else if !allDistinct (ns.map (fun n => nodeStr names n.node)) then .error .duplicate
    else
      let ns' := ns.map (fun n => { n with vtype := nodeType tm n.node })
      addAllEdges tm ⟨ns', []⟩ eqs

def eqnOfNode (g : Graph) (n : Node) : Option Eqn :=
  match g.nodes.find? (fun x => x.node == n) with
  | some x => x.eqn
  | none => none

/-- `graph_with_sympy_numbers` from a built graph: edges whose source is no longer referenced once numbers are
    substituted are removed (the rewritten `equation` attribute is not modelled) -/
def numGraph (g : Graph) : Graph :=
  { g with edges := g.edges.filter (fun (a, b) =>
      match eqnOfNode g b with
      | some e => e.numRefs.contains a
      | none => true) }

end Model
