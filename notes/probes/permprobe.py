"""Scratch probe: permuting order-insensitive elements of a document must not change the model (C15)."""
import random, sys, collections, logging, os, tempfile, importlib
logging.disable(logging.CRITICAL)
import cellmlmanip
from lxml import etree
seed = int(sys.argv[1]) if len(sys.argv) > 1 else 0; N = int(sys.argv[2]) if len(sys.argv) > 2 else 60
sys.argv = ['docprobe.py', str(seed), '0']
dp = importlib.import_module('docprobe'); dp.rng.seed(seed)
rng = random.Random(seed + 7); finds = collections.defaultdict(list); stats = collections.Counter()
NS = {'c': 'http://www.cellml.org/cellml/1.0#', 'm': 'http://www.w3.org/1998/Math/MathML'}
def load(xml):
    fd, p = tempfile.mkstemp(suffix='.cellml', dir='/tmp/pr'); os.write(fd, xml); os.close(fd)
    try: return cellmlmanip.load_model(p)
    finally: os.unlink(p)
def dump(m):
    return {'vars': [(v.name, m.units.format(v.units), v.initial_value) for v in m.variables()], 'eqs_sorted': sorted(str(e) for e in m.equations), 'eqs': [str(e) for e in m.equations],
            'states': [v.name for v in m.get_state_variables()], 'sorted_eqs': [str(e) for e in m.get_equations_for([v for v in m.variables() if m.get_definition(v) is not None])]}
for case in range(N):
    xml, *_ = dp.gen_doc()
    a = dump(load(xml.encode()))
    root = etree.fromstring(xml.encode())
    # permute: units among themselves, connections among themselves, swap ends, move groups/connections before components
    kids = list(root)
    units = [k for k in kids if k.tag.endswith('}units')]; comps = [k for k in kids if k.tag.endswith('}component')]; groups = [k for k in kids if k.tag.endswith('}group')]; conns = [k for k in kids if k.tag.endswith('}connection')]
    for k in kids: root.remove(k)
    rng.shuffle(units); rng.shuffle(conns)
    for c in conns:
        if rng.random() < 0.5:
            mc = c.find('c:map_components', NS); a1, a2 = mc.get('component_1'), mc.get('component_2'); mc.set('component_1', a2); mc.set('component_2', a1)
            for mv in c.findall('c:map_variables', NS): v1, v2 = mv.get('variable_1'), mv.get('variable_2'); mv.set('variable_1', v2); mv.set('variable_2', v1)
    blocks = [units, comps, groups, conns]; rng.shuffle(blocks)
    for b in blocks:
        for k in b: root.append(k)
    # permute equations within math elements
    for math in root.iter('{%s}math' % NS['m']):
        eqs = list(math); [math.remove(e) for e in eqs]; rng.shuffle(eqs); [math.append(e) for e in eqs]
    try: b = dump(load(etree.tostring(root)))
    except Exception as ex: finds['permuted document fails to load: ' + type(ex).__name__ + ' ' + str(ex)[:80]].append(case); continue
    stats['docs'] += 1
    for k in ('vars', 'eqs_sorted', 'states', 'sorted_eqs'):
        if a[k] != b[k]: finds['differs under permutation: ' + k].append((case, [x for x in zip(a[k], b[k]) if x[0] != x[1]][:2]))
    if a['eqs'] != b['eqs']: stats['equations list order differs (may follow document order of equations)'] += 1
print(dict(stats))
for k, v in finds.items(): print('##', k, len(v), str(v[0])[:300])
