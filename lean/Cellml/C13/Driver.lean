import Cellml.Basic.Sexp
import Cellml.Model.Cmeta
import Cellml.C01.Driver

/-! Channel C13: one history per request.
    `(C13 run init (univ (ids "id"…) (queries (p o)…) (terms node…) (nss ns…)) (ops op…))`
       init  = `(api none|"model-id")` — `Model(name, cmeta_id)` —
             | `(doc none|"model-id" (units…) (comps…) (encaps…) (conns…))` — the C01 wire format: the document is
               loaded with `Load.load`; the state is the list of flat variables with their ids after the moves
       node  = `(uri "text")` | `(lit "text")`;  o = node | `none`;  ns = `none` | `"prefix"`
       op    = `(addVar "name" none|"id")` `(rmVar i)` `(cmeta i)` `(xfer a b)` `(rdf "subject-id" "predicate" node)`
               `(conv i true|false same|output|(input i…))` `(lmove target dst)`
    → `(ok (outcome snapshot)…)`, one entry for the initial state (outcome `init`) and one per call, or
      `(err Class "what")` when the document does not load. -/
namespace C13
open Sexp Model

def ofOpt {α} (f : α → Sexp) : Option α → Sexp
  | some x => f x
  | none => .atom "none"

def ofOutcome : Outcome → Sexp
  | .ok => .atom "ok"
  | .raised .valueError => .atom "ValueError"
  | .raised .keyError => .atom "KeyError"
  | .raised (.graphError _) => .atom "GraphError"
  | .raised .notInModel => .atom "NotInModel"
  | .raised .cmetaFuel => .atom "CmetaFuel"

def ofLErr : LErr → Sexp
  | .keyError => .atom "KeyError"
  | .valueError => .atom "ValueError"

def optStr? : Sexp → Option (Option String)
  | .atom "none" => some none
  | .str s => some (some s)
  | _ => none

def node? : Sexp → Option RNode
  | .list [.atom "uri", .str s] => some (.uri s)
  | .list [.atom "lit", .str s] => some (.lit s)
  | _ => none

def optNode? : Sexp → Option (Option RNode)
  | .atom "none" => some none
  | e => (node? e).map some

def kind? : Sexp → Option ConvKind
  | .atom "same" => some .same
  | .atom "output" => some .output
  | .list (.atom "input" :: ds) => do some (.input (← ds.mapM nat?))
  | _ => none

def op? : Sexp → Option AOp
  | .list [.atom "addVar", .str n, c] => do some (.base (.addVariable n (← optStr? c) none))
  | .list [.atom "rmVar", v] => do some (.base (.removeVariable (← nat? v)))
  | .list [.atom "cmeta", v] => do some (.base (.addCmetaId (← nat? v)))
  | .list [.atom "xfer", a, b] => do some (.base (.transferCmetaId (← nat? a) (← nat? b)))
  | .list [.atom "rdf", .str s, .str p, o] => do some (.addRdf ⟨s, p, ← node? o⟩)
  | .list [.atom "conv", v, mv, k] => do some (.convert (← nat? v) (mv == .atom "true") (← kind? k))
  | .list [.atom "lmove", t, d] => do some (.loaderMove (← nat? t) (← nat? d))
  | _ => none

structure Univ where
  ids : List String
  queries : List (String × Option RNode)
  terms : List RNode
  nss : List (Option String)

def univ? : Sexp → Option Univ
  | .list [.atom "univ", .list (.atom "ids" :: ids), .list (.atom "queries" :: qs), .list (.atom "terms" :: ts),
           .list (.atom "nss" :: ns)] => do
      let ids ← ids.mapM atomOf?
      let qs ← qs.mapM (fun q => match q with
        | .list [.str p, o] => do some (p, ← optNode? o)
        | _ => none)
      some ⟨ids, qs, ← ts.mapM node?, ← ns.mapM optStr?⟩
  | _ => none

def ofRes {α} (f : α → Sexp) : Except LErr α → Sexp
  | .ok x => .list [.atom "ok", f x]
  | .error e => .list [.atom "err", ofLErr e]

def snapshot (u : Univ) (a : AState) : Sexp :=
  let s := a.m
  .list [
    .list (.atom "vars" :: s.live.map (fun i => .list [ofNat i, .str (nameOfVar s i), ofOpt .str (cmetaOf s i)])),
    .list (.atom "has" :: u.ids.map (fun c => ofBool (hasCmetaId s c))),
    .list (.atom "byid" :: u.ids.map (fun c => ofOpt ofNat (getVariableByCmetaId s c))),
    .list (.atom "byrdf" :: u.queries.map (fun (p, o) => ofRes (fun vs => .list (vs.map ofNat)) (byRdf a p o))),
    .list (.atom "byterm" :: u.terms.map (fun t => ofRes ofNat (byTerm a t))),
    .list (.atom "terms" :: s.live.map (fun i =>
      .list (ofNat i :: u.nss.map (fun ns => .list ((termsOf a i ns).map .str))))),
    .list (.atom "display" :: s.live.map (fun i =>
      .list (ofNat i :: u.nss.map (fun ns => .list ((displayNames a i ns).map .str))))),
    .list (.atom "triples" :: a.rdf.map (fun t => .list [.str t.subj, .str t.pred,
      match t.obj with | .uri x => .list [.atom "uri", .str x] | .lit x => .list [.atom "lit", .str x]]))]

def runOps (u : Univ) : AState → List Sexp → List Sexp → List Sexp
  | _, [], acc => acc.reverse
  | a, o :: os, acc =>
    match op? o with
    | none => runOps u a os (.list [.atom "bad-op", .atom "none"] :: acc)
    | some op =>
      let r := astep a op
      runOps u r.1 os (.list [ofOutcome r.2, snapshot u r.1] :: acc)

/-- the model object `load_model` returns, as far as variables and ids go -/
def ofFlat (mc : Option String) (F : Load.Flat) : AState :=
  arun mc (F.vars.map (fun v => .base (.addVariable (C01.flatName v.ref) v.cmeta none)))

def start (u : Univ) (a : AState) (ops : List Sexp) : Sexp :=
  .list (.atom "ok" :: runOps u a ops [.list [.atom "init", snapshot u a]])

def handle (args : List Sexp) : Sexp :=
  match args with
  | [.atom "run", ini, us, .list (.atom "ops" :: ops)] =>
    match univ? us with
    | none => .atom "bad-universe"
    | some u =>
      match ini with
      | .list [.atom "api", mc] =>
          match optStr? mc with
          | some mc => start u (ainit mc) ops
          | none => .atom "bad-request"
      | .list (.atom "doc" :: mc :: rest) =>
          match optStr? mc, C01.doc? rest with
          | some mc, some d =>
              match Load.load { d with cmeta := mc } with
              | .error e => C01.errSexp e
              | .ok F => start u (ofFlat mc F) ops
          | _, _ => .atom "bad-document"
      | _ => .atom "bad-request"
  | _ => .atom "bad-request"

end C13
