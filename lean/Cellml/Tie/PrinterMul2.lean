import Cellml.Generated.Code.PrinterMul2
import Cellml.Tie.PrinterMul
import Cellml.Tie.PrinterPr

/-! # Tie: the WHOLE of `Printer._print_Mul` (generated from the source) = `C11.mulItems` / `C11.mulDoc`

    `Cellml.Gen.PrinterMul2.printMul` is the translation of the complete method: the sign extraction
    (`as_coeff_Mul`, `c < 0`, `_keep_coeff(-c, e)`, `sign = '-'`), the classification loop over `Mul.make_args(expr)`
    (the same source text as `PrinterMul.mulClassify`, shown here to be the fold of it), `a or [S.One]`, the two lists
    of bracketed operands at `PRECEDENCE['Mul']`, the `pow_brackets` fix-up through `b.index`, the single denominator
    re-bracketed at `PRECEDENCE['Pow']` (third `fix:` commit), and the joins with ` * ` and ` / `.

    * `mulItems_leaves`: on every product for which the model's `mulItems` answers `some (sign, factors)`, the SymPy
      leaves compose to the same sign and the same factor list.
    * `printMul_core`: the loop and the string assembly = `flatten (mulDoc sign factors)`.
    * `printMul_tie`: both together. -/

set_option linter.unusedSimpArgs false

namespace Cellml.Tie.PPrinter2
open C11 Cellml.Gen Cellml.Tie.PPrinter

/-! ## the classification loop, inlined in `printMul`, is the fold of `PrinterMul.mulClassify` -/

/-- a `for` loop whose body is a step function `g` followed by `yield` is the monadic left fold of `g` -/
theorem forIn_foldlM {α σ τ : Type} (xs : List α) (f : α → σ → Except PyErr (ForInStep σ)) (g : τ → α → Except PyErr τ)
    (to : τ → σ) (from_ : σ → τ) (hft : ∀ t, from_ (to t) = t)
    (h : ∀ x s, f x s = (g (from_ s) x).map (fun r => ForInStep.yield (to r))) (t0 : τ) :
    forIn xs (to t0) f = (xs.foldlM g t0).map to := by
  induction xs generalizing t0 with
  | nil => rfl
  | cons x r ih =>
    rw [List.forIn_cons, h, hft, List.foldlM_cons]
    cases hg : g t0 x with
    | error e => rfl
    | ok t1 => simp only [Except.map, bind, Except.bind]; exact ih t1

/-- the loop body as it stands inlined in the generated `printMul` (state: `pow_brackets`, `a`, `b`) is the generated
    step function `PrinterMul.mulClassify` of the same source lines -/
theorem body_eq (item : E) (s : List E × List E × List E) :
    (if (comm item && isPow item && isRational (expOf item) && isNegNum (expOf item)) = true then
              if (expOf item != E.int (-1)) = true then
                Except.pure (ε := PyErr)
                  (ForInStep.yield (s.fst, s.snd.fst, s.snd.snd ++ [(baseOf item).pow (negNum (expOf item))]))
              else
                if ((argsOf (arg0 item)).length != 1 && isMul (baseOf item)) = true then
                  Except.pure
                    (ForInStep.yield
                      (s.fst ++ [item], s.snd.fst, s.snd.snd ++ [powEval (baseOf item) (negNum (expOf item))]))
                else
                  Except.pure
                    (ForInStep.yield
                      (s.fst, s.snd.fst, s.snd.snd ++ [powEval (baseOf item) (negNum (expOf item))]))
            else
              if isRational item = true then
                if (pOf item != 1) = true then
                  if (qOf item != 1) = true then
                    Except.pure
                      (ForInStep.yield (s.fst, s.snd.fst ++ [E.int (pOf item)], s.snd.snd ++ [E.int ↑(qOf item)]))
                  else Except.pure (ForInStep.yield (s.fst, s.snd.fst ++ [E.int (pOf item)], s.snd.snd))
                else
                  if (qOf item != 1) = true then
                    Except.pure (ForInStep.yield (s.fst, s.snd.fst, s.snd.snd ++ [E.int ↑(qOf item)]))
                  else Except.pure (ForInStep.yield (s.fst, s.snd.fst, s.snd.snd))
              else Except.pure (ForInStep.yield (s.fst, s.snd.fst ++ [item], s.snd.snd))) =
    (PrinterMul.mulClassify item s.2.1 s.2.2 s.1).map (fun r => ForInStep.yield (r.2.2, r.1, r.2.1)) := by
  unfold PrinterMul.mulClassify
  simp only [Py.truthy_bool, bind, pure, Except.bind]
  split_ifs <;> rfl

/-- the first loop of `printMul` over the factors `fs` leaves `pow_brackets`, `a`, `b` = the model's `partition` -/
theorem mulLoop2 (f : E → (List E × List E × List E) → Except PyErr (ForInStep (List E × List E × List E)))
    (hf : ∀ item s, f item s =
      (PrinterMul.mulClassify item s.2.1 s.2.2 s.1).map (fun r => ForInStep.yield (r.2.2, r.1, r.2.1)))
    (fs : List Item1)
    (hq : ∀ i ∈ fs, ∀ p q, i.e = .rat p q → q ≠ 1)
    (hm : ∀ i ∈ fs, ∀ bb x, i.e = .pow bb x → isMul bb = true → (argsOf bb).length ≠ 1) :
    forIn (fs.map (·.e)) (([], [], []) : List E × List E × List E) f =
      .ok ((fs.flatMap fun i => (classify i).2.2.map fun _ => i.e), (partition fs).1.map (·.e),
           (partition fs).2.1.map (·.e)) := by
  have := forIn_foldlM (fs.map (·.e)) f
    (fun (s : List E × List E × List E) i => PrinterMul.mulClassify i s.1 s.2.1 s.2.2)
    (fun r => (r.2.2, r.1, r.2.1)) (fun s => (s.2.1, s.2.2, s.1)) (fun _ => rfl) (fun x s => hf x s) ([], [], [])
  rw [this, List.foldlM_map, mulLoop_tie fs [] [] [] hq hm]
  simp [Except.map]

/-! ## strings of the model's trees -/

theorem flatten_spliceProd (a d : Doc) : flatten (spliceProd a d) = flatten a ++ " * " ++ flatten d := by
  induction d with
  | bin op x y ihx ihy => cases op <;> simp_all [spliceProd, flatten, Bop.text, String.append_assoc]
  | _ => simp [spliceProd, flatten, Bop.text]

theorem flatten_negFirst (d : Doc) : flatten (negFirst d) = "-" ++ flatten d := by
  induction d with
  | bin op x y ihx ihy => cases op <;> simp_all [negFirst, flatten, Bop.text, String.append_assoc]
  | _ => simp [negFirst, flatten]

theorem flatten_prodChain (d : Doc) (ds : List Doc) :
    flatten (prodChain (d :: ds)) = String.intercalate " * " ((d :: ds).map flatten) := by
  simp only [prodChain]
  rw [intercalate_foldl " * " spliceProd flatten_spliceProd]
  rfl

theorem flatten_assemble (num : Doc) (D : List Doc) (n : Nat) (hn : n = D.length) :
    (if (n == 0) = true then (Except.pure (flatten num) : Except PyErr String)
     else Except.pure (flatten num ++ " / " ++
        if (n == 1) = true then String.intercalate " * " (D.map flatten)
        else "(" ++ String.intercalate " * " (D.map flatten) ++ ")")) = .ok (flatten (assemble num D)) := by
  subst hn
  match D with
  | [] => rfl
  | [d] => simp [assemble, flatten, Bop.text, Except.pure]
  | d :: d' :: ds =>
    simp only [assemble]
    rw [flatten, flatten, flatten_prodChain]
    simp [Bop.text, Except.pure, String.append_assoc]

/-! ## the operand lists -/

theorem mapM_bracket1 (print : E → Except PyErr String) (p : Nat) (items : List Item1)
    (h : ∀ i ∈ items, print i.e = .ok (flatten i.doc)) :
    (items.map (·.e)).mapM (fun x => Printer.bracket print x p)
      = .ok (items.map (fun i => flatten (C11.bracket i.e i.doc p))) := by
  induction items with
  | nil => rfl
  | cons i r ih =>
    have hi := bracket_tie print i.e i.doc p (h i (by simp))
    have hr := ih (fun j hj => h j (by simp [hj]))
    simp only [List.map_cons, List.mapM_cons, hi] at hr ⊢
    simp only [hr, bind, Except.bind, pure, Except.pure]

/-! ## the `pow_brackets` fix-up: `b_str[b.index(item.base)] = '(' + b_str[b.index(item.base)] + ')'` = `C11.wrapFirst` -/

theorem wrapFirst_length (m : E) (bs : List Item1) (ds : List Doc) : (wrapFirst m bs ds).length = ds.length := by
  induction bs generalizing ds with
  | nil => simp [wrapFirst]
  | cons j bs ih =>
    cases ds with
    | nil => simp [wrapFirst]
    | cons d ds => simp only [wrapFirst]; split_ifs <;> simp [ih]

theorem foldl_wrapFirst_length (marks : List E) (bs : List Item1) (ds : List Doc) :
    (marks.foldl (fun acc m => wrapFirst m bs acc) ds).length = ds.length := by
  induction marks generalizing ds with
  | nil => rfl
  | cons m r ih => rw [List.foldl_cons, ih, wrapFirst_length]

theorem wrap_step (m : E) (bs : List Item1) (ds : List Doc) (hlen : bs.length = ds.length)
    (hmem : ∃ j ∈ bs, j.e = m) :
    ∃ idx s, listIndex (bs.map (·.e)) m = .ok idx ∧ listGet (ds.map flatten) idx = .ok s ∧
      listSet (ds.map flatten) idx ("(" ++ s ++ ")") = .ok ((wrapFirst m bs ds).map flatten) := by
  induction bs generalizing ds with
  | nil => obtain ⟨j, hj, _⟩ := hmem; simp at hj
  | cons j bs ih =>
    cases ds with
    | nil => simp at hlen
    | cons d ds =>
      by_cases hj : j.e = m
      · refine ⟨0, flatten d, ?_, ?_, ?_⟩
        · simp [listIndex, hj]
        · simp [listGet]
        · simp [listSet, wrapFirst, hj, flatten]
      · obtain ⟨j', hj', hm'⟩ := hmem
        have hj'' : j' ∈ bs := by
          rcases List.mem_cons.mp hj' with rfl | h
          · exact absurd hm' hj
          · exact h
        obtain ⟨idx, s, h1, h2, h3⟩ := ih ds (by simpa using hlen) ⟨j', hj'', hm'⟩
        refine ⟨idx + 1, s, ?_, ?_, ?_⟩
        · simp [listIndex, hj, h1, Except.map]
        · simpa [listGet] using h2
        · simp only [listSet, List.length_map] at h3 ⊢
          by_cases hlt : idx < ds.length
          · simp only [hlt, if_true, Except.ok.injEq] at h3
            simp [wrapFirst, hj, hlt, ← h3]
          · simp [hlt] at h3

/-- the body of the second loop of the generated `printMul` (over `pow_brackets`; state: `b_str`) -/
def pbBody (b : List E) (item : E) (s1 : List String) : Except PyErr (ForInStep (List String)) :=
  if (!Py.isIn (baseOf item) b) = true then
    (throw { cls := "AssertionError" } : Except PyErr PUnit.{1}).bind fun __r =>
      (listIndex b (baseOf item)).bind fun __do_lift =>
        (listIndex b (baseOf item)).bind fun __do_lift_1 =>
          (listGet s1 __do_lift_1).bind fun __do_lift_2 =>
            (listSet s1 __do_lift ("(" + __do_lift_2 + ")")).bind fun b_str =>
              Except.pure (ForInStep.yield b_str)
  else
    (listIndex b (baseOf item)).bind fun __do_lift =>
      (listIndex b (baseOf item)).bind fun __do_lift_1 =>
        (listGet s1 __do_lift_1).bind fun __do_lift_2 =>
          (listSet s1 __do_lift ("(" + __do_lift_2 + ")")).bind fun b_str =>
            Except.pure (ForInStep.yield b_str)

theorem pbLoop (f : E → List String → Except PyErr (ForInStep (List String))) (bs : List Item1)
    (hf : ∀ item s1, f item s1 = pbBody (bs.map (·.e)) item s1) (pb : List E)
    (hpb : ∀ it ∈ pb, ∃ j ∈ bs, j.e = baseOf it) (ds : List Doc) (hlen : bs.length = ds.length) :
    forIn pb (ds.map flatten) f =
      .ok (((pb.map baseOf).foldl (fun acc m => wrapFirst m bs acc) ds).map flatten) := by
  induction pb generalizing ds with
  | nil => rfl
  | cons it pb ih =>
    obtain ⟨idx, s, h1, h2, h3⟩ := wrap_step (baseOf it) bs ds hlen (hpb it (by simp))
    have hin : Py.isIn (baseOf it) (bs.map (·.e)) = true := by
      obtain ⟨j, hj, hje⟩ := hpb it (by simp)
      simp only [Py.isIn, List.contains_eq_mem, List.mem_map, decide_eq_true_eq]
      exact ⟨j, hj, hje⟩
    rw [List.forIn_cons, hf, pbBody]
    simp only [hin, h1, h2, h3, Except.bind, Bool.not_true, Bool.false_eq_true, if_false, str_add, bind, Except.pure]
    rw [List.map_cons, List.foldl_cons]
    exact ih (fun x hx => hpb x (by simp [hx])) _ (by rw [wrapFirst_length]; exact hlen)

/-! ## what the classified operands print as -/

theorem partition_mem (fs : List Item1) :
    (∀ j ∈ (partition fs).1, ∃ i ∈ fs, j ∈ (classify i).1) ∧
    (∀ j ∈ (partition fs).2.1, ∃ i ∈ fs, j ∈ (classify i).2.1) ∧
    (∀ i ∈ fs, ∀ j ∈ (classify i).2.1, j ∈ (partition fs).2.1) := by
  induction fs with
  | nil => simp [partition]
  | cons i r ih =>
    simp only [partition, List.mem_append, List.mem_cons, forall_eq_or_imp, exists_eq_or_imp]
    refine ⟨?_, ?_, ?_, ?_⟩
    · rintro j (h | h)
      · exact Or.inl h
      · obtain ⟨i', hi', hj⟩ := ih.1 j h; exact Or.inr ⟨i', hi', hj⟩
    · rintro j (h | h)
      · exact Or.inl h
      · obtain ⟨i', hi', hj⟩ := ih.2.1 j h; exact Or.inr ⟨i', hi', hj⟩
    · intro j hj; exact Or.inl hj
    · intro i' hi' j hj; exact Or.inr (ih.2.2 i' hi' j hj)

/-- every operand that `classify` makes of a printed factor is printed: the factor itself, the base of a reciprocal,
    the power with the negated exponent, the numerator / denominator of a rational -/
theorem classify_printed (print : E → Except PyErr String) (i : Item1)
    (hp : print i.e = .ok (flatten i.doc))
    (hbase : ∀ b x, i.e = .pow b x → print b = .ok (flatten i.base))
    (hint : ∀ n, print (.int n) = .ok (flatten (intDoc n)))
    (hpow : ∀ b x, i.e = .pow b x → isNegRat x = true →
      print (.pow b (negNum x)) = .ok (flatten (powDoc b (negNum x) i.base (numDoc (negNum x))))) :
    (∀ j ∈ (classify i).1, print j.e = .ok (flatten j.doc)) ∧
    (∀ j ∈ (classify i).2.1, print j.e = .ok (flatten j.doc)) := by
  rcases i with ⟨e, d, bs⟩
  cases e with
  | pow b x =>
    simp only [classify]
    by_cases h1 : (comm b && comm x && isNegRat x) = true
    · by_cases h2 : (x == .int (-1)) = true
      · simpa [h1, h2] using hbase b x rfl
      · simp only [Bool.and_eq_true] at h1
        simpa [h1, h2] using hpow b x rfl h1.2
    · simpa [h1] using hp
  | int n =>
    simp only [classify]
    split_ifs <;> simp [num1, numDoc, hint]
  | rat p q =>
    simp only [classify]
    split_ifs <;> simp [num1, numDoc, hint]
  | _ => simpa [classify] using hp

theorem classify_mark_mem (i : Item1) (m : E) (hm : m ∈ (classify i).2.2) :
    ∃ j ∈ (classify i).2.1, j.e = baseOf i.e := by
  rcases i with ⟨e, d, bs⟩
  cases e <;> simp [classify] at hm ⊢
  split_ifs at hm ⊢ <;> simp_all [baseOf]

/-! ## the loop and the string assembly of `printMul` = `C11.mulDoc` -/

theorem denStrs_eq (b : List Item1) (marks : List E) (h : ¬ (b.length = 1 ∧ marks = [])) :
    denStrs b marks = marks.foldl (fun acc m => wrapFirst m b acc) (b.map (fun i => bracket i.e i.doc 50)) := by
  unfold denStrs
  split
  · exact absurd ⟨rfl, rfl⟩ h
  · rfl

theorem ok_bind {ε α β : Type} (a : α) (f : α → Except ε β) : (Except.ok a : Except ε α).bind f = f a := rfl

theorem mulDoc_eq (s : Bool) (fs : List Item1) :
    mulDoc s fs = assemble
      (if s then negFirst (prodChain ((if (partition fs).1.isEmpty then [num1 (.int 1)] else (partition fs).1).map
          (fun i => bracket i.e i.doc 50)))
       else prodChain ((if (partition fs).1.isEmpty then [num1 (.int 1)] else (partition fs).1).map
          (fun i => bracket i.e i.doc 50)))
      (denStrs (partition fs).2.1 (partition fs).2.2) := by
  unfold mulDoc
  rcases partition fs with ⟨a, b, m⟩
  rfl

theorem flatten_num (s : Bool) (A : List Item1) (hne : A ≠ []) :
    (if s then "-" else "") ++ String.intercalate " * " (A.map (fun i => flatten (bracket i.e i.doc 50))) =
      flatten (if s then negFirst (prodChain (A.map (fun i => bracket i.e i.doc 50)))
               else prodChain (A.map (fun i => bracket i.e i.doc 50))) := by
  cases A with
  | nil => exact absurd rfl hne
  | cons x xs =>
    cases s
    · simp only [Bool.false_eq_true, if_false, List.map_cons, flatten_prodChain, List.map_map]; simp; rfl
    · simp only [if_true, List.map_cons, flatten_negFirst, flatten_prodChain, List.map_map]; simp; rfl

/-- **the body of `Printer._print_Mul` after the sign extraction = `C11.mulDoc`**: for whatever expression `expr` whose
    sign (`c < 0` for `c, e = expr.as_coeff_Mul()`) is `s` and whose factors after `_keep_coeff` are the printed
    factors `fs`. `hq`, `hm`: the domain of `mulClassify_tie`. -/
theorem printMul_core (print : E → Except PyErr String) (expr : E) (s : Bool) (fs : List Item1)
    (hs : isNegNum (asCoeffMul expr).1 = s)
    (hargs : makeArgs (if s then keepCoeff (negNum (asCoeffMul expr).1) (asCoeffMul expr).2 else expr) = fs.map (·.e))
    (hp : ∀ f ∈ fs, print f.e = .ok (flatten f.doc))
    (hbase : ∀ f ∈ fs, ∀ b x, f.e = .pow b x → print b = .ok (flatten f.base))
    (hint : ∀ n, print (.int n) = .ok (flatten (intDoc n)))
    (hpow : ∀ f ∈ fs, ∀ b x, f.e = .pow b x → isNegRat x = true →
      print (.pow b (negNum x)) = .ok (flatten (powDoc b (negNum x) f.base (numDoc (negNum x)))))
    (hq : ∀ i ∈ fs, ∀ p q, i.e = .rat p q → q ≠ 1)
    (hm : ∀ i ∈ fs, ∀ bb x, i.e = .pow bb x → isMul bb = true → (argsOf bb).length ≠ 1) :
    PrinterMul2.printMul print expr = .ok (flatten (mulDoc s fs)) := by
  -- the printed operands
  obtain ⟨hpa, hpb, hpc⟩ := partition_mem fs
  have hA : ∀ j ∈ (partition fs).1, print j.e = .ok (flatten j.doc) := fun j hj => by
    obtain ⟨i, hi, hji⟩ := hpa j hj
    exact (classify_printed print i (hp i hi) (hbase i hi) hint (hpow i hi)).1 j hji
  have hB : ∀ j ∈ (partition fs).2.1, print j.e = .ok (flatten j.doc) := fun j hj => by
    obtain ⟨i, hi, hji⟩ := hpb j hj
    exact (classify_printed print i (hp i hi) (hbase i hi) hint (hpow i hi)).2 j hji
  have hmarks := partition_marks fs
  have hmem : ∀ it ∈ (fs.flatMap fun i => (classify i).2.2.map fun _ => i.e),
      ∃ j ∈ (partition fs).2.1, j.e = baseOf it := by
    intro it hit
    obtain ⟨i, hi, hit⟩ := List.mem_flatMap.mp hit
    obtain ⟨m, hm', rfl⟩ := List.mem_map.mp hit
    obtain ⟨j, hj, hje⟩ := classify_mark_mem i m hm'
    exact ⟨j, hpc i hi j hj, hje⟩
  unfold PrinterMul2.printMul
  simp only [Py.truthy_bool, bind, pure, hs]
  cases s
  all_goals
    simp only [Bool.false_eq_true, if_false, if_true] at hargs ⊢
    rw [hargs, mulLoop2 _ (fun item s => body_eq item s) fs hq hm, ok_bind, mulDoc_eq]
    simp only []
    generalize hPB : (fs.flatMap fun i => (classify i).2.2.map fun _ => i.e) = PB at hmarks hmem ⊢
    generalize hP : partition fs = P at *
    obtain ⟨A, B, marks⟩ := P
    simp only [] at hA hB hmarks hmem ⊢
    have hA' : (if Py.truthy (A.map (·.e)) = true then A.map (·.e) else [E.int 1]) =
        (if A.isEmpty then [num1 (.int 1)] else A).map (·.e) := by cases A <;> simp [num1]
    have hA'p : ∀ j ∈ (if A.isEmpty then [num1 (.int 1)] else A), print j.e = .ok (flatten j.doc) := by
      cases A with
      | nil => simpa [num1, numDoc] using hint 1
      | cons x xs => simpa using hA
    have hne : (if A.isEmpty then [num1 (.int 1)] else A) ≠ [] := by cases A <;> simp
    rw [hA', mapM_bracket1 print 50 _ hA'p, ok_bind, mapM_bracket1 print 50 B hB, ok_bind]
    have hds : B.map (fun i => flatten (bracket i.e i.doc 50)) =
        (B.map (fun i => bracket i.e i.doc 50)).map flatten := by simp [List.map_map]
    rw [hds]
    show Except.bind (forIn PB _ (pbBody (B.map (·.e)))) _ = _
    rw [pbLoop _ B (fun _ _ => rfl) PB hmem _ (by simp), ok_bind, hmarks]
    have htr : Py.truthy PB = !marks.isEmpty := by rw [← hmarks]; cases PB <;> rfl
    simp only [List.length_map, htr, Bool.not_not, str_add]
    have hnumF := flatten_num false _ hne
    have hnumT := flatten_num true _ hne
    simp only [Bool.false_eq_true, if_false, if_true] at hnumF hnumT ⊢
    by_cases hc : (B.length == 1 && marks.isEmpty) = true
    · simp only [hc, if_true]
      simp only [Bool.and_eq_true, beq_iff_eq, List.isEmpty_iff] at hc
      obtain ⟨hB1, rfl⟩ := hc
      obtain ⟨d, rfl⟩ : ∃ d, B = [d] := by
        match B, hB1 with
        | [d], _ => exact ⟨d, rfl⟩
      simp only [List.map_cons, List.map_nil, List.foldl_nil, listGet, List.getElem?_cons_zero, ok_bind,
        bracket_tie print d.e d.doc 60 (hB d (by simp)), listSet, List.length_cons, List.length_nil,
        Nat.zero_add, Nat.lt_one_iff, if_true, List.set_cons_zero]
      first | rw [hnumF] | rw [hnumT]
      exact flatten_assemble _ [bracket d.e d.doc 60] 1 rfl
    · simp only [hc, if_false, Bool.false_eq_true]
      first | rw [hnumF] | rw [hnumT]
      rw [denStrs_eq B marks (by simpa using hc)]
      exact flatten_assemble _ _ B.length (by rw [foldl_wrapFirst_length]; simp)

/-! ## the sign extraction: SymPy's `as_coeff_Mul`, `_keep_coeff`, `Mul.make_args` = `C11.mulItems` -/

theorem no_unit (a b : Int) (ha : 2 ≤ a) (h : a * b = 1) : False := by
  have hd : a ∣ 1 := ⟨b, h.symm⟩
  have := Int.le_of_dvd (by decide) hd
  omega

theorem isNum_of_isNegNum (c : E) (h : isNegNum c = true) : isNum c = true := by
  cases c <;> simp_all [isNegNum, isNum]

theorem makeArgs_not_mul (e : E) (h : isMul e = false) : makeArgs e = [e] := by
  cases e <;> simp_all [isMul, makeArgs]

theorem negNum_ne_one (c : E) (hn : isNegNum c = true) (h1 : c ≠ .int (-1)) : negNum c ≠ .int 1 := by
  cases c <;> simp_all [isNegNum, negNum]
  omega

theorem negNum_int_ge (c : E) (hn : isNegNum c = true) (h1 : c ≠ .int (-1)) (a : Int) (h : negNum c = .int a) :
    2 ≤ a := by
  cases c <;> simp_all [isNegNum, negNum]
  omega

/-- `_keep_coeff(k, Mul(m, *rest))` and `Mul.make_args` = the model's `keepCoeffMul` -/
theorem keepCoeffMul_leaves (k m rest : E) (mi : Item1) (resti l : List Item1) (hm : mi.e = m)
    (hr : elems rest = resti.map (·.e)) (hk : k ≠ .int 1) (hk2 : ∀ a, k = .int a → 2 ≤ a)
    (h : keepCoeffMul k (mi :: resti) = some l) :
    makeArgs (keepCoeff k (.mul (.cons m rest))) = l.map (·.e) := by
  have h0 : (E.mul (.cons m rest) == E.int 1) = false := by simp
  have h1 : (k == E.int 1) = false := by simpa using hk
  simp only [keepCoeff, h0, h1, Bool.false_eq_true, if_false]
  simp only [keepCoeffMul, hm] at h
  by_cases hn : isNum m = true
  · simp only [hn, if_true] at h ⊢
    cases k <;> cases m <;> simp_all [numTimes, isNum]
    rename_i a b
    by_cases hab : a * b = 1
    · exact absurd hab (fun h => no_unit a b hk2 h)
    · simp_all [makeArgs, elems, num1]
      rw [← h]; simp [num1]
  · simp only [hn, Bool.false_eq_true, if_false, Option.some.injEq] at h ⊢
    subst h
    simp [makeArgs, elems, hr, hm, num1]


/-- **the sign extraction of `Printer._print_Mul` = `C11.mulItems`**: for a product `Mul(c, r1, *t)` (at least two
    factors) whose printed factors are `ci :: r1i :: ti` (`sub` = the printed factors of a factor that is itself a
    product), whenever the model answers `some (s, fs)`: the sign test `c < 0` on `c, e = expr.as_coeff_Mul()` is `s`,
    and `Mul.make_args` of (`_keep_coeff(-c, e)` if `c < 0`, else `expr`) are the expressions of `fs`. -/
theorem mulItems_leaves (c r1 t : E) (ci r1i : Item) (ti : List Item) (s : Bool) (fs : List Item1)
    (hc : ci.e = c) (hr1 : r1i.e = r1) (ht : elems t = ti.map (·.e))
    (hsub : ∀ l, r1 = .mul l → elems l = r1i.sub.map (·.e))
    (hmi : mulItems (ci :: r1i :: ti) = some (s, fs)) :
    isNegNum (asCoeffMul (.mul (.cons c (.cons r1 t)))).1 = s ∧
    makeArgs (if s then keepCoeff (negNum (asCoeffMul (.mul (.cons c (.cons r1 t)))).1)
        (asCoeffMul (.mul (.cons c (.cons r1 t)))).2 else .mul (.cons c (.cons r1 t))) = fs.map (·.e) := by
  simp only [mulItems, hc] at hmi
  by_cases hneg : isNegNum c = true
  · have hnum := isNum_of_isNegNum c hneg
    simp only [hneg, if_true] at hmi
    simp only [asCoeffMul, hnum, if_true, hneg]
    by_cases hok : numOK (negNum c) = true
    · simp only [hok, Bool.not_true, Bool.false_eq_true, if_false] at hmi
      by_cases hm1 : c = .int (-1)
      · subst hm1
        simp only [beq_self_eq_true, if_true] at hmi
        have hk : negNum (.int (-1)) = .int 1 := rfl
        cases ti with
        | nil =>
          simp only [Option.some.injEq, Prod.mk.injEq] at hmi
          obtain ⟨rfl, rfl⟩ := hmi
          have hf : fromArgs (.cons r1 t) = r1 := by simp [fromArgs, elems, ht]
          refine ⟨rfl, ?_⟩
          have hkc : keepCoeff (.int 1) r1 = r1 := by
            by_cases h1 : r1 = .int 1
            · simp [keepCoeff, h1]
            · simp [keepCoeff, h1]
          simp only [if_true, hk, hf, hkc, hr1]
          by_cases hmul : isMul r1 = true
          · cases r1 <;> simp_all [isMul, makeArgs]
          · simp only [hmul, Bool.false_eq_true, if_false]
            rw [makeArgs_not_mul r1 (by simpa using hmul)]
            simp [Item.one, hr1]
        | cons t1 ti' =>
          simp only [Option.some.injEq, Prod.mk.injEq] at hmi
          obtain ⟨rfl, rfl⟩ := hmi
          have hf : fromArgs (.cons r1 t) = .mul (.cons r1 t) := by simp [fromArgs, elems, ht]
          refine ⟨rfl, ?_⟩
          simp [hk, hf, keepCoeff, makeArgs, elems, ht, Item.one, hr1]
      · have hm1' : (c == .int (-1)) = false := by simpa using hm1
        have hk1 := negNum_ne_one c hneg hm1
        have hk2 := negNum_int_ge c hneg hm1
        simp only [hm1', Bool.false_eq_true, if_false] at hmi
        cases ti with
        | nil =>
          have hf : fromArgs (.cons r1 t) = r1 := by simp [fromArgs, elems, ht]
          simp only [hf]
          simp only [hr1] at hmi
          by_cases h1 : r1 = .int 1
          · subst h1
            simp only [beq_self_eq_true, if_true, Option.some.injEq, Prod.mk.injEq] at hmi
            obtain ⟨rfl, rfl⟩ := hmi
            refine ⟨rfl, ?_⟩
            have : isMul (negNum c) = false := by cases c <;> simp_all [isNegNum, negNum, isMul]
            simp [keepCoeff, makeArgs_not_mul _ this, num1]
          · have h1' : (r1 == .int 1) = false := by simpa using h1
            have hk1' : (negNum c == .int 1) = false := by simpa using hk1
            simp only [h1', Bool.false_eq_true, if_false] at hmi
            cases r1 with
            | mul l =>
              simp only [Option.map_eq_some_iff] at hmi
              obtain ⟨l', hl', hl''⟩ := hmi
              simp only [Prod.mk.injEq] at hl''
              obtain ⟨rfl, rfl⟩ := hl''
              refine ⟨rfl, ?_⟩
              have hsl := hsub l rfl
              cases hs : r1i.sub with
              | nil => simp [hs, keepCoeffMul] at hl'
              | cons mi resti =>
                rw [hs] at hl' hsl
                cases l with
                | cons m rest =>
                  simp only [elems, List.map_cons, List.cons.injEq] at hsl
                  simp only [if_true]
                  exact keepCoeffMul_leaves _ m rest mi resti l' hsl.1.symm hsl.2 hk1 hk2 hl'
                | _ => simp [elems] at hsl
            | add l =>
              simp only [Option.some.injEq, Prod.mk.injEq] at hmi
              obtain ⟨rfl, rfl⟩ := hmi
              refine ⟨rfl, ?_⟩
              simp [keepCoeff, hk1, makeArgs, elems, num1, Item.one, hr1]
            | _ =>
              simp only [] at hmi
              split at hmi
              · rename_i hop
                simp only [Option.some.injEq, Prod.mk.injEq] at hmi
                obtain ⟨rfl, rfl⟩ := hmi
                refine ⟨rfl, ?_⟩
                simp [keepCoeff, hk1, hop, h1, makeArgs, elems, num1, Item.one, hr1]
              · cases hmi
        | cons t1 ti' =>
          have hf : fromArgs (.cons r1 t) = .mul (.cons r1 t) := by simp [fromArgs, elems, ht]
          simp only [Option.map_eq_some_iff] at hmi
          obtain ⟨l', hl', hl''⟩ := hmi
          simp only [Prod.mk.injEq] at hl''
          obtain ⟨rfl, rfl⟩ := hl''
          refine ⟨rfl, ?_⟩
          simp only [if_true, hf]
          simp only [List.map_cons] at hl'
          exact keepCoeffMul_leaves _ r1 t r1i.one ((t1 :: ti').map Item.one) l' (by simp [Item.one, hr1])
            (by simp [ht, Item.one, List.map_map, Function.comp_def]) hk1 hk2 hl'
    · simp [hok] at hmi
  · have hneg' : isNegNum c = false := by simpa using hneg
    simp only [hneg', Bool.false_eq_true, if_false, Option.some.injEq, Prod.mk.injEq] at hmi
    obtain ⟨rfl, rfl⟩ := hmi
    constructor
    · simp only [asCoeffMul]; split_ifs
      · exact hneg'
      · rfl
    · simp [makeArgs, elems, ht, hc, hr1, Item.one, List.map_map, Function.comp_def]


theorem keepCoeffMul_mem (k : E) (margs l : List Item1) (h : keepCoeffMul k margs = some l) :
    ∀ f ∈ l, f ∈ margs ∨ f = num1 k ∨ ∃ n, f = num1 (.int n) := by
  cases margs with
  | nil => simp [keepCoeffMul] at h
  | cons m rest =>
    simp only [keepCoeffMul] at h
    split at h
    · split at h
      · split at h
        · simp only [Option.some.injEq] at h; subst h
          intro f hf; exact Or.inl (by simp [hf])
        · simp only [Option.some.injEq] at h; subst h
          intro f hf
          rcases List.mem_cons.mp hf with rfl | hf
          · exact Or.inr (Or.inr ⟨_, rfl⟩)
          · exact Or.inl (by simp [hf])
      · cases h
    · simp only [Option.some.injEq] at h; subst h
      intro f hf
      rcases List.mem_cons.mp hf with rfl | hf
      · exact Or.inr (Or.inl rfl)
      · exact Or.inl hf

/-- where the factors that `mulItems` hands to `mulDoc` come from: the printed factors, the printed factors of a
    factor that is a product, or a number made by `_keep_coeff` -/
theorem mulItems_mem (items : List Item) (s : Bool) (fs : List Item1) (hmi : mulItems items = some (s, fs)) :
    ∀ f ∈ fs, (∃ i ∈ items, f = i.one) ∨ (∃ i ∈ items, f ∈ i.sub) ∨ (∃ k, f = num1 k ∧ numOK k = true) := by
  cases items with
  | nil => simp [mulItems] at hmi
  | cons c rest =>
    simp only [mulItems] at hmi
    split at hmi
    · split at hmi
      · cases hmi
      · rename_i hok
        have hok' : numOK (negNum c.e) = true := by simpa using hok
        have hnum : ∀ f, f = num1 (negNum c.e) ∨ (∃ n, f = num1 (.int n)) → ∃ k, f = num1 k ∧ numOK k = true := by
          rintro f (rfl | ⟨n, rfl⟩)
          · exact ⟨_, rfl, hok'⟩
          · exact ⟨_, rfl, rfl⟩
        split at hmi
        · split at hmi
          · rename_i r
            simp only [Option.some.injEq, Prod.mk.injEq] at hmi
            obtain ⟨rfl, rfl⟩ := hmi
            intro f hf
            split_ifs at hf
            · exact Or.inr (Or.inl ⟨r, by simp, hf⟩)
            · simp only [List.mem_singleton] at hf
              exact Or.inl ⟨r, by simp, hf⟩
          · simp only [Option.some.injEq, Prod.mk.injEq] at hmi
            obtain ⟨rfl, rfl⟩ := hmi
            intro f hf
            obtain ⟨i, hi, rfl⟩ := List.mem_map.mp hf
            exact Or.inl ⟨i, by simp [hi], rfl⟩
        · split at hmi
          · cases hmi
          · rename_i r
            split at hmi
            · simp only [Option.some.injEq, Prod.mk.injEq] at hmi
              obtain ⟨rfl, rfl⟩ := hmi
              intro f hf
              simp only [List.mem_singleton] at hf
              exact Or.inr (Or.inr (hnum f (Or.inl hf)))
            · split at hmi
              · simp only [Option.some.injEq, Prod.mk.injEq] at hmi
                obtain ⟨rfl, rfl⟩ := hmi
                intro f hf
                simp only [List.mem_cons, List.not_mem_nil, or_false] at hf
                rcases hf with rfl | rfl
                · exact Or.inr (Or.inr (hnum _ (Or.inl rfl)))
                · exact Or.inl ⟨r, by simp, rfl⟩
              · simp only [Option.map_eq_some_iff] at hmi
                obtain ⟨l, hl, hl'⟩ := hmi
                simp only [Prod.mk.injEq] at hl'
                obtain ⟨rfl, rfl⟩ := hl'
                intro f hf
                rcases keepCoeffMul_mem _ _ _ hl f hf with h | h | h
                · exact Or.inr (Or.inl ⟨r, by simp, h⟩)
                · exact Or.inr (Or.inr (hnum f (Or.inl h)))
                · exact Or.inr (Or.inr (hnum f (Or.inr h)))
              · split at hmi
                · simp only [Option.some.injEq, Prod.mk.injEq] at hmi
                  obtain ⟨rfl, rfl⟩ := hmi
                  intro f hf
                  simp only [List.mem_cons, List.not_mem_nil, or_false] at hf
                  rcases hf with rfl | rfl
                  · exact Or.inr (Or.inr (hnum _ (Or.inl rfl)))
                  · exact Or.inl ⟨r, by simp, rfl⟩
                · cases hmi
          · simp only [Option.map_eq_some_iff] at hmi
            obtain ⟨l, hl, hl'⟩ := hmi
            simp only [Prod.mk.injEq] at hl'
            obtain ⟨rfl, rfl⟩ := hl'
            intro f hf
            rcases keepCoeffMul_mem _ _ _ hl f hf with h | h | h
            · obtain ⟨i, hi, rfl⟩ := List.mem_map.mp h
              exact Or.inl ⟨i, by simp [hi], rfl⟩
            · exact Or.inr (Or.inr (hnum f (Or.inl h)))
            · exact Or.inr (Or.inr (hnum f (Or.inr h)))
    · simp only [Option.some.injEq, Prod.mk.injEq] at hmi
      obtain ⟨rfl, rfl⟩ := hmi
      intro f hf
      obtain ⟨i, hi, rfl⟩ := List.mem_map.mp hf
      exact Or.inl ⟨i, hi, rfl⟩


/-- **`Printer._print_Mul` = `C11.mulItems` + `C11.mulDoc`** (the `mul` case of `C11.pr`): for a product of at least two
    factors on which the model answers (`mulItems … = some`), given that `print` returns the model's text for the
    factors the loop meets, for integers, and for the powers `b**(-x)` that the loop builds. -/
theorem printMul_tie (print : E → Except PyErr String) (c r1 t : E) (ci r1i : Item) (ti : List Item) (s : Bool)
    (fs : List Item1) (hc : ci.e = c) (hr1 : r1i.e = r1) (ht : elems t = ti.map (·.e))
    (hsub : ∀ l, r1 = .mul l → elems l = r1i.sub.map (·.e))
    (hmi : mulItems (ci :: r1i :: ti) = some (s, fs))
    (hp : ∀ f ∈ fs, print f.e = .ok (flatten f.doc))
    (hbase : ∀ f ∈ fs, ∀ b x, f.e = .pow b x → print b = .ok (flatten f.base))
    (hint : ∀ n, print (.int n) = .ok (flatten (intDoc n)))
    (hpow : ∀ f ∈ fs, ∀ b x, f.e = .pow b x → isNegRat x = true →
      print (.pow b (negNum x)) = .ok (flatten (powDoc b (negNum x) f.base (numDoc (negNum x)))))
    (hq : ∀ i ∈ fs, ∀ p q, i.e = .rat p q → q ≠ 1)
    (hm : ∀ i ∈ fs, ∀ bb x, i.e = .pow bb x → isMul bb = true → (argsOf bb).length ≠ 1) :
    PrinterMul2.printMul print (.mul (.cons c (.cons r1 t))) = .ok (flatten (mulDoc s fs)) := by
  obtain ⟨h1, h2⟩ := mulItems_leaves c r1 t ci r1i ti s fs hc hr1 ht hsub hmi
  exact printMul_core print _ s fs h1 h2 hp hbase hint hpow hq hm

/-! ## `_print_Derivative`, `_print_bool`, `_print_int` -/

/-- **`Printer._print_Derivative`** (default `derivative_function = str`) = the `deriv` case of `C11.pr` -/
theorem printDerivative_tie (print : E → Except PyErr String) (x t : String) :
    PrinterMul2.printDerivative print (.deriv x t) = .ok (flatten (pr (.deriv x t)).doc) := by
  simp [PrinterMul2.printDerivative, derivativeFunction, pr, okDoc, flatten, pure, Except.pure, String.append_assoc]

/-- **`Printer._print_bool`** (a python `bool`) prints what the model prints for SymPy's `true` / `false` -/
theorem printBool_tie (print : E → Except PyErr String) (b : Bool) :
    PrinterMul2.printBool print b = .ok (flatten (pr (boolE b)).doc) := by
  cases b <;> rfl

/-- **`Printer._print_int`** (a python `int`) prints what the model prints for SymPy's `Integer` -/
theorem printInt_tie (print : E → Except PyErr String) (n : Int) :
    PrinterMul2.printInt print n = .ok (flatten (pr (.int n)).doc) := by
  simp [PrinterMul2.printInt, PyStr.str, int_repr, pr, okDoc, pure, Except.pure]

end Cellml.Tie.PPrinter2
