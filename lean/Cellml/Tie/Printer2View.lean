import Cellml.Tie.PrinterView

/-! # Leaves of `Printer._print_Mul` outside its classification loop, of `_print_Derivative`, `_print_bool`

    SymPy's `Mul.as_coeff_Mul`, `_keep_coeff`, `Mul.make_args` on the trees `C11.E` (the logic AROUND them — a negative
    coefficient gives the sign `-`, which expression's factors are printed — is translated from the source), and the
    python list primitives `xs.index(x)`, `xs[i]`, `xs[i] = v`. Core Lean only. -/

namespace Cellml.Tie.PPrinter2
open C11 Cellml.Tie.PPrinter

/-- `Mul._from_args(args)` (also `_new_rawargs`): no argument is the identity `1`, one argument is that argument -/
def fromArgs (rest : E) : E :=
  match elems rest with
  | [] => .int 1
  | [r] => r
  | _ => .mul rest

/-- `expr.as_coeff_Mul()` (sympy/core/mul.py, `rational=False`): a leading `Number` is split off the product;
    every other expression is `(1, expr)` (sympy/core/expr.py) -/
def asCoeffMul : E → E × E
  | .mul (.cons c rest) => if isNum c then (c, fromArgs rest) else (.int 1, .mul (.cons c rest))
  | e => (.int 1, e)

/-- the part of SymPy's evaluated product `coeff * margs[0]` of two numbers that the hand model covers: integers -/
def numTimes : E → E → Option E
  | .int a, .int b => some (.int (a * b))
  | _, _ => none

/-- `_keep_coeff(coeff, factors)` (sympy/core/mul.py) for a `Number` `coeff`, in the order of its tests:
    `factors is S.One`, `coeff is S.One`, (`coeff is S.NegativeOne`: never, the printer passes `-c` with `c < 0`),
    `factors.is_Add` → `Mul(coeff, factors, evaluate=False)`, `factors.is_Mul` → the coefficient is multiplied into a
    leading number (a product `1` is dropped) or put in front, otherwise the evaluated `coeff*factors`, which is
    `Mul(coeff, factors)` for the opaque factors `C11.opaqueE`. `.other` stands for results outside the modelled
    fragment of SymPy (number × non-integer number, `coeff*factors` that SymPy evaluates further). -/
def keepCoeff (k e : E) : E :=
  if e == .int 1 then k
  else if k == .int 1 then e
  else match e with
    | .add _ => .mul (.cons k (.cons e .nil))
    | .mul .nil => .other "_keep_coeff"
    | .mul (.cons m rest) =>
        if isNum m then
          match numTimes k m with
          | some km => if km == .int 1 then fromArgs rest else .mul (.cons km rest)
          | none => .other "_keep_coeff"
        else .mul (.cons k (.cons m rest))
    | e => if opaqueE e then .mul (.cons k (.cons e .nil)) else .other "_keep_coeff"

/-- `Mul.make_args(expr)`: the factors of a product, the expression itself otherwise -/
def makeArgs : E → List E
  | .mul a => elems a
  | e => [e]

/-- python `xs.index(x)`: the first position of an equal element, ValueError when there is none -/
def listIndex {α} [BEq α] : List α → α → Except PyErr Nat
  | [], _ => .error ⟨"ValueError"⟩
  | y :: ys, x => if y == x then .ok 0 else (listIndex ys x).map (· + 1)

/-- python `xs[i]` for `i ≥ 0` -/
def listGet {α} (xs : List α) (i : Nat) : Except PyErr α :=
  match xs[i]? with
  | some x => .ok x
  | none => .error ⟨"IndexError"⟩

/-- python `xs[i] = v` for `i ≥ 0` -/
def listSet {α} (xs : List α) (i : Nat) (v : α) : Except PyErr (List α) :=
  if i < xs.length then .ok (xs.set i v) else .error ⟨"IndexError"⟩

/-- `self._derivative_function(expr)` with the default `str`: SymPy's text of `Derivative(x, t)` for symbols `x`, `t` -/
def derivativeFunction : E → String
  | .deriv x t => "Derivative(" ++ x ++ ", " ++ t ++ ")"
  | _ => ""

/-- a python `bool` as the SymPy object the `_print_Boolean*` methods receive -/
def boolE (b : Bool) : E := if b then .tt else .ff

end Cellml.Tie.PPrinter2
