import Cellml.Generated.Code.LoaderRel
import Mathlib.Tactic.SplitIfs

/-! # Tie: `Parser._handle_component_ref` / `Parser._add_relationships` (generated from the source) =
    `Load.buildParents` on the `<component_ref>` edges in document pre-order (`Doc.encaps`) -/

namespace Cellml.Tie
open Load Cellml.Gen

/-! ## the edges of `Doc.encaps` from the element tree (what harness/props/c01.py `walk` writes) -/

mutual
/-- a `<component_ref>` under the enclosing ref `parent`: its own edge, then its children's, pre-order -/
def Elem.flat (parent : Option String) : Elem → List (Option String × String)
  | .mk c _ rs => (parent, c) :: flatRefs (some c) rs
/-- the `<component_ref>` children of an element whose component is `parent` (`none`: a `<group>`) -/
def flatRefs (parent : Option String) : List Elem → List (Option String × String)
  | [] => []
  | t :: ts => t.flat parent ++ flatRefs parent ts
end

theorem Elem.flat_eq (parent : Option String) (t : Elem) :
    t.flat parent = (parent, t.component) :: flatRefs (some t.component) t.refs := by
  cases t; simp [Elem.flat, Elem.component, Elem.refs]

/-- the `encapsulated` pairs `buildParents` has recorded after the edges `l` (newest first) -/
def encOf (l : List (Option String × String)) : List (String × String) :=
  (l.filterMap (fun e => e.1.map (fun p => (p, e.2)))).reverse

theorem encOf_append (a b : List (Option String × String)) : encOf (a ++ b) = encOf b ++ encOf a := by
  simp [encOf, List.filterMap_append, List.reverse_append]

theorem buildParents_append (comps : List String) : ∀ (l1 l2 : List (Option String × String)) (par : ParentMap)
    (enc : List (String × String)),
    buildParents comps (l1 ++ l2) par enc =
      match buildParents comps l1 par enc with
      | .error e => .error e
      | .ok par1 => buildParents comps l2 par1 (encOf l1 ++ enc)
  | [], l2, par, enc => by simp [buildParents, encOf]
  | (none, c) :: l1, l2, par, enc => by
      simp only [List.cons_append, buildParents]
      rw [buildParents_append comps l1 l2 par enc]
      simp [encOf]
  | (some p, c) :: l1, l2, par, enc => by
      simp only [List.cons_append, buildParents]
      split_ifs
      · rfl
      · rfl
      · rfl
      · rfl
      · rw [buildParents_append comps l1 l2]
        simp [encOf]

/-- the hand model of one call `_handle_component_ref(tag, parent)`: `Load.buildParents` on the edges below `tag` -/
def relModel (comps : List String) (tag : Elem) (parent : Option String) (st : RelState) : Except PyErr RelState :=
  match buildParents comps (flatRefs parent tag.refs) st.par st.enc with
  | .error e => .error ⟨e.className⟩
  | .ok par => .ok ⟨par, encOf (flatRefs parent tag.refs) ++ st.enc⟩

/-- the text of the generated body of `for component_ref_element in parent_tag.findall(...)` -/
@[reducible] def hcrStep (rec : Elem → Option String → RelState → Except PyErr RelState) (self : RelView)
    (parent : Option String) (component_ref_element : Elem) (__s : RelState × List String) :
    Except PyErr (ForInStep (RelState × List String)) :=
  have st := __s.fst;
  have siblings := __s.snd;
  have child_component := component_ref_element.component;
  have siblings := siblings ++ [child_component];
  have __do_jp := fun (__r : Unit) st => do
    let st ← rec component_ref_element (some child_component) st
    pure (ForInStep.yield (st, siblings));
  if Py.truthy parent = true then do
    let st ← addEncapsulated self st parent child_component
    let st ← setParent self st child_component parent
    __do_jp () st
  else __do_jp () st

theorem hcr_loop (comps : List String) (parent : Option String) : ∀ (refs : List Elem) (st : RelState)
    (sibs : List String),
    forIn refs (st, sibs) (hcrStep (relModel comps) ⟨comps⟩ parent) =
      match buildParents comps (flatRefs parent refs) st.par st.enc with
      | .error e => .error ⟨e.className⟩
      | .ok par => .ok (⟨par, encOf (flatRefs parent refs) ++ st.enc⟩, sibs ++ refs.map (·.component)) := by
  intro refs
  induction refs with
  | nil => intro st sibs; simp [flatRefs, buildParents, encOf]; rfl
  | cons t ts ih =>
    intro st sibs
    rw [List.forIn_cons]
    simp only [flatRefs, Elem.flat_eq, List.cons_append]
    cases parent with
    | none =>
      simp only [hcrStep, Py.truthy_option, Option.isSome_none, Bool.false_eq_true, if_false, relModel, buildParents]
      rw [buildParents_append]
      cases h : buildParents comps (flatRefs (some t.component) t.refs) st.par st.enc with
      | error e => simp [bind, Except.bind]
      | ok par1 =>
        simp only [bind, Except.bind, pure, Except.pure]
        rw [ih]
        simp [encOf_append, encOf]
    | some p =>
      simp only [hcrStep, Py.truthy_option, Option.isSome_some, if_true, relModel, buildParents, addEncapsulated,
        setParent]
      by_cases h1 : p ∈ comps
      · by_cases h2 : (p, t.component) ∈ st.enc
        · simp [h1, h2, bind, Except.bind, Err.className]
        · by_cases h3 : t.component ∈ comps
          · by_cases h4 : (st.par.lookup t.component).isSome = true
            · simp [h1, h2, h3, h4, bind, Except.bind, Err.className]
            · have e1 : comps.contains p = true := by simpa using h1
              have e2 : st.enc.contains (p, t.component) = false := by simpa using h2
              have e3 : comps.contains t.component = true := by simpa using h3
              simp only [e1, e2, e3, h4, Bool.not_true, Bool.false_eq_true, if_false, bind, Except.bind]
              rw [buildParents_append]
              cases h : buildParents comps (flatRefs (some t.component) t.refs) ((t.component, p) :: st.par)
                  ((p, t.component) :: st.enc) with
              | error e => simp
              | ok par1 =>
                simp only [pure, Except.pure]
                rw [ih]
                simp [encOf_append, encOf]
          · simp [h1, h2, h3, bind, Except.bind, Err.className]
      · simp [h1, bind, Except.bind, Err.className]

/-- a `for` loop whose body leaves the state alone -/
theorem forIn_same {α σ : Type} (f : α → σ → Except PyErr (ForInStep σ)) (hf : ∀ x s, f x s = .ok (.yield s)) :
    ∀ (l : List α) (st : σ), forIn l st f = .ok st
  | [], st => rfl
  | x :: l, st => by
    rw [List.forIn_cons, hf]
    simp only [bind, Except.bind]
    exact forIn_same f hf l st

/-- **`Parser._handle_component_ref`**: for every set of component names, every element, enclosing component and
    parser state, the hand model `relModel` (= `Load.buildParents` on the edges below the element, in document
    pre-order, error classes included) satisfies the recursion equation read off the source: it is a fixpoint of the
    generated functional. (Elements are finite trees, so the equation has exactly one solution.) -/
theorem handleComponentRef_fix (comps : List String) (tag : Elem) (parent : Option String) (st : RelState) :
    LoaderRel.handleComponentRef (relModel comps) ⟨comps⟩ tag parent st = relModel comps tag parent st := by
  unfold LoaderRel.handleComponentRef
  simp only []
  rw [hcr_loop comps parent tag.refs st []]
  unfold relModel
  cases h : buildParents comps (flatRefs parent tag.refs) st.par st.enc with
  | error e => simp [bind, Except.bind]
  | ok par =>
    simp only [bind, Except.bind, pure, Except.pure]
    split_ifs
    · rw [forIn_same _ (by intro x s; simp only [noteSibling, ite_self])]
    · rfl

/-! ## `_add_relationships` -/

/-- `Doc.encaps`: the edges of the groups whose (single) `<relationship_ref>` says `encapsulation`, document order -/
def encapsOf (gs : List Elem) : List (Option String × String) :=
  (gs.filter (fun g => g.relationships.headD none == some "encapsulation")).flatMap (fun g => flatRefs none g.refs)

/-- the text of the generated body of `for group_element in group_elements` -/
@[reducible] def arStep (rec : Elem → Option String → RelState → Except PyErr RelState) (group_element : Elem)
    (__s : RelState) : Except PyErr (ForInStep RelState) :=
  have st := __s;
  have relationship_ref := group_element.relationships;
  have __do_jp := fun (__r : Unit) =>
    have relationship := relationship_ref.headD none;
    if (relationship == some "encapsulation") = true then do
      let st ← rec group_element none st
      pure (ForInStep.yield st)
    else pure (ForInStep.yield st);
  if (relationship_ref.length != 1) = true then do
    let __r ← throw { cls := "ValueError" }
    __do_jp __r
  else __do_jp ()

theorem ar_loop (comps : List String) : ∀ (gs : List Elem) (st : RelState), (∀ g ∈ gs, g.relationships.length = 1) →
    forIn gs st (arStep (relModel comps)) =
      match buildParents comps (encapsOf gs) st.par st.enc with
      | .error e => .error ⟨e.className⟩
      | .ok par => .ok ⟨par, encOf (encapsOf gs) ++ st.enc⟩ := by
  intro gs
  induction gs with
  | nil => intro st _; simp [encapsOf, buildParents, encOf]; rfl
  | cons g gs ih =>
    intro st hrel
    have hg : g.relationships.length = 1 := hrel g List.mem_cons_self
    have hgs : ∀ g ∈ gs, g.relationships.length = 1 := fun g' h => hrel g' (List.mem_cons_of_mem _ h)
    rw [List.forIn_cons]
    simp only [arStep, hg, bne_self_eq_false, Bool.false_eq_true, if_false]
    by_cases he : (g.relationships.headD none == some "encapsulation") = true
    · have hflat : encapsOf (g :: gs) = flatRefs none g.refs ++ encapsOf gs := by
        simp only [encapsOf, List.filter_cons, he, if_true, List.flatMap_cons]
      rw [hflat, buildParents_append]
      simp only [he, if_true, relModel]
      cases h : buildParents comps (flatRefs none g.refs) st.par st.enc with
      | error e => simp [bind, Except.bind]
      | ok par1 =>
        simp only [bind, Except.bind, pure, Except.pure]
        rw [ih _ hgs]
        simp [encOf_append]
    · have hflat : encapsOf (g :: gs) = encapsOf gs := by
        simp only [encapsOf, List.filter_cons, he, Bool.false_eq_true, if_false]
      rw [hflat]
      simp only [he, Bool.false_eq_true, if_false, bind, Except.bind, pure, Except.pure]
      exact ih st hgs

/-- **`Parser._add_relationships`** (its callee `_handle_component_ref` being the fixpoint `relModel` of
    `handleComponentRef_fix`): for every set of component names, every list of `<group>` elements with exactly one
    `<relationship_ref>` each (the RELAX NG schema allows more: then the code raises ValueError, and `Load.Doc` has no
    room for such a document) and every parser state, the generated function = `Load.buildParents` on the
    encapsulation edges in document order — the same parent map, the same exception class. With the initial state
    `⟨[], []⟩` this is the `buildParents names doc.encaps [] []` of `Load.prepare` / `C17.prepareFrom`. -/
theorem addRelationships_tie (comps : List String) (gs : List Elem) (st : RelState)
    (hrel : ∀ g ∈ gs, g.relationships.length = 1) :
    LoaderRel.addRelationships (relModel comps) ⟨comps⟩ ⟨gs⟩ st =
      match buildParents comps (encapsOf gs) st.par st.enc with
      | .error e => .error ⟨e.className⟩
      | .ok par => .ok ⟨par, encOf (encapsOf gs) ++ st.enc⟩ := by
  unfold LoaderRel.addRelationships
  simp only []
  rw [ar_loop comps gs st hrel]
  cases buildParents comps (encapsOf gs) st.par st.enc <;> rfl

/-- a group with no or several `<relationship_ref>` is refused with ValueError when the loop reaches it -/
theorem addRelationships_badGroup (rec : Elem → Option String → RelState → Except PyErr RelState) (self : RelView)
    (g : Elem) (gs : List Elem) (st : RelState) (h : g.relationships.length ≠ 1) :
    LoaderRel.addRelationships rec self ⟨g :: gs⟩ st = .error ⟨"ValueError"⟩ := by
  unfold LoaderRel.addRelationships
  simp only []
  rw [List.forIn_cons]
  have : (g.relationships.length != 1) = true := by simpa using h
  simp [this, bind, Except.bind, throw, throwThe, MonadExceptOf.throw]

end Cellml.Tie
