import Cellml.Basic.Sexp
/-! Channel C18 of the model driver (stub: not built yet). -/
namespace C18
def handle (_args : List Sexp) : Sexp := .atom "not-implemented"
end C18
