import Cellml.Basic.Sexp
import Cellml.C01.Driver
import Cellml.C03.Driver
import Cellml.C17.Model

/-! Channel C17: `(C17 load (units u…) (comps c…) (encaps e…) (conns k…) (udefs d…) (compunits i…) (reactions i…)
                           (badeqs (ci pos lhs rhs)…))`
      the first four parts are the C01 wire format (`C01.doc?`; `units` sorted, used by `Load.load` only);
      `udefs` = the `<units>` children of `<model>` in DOCUMENT order, C03 wire format (`C03.udef?`);
      `compunits` / `reactions` = file-order indices of the components with a `<units>` / `<reaction>` child;
      `badeqs` in processing order: `lhs` = `(higher "x" "t" n)` | `(nonvar expr)`
    → `(ok)` | `(err Class "what")` — `C17.loadFull`. -/
namespace C17
open Sexp Load

def part? (name : String) : List Sexp → Option (List Sexp)
  | [] => none
  | .list (.atom n :: xs) :: rest => if n == name then some xs else part? name rest
  | _ :: rest => part? name rest

def badLhs? : Sexp → Option BadLhs
  | .list [.atom "higher", x, t, n] => do some (.higher (← atomOf? x) (← atomOf? t) (← nat? n))
  | .list [.atom "nonvar", e] => do some (.nonvar (← C01.expr? e))
  | _ => none

def badEq? : Sexp → Option BadEq
  | .list [ci, pos, l, r] => do some ⟨← nat? ci, ← nat? pos, ← badLhs? l, ← C01.expr? r⟩
  | _ => none

def faultDoc? (args : List Sexp) : Option FaultDoc := do
  let doc ← C01.doc? args
  let udefs ← (← part? "udefs" args).mapM C03.udef?
  let cu ← (← part? "compunits" args).mapM nat?
  let rx ← (← part? "reactions" args).mapM nat?
  let bad ← (← part? "badeqs" args).mapM badEq?
  some { doc := doc, udefs := udefs, compUnits := cu, reactions := rx, badEqs := bad }

def reply : Except Err Flat → Sexp
  | .ok _ => .list [.atom "ok"]
  | .error e => .list [.atom "err", .atom (className e), .str e.what]

def handle (args : List Sexp) : Sexp :=
  match args with
  | .atom "load" :: rest =>
      match faultDoc? rest with
      | none => .atom "bad-document"
      | some fd => reply (loadFull fd)
  | _ => .atom "bad-request"

end C17
