import Cellml.C10.Order

/-! # C10: `Model.graph` builds for a well-formed model whose left-hand sides print differently

    So `get_derivatives` / `get_derived_quantities` return (rather than raise) there. The hypothesis on the printed
    left-hand sides is the second sanity assertion of `graph` (`len(set(str(x) for x in graph.nodes))`): a variable may
    legally be *named* `Derivative(_x, _t)`. Core Lean only. -/

namespace Model

theorem allDistinct_of_nodup {α} [DecidableEq α] : ∀ (l : List α), l.Nodup → allDistinct l = true
  | [], _ => rfl
  | x :: xs, h => by
    have h' := List.nodup_cons.mp h
    simp only [allDistinct, Bool.and_eq_true, Bool.not_eq_true', List.contains_eq_mem, decide_eq_false_iff_not]
    exact ⟨h'.1, allDistinct_of_nodup xs h'.2⟩

/-- the left-hand sides as nodes -/
theorem lhsNodes_some : ∀ (eqs : List Eqn), (∀ e ∈ eqs, e.lhs ≠ .other) →
    ∃ ns, lhsNodes eqs = some ns ∧ ns.map (·.node) = eqs.filterMap (fun e => lhsNode e.lhs)
  | [], _ => ⟨[], rfl, rfl⟩
  | e :: es, h => by
    obtain ⟨ns, h1, h2⟩ := lhsNodes_some es (fun x hx => h x (List.mem_cons_of_mem _ hx))
    have he := h e (List.mem_cons_self ..)
    cases hl : e.lhs with
    | other => exact absurd hl he
    | var v =>
      refine ⟨⟨.var v, some e, none⟩ :: ns, by simp [lhsNodes, hl, lhsNode, h1], ?_⟩
      simp [hl, lhsNode, h2]
    | deriv s t o =>
      refine ⟨⟨.deriv s t, some e, none⟩ :: ns, by simp [lhsNodes, hl, lhsNode, h1], ?_⟩
      simp [hl, lhsNode, h2]

/-- distinct definitions have distinct left-hand-side nodes -/
theorem lhs_nodes_nodup : ∀ (eqs : List Eqn), (eqs.filterMap defKey).Nodup → (∀ e ∈ eqs, e.lhs ≠ .other) →
    (eqs.filterMap (fun e => lhsNode e.lhs)).Nodup
  | [], _, _ => List.nodup_nil
  | e :: es, hn, hl => by
    have he := hl e (List.mem_cons_self ..)
    have key_of_node : ∀ (x : Eqn) (n : Node), lhsNode x.lhs = some n → lhsNode e.lhs = some n → defKey x = defKey e := by
      intro x n h1 h2
      cases hx : x.lhs <;> cases hy : e.lhs <;> rw [hx] at h1 <;> rw [hy] at h2 <;>
        simp only [lhsNode, Option.some.injEq] at h1 h2 <;> (try cases h1) <;> (try cases h2) <;>
        (try simp [defKey, hx, hy]) <;> subst h1 <;> cases h2 <;> rfl
    cases hk : defKey e with
    | none => cases hle : e.lhs <;> simp_all [defKey]
    | some k =>
      rw [List.filterMap_cons, hk] at hn
      have hn' := List.nodup_cons.mp hn
      have ih := lhs_nodes_nodup es hn'.2 (fun x hx => hl x (List.mem_cons_of_mem _ hx))
      rcases hnode : lhsNode e.lhs with _ | n
      · rw [List.filterMap_cons, hnode]; exact ih
      · rw [List.filterMap_cons, hnode]
        refine List.nodup_cons.mpr ⟨fun hmem => ?_, ih⟩
        obtain ⟨x, hx, hxn⟩ := List.mem_filterMap.mp hmem
        have := key_of_node x n hxn hnode
        exact hn'.1 (List.mem_filterMap.mpr ⟨x, hx, by rw [this, hk]⟩)

/-- the edge loop does not raise when every reference is a left-hand side or a STATE/FREE variable -/
theorem addAllEdges_ok {eqs : List Eqn} : ∀ (es : List Eqn) (g : Graph), (∀ e ∈ es, e ∈ eqs) →
    (∀ e' ∈ eqs, ∀ n, lhsNode e'.lhs = some n → hasNode g n = true) →
    (∀ e ∈ es, (lhsNode e.lhs).isSome = true ∧
      ∀ r ∈ e.refs, (∃ e' ∈ eqs, lhsNode e'.lhs = some r) ∨ bareRef (typeMap eqs) r) →
    ∃ g', addAllEdges (typeMap eqs) g es = .ok g'
  | [], g, _, _, _ => ⟨g, rfl⟩
  | e :: es, g, hsub, hlhs, hok => by
    obtain ⟨hsome, hrefs⟩ := hok e (List.mem_cons_self ..)
    obtain ⟨l, hl⟩ := Option.isSome_iff_exists.mp hsome
    have hnobad : e.refs.filter (badRef (typeMap eqs) g) = [] := by
      rw [List.filter_eq_nil_iff]
      intro r hr
      rcases hrefs r hr with ⟨e', he', hn⟩ | ⟨v, rfl, hv⟩
      · simp [badRef, hlhs e' he' r hn]
      · rcases hv with hv | hv <;> simp [badRef, hv]
    have h1 : ∃ g1, addEdges (typeMap eqs) g e = .ok g1 := by
      unfold addEdges
      rw [hl]
      simp only [hnobad, List.isEmpty_nil, Bool.not_true, Bool.false_eq_true, if_false]
      cases e.lhs <;> exact ⟨_, rfl⟩
    obtain ⟨g1, hg1⟩ := h1
    have e1 := ext_addEdges (hsub e (List.mem_cons_self ..)) hlhs hg1
    obtain ⟨g', hg'⟩ := addAllEdges_ok es g1 (fun x hx => hsub x (List.mem_cons_of_mem _ hx))
      (fun e' he' n hn => e1.has (hlhs e' he' n hn)) (fun x hx => hok x (List.mem_cons_of_mem _ hx))
    exact ⟨g', by simp only [addAllEdges, hg1]; exact hg'⟩

variable {M : RModel}

/-- in a well-formed model every reference is a left-hand side, a state or the free variable -/
theorem ref_ok (W : WF M) {e : Eqn} (he : e ∈ M.st.equations) {r : Node} (hr : r ∈ e.refs) :
    (∃ e' ∈ M.st.equations, lhsNode e'.lhs = some r) ∨ bareRef (typeMap M.st.equations) r := by
  have hd := W.closed e he r hr
  cases r with
  | deriv s t =>
    simp only [definedRef] at hd
    obtain ⟨x, hx⟩ := Option.isSome_iff_exists.mp hd
    obtain ⟨e', he', hl', _⟩ := odeRhs_spec W.inv.eq hx
    exact .inl ⟨e', he', hl'⟩
  | var v =>
    simp only [definedRef, Bool.or_eq_true, beq_iff_eq] at hd
    by_cases hdef : (varRhs M v).isSome = true
    · obtain ⟨x, hx⟩ := Option.isSome_iff_exists.mp hdef
      obtain ⟨e', he', hl', _⟩ := varRhs_spec W.inv.eq hx
      exact .inl ⟨e', he', by rw [hl']; rfl⟩
    · right
      have hno : ∀ e' ∈ M.st.equations, e'.lhs ≠ .var v := fun e' he' hl' =>
        hdef (by rw [varRhs_of_mem W.inv.eq he' hl']; rfl)
      rcases hd with (hs | hd) | hf
      · obtain ⟨e', he', t, o, hl'⟩ := (isState_iff W.inv.eq v).mp hs
        exact ⟨v, rfl, tyOf_state_or_free he' hl' (.inl rfl) hno⟩
      · exact absurd hd hdef
      · -- the free variable: the bound variable of the first ODE
        have : ∃ e' ∈ M.st.equations, ∃ s o, e'.lhs = .deriv s v o := by
          apply Classical.byContradiction
          intro hc
          have hnone : ∀ e' ∈ M.st.equations, bvarOf e' = none := by
            intro e' he'
            cases hl' : e'.lhs with
            | deriv s t o =>
              have := freeVar_of_ode W he' hl'
              rw [hf] at this
              exact absurd ⟨e', he', s, o, by rw [hl', Option.some.inj this]⟩ hc
            | var x => simp [bvarOf, hl']
            | other => simp [bvarOf, hl']
          rw [freeVar_none W.inv.eq hnone] at hf; cases hf
        obtain ⟨e', he', s, o, hl'⟩ := this
        exact ⟨v, rfl, tyOf_state_or_free he' hl' (.inr rfl) hno⟩

/-- **`graph` builds** for a well-formed model whose left-hand sides have distinct printed forms -/
theorem graph_builds (W : WF M)
    (hstr : ((M.st.equations.filterMap (fun e => lhsNode e.lhs)).map (nodeStr (names M.st))).Nodup) :
    ∃ g, (queryGraph M.st).2 = .ok g := by
  rw [queryGraph_snd W.inv.cache]
  obtain ⟨ns, hns, hnodes⟩ := lhsNodes_some M.st.equations W.inv.eq.lhsOk
  have hd1 : allDistinct (ns.map (·.node)) = true := by
    rw [hnodes]; exact allDistinct_of_nodup _ (lhs_nodes_nodup _ W.inv.eq.nodup W.inv.eq.lhsOk)
  have hd2 : allDistinct (ns.map (fun n => nodeStr (names M.st) n.node)) = true := by
    have : ns.map (fun n => nodeStr (names M.st) n.node) = (ns.map (·.node)).map (nodeStr (names M.st)) := by
      rw [List.map_map]; rfl
    rw [this, hnodes]; exact allDistinct_of_nodup _ hstr
  unfold buildGraph
  simp only [hns, hd1, hd2, Bool.not_true, Bool.false_eq_true, if_false]
  rw [lhsNodes_spec (typeMap M.st.equations) M.st.equations ns hns]
  exact addAllEdges_ok M.st.equations _ (fun _ h => h) (fun e' he' n hn => hasNode_lhsGNodes _ _ _ he' hn)
    (fun e he => ⟨by
      cases hl : e.lhs with
      | other => exact absurd hl (W.inv.eq.lhsOk e he)
      | var v => rfl
      | deriv s t o => rfl, fun r hr => ref_ok W he hr⟩)

end Model
