#!/venv/bin/python
"""tools/seed_table.py <matrix dir>: read the outputs of tools/try_seed.sh (one <seed>.out per seed), record in each
seeded/<seed>/meta.json what the seed's own check said, and print the markdown table for DESIGN.md 10.5."""
import json
import os
import re
import sys

ROOT = os.path.dirname(os.path.dirname(os.path.abspath(__file__)))
d = sys.argv[1]
rows = []
for sid in sorted(os.listdir(os.path.join(ROOT, 'seeded'))):
    out = os.path.join(d, sid + '.out')
    meta_p = os.path.join(ROOT, 'seeded', sid, 'meta.json')
    meta = json.load(open(meta_p))
    if not os.path.exists(out):
        rows.append((sid, meta, None))
        continue
    text = open(out).read()
    res = {}
    for m in re.finditer(r'=== (C\d\d) against.*?exit=(\d+)', text, flags=re.S):
        prop, rc = m.group(1), int(m.group(2))
        blk = m.group(0)
        how = 'not caught'
        if rc == 1:
            if 'no-failing-input-found' in blk:
                how = 'proof obligation / correspondence broken, no failing input found'
            elif 'search after' in text:
                broke = re.search(r'search after: (.{0,160})', text)
                how = 'failing input found by the search after a broken obligation'
                if broke and 'lake build' in broke.group(1):
                    how = 'tie theorem broken, then failing input found'
                elif broke and 'correspondence' in broke.group(1):
                    how = 'correspondence mismatch, then failing input found'
            else:
                how = 'failing input found (oracle on the implementation)'
        elif rc == 2:
            how = 'infrastructure failure'
        res[prop] = {'exit': rc, 'how': how}
    meta['own_check'] = res
    json.dump(meta, open(meta_p, 'w'), indent=1)
    rows.append((sid, meta, res))

print('| seed | what it changes | own check |')
print('|------|-----------------|-----------|')
for sid, meta, res in rows:
    summ = (meta.get('summary') or '').replace('\n', ' ').replace('|', '/')
    summ = summ[:150] + ('…' if len(summ) > 150 else '')
    if res is None:
        r = 'not run'
    else:
        r = '; '.join('%s: %s' % (p, v['how']) for p, v in res.items())
    print('| %s | %s | %s |' % (sid, summ, r))
