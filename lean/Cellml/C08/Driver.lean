import Cellml.Basic.Sexp
import Cellml.Model.State

/-! Channel C08: one history per request.
    `(C08 light|deep from check "model-cmeta-id" (ops op…))` → `((outcome result snapshot) …)`, one entry per call;
    snapshots from call `check` on. In `deep` mode both graph queries are performed after every call from index
    `from` on (and once before it), as the harness does on the implementation. -/
namespace C08
open Sexp Model

def ofOpt {α} (f : α → Sexp) : Option α → Sexp
  | some x => f x
  | none => .atom "none"

def ofNode : Node → Sexp
  | .var v => .list [.atom "v", ofNat v]
  | .deriv s t => .list [.atom "d", ofNat s, ofNat t]

def ofVType : VType → Sexp
  | .state => .atom "STATE" | .free => .atom "FREE" | .parameter => .atom "PARAMETER" | .computed => .atom "COMPUTED"

def ofGraph : Except GErr Graph → Sexp
  | .ok g => .list [.atom "ok",
      .list (g.nodes.map fun n => .list [ofNode n.node, ofOpt ofVType n.vtype, ofOpt (fun e => ofNat e.tok) n.eqn]),
      .list (g.edges.map fun (a, b) => .list [ofNode a, ofNode b])]
  | .error .duplicate => .list [.atom "err", .atom "AssertionError"]
  | .error .lhs => .list [.atom "err", .atom "AttributeError"]
  | .error (.badRef hv hd) =>
      .list ([.atom "err"] ++ (if hv then [.atom "AssertionError"] else []) ++ (if hd then [.atom "AttributeError"] else []))

def ofOutcome : Outcome → Sexp
  | .ok => .atom "ok"
  | .raised .valueError => .list [.atom "err", .atom "ValueError"]
  | .raised .keyError => .list [.atom "err", .atom "KeyError"]
  | .raised (.graphError _) => .list [.atom "err", .atom "GraphError"]
  | .raised .notInModel => .list [.atom "err", .atom "NotInModel"]
  | .raised .cmetaFuel => .list [.atom "err", .atom "CmetaFuel"]

def node? : Sexp → Option Node
  | .list [.atom "v", i] => do some (.var (← nat? i))
  | .list [.atom "d", s, t] => do some (.deriv (← nat? s) (← nat? t))
  | _ => none

def lhs? : Sexp → Option Lhs
  | .list [.atom "var", i] => do some (.var (← nat? i))
  | .list [.atom "deriv", s, t, o] => do some (.deriv (← nat? s) (← nat? t) (← nat? o))
  | .list [.atom "other"] => some .other
  | _ => none

def optStr? : Sexp → Option (Option String)
  | .atom "none" => some none
  | .str s => some (some s)
  | _ => none

def optRat? : Sexp → Option (Option Rat)
  | .atom "none" => some none
  | e => (rat? e).map some

/-- the equations seen so far in this history, by token (`remove_equation` is given an equation, the wire a token) -/
abbrev Table := List (Nat × Eqn)

def op? (tbl : Table) : Sexp → Option (Op × Table)
  | .list [.atom "addVar", .str n, c, i] => do some (.addVariable n (← optStr? c) (← optRat? i), tbl)
  | .list [.atom "rmVar", v] => do some (.removeVariable (← nat? v), tbl)
  | .list [.atom "cmeta", v] => do some (.addCmetaId (← nat? v), tbl)
  | .list [.atom "getDef", v] => do some (.qDefinition (← nat? v), tbl)
  | .list [.atom "xfer", a, b] => do some (.transferCmetaId (← nat? a) (← nat? b), tbl)
  | .list [.atom "addEq", t, l, .list (.atom "refs" :: rs), .list (.atom "numrefs" :: ns), b] => do
      let e : Eqn := ⟨← nat? t, ← lhs? l, ← rs.mapM node?, ← ns.mapM node?, b == .atom "true"⟩
      some (.addEquation e, (e.tok, e) :: tbl)
  | .list [.atom "rmEq", t] => do
      let k ← nat? t
      some (.removeEquation ((tbl.lookup k).getD ⟨k, .other, [], [], false⟩), tbl)
  | .list [.atom "quantity"] => some (.createQuantity, tbl)
  | .list [.atom "graph"] => some (.qGraph, tbl)
  | .list [.atom "graphNum"] => some (.qGraphNum, tbl)
  | .list [.atom "states"] => some (.qStates, tbl)
  | .list [.atom "free"] => some (.qFree, tbl)
  | _ => none

def snapshot (s : MState) (deep : Bool) : Sexp :=
  let vars := s.live.map fun i =>
    match s.heap[i]? with
    | some v => .list [ofNat i, .str v.name, ofOpt .str v.cmeta, ofOpt ofRat v.init]
    | none => .list [ofNat i]
  let defs := s.live.map fun i => .list [ofNat i, ofOpt (fun e => ofNat e.tok) (getDefinition s i)]
  let types := (List.range s.heap.length).map fun i => .list [ofNat i, ofOpt ofVType (typeOf s i)]
  let base := [
    .list (.atom "vars" :: vars),
    .list (.atom "eqs" :: s.equations.map (fun e => ofNat e.tok)),
    .list (.atom "defs" :: defs),
    .list (.atom "states" :: (getStateVariables s).map ofNat),
    .list (.atom "states_unsorted" :: (stateKeys s).map ofNat),
    .list [.atom "free", ofOpt ofNat (getFreeVariable s)],
    .list (.atom "cmeta" :: s.cmetaMap.map (fun (c, i) => .list [.str c, ofNat i])),
    .list (.atom "types" :: types)]
  let graphs := if deep then
      [.list [.atom "graph", ofGraph (queryGraph s).2], .list [.atom "graphNum", ofGraph (queryGraphNum s).2]]
    else []
  .list (base ++ graphs)

/-- what the harness does to the implementation when it takes a deep snapshot: both graph properties are read -/
def perturb (s : MState) : MState := (queryGraphNum (queryGraph s).1).1

def result (s : MState) (op : Op) (before : MState) : Sexp :=
  match op with
  | .qGraph => ofGraph (queryGraph before).2
  | .qGraphNum => ofGraph (queryGraphNum before).2
  | .qStates => .list ((getStateVariables s).map ofNat)
  | .qFree => ofOpt ofNat (getFreeVariable s)
  | .qDefinition v => ofOpt (fun e => ofNat e.tok) (getDefinition s v)
  | _ => .atom "none"

def runOps (deep : Bool) (first check : Nat) : Nat → MState → Table → List Sexp → List Sexp → List Sexp
  | _, _, _, [], acc => acc.reverse
  | i, s, tbl, o :: os, acc =>
    let s := if deep && (i == first || (i == check && check < first)) then perturb s else s
    if o == .list [.atom "skip"] then
      runOps deep first check (i + 1) s tbl os (.list [.atom "skip", .atom "none", .atom "none"] :: acc)
    else match op? tbl o with
    | none => runOps deep first check (i + 1) s tbl os (.list [.atom "bad-op", .atom "none", .atom "none"] :: acc)
    | some (op, tbl') =>
      let (s1, out) := step s op
      let res := result s1 op s
      let s2 := if deep && (i ≥ first || i ≥ check) then perturb s1 else s1
      let snap := if i ≥ check then snapshot s2 deep else .atom "none"
      runOps deep first check (i + 1) s2 tbl' os (.list [ofOutcome out, res, snap] :: acc)

def handle (args : List Sexp) : Sexp :=
  match args with
  | [.atom mode, first, check, cm, .list (.atom "ops" :: ops)] =>
      match nat? first, nat? check, optStr? cm with
      | some f, some k, some c => .list (runOps (mode == "deep") f k 0 (init c) [] ops [])
      | _, _, _ => .atom "bad-request"
  | _ => .atom "bad-request"

end C08
