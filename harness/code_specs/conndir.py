"""Code-translator spec (see harness/translate_code.py and harness/code_specs/__init__.py)."""

GROUP = {'name': 'ConnDir',
 'imports': ['Cellml.Tie.LoaderView'],
 'header': 'open Load',
 'functions': [{'file': 'cellmlmanip/parser.py',
                'func': 'Parser._determine_connection_direction',
                'lean_name': 'determineConnectionDirection',
                'signature': '(self : LoaderView) (comp_1 var_1 comp_2 var_2 : String) : Except PyErr (VarObj × '
                             'VarObj)',
                'patterns': [('self.components[__A].parent', '(self.parent {A})'),
                             ('self.model.get_variable_by_name(self._get_variable_name(__A, __B))',
                              '← self.getVar {A} {B}'),
                             ('__A.public_interface', '(ifaceStr ({A}).2.pub)'),
                             ('__A.private_interface', '(ifaceStr ({A}).2.priv)')]}]}
