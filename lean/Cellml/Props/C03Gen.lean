import Cellml.Props.C03
import Cellml.Tie.GenBUnitDefs

/-! # C03 about the GENERATED code — `worklist_terminates`, `worklist_sound_partial`, `worklist_perm_partial` and the
    rejection theorems of `Props/C03.lean`, restated for `Cellml.Tie.PGenB.genAddUnits`: the set-up pass and the
    `while definitions_to_add:` loop of `Parser._add_units` as GENERATED from the source text of `cellmlmanip/parser.py`
    (`Cellml.Gen.UnitDefs.addUnitsSetup`, `addUnitsBody`, `addUnitsBody_test`, with `_make_pint_unit_definition` =
    the generated `makePintUnitDefinition` inside the body), closed by the `while` loop of `Tie/GenBWhile.lean`.

    Every theorem is a corollary of the theorem of the same name in `Props/C03.lean` through
    `genAddUnits_eq : genAddUnits id defs = errClass addErrClass (Units.addUnits id defs)` (all documents, no
    hypothesis). Hypotheses are exactly those of the originals. `meaningOf reg st n` is what
    `get_base_units(get_unit(n))` of the unit store left behind by `_add_units` answers (pint: a leaf). -/

namespace Cellml.Props.C03Gen
open Units PMap Cellml.Gen Cellml.Tie Cellml.Tie.PUnitDefs Cellml.Tie.PGenB
open Cellml.Props.C03 (GoodIdents)

/-! ## 2. The work list terminates -/

/-- `_add_units` cannot hang: the `while` loop over the GENERATED body, run with the budget `stepBound n 0` of passes
    through the `while` test (`n` = number of queued definitions), ends — and ends with the value of the total
    function `genAddUnits` — for every document. -/
theorem worklist_terminates (id : Nat) (defs : List UDef) : genAddUnitsFuel id defs = some (genAddUnits id defs) :=
  genAddUnitsFuel_eq id defs

/-- in the words of the python semantics: started in the state the generated set-up pass returns, the `while`
    statement over the generated body HAS a result (final state or exception), and it is the one `genAddUnits` reports -/
theorem worklist_terminates_bigstep (id : Nat) (defs : List UDef) (s : LoopSt)
    (hs : UnitDefs.addUnitsSetup defs (builtinRegistry, { id := id, known := [] }) = .ok s) :
    ∃ r, WhileRuns loopTest loopBody s r ∧ genAddUnits id defs = r.map loopResult :=
  genAddUnits_runs id defs s hs

theorem worklist_budget_suffices (id : Nat) (defs : List UDef) : (genAddUnitsFuel id defs).isSome = true := by
  rw [worklist_terminates]; rfl

/-! ## 3. Soundness -/

/-- SOUNDNESS of the generated `_add_units`: if it returns (unit store `(reg, st)`), every `<units>` of the document has
    a meaning according to the specification formula, no other, and `get_base_units` of the loaded unit is that meaning. -/
theorem worklist_sound_partial (id : Nat) (defs : List UDef) (reg : Registry) (st : Store) (hgood : GoodIdents defs)
    (h : genAddUnits id defs = .ok (reg, st)) :
    ∀ d ∈ defs, (∃ x, NameDen id defs d.name x) ∧
      ∀ x, NameDen id defs d.name x → meaningOf reg st d.name ≃₂ x :=
  C03.worklist_sound_partial id defs reg st hgood ((genAddUnits_ok_iff id defs (reg, st)).mp h)

/-! ## 4. Order independence -/

/-- ORDER INDEPENDENCE of the generated `_add_units`: permuting the `<units>` elements changes neither whether the
    document is loaded nor, when it is, the names known or the meaning of any name. -/
theorem worklist_perm_partial (id : Nat) {defs₁ defs₂ : List UDef} (hp : defs₁.Perm defs₂) (hgood : GoodIdents defs₁) :
    ((∃ r, genAddUnits id defs₁ = .ok r) ↔ (∃ r, genAddUnits id defs₂ = .ok r)) ∧
    ∀ reg₁ st₁ reg₂ st₂, genAddUnits id defs₁ = .ok (reg₁, st₁) → genAddUnits id defs₂ = .ok (reg₂, st₂) →
      st₁.known.Perm st₂.known ∧ ∀ d ∈ defs₁, meaningOf reg₁ st₁ d.name ≃₂ meaningOf reg₂ st₂ d.name := by
  obtain ⟨h1, h2⟩ := C03.worklist_perm_partial id hp hgood
  simp only [genAddUnits_ok_iff]
  exact ⟨h1, h2⟩

/-- COMPLETENESS of the generated `_add_units` (what `worklist_perm_partial` rests on) -/
theorem worklist_complete_partial (id : Nat) (defs : List UDef) (hgood : GoodIdents defs) (hl : Loadable id defs) :
    ∃ r, genAddUnits id defs = .ok r := by
  obtain ⟨r, hr⟩ := C03.worklist_complete_partial id defs hgood hl
  exact ⟨r, (genAddUnits_ok_iff id defs r).mpr hr⟩

/-! ## 5. Faulty documents are rejected: the generated `_add_units` raises -/

theorem reject_duplicate (id : Nat) (defs : List UDef) (h : ¬ (defs.map (·.name)).Nodup) :
    ∃ e, genAddUnits id defs = .error e :=
  (genAddUnits_error_iff id defs).mpr (C03.reject_duplicate id defs h)

theorem reject_builtin_override (id : Nat) (defs : List UDef) (d : UDef) (hd : d ∈ defs)
    (h : cellmlUnits.contains d.name = true) : ∃ e, genAddUnits id defs = .error e :=
  (genAddUnits_error_iff id defs).mpr (C03.reject_builtin_override id defs d hd h)

theorem reject_offset (id : Nat) (defs : List UDef) (d : UDef) (hd : d ∈ defs) (hb : d.base = false)
    (e : UnitElem) (he : e ∈ d.elems) (o : String) (ho : e.offset = some o) (hbad : offsetRejected o = true) :
    ∃ err, genAddUnits id defs = .error err :=
  (genAddUnits_error_iff id defs).mpr (C03.reject_offset id defs d hd hb e he o ho hbad)

theorem reject_nonzero_offset (id : Nat) (defs : List UDef) (d : UDef) (hd : d ∈ defs) (hb : d.base = false)
    (e : UnitElem) (he : e ∈ d.elems) (o : String) (ho : e.offset = some o) (q : Rat)
    (hq : Decimal.parse o = some q) (hnz : roundsToZero q = false) : ∃ err, genAddUnits id defs = .error err :=
  (genAddUnits_error_iff id defs).mpr (C03.reject_nonzero_offset id defs d hd hb e he o ho q hq hnz)

theorem reject_nonzero_offset_of_ne (id : Nat) (defs : List UDef) (d : UDef) (hd : d ∈ defs) (hb : d.base = false)
    (e : UnitElem) (he : e ∈ d.elems) (o : String) (ho : e.offset = some o) (q : Rat)
    (hq : Decimal.parse o = some q) (hne : q ≠ 0) (hden : q.den < 2 ^ 1075) :
    ∃ err, genAddUnits id defs = .error err :=
  (genAddUnits_error_iff id defs).mpr (C03.reject_nonzero_offset_of_ne id defs d hd hb e he o ho q hq hne hden)

/-- the converse, at full strength: offsets that pass the test of the source (`float(offset) == 0`: every spelling of
    zero) have no effect on what the GENERATED `_add_units` does - outcome, exception class, registry and store are
    those of the document without the `offset` attributes -/
theorem zero_offsets_ignored (id : Nat) (defs : List UDef)
    (h : ∀ d ∈ defs, d.elems.any elemOffsetBad = false) :
    genAddUnits id (defs.map C03.dropOffsets) = genAddUnits id defs := by
  rw [genAddUnits_eq, genAddUnits_eq, C03.zero_offsets_ignored id defs h]

theorem zero_offsets_ignored_of_zero (id : Nat) (defs : List UDef)
    (h : ∀ d ∈ defs, ∀ e ∈ d.elems, ∀ o, e.offset = some o → Decimal.parse o = some 0) :
    genAddUnits id (defs.map C03.dropOffsets) = genAddUnits id defs := by
  rw [genAddUnits_eq, genAddUnits_eq, C03.zero_offsets_ignored_of_zero id defs h]

theorem reject_dangling (id : Nat) (defs : List UDef) (d : UDef) (hd : d ∈ defs) (hb : d.base = false)
    (e : UnitElem) (he : e ∈ d.elems) (h1 : cellmlUnits.contains e.units = false)
    (h2 : e.units ∉ defs.map (·.name)) : ∃ err, genAddUnits id defs = .error err :=
  (genAddUnits_error_iff id defs).mpr (C03.reject_dangling id defs d hd hb e he h1 h2)

theorem reject_cycle (id : Nat) (defs : List UDef) (cyc : List UDef) (hne : cyc ≠ [])
    (h : ∀ d ∈ cyc, d ∈ defs ∧ d.base = false ∧ ∃ e ∈ d.elems, ∃ d' ∈ cyc, e.units = d'.name) :
    ∃ err, genAddUnits id defs = .error err :=
  (genAddUnits_error_iff id defs).mpr (C03.reject_cycle id defs cyc hne h)

/-! ## 6. Non-vacuity: the generated code run on concrete documents -/

/-- the chain document of `Props/C03.lean` is loaded by the generated `_add_units` … -/
example : ∃ r, genAddUnits 0 C03.chain = .ok r := by
  obtain ⟨r, hr⟩ := C03.ok_of_fuel (id := 0) (defs := C03.chain) (by decide +kernel)
  exact ⟨r, (genAddUnits_ok_iff 0 _ r).mpr hr⟩

/-- … `offset="0.0"` is accepted by the generated code (finding `valid-rejected:zero-offset-spelling`, fixed) … -/
example : ∃ r, genAddUnits 0 [⟨"degK", false, [⟨"kelvin", none, none, none, some "0.0"⟩]⟩] = .ok r := by
  obtain ⟨r, hr⟩ := C03.offset_zero_point_accepted.2.2.2.2
  exact ⟨r, (genAddUnits_ok_iff 0 _ r).mpr hr⟩

/-- … a ring of three definitions is refused with the work list's own `ValueError` (class from the source) -/
example : genAddUnits 0 C03.ring = .error ⟨"ValueError"⟩ := by
  rw [genAddUnits_eq, C03.error_of_fuel (id := 0) (defs := C03.ring) (e := stuck) (by decide +kernel)]
  rfl

end Cellml.Props.C03Gen
