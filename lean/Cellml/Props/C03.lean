import Cellml.Units.LoadableCheck
import Cellml.Units.OffsetLemmas

/-! # C03 — units definitions mean what the CellML specification says, in any order

    Model: `Units.addUnits` (`Units/Worklist.lean`: the deque loop of `Parser._add_units` as a total function) composed
    with `Units.addUnit` / `addBaseUnit` (`Units/Define.lean`: `_make_pint_unit_definition`, `UnitStore.add_unit`, the
    `_WORD` substitution) over the mini-pint registry (`Units/Core.lean`). Specification: `Units.Den`
    (`Units/Den.lean`), the formula ∏ multiplier·(10^prefix·⟦ref⟧)^exponent as an inductive relation.

    1. generated tables: every prefix name, every built-in unit (one theorem per entry);
    2. `worklist_terminates` (with an explicit bound on the number of passes);
    3. `worklist_sound`, `den_functional`, `word_subst_correct`;
    4. `worklist_loadable` / `worklist_complete` / `worklist_perm`: success is characterised by conditions that do not
       mention the order, and the meaning of every name is the same in every order;
    5. rejection theorems: duplicate, built-in override, offset, cycle, dangling reference; the offset test is exact
       (`offset_test_exact`) and a zero offset, however spelled, is the same as no offset (`zero_offsets_ignored`).

    Theorems whose name ends in `_partial` carry the hypothesis `GoodRefs` (every REFERENCED name starts with a letter
    or an underscore); the counterexample `digit_leading_reference_rejected` shows the hypothesis is needed on the
    unchanged tree. Everything else is at full strength: all definition sets, any size, any depth, any order. -/

namespace Cellml.Props.C03
open Units PMap Cellml.Gen

/-! ## 1. Generated tables -/

/-! ### 1a. `UNIT_PREFIXES` (parser.py 21-43): each SI prefix name of the schema maps to its power of ten -/

theorem prefix_yotta : prefixPower "yotta" = some 24 := by decide +kernel
theorem prefix_zetta : prefixPower "zetta" = some 21 := by decide +kernel
theorem prefix_exa : prefixPower "exa" = some 18 := by decide +kernel
theorem prefix_peta : prefixPower "peta" = some 15 := by decide +kernel
theorem prefix_tera : prefixPower "tera" = some 12 := by decide +kernel
theorem prefix_giga : prefixPower "giga" = some 9 := by decide +kernel
theorem prefix_mega : prefixPower "mega" = some 6 := by decide +kernel
theorem prefix_kilo : prefixPower "kilo" = some 3 := by decide +kernel
theorem prefix_hecto : prefixPower "hecto" = some 2 := by decide +kernel
theorem prefix_deka : prefixPower "deka" = some 1 := by decide +kernel
theorem prefix_deci : prefixPower "deci" = some (-1) := by decide +kernel
theorem prefix_centi : prefixPower "centi" = some (-2) := by decide +kernel
theorem prefix_milli : prefixPower "milli" = some (-3) := by decide +kernel
theorem prefix_micro : prefixPower "micro" = some (-6) := by decide +kernel
theorem prefix_nano : prefixPower "nano" = some (-9) := by decide +kernel
theorem prefix_pico : prefixPower "pico" = some (-12) := by decide +kernel
theorem prefix_femto : prefixPower "femto" = some (-15) := by decide +kernel
theorem prefix_atto : prefixPower "atto" = some (-18) := by decide +kernel
theorem prefix_zepto : prefixPower "zepto" = some (-21) := by decide +kernel
theorem prefix_yocto : prefixPower "yocto" = some (-24) := by decide +kernel
/-- the one key of the table that the schema does not allow: the alias `deca` -/
theorem prefix_deca : prefixPower "deca" = some 1 := by decide +kernel

/-- SI prefixes, written from the SI brochure (CellML 1.1 section 5.2.2, table 3) -/
def siPrefixes : List (String × Int) :=
  [("yotta", 24), ("zetta", 21), ("exa", 18), ("peta", 15), ("tera", 12), ("giga", 9), ("mega", 6), ("kilo", 3),
   ("hecto", 2), ("deka", 1), ("deci", -1), ("centi", -2), ("milli", -3), ("micro", -6), ("nano", -9), ("pico", -12),
   ("femto", -15), ("atto", -18), ("zepto", -21), ("yocto", -24)]

/-- the prefix names the RELAX NG schema enumerates are exactly the 20 SI names -/
theorem schema_prefixes_are_si : schemaPrefixes.Perm (siPrefixes.map Prod.fst) := by decide +kernel

/-- every name the schema allows has its SI power of ten in the table -/
theorem prefix_table : ∀ p ∈ schemaPrefixes, prefixPower p = siPrefixes.lookup p := by decide +kernel

/-- the keys of the table are the schema's names plus the alias `deca`, nothing else, none twice -/
theorem prefix_keys : (unitPrefixes.map Prod.fst).Perm ("deca" :: schemaPrefixes) ∧
    (unitPrefixes.map Prod.fst).Nodup := by decide +kernel

/-- a prefix that is not a key of the table is read as an integer power of ten (`'1e%s' % prefix`) -/
theorem prefix_integer (p : String) (h : unitPrefixes.lookup p = none) : prefixPower p = Decimal.parseInt p := by
  simp [prefixPower, h]

example : prefixPower "-3" = some (-3) ∧ prefixPower "+6" = some 6 ∧ prefixPower "12" = some 12 ∧
    prefixPower "kilos" = none := by decide +kernel

/-! ### 1b. `data/cellml_units.txt`: every built-in unit expands to the scale and SI base units of CellML 1.1,
    section 5.2.1, table 2. The expected table is written here by hand from the specification.

    `radian` and `steradian` are dimensionless derived units in the specification (m·m⁻¹, m²·m⁻²); the implementation
    keeps `radian` as a root unit that carries no dimension (pint: `radian = []`). The table records that root, so
    `lumen = cd·sr` is checked exactly, and `specDimension` drops it: the physical dimension is checked as well. -/

/-- name ↦ (power of ten of the SI scale, exponents of the SI base units kg m s A K mol cd — and `radian`) -/
def specUnits : List (String × Int × List (String × Int)) := [
  ("ampere", 0, [("ampere", 1)]),
  ("becquerel", 0, [("second", -1)]),
  ("candela", 0, [("candela", 1)]),
  ("coulomb", 0, [("second", 1), ("ampere", 1)]),
  ("dimensionless", 0, []),
  ("farad", 0, [("meter", -2), ("kilogram", -1), ("second", 4), ("ampere", 2)]),
  ("gram", -3, [("kilogram", 1)]),
  ("gray", 0, [("meter", 2), ("second", -2)]),
  ("henry", 0, [("meter", 2), ("kilogram", 1), ("second", -2), ("ampere", -2)]),
  ("hertz", 0, [("second", -1)]),
  ("joule", 0, [("meter", 2), ("kilogram", 1), ("second", -2)]),
  ("katal", 0, [("second", -1), ("mole", 1)]),
  ("kelvin", 0, [("kelvin", 1)]),
  ("kilogram", 0, [("kilogram", 1)]),
  ("liter", -3, [("meter", 3)]),
  ("litre", -3, [("meter", 3)]),
  ("lumen", 0, [("candela", 1), ("radian", 2)]),
  ("lux", 0, [("meter", -2), ("candela", 1), ("radian", 2)]),
  ("meter", 0, [("meter", 1)]),
  ("metre", 0, [("meter", 1)]),
  ("mole", 0, [("mole", 1)]),
  ("newton", 0, [("meter", 1), ("kilogram", 1), ("second", -2)]),
  ("ohm", 0, [("meter", 2), ("kilogram", 1), ("second", -3), ("ampere", -2)]),
  ("pascal", 0, [("meter", -1), ("kilogram", 1), ("second", -2)]),
  ("radian", 0, [("radian", 1)]),
  ("second", 0, [("second", 1)]),
  ("siemens", 0, [("meter", -2), ("kilogram", -1), ("second", 3), ("ampere", 2)]),
  ("sievert", 0, [("meter", 2), ("second", -2)]),
  ("steradian", 0, [("radian", 2)]),
  ("tesla", 0, [("kilogram", 1), ("second", -2), ("ampere", -1)]),
  ("volt", 0, [("meter", 2), ("kilogram", 1), ("second", -3), ("ampere", -1)]),
  ("watt", 0, [("meter", 2), ("kilogram", 1), ("second", -3)]),
  ("weber", 0, [("meter", 2), ("kilogram", 1), ("second", -2), ("ampere", -1)])]

/-- SI base unit ↦ the dimension it measures -/
def siDimension : List (String × String) :=
  [("meter", "length"), ("kilogram", "mass"), ("second", "time"), ("ampere", "current"), ("kelvin", "temperature"),
   ("mole", "substance"), ("candela", "luminosity")]

def asContainer (xs : List (String × Int)) : Container := xs.map (fun (b, e) => (b, (e : Rat)))

/-- the physical dimension of a table entry: `radian` does not count -/
def specDimension (xs : List (String × Int)) : Dims :=
  xs.filterMap (fun (b, e) => (siDimension.lookup b).map (fun d => (d, (e : Rat))))

/-- the built-in `n` means what the table says: (i) the table of root forms computed from `cellml_units.txt`
    (`Units.builtinDen`), (ii) the expansion of the unit in the registry of a fresh `UnitStore`, (iii) its dimension -/
def builtinMatches (n : String) : Bool :=
  match specUnits.lookup n with
  | none => false
  | some (p10, root) =>
      (match builtinDen n with
       | some (s, c) => beq s (pow10 p10) && beq c (asContainer root)
       | none => false) &&
      allKnown builtinRegistry (nameContainer n) &&
      beq (toRoot builtinRegistry (nameContainer n)).1 (pow10 p10) &&
      beq (toRoot builtinRegistry (nameContainer n)).2 (asContainer root) &&
      beq (dimsOf builtinRegistry (nameContainer n)) (specDimension root)

theorem builtin_ampere : builtinMatches "ampere" = true := by decide +kernel
theorem builtin_becquerel : builtinMatches "becquerel" = true := by decide +kernel
theorem builtin_candela : builtinMatches "candela" = true := by decide +kernel
theorem builtin_coulomb : builtinMatches "coulomb" = true := by decide +kernel
theorem builtin_dimensionless : builtinMatches "dimensionless" = true := by decide +kernel
theorem builtin_farad : builtinMatches "farad" = true := by decide +kernel
theorem builtin_gram : builtinMatches "gram" = true := by decide +kernel
theorem builtin_gray : builtinMatches "gray" = true := by decide +kernel
theorem builtin_henry : builtinMatches "henry" = true := by decide +kernel
theorem builtin_hertz : builtinMatches "hertz" = true := by decide +kernel
theorem builtin_joule : builtinMatches "joule" = true := by decide +kernel
theorem builtin_katal : builtinMatches "katal" = true := by decide +kernel
theorem builtin_kelvin : builtinMatches "kelvin" = true := by decide +kernel
theorem builtin_kilogram : builtinMatches "kilogram" = true := by decide +kernel
theorem builtin_liter : builtinMatches "liter" = true := by decide +kernel
theorem builtin_litre : builtinMatches "litre" = true := by decide +kernel
theorem builtin_lumen : builtinMatches "lumen" = true := by decide +kernel
theorem builtin_lux : builtinMatches "lux" = true := by decide +kernel
theorem builtin_meter : builtinMatches "meter" = true := by decide +kernel
theorem builtin_metre : builtinMatches "metre" = true := by decide +kernel
theorem builtin_mole : builtinMatches "mole" = true := by decide +kernel
theorem builtin_newton : builtinMatches "newton" = true := by decide +kernel
theorem builtin_ohm : builtinMatches "ohm" = true := by decide +kernel
theorem builtin_pascal : builtinMatches "pascal" = true := by decide +kernel
theorem builtin_radian : builtinMatches "radian" = true := by decide +kernel
theorem builtin_second : builtinMatches "second" = true := by decide +kernel
theorem builtin_siemens : builtinMatches "siemens" = true := by decide +kernel
theorem builtin_sievert : builtinMatches "sievert" = true := by decide +kernel
theorem builtin_steradian : builtinMatches "steradian" = true := by decide +kernel
theorem builtin_tesla : builtinMatches "tesla" = true := by decide +kernel
theorem builtin_volt : builtinMatches "volt" = true := by decide +kernel
theorem builtin_watt : builtinMatches "watt" = true := by decide +kernel
theorem builtin_weber : builtinMatches "weber" = true := by decide +kernel

/-- the names `_CELLML_UNITS` protects are exactly the names of the table (so none is unchecked), none twice -/
theorem builtin_names : cellmlUnits.Perm (specUnits.map Prod.fst) ∧ cellmlUnits.Nodup := by decide +kernel

/-- hence every built-in name means what the specification says -/
theorem builtin_table : ∀ n ∈ cellmlUnits, builtinMatches n = true := by
  intro n hn
  simp only [cellmlUnits, List.mem_cons, List.not_mem_nil, or_false] at hn
  rcases hn with rfl | rfl | rfl | rfl | rfl | rfl | rfl | rfl | rfl | rfl | rfl | rfl | rfl | rfl | rfl | rfl | rfl |
    rfl | rfl | rfl | rfl | rfl | rfl | rfl | rfl | rfl | rfl | rfl | rfl | rfl | rfl | rfl | rfl
  all_goals simp only [builtin_ampere, builtin_becquerel, builtin_candela, builtin_coulomb, builtin_dimensionless, builtin_farad, builtin_gram, builtin_gray, builtin_henry, builtin_hertz, builtin_joule, builtin_katal, builtin_kelvin, builtin_kilogram, builtin_liter, builtin_litre, builtin_lumen, builtin_lux, builtin_meter, builtin_metre, builtin_mole, builtin_newton, builtin_ohm, builtin_pascal, builtin_radian, builtin_second, builtin_siemens, builtin_sievert, builtin_steradian, builtin_tesla, builtin_volt, builtin_watt, builtin_weber]

/-- `celsius` is the only unit of the specification's table that is refused -/
theorem unsupported_is_celsius : unsupportedUnits = ["celsius"] := by decide +kernel

/-! ### 1c. the regular expressions and the schema pattern the namespace model was written for -/

/-- `_WORD` (units.py 66): the model `Units.wordSubst` is a character-level transcription of THIS expression -/
theorem word_regex_is_modelled : wordRegex = "(?<![0-9.])[a-zA-Z_]+[a-zA-Z0-9_]*" := by decide +kernel
/-- `_STORE_PREFIX` (units.py 69), which `UnitStore.format` removes (the harness removes it the same way) -/
theorem store_prefix_regex_is_modelled : storePrefixRegex = "(?<![a-zA-Z0-9_])store[0-9]+_" := by decide +kernel
/-- the `ident` pattern of the schema: what the generator's identifier shapes and `goodIdent` are measured against -/
theorem ident_pattern_is_modelled : identPattern = "_*[0-9a-zA-Z][_0-9a-zA-Z]*" := by decide +kernel

/-! ## 2. The work list terminates — for every input, within a known number of passes -/

/-- `_add_units` cannot hang: the loop, a total function by well-founded recursion on
    `(|deque|, |deque| + 1 − iteration)`, returns for every document; and it agrees with the loop that stops after
    `stepBound n 0` passes through the `while` test, `n` being the number of queued definitions. -/
theorem worklist_terminates (id : Nat) (defs : List UDef) : addUnitsFuel id defs = some (addUnits id defs) := by
  unfold addUnitsFuel addUnits
  split
  · rfl
  · exact loopFuel_eq_loop _ _ _ _ _ _ (Nat.le_refl _)

/-- … which is `n(n+1)/2 + n + 2` -/
theorem worklist_pass_bound (n : Nat) : 2 * stepBound n 0 = n * (n + 1) + 2 * n + 4 := by
  simp only [stepBound, Nat.sub_zero, Nat.mul_add, tri_double]
  omega

/-- the fuel-bounded loop, run with the budget, never runs out -/
theorem worklist_budget_suffices (id : Nat) (defs : List UDef) : (addUnitsFuel id defs).isSome = true := by
  rw [worklist_terminates]; rfl

/-! ## 3. Soundness: a successful load gives every unit the meaning of the specification formula -/

/-- `word_subst_correct`: on identifiers that start with a letter or an underscore, the `_WORD` substitution puts the
    store prefix in front of the whole name, exactly as `_prefix_name` does -/
theorem word_subst_correct (id : Nat) (n : String) (h : goodIdent n = true) : mangle id n = prefixName id n :=
  mangle_good id h

/-- … and it does not for an identifier that starts with a digit (valid according to the schema): the prefix lands in
    the middle of the name. Known finding `valid-rejected:digit-leading-name`. -/
theorem word_subst_digit_leading : mangle 0 "2pi" = "2pstore0_i" ∧ prefixName 0 "2pi" = "store0_2pi" := by
  decide +kernel

/-- every reference is an identifier that starts with a letter or an underscore -/
def GoodIdents (defs : List UDef) : Prop :=
  ∀ d ∈ defs, d.base = false → ∀ e ∈ d.elems, goodIdent e.units = true

theorem goodRefs_of_goodIdents (id : Nat) {defs : List UDef} (h : GoodIdents defs) : GoodRefs id defs :=
  fun d hd hb e he => mangle_good id (h d hd hb e he)

/-- names unique, none built-in ⇒ a name has at most one meaning (up to equality of the numbers denoted) -/
theorem den_functional (id : Nat) (defs : List UDef) (hnd : (defs.map (·.name)).Nodup)
    (hnb : ∀ d ∈ defs, cellmlUnits.contains d.name = false) (n : String) (x y : Scale × Container)
    (hx : NameDen id defs n x) (hy : NameDen id defs n y) : x ≃₂ y :=
  nameDen_functional hnd hnb hx hy

/-- the meaning does not depend on the order of the definitions — by construction: `Den` uses membership only -/
theorem den_perm (id : Nat) {defs₁ defs₂ : List UDef} (hp : defs₁.Perm defs₂) (n : String) (x : Scale × Container) :
    NameDen id defs₁ n x ↔ NameDen id defs₂ n x :=
  ⟨fun h => h.of_mem_iff (fun _ => hp.mem_iff), fun h => h.of_mem_iff (fun _ => hp.mem_iff.symm)⟩

/-- SOUNDNESS. If the document is loaded, then every one of its units has a meaning according to the specification
    formula, it has no other, and `get_base_units` of the loaded unit IS that meaning: the scale to the root units and
    the root-unit exponents are exactly ∏ multiplier·(10^prefix·⟦ref⟧)^exponent, to any depth of chain. -/
theorem worklist_sound_partial (id : Nat) (defs : List UDef) (reg : Registry) (st : Store) (hgood : GoodIdents defs)
    (h : addUnits id defs = .ok (reg, st)) :
    ∀ d ∈ defs, (∃ x, NameDen id defs d.name x) ∧
      ∀ x, NameDen id defs d.name x → meaningOf reg st d.name ≃₂ x := by
  intro d hd
  obtain ⟨x, hx, hxeq⟩ := addUnits_sound (goodRefs_of_goodIdents id hgood) h d hd
  have hl := addUnits_loadable h
  exact ⟨⟨x, hx⟩, fun y hy => hxeq.trans (nameDen_functional hl.nodup hl.notBuiltin hx hy)⟩

/-- the dimension follows: equal root units have equal dimensions -/
theorem worklist_sound_dims_partial (id : Nat) (defs : List UDef) (reg : Registry) (st : Store)
    (hgood : GoodIdents defs) (h : addUnits id defs = .ok (reg, st)) :
    ∀ d ∈ defs, ∀ x, NameDen id defs d.name x →
      dimsOf reg (nameContainer (prefixName st.id d.name)) ≃ dimsOfRoot reg x.2 := by
  intro d hd x hx
  have := ((worklist_sound_partial id defs reg st hgood h d hd).2 x hx).2
  exact (dimsOf_equiv reg _).trans (dimsOfRoot_congr reg this)

/-! ## 4. Order independence -/

/-- success implies the order-free conditions (full strength: no hypothesis on identifiers) -/
theorem worklist_loadable (id : Nat) (defs : List UDef) (r : Registry × Store) (h : addUnits id defs = .ok r) :
    Loadable id defs := addUnits_loadable h

/-- COMPLETENESS: unique non-built-in names, locally well-formed definitions, no cycle and no dangling reference
    ⇒ the document is loaded, whatever the order it is written in -/
theorem worklist_complete_partial (id : Nat) (defs : List UDef) (hgood : GoodIdents defs) (hl : Loadable id defs) :
    ∃ r, addUnits id defs = .ok r := addUnits_complete (goodRefs_of_goodIdents id hgood) hl

/-- the conditions do not mention the order -/
theorem loadable_perm (id : Nat) {defs₁ defs₂ : List UDef} (hp : defs₁.Perm defs₂) :
    Loadable id defs₁ ↔ Loadable id defs₂ := ⟨Loadable.perm hp, Loadable.perm hp.symm⟩

theorem goodIdents_perm {defs₁ defs₂ : List UDef} (hp : defs₁.Perm defs₂) (h : GoodIdents defs₁) : GoodIdents defs₂ :=
  fun d hd => h d (hp.mem_iff.mpr hd)

/-- the names defined by two successful loads of permuted documents are the same (full strength) -/
theorem worklist_perm_names (id : Nat) {defs₁ defs₂ : List UDef} (hp : defs₁.Perm defs₂) {reg₁ reg₂ : Registry}
    {st₁ st₂ : Store} (h₁ : addUnits id defs₁ = .ok (reg₁, st₁)) (h₂ : addUnits id defs₂ = .ok (reg₂, st₂)) :
    st₁.known.Perm st₂.known := by
  have key : ∀ {defs : List UDef} {reg : Registry} {st : Store}, addUnits id defs = .ok (reg, st) →
      st.known.Perm (defs.map (·.name)) := by
    intro defs reg st h
    obtain ⟨reg0, st0, ord, hb, hpq, hs⟩ := addUnits_ok h
    rw [(seqAdd_known ord _ _ _ _ hs).1, (addBases_known defs _ _ _ _ hb).1, List.append_nil]
    refine ((List.reverse_perm _).append (List.reverse_perm _)).trans ?_
    refine List.perm_append_comm.trans ?_
    rw [← List.map_append]
    exact ((List.Perm.append_left _ hpq).trans (bases_queue_perm defs)).map _
  exact (key h₁).trans ((hp.map _).trans (key h₂).symm)

/-- ORDER INDEPENDENCE. Permuting the `<units>` elements of a document changes neither whether it is loaded nor,
    when it is, the meaning of any name. -/
theorem worklist_perm_partial (id : Nat) {defs₁ defs₂ : List UDef} (hp : defs₁.Perm defs₂) (hgood : GoodIdents defs₁) :
    ((∃ r, addUnits id defs₁ = .ok r) ↔ (∃ r, addUnits id defs₂ = .ok r)) ∧
    ∀ reg₁ st₁ reg₂ st₂, addUnits id defs₁ = .ok (reg₁, st₁) → addUnits id defs₂ = .ok (reg₂, st₂) →
      st₁.known.Perm st₂.known ∧ ∀ d ∈ defs₁, meaningOf reg₁ st₁ d.name ≃₂ meaningOf reg₂ st₂ d.name := by
  have hgood₂ := goodIdents_perm hp hgood
  refine ⟨⟨?_, ?_⟩, ?_⟩
  · rintro ⟨r, h⟩
    exact worklist_complete_partial id defs₂ hgood₂ ((loadable_perm id hp).mp (addUnits_loadable h))
  · rintro ⟨r, h⟩
    exact worklist_complete_partial id defs₁ hgood ((loadable_perm id hp).mpr (addUnits_loadable h))
  · intro reg₁ st₁ reg₂ st₂ h₁ h₂
    refine ⟨worklist_perm_names id hp h₁ h₂, ?_⟩
    intro d hd
    obtain ⟨⟨x, hx⟩, hall₁⟩ := worklist_sound_partial id defs₁ reg₁ st₁ hgood h₁ d hd
    have hall₂ := (worklist_sound_partial id defs₂ reg₂ st₂ hgood₂ h₂ d (hp.mem_iff.mp hd)).2
    exact (hall₁ x hx).trans (hall₂ x ((den_perm id hp _ _).mp hx)).symm

/-! ## 5. Faulty documents are rejected (full strength: any size, any order, any identifiers) -/

theorem isError_of_not_loadable {id : Nat} {defs : List UDef} (h : ¬ Loadable id defs) :
    ∃ e, addUnits id defs = .error e := by
  cases hr : addUnits id defs with
  | error e => exact ⟨e, rfl⟩
  | ok r => exact absurd (addUnits_loadable hr) h

/-- two `<units>` elements with the same name (base or not, anywhere in the document) -/
theorem reject_duplicate (id : Nat) (defs : List UDef) (h : ¬ (defs.map (·.name)).Nodup) :
    ∃ e, addUnits id defs = .error e := isError_of_not_loadable (fun hl => h hl.nodup)

/-- a `<units>` element (base or not) named like a built-in unit -/
theorem reject_builtin_override (id : Nat) (defs : List UDef) (d : UDef) (hd : d ∈ defs)
    (h : cellmlUnits.contains d.name = true) : ∃ e, addUnits id defs = .error e :=
  isError_of_not_loadable (fun hl => by rw [hl.notBuiltin d hd] at h; cases h)

/-- a `<unit>` child whose offset fails the test of the source, `float(offset) == 0` (text that is not a number,
    `nan`, `inf`, or a number whose binary64 value is not zero) -/
theorem reject_offset (id : Nat) (defs : List UDef) (d : UDef) (hd : d ∈ defs) (hb : d.base = false)
    (e : UnitElem) (he : e ∈ d.elems) (o : String) (ho : e.offset = some o) (hbad : offsetRejected o = true) :
    ∃ err, addUnits id defs = .error err := by
  refine isError_of_not_loadable (fun hl => ?_)
  have h1 := (hl.loc d hd hb).1
  have h2 : d.elems.any elemOffsetBad = true := List.any_eq_true.mpr ⟨e, he, by simp [elemOffsetBad, ho, hbad]⟩
  rw [h1] at h2; cases h2

/-- in particular every offset that denotes a number whose nearest double is not zero (`roundsToZero q = false`:
    `2^-1075 < |q|`). The converse holds since the repair: `offset_test_exact`, `zero_offsets_ignored`. -/
theorem reject_nonzero_offset (id : Nat) (defs : List UDef) (d : UDef) (hd : d ∈ defs) (hb : d.base = false)
    (e : UnitElem) (he : e ∈ d.elems) (o : String) (ho : e.offset = some o) (q : Rat)
    (hq : Decimal.parse o = some q) (hnz : roundsToZero q = false) : ∃ err, addUnits id defs = .error err :=
  reject_offset id defs d hd hb e he o ho (nonzero_offset_rejected o q hq hnz)

/-- … that is every non-zero number with a denominator below `2^1075`, e.g. every non-zero decimal with at most 323
    digits after the point. (A non-zero text of magnitude ≤ `2^-1075` IS the float zero: `tiny_offset_is_float_zero`.) -/
theorem reject_nonzero_offset_of_ne (id : Nat) (defs : List UDef) (d : UDef) (hd : d ∈ defs) (hb : d.base = false)
    (e : UnitElem) (he : e ∈ d.elems) (o : String) (ho : e.offset = some o) (q : Rat)
    (hq : Decimal.parse o = some q) (hne : q ≠ 0) (hden : q.den < 2 ^ 1075) : ∃ err, addUnits id defs = .error err :=
  reject_nonzero_offset id defs d hd hb e he o ho q hq (roundsToZero_false_of_ne q hne hden)

/-- the offset test refuses EXACTLY the offsets whose value is not the float zero: for every decimal text, with exact
    value `q`, the test answers `!roundsToZero q`; a text that denotes zero always passes, in any spelling -/
theorem offset_test_exact (o : String) (q : Rat) (hq : Decimal.parse o = some q) :
    offsetRejected o = !roundsToZero q ∧ (q = 0 → offsetRejected o = false) ∧
      (q.den < 2 ^ 1075 → (offsetRejected o = false ↔ q = 0)) :=
  ⟨offsetRejected_decimal hq, fun h0 => zero_offset_accepted o (h0 ▸ hq),
    fun hden => ⟨zero_of_offset_accepted o q hq hden, fun h0 => zero_offset_accepted o (h0 ▸ hq)⟩⟩

/-! ### a zero offset, however spelled, is the same as no offset -/

/-- the `<unit>` element without its `offset` attribute -/
def dropOffset (e : UnitElem) : UnitElem := { e with offset := none }
/-- the `<units>` element with the `offset` attributes of its children removed -/
def dropOffsets (d : UDef) : UDef := { d with elems := d.elems.map dropOffset }

theorem elemMeaning_dropOffset (id : Nat) (e : UnitElem) (h : elemOffsetBad e = false) :
    elemMeaning id (dropOffset e) = elemMeaning id e := by
  obtain ⟨u, pf, ex, mu, off⟩ := e
  cases off with
  | none => rfl
  | some o =>
    have ho : offsetRejected o = false := by simpa [elemOffsetBad] using h
    simp [elemMeaning, dropOffset, ho]

theorem defMeaning_dropOffsets (id : Nat) : ∀ (es : List UnitElem), es.any elemOffsetBad = false →
    defMeaning id (es.map dropOffset) = defMeaning id es := by
  intro es
  induction es with
  | nil => intro _; rfl
  | cons e es ih =>
    intro h
    simp only [List.any_cons, Bool.or_eq_false_iff] at h
    simp only [List.map_cons, defMeaning, elemMeaning_dropOffset id e h.1, ih h.2]

theorem addNow_dropOffsets (reg : Registry) (st : Store) (d : UDef) (h : d.elems.any elemOffsetBad = false) :
    addNow reg st (dropOffsets d) = addNow reg st d := by
  have h1 : (d.elems.map dropOffset).any elemOffsetBad = false := by
    rw [List.any_map]; exact List.any_eq_false.mpr (fun e _ => by simp [dropOffset, elemOffsetBad])
  have h2 : refsKnown reg st.id (d.elems.map dropOffset) = refsKnown reg st.id d.elems := by
    simp [refsKnown, List.all_map, Function.comp_def, dropOffset]
  unfold addNow
  simp only [dropOffsets, h1, h, addUnit, h2, defMeaning_dropOffsets st.id d.elems h]

theorem loopFuel_dropOffsets : ∀ (fuel : Nat) (reg : Registry) (st : Store) (dq : List UDef) (it : Nat),
    (∀ d ∈ dq, d.elems.any elemOffsetBad = false) →
    loopFuel fuel reg st (dq.map dropOffsets) it = loopFuel fuel reg st dq it := by
  intro fuel
  induction fuel with
  | zero => intros; rfl
  | succ fuel ih =>
    intro reg st dq it h
    cases dq with
    | nil => rfl
    | cons d rest =>
      have hd := h d List.mem_cons_self
      have hr : ready st (dropOffsets d) = ready st d := by
        simp [ready, dropOffsets, List.all_map, Function.comp_def, dropOffset]
      have hsnoc : rest.map dropOffsets ++ [dropOffsets d] = (rest ++ [d]).map dropOffsets := by simp
      simp only [List.map_cons, loopFuel, hr, addNow_dropOffsets reg st d hd, hsnoc, List.length_map]
      have ih1 := fun reg' st' => ih reg' st' rest 0 (fun x hx => h x (List.mem_cons_of_mem _ hx))
      have ih2 := ih reg st (rest ++ [d]) (it + 1) (fun x hx => by
        rcases List.mem_append.mp hx with hx | hx
        · exact h x (List.mem_cons_of_mem _ hx)
        · rw [List.mem_singleton.mp hx]; exact hd)
      simp only [ih1, ih2]

theorem addBases_dropOffsets : ∀ (defs : List UDef) (reg : Registry) (st : Store),
    addBases reg st (defs.map dropOffsets) = addBases reg st defs := by
  intro defs
  induction defs with
  | nil => intros; rfl
  | cons d ds ih =>
    intro reg st
    simp only [List.map_cons, addBases, dropOffsets, ih]

theorem queue_dropOffsets (defs : List UDef) : queue (defs.map dropOffsets) = (queue defs).map dropOffsets := by
  simp [queue, List.filter_map, Function.comp_def, dropOffsets]

/-- FULL STRENGTH (the converse of `reject_offset`): in a document all of whose offsets pass the test - in particular
    all of whose offsets denote zero, in whatever spelling (`zero_offset_accepted`) - the `offset` attributes have no
    effect at all: same outcome, same registry, same store as for the document without them, in every order. -/
theorem zero_offsets_ignored (id : Nat) (defs : List UDef)
    (h : ∀ d ∈ defs, d.elems.any elemOffsetBad = false) :
    addUnits id (defs.map dropOffsets) = addUnits id defs := by
  have hf : addUnitsFuel id (defs.map dropOffsets) = addUnitsFuel id defs := by
    unfold addUnitsFuel
    rw [addBases_dropOffsets, queue_dropOffsets, List.length_map]
    split
    · rfl
    · exact loopFuel_dropOffsets _ _ _ _ _ (fun d hd => by
        have : d ∈ defs := by
          have := List.mem_reverse.mp (by simpa [queue] using hd : d ∈ (defs.filter (fun d => !d.base)).reverse)
          exact (List.mem_filter.mp this).1
        exact h d this)
  rw [worklist_terminates, worklist_terminates] at hf
  exact Option.some.inj hf

/-- the same in terms of what the attributes denote: every offset is decimal text for the number zero -/
theorem zero_offsets_ignored_of_zero (id : Nat) (defs : List UDef)
    (h : ∀ d ∈ defs, ∀ e ∈ d.elems, ∀ o, e.offset = some o → Decimal.parse o = some 0) :
    addUnits id (defs.map dropOffsets) = addUnits id defs := by
  refine zero_offsets_ignored id defs (fun d hd => List.any_eq_false.mpr (fun e he => ?_))
  cases ho : e.offset with
  | none => simp [elemOffsetBad, ho]
  | some o => simp [elemOffsetBad, ho, zero_offset_accepted o (h d hd e he o ho)]

/-- a reference to a name that is neither built-in nor defined in the document -/
theorem reject_dangling (id : Nat) (defs : List UDef) (d : UDef) (hd : d ∈ defs) (hb : d.base = false)
    (e : UnitElem) (he : e ∈ d.elems) (h1 : cellmlUnits.contains e.units = false)
    (h2 : e.units ∉ defs.map (·.name)) : ∃ err, addUnits id defs = .error err := by
  refine isError_of_not_loadable (fun hl => ?_)
  obtain ⟨ord, ho, ht⟩ := hl.topo
  have hdo : d ∈ ord := ho.mem_iff.mpr (mem_queue.mpr ⟨hd, hb⟩)
  rcases Topo.refs ord ht d hdo e he with (h | h) | h
  · rw [h1] at h; cases h
  · obtain ⟨x, hx, hn⟩ := List.mem_map.mp h
    exact h2 (List.mem_map.mpr ⟨x, (mem_basesOf.mp hx).1, hn⟩)
  · obtain ⟨x, hx, hn⟩ := List.mem_map.mp h
    exact h2 (List.mem_map.mpr ⟨x, (mem_queue.mp (ho.mem_iff.mp hx)).1, hn⟩)

/-- a non-empty group of definitions each of which refers to a member of the group (a cycle of any length, a
    self-reference, several cycles) -/
theorem reject_cycle (id : Nat) (defs : List UDef) (cyc : List UDef) (hne : cyc ≠ [])
    (h : ∀ d ∈ cyc, d ∈ defs ∧ d.base = false ∧ ∃ e ∈ d.elems, ∃ d' ∈ cyc, e.units = d'.name) :
    ∃ err, addUnits id defs = .error err := by
  cases hr : addUnits id defs with
  | error e => exact ⟨e, rfl⟩
  | ok r =>
      exfalso
      obtain ⟨reg0, st0, ord, _, hp, hs⟩ := addUnits_ok hr
      refine hne (seqAdd_no_cycle ord _ _ _ hs cyc ?_)
      intro d hd
      obtain ⟨hm, hb, rest⟩ := h d hd
      exact ⟨hp.mem_iff.mpr (mem_queue.mpr ⟨hm, hb⟩), rest⟩

/-! ## 6. Non-vacuity: concrete documents meet the hypotheses; proved counterexamples for the known findings -/

theorem ok_of_fuel {id : Nat} {defs : List UDef} (h : fuelOk id defs = true) : ∃ r, addUnits id defs = .ok r := by
  unfold fuelOk at h
  rw [worklist_terminates] at h
  split at h
  · rename_i r hr; simp only [Option.some.injEq] at hr; exact ⟨r, hr⟩
  · cases h

theorem error_of_fuel {id : Nat} {defs : List UDef} {e : AddErr} (h : fuelError id defs = some e) :
    addUnits id defs = .error e := by
  unfold fuelError at h
  rw [worklist_terminates] at h
  split at h
  · rename_i e' he; simp only [Option.some.injEq] at he h; rw [he, h]
  · cases h

theorem meaning_of_fuel {id : Nat} {defs : List UDef} {name : String} {x : Scale × Container}
    (h : loadedMeaning id defs name = some x) :
    ∃ reg st, addUnits id defs = .ok (reg, st) ∧ x = (norm (meaningOf reg st name).1, norm (meaningOf reg st name).2) := by
  unfold loadedMeaning at h
  rw [worklist_terminates] at h
  split at h
  · rename_i reg st hr
    simp only [Option.some.injEq] at hr h
    exact ⟨reg, st, hr, h.symm⟩
  · cases h

/-- a = mV;  b = a²/s;  w a new base unit;  c = 60·b·w;  d = (10³·c)^½ — written so that the work list, which pops
    from the end of the document, meets `d`, `c`, `b` before what they need and has to re-queue them -/
def chain : List UDef := [
  ⟨"a", false, [⟨"volt", some "milli", none, none, none⟩]⟩,
  ⟨"b", false, [⟨"a", none, some "2", none, none⟩, ⟨"second", none, some "-1", none, none⟩]⟩,
  ⟨"w", true, []⟩,
  ⟨"c", false, [⟨"b", none, none, some "60", none⟩, ⟨"w", none, none, none, none⟩]⟩,
  ⟨"d", false, [⟨"c", some "3", some "0.5", none, none⟩]⟩]

instance : Decidable (GoodIdents defs) := by unfold GoodIdents; infer_instance

example : GoodIdents chain := by decide +kernel
example : Loadable 0 chain := loadable_of_b (ord := [chain[0], chain[1], chain[3], chain[4]]) (by decide +kernel)
example : ∃ r, addUnits 0 chain = .ok r := ok_of_fuel (by decide +kernel)
example : ∃ r, addUnits 0 chain.reverse = .ok r := ok_of_fuel (by decide +kernel)
/-- `d` means 2^-½·3^½·5^-1 · kg·m²·s^-7/2·A^-1·w^½ = (10³ · 60 · (10⁻³ V)² / s · w)^½, in either order -/
example : loadedMeaning 0 chain "d" = some ([(2, -1/2), (3, 1/2), (5, -1)],
    [("ampere", -1), ("kilogram", 1), ("meter", 2), ("second", -7/2), ("store0_w", 1/2)]) := by decide +kernel
example : loadedMeaning 0 chain.reverse "d" = loadedMeaning 0 chain "d" := by decide +kernel
/-- the bound of `worklist_terminates` for the four queued definitions of `chain`: 16 passes -/
example : stepBound (queue chain).length 0 = 16 := by decide +kernel

/-- duplicate: second definition of `a` (here as a base unit) -/
example : ∃ e, addUnits 0 (chain ++ [⟨"a", true, []⟩]) = .error e := reject_duplicate 0 _ (by decide +kernel)
/-- override of a built-in, by an ordinary and by a base definition -/
example : ∃ e, addUnits 0 (⟨"litre", false, [⟨"metre", none, some "3", none, none⟩]⟩ :: chain) = .error e :=
  reject_builtin_override 0 _ _ List.mem_cons_self (by decide +kernel)
example : ∃ e, addUnits 0 (chain ++ [⟨"volt", true, []⟩]) = .error e :=
  reject_builtin_override 0 _ ⟨"volt", true, []⟩ (by simp) (by decide +kernel)
/-- non-zero offsets -/
example : offsetRejected "273.15" = true ∧ offsetRejected "32" = true ∧ offsetRejected "-1" = true ∧
    offsetRejected "0.5" = true ∧ offsetRejected "1e-3" = true ∧ offsetRejected "" = true ∧
    offsetRejected "0" = false ∧ offsetRejected " 00 " = false ∧ offsetRejected "0.0" = false ∧
    offsetRejected "+0" = false ∧ offsetRejected "-0" = false ∧ offsetRejected "0.00" = false ∧
    offsetRejected "0e0" = false ∧ offsetRejected "0." = false ∧ offsetRejected ".0" = false := by decide +kernel
example : ∃ e, addUnits 0 (chain ++ [⟨"fahrenheit", false, [⟨"kelvin", none, none, some "0.5555", some "255.37"⟩]⟩]) =
    .error e :=
  reject_offset 0 _ ⟨"fahrenheit", false, [⟨"kelvin", none, none, some "0.5555", some "255.37"⟩]⟩ (by simp) rfl
    ⟨"kelvin", none, none, some "0.5555", some "255.37"⟩ (by simp) "255.37" rfl (by decide +kernel)
example : ∃ e, addUnits 0 [⟨"celsius_like", false, [⟨"kelvin", none, none, none, some "-273.15"⟩]⟩] = .error e :=
  reject_nonzero_offset 0 _ _ List.mem_cons_self rfl ⟨"kelvin", none, none, none, some "-273.15"⟩ (by simp) _ rfl
    (-5463/20) (by decide +kernel) (by decide +kernel)
example : ∃ e, addUnits 0 [⟨"celsius_like", false, [⟨"kelvin", none, none, none, some "-273.15"⟩]⟩] = .error e :=
  reject_nonzero_offset_of_ne 0 _ _ List.mem_cons_self rfl ⟨"kelvin", none, none, none, some "-273.15"⟩ (by simp) _ rfl
    (-5463/20) (by decide +kernel) (by decide +kernel) (by decide +kernel)
/-- dangling reference -/
example : ∃ e, addUnits 0 (⟨"x", false, [⟨"nosuchunit", none, none, none, none⟩]⟩ :: chain) = .error e :=
  reject_dangling 0 _ _ List.mem_cons_self rfl ⟨"nosuchunit", none, none, none, none⟩ (by simp) (by decide +kernel)
    (by decide +kernel)
/-- a cycle of three hidden among valid definitions, and a self-reference -/
def ring : List UDef := [
  ⟨"p", false, [⟨"q", none, none, none, none⟩, ⟨"second", none, none, none, none⟩]⟩,
  ⟨"q", false, [⟨"r", some "kilo", none, none, none⟩]⟩,
  ⟨"r", false, [⟨"metre", none, none, none, none⟩, ⟨"p", none, some "-1", none, none⟩]⟩]
example : ∃ e, addUnits 0 (chain ++ ring) = .error e :=
  reject_cycle 0 _ ring (by decide) (by decide +kernel)
example : ∃ e, addUnits 0 [⟨"s", false, [⟨"s", none, none, none, none⟩]⟩] = .error e :=
  reject_cycle 0 _ [⟨"s", false, [⟨"s", none, none, none, none⟩]⟩] (by decide) (by decide +kernel)
/-- the error of a cycle is the work list's own: "Cycles or unknown units" -/
example : addUnits 0 ring = .error stuck := error_of_fuel (by decide +kernel)

/-! ### proved counterexamples (known findings of the unchanged tree) -/

/-- `2pi` is a valid identifier of the schema; the document is loadable according to the specification
    (`Loadable`: unique names, no cycle, …) and yet it is REJECTED, because the `_WORD` substitution mangles the
    reference. So `worklist_complete_partial` / `worklist_perm_partial` need their hypothesis `GoodIdents`.
    Known finding `valid-rejected:digit-leading-name`. -/
def twoPi : List UDef := [
  ⟨"2pi", false, [⟨"dimensionless", none, none, some "6.28", none⟩]⟩,
  ⟨"turns_per_s", false, [⟨"2pi", none, none, none, none⟩, ⟨"second", none, some "-1", none, none⟩]⟩]

theorem digit_leading_reference_rejected :
    Loadable 0 twoPi ∧ addUnits 0 twoPi = .error .undefinedUnit ∧ ¬ GoodIdents twoPi :=
  ⟨loadable_of_b (ord := twoPi) (by decide +kernel), error_of_fuel (by decide +kernel), by decide +kernel⟩

/-- the same document with the name spelled `twopi` is loaded, and `turns_per_s` means 6.28/s -/
example : loadedMeaning 0 [
    ⟨"twopi", false, [⟨"dimensionless", none, none, some "6.28", none⟩]⟩,
    ⟨"turns_per_s", false, [⟨"twopi", none, none, none, none⟩, ⟨"second", none, some "-1", none, none⟩]⟩]
    "turns_per_s" = some ([(5, -2), (157, 1)], [("second", -1)]) := by decide +kernel

/-- `offset="0.0"` is zero and is accepted: `degK` is the kelvin. Before the repair the test was `isnumeric()` and the
    document was refused (`Units.OldTest.zero_point_rejected`); finding `valid-rejected:zero-offset-spelling`, fixed. -/
theorem offset_zero_point_accepted :
    Decimal.parse "0.0" = some 0 ∧ offsetRejected "0.0" = false ∧ OldTest.offsetRejected "0.0" = true ∧
    loadedMeaning 0 [⟨"degK", false, [⟨"kelvin", none, none, none, some "0.0"⟩]⟩] "degK" = some ([], [("kelvin", 1)]) ∧
    ∃ r, addUnits 0 [⟨"degK", false, [⟨"kelvin", none, none, none, some "0.0"⟩]⟩] = .ok r :=
  ⟨by decide +kernel, by decide +kernel, by decide +kernel, by decide +kernel, ok_of_fuel (by decide +kernel)⟩

/-- `dimensionless` (carrying the multiplier) times a dimensional unit: the implementation loads the definition but
    the unit is unusable afterwards (pint `KeyError: ''`); the model marks the construct as outside its fragment.
    Known finding `unit-unusable:dimensionless-times-dimensional`. -/
theorem dimensionless_times_dimensional_outside_model :
    addUnits 0 [⟨"km", false, [⟨"dimensionless", none, none, some "1000", none⟩, ⟨"metre", none, none, none, none⟩]⟩] =
      .error (.unsupported "dimensionless mixed with dimensional units") := error_of_fuel (by decide +kernel)

end Cellml.Props.C03
