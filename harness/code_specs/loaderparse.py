"""Code-translator spec (see harness/translate_code.py and harness/code_specs/__init__.py).

Parser.parse: the ORDER of the stages and the refusal of <units> inside components = C17.loadFull.
Every stage (`self._validate`, `self._add_units`, ... `self.transform_constants`) is a leaf: a function of the threaded
parser / model state `st`, supplied by the view. The patterns are literal (no metavariables) so that a change of
the arguments of a stage is a translation error. Tie: lean/Cellml/Tie/LoaderParse.lean."""

GROUP = {'name': 'LoaderParse',
 'imports': ['Cellml.Tie.LoaderView'],
 'header': 'open Load',
 'functions': [{'file': 'cellmlmanip/parser.py',
                'func': 'Parser.parse',
                'lean_name': 'parse',
                'params': ['self', 'unit_store', 'st'],
                'state': ['st'],
                'signature': '(self : ParseView) (unit_store : Option Unit) (st : ParseState) : Except PyErr ParseState',
                'patterns': [('etree.parse(self.filepath, parser)', '← self.readTree'),
                             ('tree.getroot()', '(tree).root'),
                             ("with_ns(XmlNs.CELLML, 'component') + '/' + with_ns(XmlNs.CELLML, 'units')",
                              '"component/units"'),
                             ('model_xml.findall(units_in_comp_xpath)', '(self.unitsInComponents model_xml)')],
                'stmt_patterns': [('parser = etree.XMLParser(no_network=True)', ''),
                                  # the message of the ValueError
                                  ('msg = __A', ''),
                                  ('msg += __A', ''),
                                  ('self._validate(parser, tree)', 'self.validate tree'),
                                  ("self.model = Model(model_xml.get('name'), model_xml.get(with_ns(XmlNs.CMETA, 'id')), "
                                   "unit_store=unit_store)", 'st := self.newModel model_xml unit_store st'),
                                  ('self._add_units(model_xml)', 'st ← self.addUnits model_xml st'),
                                  ('self._add_rdf(model_xml)', 'st ← self.addRdf model_xml st'),
                                  ('component_variables = self._add_components(model_xml)',
                                   'st ← self.addComponents model_xml st'),
                                  ('self._add_relationships(model_xml)', 'st ← self.addRelationships model_xml st'),
                                  ('connected_variable_mapping = self._add_connections(model_xml)',
                                   'st ← self.addConnections model_xml st'),
                                  ('self._add_maths(component_variables, connected_variable_mapping)',
                                   'st ← self.addMaths st'),
                                  ('self.transform_constants()', 'st ← self.transformConstants st'),
                                  ('return self.model', 'return st')]}]}
