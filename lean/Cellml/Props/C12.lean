/-! Property theorems for C12 (not built yet). -/
