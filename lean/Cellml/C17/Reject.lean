import Cellml.C17.Faults

/-! # C17 — every fault class is refused by `loadFrom` (hence by `Load.load` and by `loadFull`), part 1:
    components, connections (existence, interfaces, adjacency, units, two sources, unfed relay) -/

namespace C17
open Load

/-- some `<connection>` names a component that does not exist -/
def MissingComponent (doc : Doc) : Prop :=
  ∃ k ∈ doc.conns, k.c1 ∉ doc.comps.map (·.name) ∨ k.c2 ∉ doc.comps.map (·.name)

/-- some `<map_variables>` names a variable that its component does not declare -/
def MissingVariable (doc : Doc) : Prop :=
  ∃ k ∈ doc.conns, declOf doc.comps k.end1 = none ∨ declOf doc.comps k.end2 = none

/-- two `<component>` elements have the same name -/
def DuplicateComponent (doc : Doc) : Prop := ¬ (doc.comps.map (·.name)).Nodup

/-- some connection between declared variables whose facing interfaces satisfy `P` -/
def ConnHas (doc : Doc) (P : Option (Iface × Iface) → Prop) : Prop :=
  ∃ k ∈ doc.conns, ∃ d1 d2, declOf doc.comps k.end1 = some d1 ∧ declOf doc.comps k.end2 = some d2 ∧
    P (facing (parOf doc) k d1 d2)

/-- both ends offer the value (`out` facing `out`) -/
def BothSources (doc : Doc) : Prop := ConnHas doc (· = some (.out, .out))
/-- both ends expect the value (`in` facing `in`) -/
def BothReceivers (doc : Doc) : Prop := ConnHas doc (· = some (.inn, .inn))
/-- an end declares no interface towards the other (`none` or absent) -/
def NoDirection (doc : Doc) : Prop := ConnHas doc (fun f => ∃ a b, f = some (a, b) ∧ (a = .none ∨ b = .none))
/-- the two components are neither siblings nor parent and child -/
def NonAdjacent (doc : Doc) : Prop := ConnHas doc (· = none)

instance (doc : Doc) : Decidable (MissingComponent doc) := by unfold MissingComponent; infer_instance
instance (doc : Doc) : Decidable (MissingVariable doc) := by unfold MissingVariable; infer_instance
instance (doc : Doc) : Decidable (DuplicateComponent doc) := by unfold DuplicateComponent; infer_instance

/-- `ConnHas` with a decidable `P` is decidable: the declarations are determined by the connection -/
def connHasB (doc : Doc) (p : Option (Iface × Iface) → Bool) : Bool :=
  doc.conns.any (fun k => match declOf doc.comps k.end1, declOf doc.comps k.end2 with
    | some d1, some d2 => p (facing (parOf doc) k d1 d2)
    | _, _ => false)

theorem connHasB_iff (doc : Doc) (p : Option (Iface × Iface) → Bool) :
    connHasB doc p = true ↔ ConnHas doc (fun f => p f = true) := by
  unfold connHasB ConnHas
  simp only [List.any_eq_true]
  constructor
  · rintro ⟨k, hk, h⟩
    split at h
    · rename_i d1 d2 h1 h2; exact ⟨k, hk, d1, d2, h1, h2, h⟩
    · cases h
  · rintro ⟨k, hk, d1, d2, h1, h2, h⟩
    exact ⟨k, hk, by rw [h1, h2]; exact h⟩

theorem missing_component_rejected {reg : Registry} {ust : Units.Store} {doc : Doc} (h : MissingComponent doc) :
    IsErr (loadFrom reg ust doc) := by
  refine isErr_of_not_ok (fun F hF => ?_)
  obtain ⟨_, par, dl, _, _, _, _, h3, _⟩ := loadFrom_ok_parts hF
  obtain ⟨k, hk, hm⟩ := h
  obtain ⟨a, b⟩ := (directAll_ok h3).2 k hk
  rcases hm with hm | hm
  · exact hm (by simpa using a)
  · exact hm (by simpa using b)

theorem missing_variable_rejected {reg : Registry} {ust : Units.Store} {doc : Doc} (h : MissingVariable doc) :
    IsErr (loadFrom reg ust doc) := by
  refine isErr_of_not_ok (fun F hF => ?_)
  obtain ⟨_, par, dl, _, _, _, _, h3, _⟩ := loadFrom_ok_parts hF
  obtain ⟨k, hk, hm⟩ := h
  obtain ⟨d, _, hd⟩ := directAll_mem h3 hk
  obtain ⟨d1, d2, e1, e2, _⟩ := direction_ok_facing hd
  rcases hm with hm | hm
  · rw [hm] at e1; cases e1
  · rw [hm] at e2; cases e2

theorem duplicate_component_rejected {reg : Registry} {ust : Units.Store} {doc : Doc} (h : DuplicateComponent doc) :
    IsErr (loadFrom reg ust doc) := by
  refine isErr_of_not_ok (fun F hF => ?_)
  obtain ⟨chk, _, _, _, _, h1, _⟩ := loadFrom_ok_parts hF
  exact h (checkComps_ok _ _ _ _ h1).1

/-- the general statement behind the four interface classes: facing interfaces other than `out`/`in`, `in`/`out` -/
theorem bad_facing_rejected {reg : Registry} {ust : Units.Store} {doc : Doc} {P : Option (Iface × Iface) → Prop}
    (hP : ∀ f, P f → f ≠ some (.out, .inn) ∧ f ≠ some (.inn, .out)) (h : ConnHas doc P) :
    IsErr (loadFrom reg ust doc) := by
  refine isErr_of_not_ok (fun F hF => ?_)
  obtain ⟨_, par, dl, _, _, _, h2, h3, _⟩ := loadFrom_ok_parts hF
  obtain ⟨k, hk, d1, d2, e1, e2, hp⟩ := h
  rw [parOf_eq h2] at hp
  obtain ⟨d, _, hd⟩ := directAll_mem h3 hk
  obtain ⟨d1', d2', e1', e2', hf⟩ := direction_ok_facing hd
  rw [e1] at e1'; rw [e2] at e2'
  simp only [Option.some.injEq] at e1' e2'
  subst e1' e2'
  rcases hf with ⟨hf, _⟩ | ⟨hf, _⟩
  · exact (hP _ hp).1 hf
  · exact (hP _ hp).2 hf

theorem both_sources_rejected {reg : Registry} {ust : Units.Store} {doc : Doc} (h : BothSources doc) :
    IsErr (loadFrom reg ust doc) :=
  bad_facing_rejected (fun f hf => by subst hf; exact ⟨by decide, by decide⟩) h

theorem both_receivers_rejected {reg : Registry} {ust : Units.Store} {doc : Doc} (h : BothReceivers doc) :
    IsErr (loadFrom reg ust doc) :=
  bad_facing_rejected (fun f hf => by subst hf; exact ⟨by decide, by decide⟩) h

theorem no_direction_rejected {reg : Registry} {ust : Units.Store} {doc : Doc} (h : NoDirection doc) :
    IsErr (loadFrom reg ust doc) := by
  refine bad_facing_rejected (fun f hf => ?_) h
  obtain ⟨a, b, rfl, hab⟩ := hf
  constructor <;> intro e <;> simp only [Option.some.injEq, Prod.mk.injEq] at e <;>
    rcases hab with rfl | rfl <;> simp at e

theorem non_adjacent_rejected {reg : Registry} {ust : Units.Store} {doc : Doc} (h : NonAdjacent doc) :
    IsErr (loadFrom reg ust doc) :=
  bad_facing_rejected (fun f hf => by subst hf; exact ⟨by simp, by simp⟩) h

/-! ## units across a connection -/

/-- the units of the two ends of some connection cannot be converted into each other, in either direction -/
def IncompatibleUnits (reg : Registry) (ust : Units.Store) (doc : Doc) : Prop :=
  ∃ k ∈ doc.conns,
    (∀ f, Units.factor reg (unitsOf (varTable ust doc.comps) k.end1) (unitsOf (varTable ust doc.comps) k.end2) ≠ .ok f) ∧
    (∀ f, Units.factor reg (unitsOf (varTable ust doc.comps) k.end2) (unitsOf (varTable ust doc.comps) k.end1) ≠ .ok f)

theorem incompatible_units_rejected {reg : Registry} {ust : Units.Store} {doc : Doc}
    (h : IncompatibleUnits reg ust doc) : IsErr (loadFrom reg ust doc) := by
  refine isErr_of_not_ok (fun F hF => ?_)
  obtain ⟨_, par, dl, st, _, _, _, h3, h4, _⟩ := loadFrom_ok_parts hF
  obtain ⟨k, hk, ha, hb⟩ := h
  obtain ⟨d, hd, hdir⟩ := directAll_mem h3 hk
  obtain ⟨s, t⟩ := d
  obtain ⟨f, hf⟩ := connect_ok_factor h4 s t hd
  rcases direction_ends hdir with ⟨rfl, rfl⟩ | ⟨rfl, rfl⟩
  · exact ha f hf
  · exact hb f hf

/-! ## a target with two sources -/

/-- two `<map_variables>` (at different places of the document) are directed into the same variable -/
def TwoSources (ust : Units.Store) (doc : Doc) : Prop :=
  ∃ i j : Nat, i < j ∧ ∃ ki kj, doc.conns[i]? = some ki ∧ doc.conns[j]? = some kj ∧ ∃ s1 s2 t,
    direction (parOf doc) (varTable ust doc.comps) ki = .ok (s1, t) ∧
    direction (parOf doc) (varTable ust doc.comps) kj = .ok (s2, t)

theorem two_sources_rejected {reg : Registry} {ust : Units.Store} {doc : Doc} (h : TwoSources ust doc) :
    IsErr (loadFrom reg ust doc) := by
  refine isErr_of_not_ok (fun F hF => ?_)
  obtain ⟨_, par, dl, st, _, _, h2, h3, h4, _⟩ := loadFrom_ok_parts hF
  obtain ⟨i, j, hij, ki, kj, hi, hj, s1, s2, t, di, dj⟩ := h
  rw [parOf_eq h2] at di dj
  have hmap := (directAll_ok h3).1
  have hnd := connect_ok_targets_nodup h4
  have gi : dl[i]? = some (s1, t) := by
    have := congrArg (fun l => l[i]?) hmap
    simp only [List.getElem?_map, hi, Option.map_some, di] at this
    cases hx : dl[i]? with
    | none => rw [hx] at this; cases this
    | some x => rw [hx] at this; simp only [Option.map_some, Option.some.injEq, Except.ok.injEq] at this; rw [this]
  have gj : dl[j]? = some (s2, t) := by
    have := congrArg (fun l => l[j]?) hmap
    simp only [List.getElem?_map, hj, Option.map_some, dj] at this
    cases hx : dl[j]? with
    | none => rw [hx] at this; cases this
    | some x => rw [hx] at this; simp only [Option.map_some, Option.some.injEq, Except.ok.injEq] at this; rw [this]
  have ti : (dl.map Prod.snd)[i]? = some t := by rw [List.getElem?_map, gi]; rfl
  have tj : (dl.map Prod.snd)[j]? = some t := by rw [List.getElem?_map, gj]; rfl
  obtain ⟨hi', ei⟩ := List.getElem?_eq_some_iff.mp ti
  obtain ⟨hj', ej⟩ := List.getElem?_eq_some_iff.mp tj
  have := (List.pairwise_iff_getElem.mp hnd) i j hi' hj' hij
  exact this (ei.trans ej.symm)

/-! ## a relay that nothing feeds -/

/-- some connection is directed out of a variable that has an `in` interface and is the target of no connection -/
def UnfedRelay (ust : Units.Store) (doc : Doc) : Prop :=
  ∃ k ∈ doc.conns, ∃ s t, direction (parOf doc) (varTable ust doc.comps) k = .ok (s, t) ∧
    ¬ Src (varTable ust doc.comps) s ∧
    ∀ k' ∈ doc.conns, ∀ s', direction (parOf doc) (varTable ust doc.comps) k' ≠ .ok (s', s)

theorem unfed_relay_rejected {reg : Registry} {ust : Units.Store} {doc : Doc} (h : UnfedRelay ust doc) :
    IsErr (loadFrom reg ust doc) := by
  refine isErr_of_not_ok (fun F hF => ?_)
  obtain ⟨_, par, dl, st, _, _, h2, h3, h4, _⟩ := loadFrom_ok_parts hF
  obtain ⟨k, hk, s, t, hd, hns, hno⟩ := h
  rw [parOf_eq h2] at hd hno
  obtain ⟨d, hdm, hdir⟩ := directAll_mem h3 hk
  rw [hd] at hdir
  simp only [Except.ok.injEq] at hdir
  subst hdir
  rcases connect_ok_source_fed h4 s t hdm with hs | ⟨s', hs'⟩
  · exact hns hs
  · obtain ⟨k', hk', hdk'⟩ := (directAll_spec h3).2 _ hs'
    exact hno k' hk' s' hdk'

end C17
