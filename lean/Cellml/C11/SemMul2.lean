import Cellml.C11.SemMul

/-! C11 — `print_means`, part 4: the sign extraction of `_print_Mul` keeps the product. -/
namespace C11
set_option linter.unusedSimpArgs false
variable {K : Type} [Field K] (S : Sem K)

def SemItem (i : Item) : Prop :=
  Sem1 S i.one ∧ (isMul i.e = true → (∀ f ∈ i.sub, Sem1 S f) ∧ prodK (vals S i.sub) = (ev S i.e).num)

def itemVals (items : List Item) : List K := items.map (fun i => (ev S i.e).num)

theorem vals_one (items : List Item) : vals S (items.map Item.one) = itemVals S items := by
  simp [vals, itemVals, Item.one, Function.comp]

theorem sem1_num (hL : Laws S) (k : E) (hn : isNum k = true) (hk : numOK k = true) : Sem1 S (num1 k) := by
  have hw : wf .A k = true := by cases k <;> simp [isNum] at hn <;> simp_all [wf, numOK]
  refine ⟨numDoc_num S hL k hw hn, ?_⟩
  intro b x he; simp only [num1] at he; rw [he] at hn; simp [isNum] at hn

theorem keepCoeffMul_sem (hL : Laws S) (k : E) (hn : isNum k = true) (hk : numOK k = true) (margs l : List Item1)
    (hm : ∀ f ∈ margs, Sem1 S f) (h : keepCoeffMul k margs = some l) :
    (∀ f ∈ l, Sem1 S f) ∧ prodK (vals S l) = (ev S k).num * prodK (vals S margs) := by
  unfold keepCoeffMul at h
  split at h
  · simp at h
  next m rest =>
    split at h
    · split at h
      next _ _ a b hm' =>
        split at h
        next hab =>
          simp at h; subst h
          refine ⟨fun f hf => hm f (by simp [hf]), ?_⟩
          have : a * b = 1 := by simpa using hab
          have hc : (a : K) * (b : K) = 1 := by rw [← Int.cast_mul, this]; simp
          simp only [vals, List.map_cons, prodK, hm', ev, ← mul_assoc, hc, one_mul]
        · simp at h; subst h
          refine ⟨?_, ?_⟩
          · intro f hf; simp only [List.mem_cons] at hf
            rcases hf with rfl | hf
            · exact sem1_num S hL _ rfl rfl
            · exact hm f (by simp [hf])
          · simp only [vals, List.map_cons, prodK, hm', num1, ev, Int.cast_mul]; ring
      · simp at h
    · simp at h; subst h
      refine ⟨?_, ?_⟩
      · intro f hf; simp only [List.mem_cons] at hf
        rcases hf with rfl | hf
        · exact sem1_num S hL k hn hk
        · exact hm f (by simp [hf])
      · simp only [vals, List.map_cons, prodK, num1]

theorem sgn_mul (sg : Bool) (x : K) : (if sg = true then (-1 : K) else 1) * x = if sg then -x else x := by
  cases sg <;> simp

theorem mulItems_sem (hL : Laws S) (items : List Item) (hg : ∀ i ∈ items, GoodItem i)
    (hi : ∀ i ∈ items, SemItem S i) (sg : Bool) (fs : List Item1) (h : mulItems items = some (sg, fs)) :
    (∀ f ∈ fs, Sem1 S f) ∧ (if sg then -1 else 1) * prodK (vals S fs) = prodK (itemVals S items) := by
  have hone : ∀ l : List Item, (∀ i ∈ l, SemItem S i) → ∀ f ∈ l.map Item.one, Sem1 S f := by
    intro l hl f hf; simp only [List.mem_map] at hf; obtain ⟨i, hi', rfl⟩ := hf; exact (hl i hi').1
  unfold mulItems at h
  split at h
  next c rest =>
    have hrest : ∀ i ∈ rest, SemItem S i := fun i hi' => hi i (by simp [hi'])
    have hcv : itemVals S (c :: rest) = (ev S c.e).num :: itemVals S rest := rfl
    split at h
    next hneg =>
      have hkn := isNum_negNum c.e hneg
      have hcw : wf .A c.e = true := (hg c (by simp)).1.1
      have hcneg := negNum_num S hL c.e hcw hneg
      simp only at h
      split at h
      · simp at h
      next hk =>
        simp only [Bool.not_eq_true', Bool.not_eq_false] at hk
        have hk1 := sem1_num S hL _ hkn hk
        split at h
        next hc1 =>
          have hc2 : c.e = .int (-1) := by simpa using hc1
          have hcm1 : (ev S c.e).num = -1 := by rw [hc2]; simp [ev]
          split at h
          next r =>
            simp at h; obtain ⟨rfl, rfl⟩ := h
            have hr := hrest r (by simp)
            split
            next hm =>
              refine ⟨(hr.2 hm).1, ?_⟩
              rw [hcv, prodK, hcm1, (hr.2 hm).2]; simp [itemVals, prodK]
            · refine ⟨by intro f hf; simp at hf; subst hf; exact hr.1, ?_⟩
              rw [hcv, prodK, hcm1]; simp [itemVals, vals, prodK, Item.one]
          · simp at h; obtain ⟨rfl, rfl⟩ := h
            refine ⟨hone rest hrest, ?_⟩
            rw [hcv, prodK, hcm1, vals_one]; simp
        · split at h
          · simp at h
          next r =>
            have hr := hrest r (by simp)
            have hrv : itemVals S [r] = [(ev S r.e).num] := rfl
            split at h
            next hr1 =>
              simp at h; obtain ⟨rfl, rfl⟩ := h
              have hr2 : r.e = .int 1 := by simpa using hr1
              refine ⟨by intro f hf; simp at hf; subst hf; exact hk1, ?_⟩
              rw [hcv, hrv, prodK, prodK, prodK, hcneg, hr2]; simp [vals, prodK, num1, ev]
            · split at h
              next a he =>
                simp at h; obtain ⟨rfl, rfl⟩ := h
                refine ⟨?_, ?_⟩
                · intro f hf; simp at hf
                  rcases hf with rfl | rfl
                  · exact hk1
                  · exact hr.1
                · rw [hcv, hrv, prodK, prodK, prodK, hcneg]; simp [vals, prodK, num1, Item.one]
              next a he =>
                simp only [Option.map_eq_some_iff] at h
                obtain ⟨l, hl, hl2⟩ := h
                simp at hl2; obtain ⟨rfl, rfl⟩ := hl2
                have hm := hr.2 (by simp [he, isMul])
                have := keepCoeffMul_sem S hL _ hkn hk _ _ hm.1 hl
                refine ⟨this.1, ?_⟩
                rw [hcv, hrv, prodK, prodK, prodK, hcneg, this.2, hm.2]; simp
              next =>
                split at h
                · simp at h; obtain ⟨rfl, rfl⟩ := h
                  refine ⟨?_, ?_⟩
                  · intro f hf; simp at hf
                    rcases hf with rfl | rfl
                    · exact hk1
                    · exact hr.1
                  · rw [hcv, hrv, prodK, prodK, prodK, hcneg]; simp [vals, prodK, num1, Item.one]
                · simp at h
          · simp only [Option.map_eq_some_iff] at h
            obtain ⟨l, hl, hl2⟩ := h
            simp at hl2; obtain ⟨rfl, rfl⟩ := hl2
            have := keepCoeffMul_sem S hL _ hkn hk _ _ (hone rest hrest) hl
            refine ⟨this.1, ?_⟩
            rw [hcv, prodK, hcneg, this.2, vals_one]; simp
    · simp at h; obtain ⟨rfl, rfl⟩ := h
      refine ⟨hone _ hi, ?_⟩
      rw [show c.one :: List.map Item.one rest = List.map Item.one (c :: rest) from rfl, vals_one]; simp
  · simp at h

end C11
