import Cellml.Generated.Code.ConnSetup
import Cellml.Tie.ConnDir
import Cellml.Tie.LoaderStagesB

/-! # Closed GENERATED stages of `Parser.parse`, part C: the SET-UP part of `_add_connections`

    `Gen.ConnSetup.addConnectionsSetup` is every statement of `Parser._add_connections` that precedes
    `while connections_to_process:` (spec key `before_while`): `connected_variable_mapping = {}`, the two nested `for`
    loops over `<connection>` / `<map_variables>` (existence of the two components, `_determine_connection_direction` —
    the GENERATED one), and `unchanged_loop_count = 0`.

    `connSetup_tie`: on the `<connection>` elements of a `Load.Doc` it is `Load.directAll` (same deque, same exception
    class), the counter it returns is `0` and the mapping it leaves is empty — the start values of the closed loop
    `genConnectLoop`, which until now were written by hand in `genConnect`.

    A `Load.Doc` keeps one entry per `<map_variables>` (`Doc.conns`); `connElems` writes them back as XML, one
    `<connection>` per entry (the code tests the two components once per `<connection>`, the model once per entry: the
    same tests, repeated). -/

namespace Cellml.Tie.LoaderClose
open Load Cellml.Gen Cellml.Tie Cellml.Tie.PLoaderClose

/-- the `<connection>` elements of a `Load.Doc`: one per `<map_variables>` -/
def connElems (conns : List Conn) : List ConnElem := conns.map (fun c => ⟨c.c1, c.c2, [⟨c.v1, c.v2⟩]⟩)

/-- the body of `for child in connection.findall(…'map_variables')` -/
def csInner (self : ConnSetupView) (c : ConnElem) (child : MapVars) (dq : List (VRef × VRef)) :
    Except PyErr (ForInStep (List (VRef × VRef))) := do
  let r ← ConnDir.determineConnectionDirection self.loader c.component_1 child.variable_1 c.component_2 child.variable_2
  pure (ForInStep.yield (dq ++ [varIds r]))

/-- the body of `for connection in connection_elements` (the two `raise`s written as results) -/
def csStep (self : ConnSetupView) (c : ConnElem) (dq : List (VRef × VRef)) :
    Except PyErr (ForInStep (List (VRef × VRef))) :=
  if (!Py.isIn c.component_1 self.components) = true then .error ⟨"ValueError"⟩
  else if (!Py.isIn c.component_2 self.components) = true then .error ⟨"ValueError"⟩
  else do
    let s ← forIn c.maps dq (csInner self c)
    pure (ForInStep.yield s)

/-- the generated set-up is the loop over `csStep`, the counter `0`, the mapping emptied -/
theorem addConnectionsSetup_forIn (self : ConnSetupView) (model : ConnsElem) (st : CState) :
    ConnSetup.addConnectionsSetup self model st =
      (forIn model.connections ([] : List (VRef × VRef)) (csStep self) >>= fun dq =>
        pure (dq, 0, { st with mapping := [] })) := by
  unfold ConnSetup.addConnectionsSetup
  simp only []
  rfl

theorem csLoop (comps : List String) (par : ParentMap) (vt : VarTable) : ∀ (conns : List Conn) (dq : List (VRef × VRef)),
    forIn (connElems conns) dq (csStep ⟨comps, loaderView par vt⟩) =
      match directAll comps par vt conns with
      | .error e => .error ⟨e.className⟩
      | .ok ds => .ok (dq ++ ds)
  | [], dq => by simp [connElems, directAll]; rfl
  | c :: r, dq => by
    simp only [connElems, List.map_cons]
    rw [List.forIn_cons]
    simp only [csStep, Py.isIn, directAll]
    by_cases h1 : c.c1 ∈ comps
    case neg => simp [h1, bind, Except.bind, Err.className]
    case pos =>
      by_cases h2 : c.c2 ∈ comps
      case neg => simp [h1, h2, bind, Except.bind, Err.className]
      case pos =>
        have e1 : comps.contains c.c1 = true := by simpa using h1
        have e2 : comps.contains c.c2 = true := by simpa using h2
        simp only [e1, e2, Bool.not_true, Bool.false_eq_true, if_false]
        have ht := connDir_tie par vt c
        simp only [List.forIn_cons, List.forIn_nil, csInner]
        cases hd : ConnDir.determineConnectionDirection (loaderView par vt) c.c1 c.v1 c.c2 c.v2 with
        | error e =>
          rw [hd] at ht
          cases hm : direction par vt c with
          | error e' =>
            rw [hm] at ht
            simp only [Except.map, errClass, Except.error.injEq] at ht
            simp [bind, Except.bind, ht]
          | ok d => rw [hm] at ht; simp [Except.map, errClass] at ht
        | ok p =>
          rw [hd] at ht
          cases hm : direction par vt c with
          | error e' => rw [hm] at ht; simp [Except.map, errClass] at ht
          | ok d =>
            rw [hm] at ht
            simp only [Except.map, errClass, Except.ok.injEq] at ht
            simp only [bind, Except.bind, pure, Except.pure, varIds, ht]
            have ih := csLoop comps par vt r (dq ++ [d])
            simp only [connElems] at ih
            rw [ih]
            cases directAll comps par vt r <;> simp

/-- **the set-up part of `Parser._add_connections`** (generated from the source, `_determine_connection_direction` the
    generated one): for every set of component names, encapsulation map, variable table, list of connections and
    work-list state it raises exactly when `Load.directAll` does (same class) and otherwise returns `directAll`'s deque,
    `unchanged_loop_count = 0` and the state with an empty `connected_variable_mapping` -/
theorem connSetup_tie (comps : List String) (par : ParentMap) (vt : VarTable) (conns : List Conn) (st : CState) :
    ConnSetup.addConnectionsSetup ⟨comps, loaderView par vt⟩ ⟨connElems conns⟩ st =
      match directAll comps par vt conns with
      | .error e => .error ⟨e.className⟩
      | .ok dl => .ok (dl, 0, { st with mapping := [] }) := by
  rw [addConnectionsSetup_forIn]
  show (forIn (connElems conns) [] (csStep ⟨comps, loaderView par vt⟩) >>= _) = _
  rw [csLoop]
  cases directAll comps par vt conns <;> simp [bind, Except.bind, pure, Except.pure]

theorem direction_err_class {par : ParentMap} {vt : VarTable} {c : Conn} {e : Err}
    (h : direction par vt c = .error e) : C17.className e = e.className := by
  unfold direction at h
  split at h
  · cases h; rfl
  · cases h; rfl
  · split at h
    · split at h
      · cases h
      · split at h
        · cases h
        · cases h; rfl
    · split at h
      · unfold directionPC at h
        split at h
        · cases h
        · split at h
          · cases h
          · cases h; rfl
      · split at h
        · unfold directionPC at h
          split at h
          · cases h
          · split at h
            · cases h
            · cases h; rfl
        · cases h; rfl

theorem directAll_err_class (comps : List String) (par : ParentMap) (vt : VarTable) : ∀ (conns : List Conn) (e : Err),
    directAll comps par vt conns = .error e → C17.className e = e.className
  | [], _, h => by cases h
  | c :: r, e, h => by
    simp only [directAll] at h
    split at h
    · cases h; rfl
    · split at h
      · cases h; rfl
      · split at h
        · rename_i e' hd
          cases h
          exact direction_err_class hd
        · split at h
          · rename_i e' hr
            cases h
            exact directAll_err_class comps par vt r _ hr
          · cases h

end Cellml.Tie.LoaderClose
