/-! # Spike (built by no check): C10 right-hand sides with UNINTERPRETED functions

    Design for item 2 of notes/reports/MODELFIX_Strip.md.  Today `Model.Expr.opq (refs : List Node)` has references but
    no value: `evalE` / `Expr.bindD` answer `unsupported`, `Den` gives it no value, and every tie of `_get_value` carries
    `opqFree`.  python evaluates such a right-hand side (`b = exp(a)` → 7.389…).

    What python does with an opaque sub-term `f(...)` whose references are `refs`: `expand_derivatives` replaces the
    DERIVATIVES among the references by the expanded right-hand sides of their ODEs (`xreplace` reaches inside `f`), the
    variables of the result become `deps`, and `float(expr.xreplace(evaluated))` evaluates `f` at the values of its
    argument places.  So the opaque node needs (a) an identity that survives the expansion - the ORIGINAL reference list,
    which is all the wire format sends - and (b) one argument expression per reference, initially the reference itself,
    which `bindD` rewrites.  The interpretation is over opaque NODES: `fn refs vals` = the value of the opaque sub-term
    with reference list `refs` when its references have the values `vals` (`none`: SymPy yields no finite float).
    ASSUMED by this reading: (1) the value of an opaque sub-term depends only on the values of its references (true of
    every SymPy function application: it is a term over them); (2) two opaque sub-terms with the same reference list
    are the same term (the wire format cannot tell `exp(a)` from `sin(a)`; a theorem "for every `fn`" is about one
    unknown function per reference list - to lift this, send an id with each `opq` and key `fn` by it).

    Below: the extended `Expr` (a nested inductive), `bindD`, `evalE`, `Den` with the new rule, and the two lemmas every
    other proof of `C10/Eval.lean` rests on, for the new constructor: `den_unique` and `evalE_good` (soundness AND
    "an error means no value").  All by structural recursion; core Lean only. -/

namespace Spike

inductive Node | var (v : Nat) | deriv (s t : Nat)
deriving DecidableEq, Repr

inductive Expr
  | num (q : Int)                      -- `Rat` in the real model; irrelevant here
  | var (v : Nat)
  | deriv (s t : Nat)
  | add (a b : Expr)
  | opq (refs : List Node) (args : List Expr)
deriving Repr

/-- the argument places of a fresh opaque node: its references themselves (what the driver builds from `(opq node…)`) -/
def nodeExpr : Node → Expr
  | .var v => .var v
  | .deriv s t => .deriv s t

def Expr.ofWire (refs : List Node) : Expr := .opq refs (refs.map nodeExpr)

inductive VErr | noDefinition | arith | fuel
deriving DecidableEq, Repr

abbrev Interp := List Node → List Int → Option Int

mutual
  /-- replace every derivative, also inside the argument places of opaque nodes -/
  def Expr.bindD (f : Nat → Nat → Except VErr Expr) : Expr → Except VErr Expr
    | .deriv s t => f s t
    | .add a b =>
      match a.bindD f, b.bindD f with
      | .ok a', .ok b' => .ok (.add a' b')
      | .error e, _ => .error e
      | _, .error e => .error e
    | .opq refs args =>
      match bindDs f args with
      | .ok args' => .ok (.opq refs args')
      | .error e => .error e
    | e => .ok e
  def bindDs (f : Nat → Nat → Except VErr Expr) : List Expr → Except VErr (List Expr)
    | [] => .ok []
    | a :: as =>
      match a.bindD f, bindDs f as with
      | .ok a', .ok as' => .ok (a' :: as')
      | .error e, _ => .error e
      | _, .error e => .error e
end

abbrev Memo := List (Nat × Int)

mutual
  /-- `float(expr.xreplace(evaluated))` under the interpretation `fn` -/
  def evalE (fn : Interp) (m : Memo) : Expr → Except VErr Int
    | .num q => .ok q
    | .var v => match m.lookup v with | some q => .ok q | none => .error .noDefinition
    | .deriv _ _ => .error .noDefinition
    | .add a b =>
      match evalE fn m a, evalE fn m b with
      | .ok p, .ok q => .ok (p + q)
      | .error e, _ => .error e
      | _, .error e => .error e
    | .opq refs args =>
      match evalEs fn m args with
      | .ok vals => (match fn refs vals with | some r => .ok r | none => .error .arith)
      | .error e => .error e
  def evalEs (fn : Interp) (m : Memo) : List Expr → Except VErr (List Int)
    | [] => .ok []
    | a :: as =>
      match evalE fn m a, evalEs fn m as with
      | .ok p, .ok ps => .ok (p :: ps)
      | .error e, _ => .error e
      | _, .error e => .error e
end

-- what variables denote (stands for the `state` / `defn` / `free` rules of `C10/Den.lean`)
variable (val : Nat → Option Int)

mutual
  inductive Den (fn : Interp) : Expr → Int → Prop
    | num (q) : Den fn (.num q) q
    | var {v q} : val v = some q → Den fn (.var v) q
    | add {a b p q} : Den fn a p → Den fn b q → Den fn (.add a b) (p + q)
    /-- NEW: an opaque node denotes `fn refs vals` when its argument places denote `vals` -/
    | opq {refs args vals r} : Dens fn args vals → fn refs vals = some r → Den fn (.opq refs args) r
  inductive Dens (fn : Interp) : List Expr → List Int → Prop
    | nil : Dens fn [] []
    | cons {a as p ps} : Den fn a p → Dens fn as ps → Dens fn (a :: as) (p :: ps)
end

variable {val}

mutual
  theorem den_unique {fn : Interp} : ∀ {e : Expr} {q q' : Int}, Den val fn e q → Den val fn e q' → q = q'
    | _, _, _, .num _, .num _ => rfl
    | _, _, _, .var h, .var h' => by rw [h] at h'; exact Option.some.inj h'
    | _, _, _, .add ha hb, .add ha' hb' => by rw [den_unique ha ha', den_unique hb hb']
    | _, _, _, .opq hs hf, .opq hs' hf' => by
      rw [dens_unique hs hs'] at hf; rw [hf] at hf'; exact Option.some.inj hf'
  theorem dens_unique {fn : Interp} : ∀ {es : List Expr} {qs qs' : List Int}, Dens val fn es qs → Dens val fn es qs' → qs = qs'
    | _, _, _, .nil, .nil => rfl
    | _, _, _, .cons h hs, .cons h' hs' => by rw [den_unique h h', dens_unique hs hs']
end

/-- the memo holds denoted values, and only for variables that denote something when they are missing -/
def MemoOK (m : Memo) : Prop := ∀ v, (∀ q, m.lookup v = some q → val v = some q) ∧ (m.lookup v = none → val v = none)

def GoodE (fn : Interp) (e : Expr) : Except VErr Int → Prop
  | .ok q => Den val fn e q
  | .error err => err ≠ .fuel ∧ ∀ q, ¬ Den val fn e q

def GoodEs (fn : Interp) (es : List Expr) : Except VErr (List Int) → Prop
  | .ok qs => Dens val fn es qs
  | .error err => err ≠ .fuel ∧ ∀ qs, ¬ Dens val fn es qs

def Expr.derivFree : Expr → Bool
  | .deriv _ _ => false
  | .add a b => a.derivFree && b.derivFree
  | .opq _ args => args.attach.all fun ⟨a, _⟩ => a.derivFree
  | _ => true

mutual
  /-- **`evalE` computes what the expression denotes, for EVERY interpretation** (on an expanded tree) -/
  theorem evalE_good (fn : Interp) {m : Memo} (hm : MemoOK (val := val) m) :
      ∀ (e : Expr), e.derivFree = true → GoodE (val := val) fn e (evalE fn m e)
    | .num q, _ => Den.num q
    | .var v, _ => by
      unfold evalE
      cases h : m.lookup v with
      | some q => exact Den.var ((hm v).1 q h)
      | none =>
        refine ⟨by decide, fun q hq => ?_⟩
        cases hq with | var hv => rw [(hm v).2 h] at hv; cases hv
    | .deriv _ _, h => by simp [Expr.derivFree] at h
    | .add a b, h => by
      simp only [Expr.derivFree, Bool.and_eq_true] at h
      have iha := evalE_good fn hm a h.1
      have ihb := evalE_good fn hm b h.2
      unfold evalE
      cases ha : evalE fn m a with
      | error e => rw [ha] at iha; exact ⟨iha.1, fun q hq => by cases hq with | add h1 _ => exact iha.2 _ h1⟩
      | ok p =>
        rw [ha] at iha
        cases hb : evalE fn m b with
        | error e => rw [hb] at ihb; exact ⟨ihb.1, fun q hq => by cases hq with | add _ h2 => exact ihb.2 _ h2⟩
        | ok q => rw [hb] at ihb; exact Den.add iha ihb
    | .opq refs args, h => by
      have ih := evalEs_good fn hm args (by
        intro a ha
        simp only [Expr.derivFree, List.all_eq_true] at h
        exact h ⟨a, ha⟩ (List.mem_attach _ _))
      unfold evalE
      cases hv : evalEs fn m args with
      | error e => rw [hv] at ih; exact ⟨ih.1, fun q hq => by cases hq with | opq hs _ => exact ih.2 _ hs⟩
      | ok vals =>
        rw [hv] at ih
        dsimp only
        cases hf : fn refs vals with
        | some r => exact Den.opq ih hf
        | none =>
          refine ⟨by decide, fun q hq => ?_⟩
          cases hq with
          | opq hs hf' => rw [dens_unique hs ih, hf] at hf'; cases hf'
  theorem evalEs_good (fn : Interp) {m : Memo} (hm : MemoOK (val := val) m) :
      ∀ (es : List Expr), (∀ a ∈ es, a.derivFree = true) → GoodEs (val := val) fn es (evalEs fn m es)
    | [], _ => Dens.nil
    | a :: as, h => by
      have iha := evalE_good fn hm a (h a (List.mem_cons_self ..))
      have ihs := evalEs_good fn hm as (fun x hx => h x (List.mem_cons_of_mem _ hx))
      unfold evalEs
      cases ha : evalE fn m a with
      | error e => rw [ha] at iha; exact ⟨iha.1, fun q hq => by cases hq with | cons h1 _ => exact iha.2 _ h1⟩
      | ok p =>
        rw [ha] at iha
        cases hb : evalEs fn m as with
        | error e => rw [hb] at ihs; exact ⟨ihs.1, fun q hq => by cases hq with | cons _ h2 => exact ihs.2 _ h2⟩
        | ok ps => rw [hb] at ihs; exact Dens.cons iha ihs
end

/-- `b = f(a)` with `a = 2`: for every interpretation, `evalE` returns `fn [a] [2]` whenever that is a value -/
example (fn : Interp) (r : Int) (h : fn [.var 0] [2] = some r) :
    evalE fn [(0, 2)] (Expr.ofWire [.var 0]) = .ok r := by
  simp [Expr.ofWire, nodeExpr, evalE, evalEs, List.lookup, h]

end Spike
