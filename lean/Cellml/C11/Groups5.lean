import Cellml.C11.Groups4

/-! C11 — `print_groups`, part 5: the induction over the expression. -/
namespace C11
set_option linter.unusedSimpArgs false

theorem Q_elim (e : E) (hq : Q e) (hl : isList e = false) (s : Srt) (hw : wf s e = true)
    (hs : (pr e).st = .ok) : PyOK (pr e).doc = true ∧ Lv s e (pr e).doc := by
  rcases hq with h | h
  · rw [hl] at h; cases h
  · exact h s hw hs

theorem lvA_of_100 (e : E) (d : Doc) (h : level d = 100) : LvA e d := by
  simp [LvA, h]

theorem lvB_of_100 (e : E) (d : Doc) (h : level d = 100) : LvB e d := by
  simp [LvB, h]

theorem lv_of_100 (s : Srt) (e : E) (d : Doc) (h : level d = 100) : Lv s e d := by
  cases s
  · exact lvA_of_100 e d h
  · exact lvB_of_100 e d h
  · trivial

theorem Q_leaf100 (e : E) (d : Doc) (hpr : pr e = okDoc d) (hd : PyOK d = true) (h100 : level d = 100) : Q e := by
  refine Or.inr (fun s _ _ => ?_)
  rw [hpr]; exact ⟨hd, lv_of_100 s e d h100⟩

theorem Q_num (e : E) (hn : isNum e = true) (hdoc : (pr e).doc = numDoc e) : Q e := by
  refine Or.inr (fun s hw _ => ?_)
  have hs : s = .A := by cases e <;> simp [isNum] at hn <;> simp [wf] at hw <;> simp_all
  subst hs
  rw [hdoc]
  exact numDoc_ok e hw hn

theorem M_of_leaf (e : E) (hq : Q e) (hk : kids e = []) (hl : toList e = []) : M e := by
  refine ⟨⟨hq, ?_⟩, ?_⟩
  · intro c hc; rw [hk] at hc; cases hc
  · intro c hc; rw [hl] at hc; cases hc

theorem M_leaves :
    (∀ n c, M (.sym n c)) ∧ (∀ n, M (.int n)) ∧ (∀ p q, M (.rat p q)) ∧ (∀ t n, M (.flt t n)) ∧ M .pi ∧ M .e1 ∧
    M .tt ∧ M .ff ∧ (∀ x t, M (.deriv x t)) ∧ (∀ w, M (.other w)) := by
  refine ⟨?_, ?_, ?_, ?_, ?_, ?_, ?_, ?_, ?_, ?_⟩
  · intro n c; exact M_of_leaf _ (Q_leaf100 _ _ rfl rfl rfl) rfl rfl
  · intro n; exact M_of_leaf _ (Q_num _ rfl rfl) rfl rfl
  · intro p q; exact M_of_leaf _ (Q_num _ rfl rfl) rfl rfl
  · intro t n; exact M_of_leaf _ (Q_num _ rfl rfl) rfl rfl
  · exact M_of_leaf _ (Q_leaf100 _ _ rfl rfl rfl) rfl rfl
  · exact M_of_leaf _ (Q_leaf100 _ _ rfl rfl rfl) rfl rfl
  · exact M_of_leaf _ (Q_leaf100 _ _ rfl rfl rfl) rfl rfl
  · exact M_of_leaf _ (Q_leaf100 _ _ rfl rfl rfl) rfl rfl
  · intro x t; exact M_of_leaf _ (Q_leaf100 _ _ rfl (by simp) rfl) rfl rfl
  · intro w
    refine M_of_leaf _ (Or.inr (fun s _ hs => ?_)) rfl rfl
    simp [pr] at hs

theorem items_facts (a : E) (s : Srt) (hl : isList a = true) (hw : wf s a = true) (hst : (pr a).st = .ok)
    (hq : ∀ h ∈ toList a, Q h) :
    (pr a).items = (toList a).map mk ∧
      ∀ h ∈ toList a, wf s h = true ∧ isList h = false ∧ (pr h).st = .ok ∧ PyOK (pr h).doc = true ∧
        Lv s h (pr h).doc := by
  have hp := proper_of_wf s a hl hw
  refine ⟨items_list a hp, ?_⟩
  intro h hh
  have h1 := wf_list s a hw h hh
  have h2 := st_list a hp hst h hh
  have h3 := Q_elim h (hq h hh) h1.2 s h1.1 h2
  exact ⟨h1.1, h1.2, h2, h3.1, h3.2⟩

theorem not_recip_of_not_pow (e : E) (h : ∀ b x, e ≠ .pow b x) : isRecip e = false := by
  cases e <;> first | rfl | exact absurd rfl (h _ _)

theorem Q_add (a : E) (hq : ∀ h ∈ toList a, Q h) : Q (.add a) := by
  refine Or.inr (fun s hw hst => ?_)
  simp only [wf, Bool.and_eq_true, beq_iff_eq] at hw
  obtain ⟨⟨rfl, hl⟩, hwa⟩ := hw
  simp only [pr] at hst ⊢
  split at hst
  · cases hst
  next hne =>
    have hf := items_facts a .A hl hwa hst hq
    have hall : ∀ i ∈ (pr a).items, (PyOK i.doc = true ∧ 40 ≤ level i.doc) ∧ 40 ≤ prec i.e := by
      rw [hf.1]; intro i hi; simp only [List.mem_map] at hi
      obtain ⟨h, hh, rfl⟩ := hi
      have := hf.2 h hh
      exact ⟨⟨this.2.2.2.1, this.2.2.2.2.1⟩, precA_ge_40 h this.1 this.2.1⟩
    have := addDoc_ok (pr a).items (by intro h; simp [h] at hne) hall
    refine ⟨this.1, ?_⟩
    show LvA _ _
    simp only [LvA, precA, not_recip_of_not_pow (.add a) (by intro b x h; cases h), prec]
    exact ⟨this.2, by simp, by simp, by simp⟩

theorem Q_and (a : E) (hq : ∀ h ∈ toList a, Q h) : Q (.and a) := by
  refine Or.inr (fun s hw hst => ?_)
  simp only [wf, Bool.and_eq_true, beq_iff_eq] at hw
  obtain ⟨⟨⟨rfl, hl⟩, hwa⟩, _⟩ := hw
  simp only [pr] at hst ⊢
  split at hst
  · cases hst
  next hne =>
    have hf := items_facts a .B hl hwa hst hq
    have hall : ∀ i ∈ (pr a).items, PyOK i.doc = true ∧ LvB i.e i.doc := by
      rw [hf.1]; intro i hi; simp only [List.mem_map] at hi
      obtain ⟨h, hh, rfl⟩ := hi
      have := hf.2 h hh
      exact ⟨this.2.2.2.1, this.2.2.2.2⟩
    have := andChain_ok (pr a).items (by intro h; simp [h] at hne) hall
    refine ⟨this.1, ?_⟩
    show LvB _ _
    simp only [LvB, precA, not_recip_of_not_pow (.and a) (by intro b x h; cases h), prec]
    exact ⟨by omega, fun _ => this.2, by simp, by simp⟩

theorem Q_or (a : E) (hq : ∀ h ∈ toList a, Q h) : Q (.or a) := by
  refine Or.inr (fun s hw hst => ?_)
  simp only [wf, Bool.and_eq_true, beq_iff_eq] at hw
  obtain ⟨⟨⟨rfl, hl⟩, hwa⟩, _⟩ := hw
  simp only [pr] at hst ⊢
  split at hst
  · cases hst
  next hne =>
    have hf := items_facts a .B hl hwa hst hq
    have hall : ∀ i ∈ (pr a).items, PyOK i.doc = true ∧ LvB i.e i.doc := by
      rw [hf.1]; intro i hi; simp only [List.mem_map] at hi
      obtain ⟨h, hh, rfl⟩ := hi
      have := hf.2 h hh
      exact ⟨this.2.2.2.1, this.2.2.2.2⟩
    have := orChain_ok (pr a).items (by intro h; simp [h] at hne) hall
    refine ⟨this.1, ?_⟩
    show LvB _ _
    simp only [LvB, precA, not_recip_of_not_pow (.or a) (by intro b x h; cases h), prec]
    exact ⟨this.2, by simp, by simp, by simp⟩

theorem listDoc_ok (a : E) (hp : proper a = true)
    (h : ∀ x ∈ toList a, PyOK (pr x).doc = true ∧ 10 ≤ level (pr x).doc) : PyOK (pr a).doc = true := by
  induction a with
  | nil => simp [pr, okDoc]
  | cons x t _ iht =>
      simp only [proper] at hp
      have hx := h x (by simp [toList])
      have := iht hp (fun y hy => h y (by simp [toList, hy]))
      simp [pr, hx.1, hx.2, this]
  | _ => simp [proper] at hp

theorem Q_fn (name : String) (a : E) (hq : ∀ h ∈ toList a, Q h) : Q (.fn name a) := by
  refine Or.inr (fun s hw hst => ?_)
  simp only [wf, Bool.and_eq_true, beq_iff_eq] at hw
  obtain ⟨⟨rfl, hl⟩, hwa⟩ := hw
  simp only [pr] at hst ⊢
  split at hst
  next f hf =>
    simp only [hf]
    simp only at hst
    have hfa := items_facts a .A hl hwa hst hq
    have := listDoc_ok a (proper_of_wf .A a hl hwa) (fun x hx => by
      have := hfa.2 x hx
      exact ⟨this.2.2.2.1, by have h40 := this.2.2.2.2.1; omega⟩)
    exact ⟨by simp [this], lvA_of_100 _ _ rfl⟩
  next =>
    simp only [join_ok] at hst
    cases hst.2

theorem prec_rel_cases (r : Rel) (a b : E) :
    (prec (.rel r a b) = 50 ∧ (r = .eq ∨ r = .ne)) ∨ (prec (.rel r a b) = 35 ∧ r ≠ .eq ∧ r ≠ .ne) := by
  cases r <;> simp [prec]

theorem Q_rel (r : Rel) (a b : E) (ha : Q a) (hb : Q b) : Q (.rel r a b) := by
  refine Or.inr (fun s hw hst => ?_)
  simp only [wf, Bool.and_eq_true, beq_iff_eq, Bool.or_eq_true, Bool.not_eq_true'] at hw
  obtain ⟨⟨⟨rfl, hla⟩, hlb⟩, hsort⟩ := hw
  simp only [pr, join_ok] at hst ⊢
  have hnr := not_recip_of_not_pow (.rel r a b) (by intro _ _ h; cases h)
  have hlv : LvB (.rel r a b) (.cmp r (bracket a (pr a).doc (prec (.rel r a b) + 1))
      (bracket b (pr b).doc (prec (.rel r a b) + 1))) := by
    simp only [LvB, precA, hnr, level_cmp]
    rcases prec_rel_cases r a b with h | h <;> simp [h.1]
  refine ⟨?_, hlv⟩
  rcases hsort with ⟨hwa, hwb⟩ | ⟨hwa, hwb⟩
  · have qa := Q_elim a ha hla .A hwa hst.1
    have qb := Q_elim b hb hlb .A hwb hst.2
    have ba := bracketA_ok a _ (prec (.rel r a b) + 1) qa.1 qa.2
    have bb := bracketA_ok b _ (prec (.rel r a b) + 1) qb.1 qb.2
    simp [ba.1, bb.1, ba.2.1, bb.2.1]
  · have qa := Q_elim a ha hla .B hwa.2 hst.1
    have qb := Q_elim b hb hlb .B hwb hst.2
    have hp : prec (.rel r a b) + 1 = 51 := by
      rcases prec_rel_cases r a b with h | h
      · omega
      · have h0 := hwa.1
        exfalso
        cases r <;> first | exact h.2.1 rfl | exact h.2.2 rfl | (rcases h0 with h' | h' <;> exact absurd h' (by decide))
    rw [hp]
    have ba := bracketB_ok a _ 51 qa.1 qa.2
    have bb := bracketB_ok b _ 51 qb.1 qb.2
    have h1 := ba.2.2.2 rfl
    have h2 := bb.2.2.2 rfl
    simp [ba.1, bb.1]; omega

theorem pow_st (b x : E) (h : (pr (.pow b x)).st = .ok) : (pr b).st = .ok ∧ (pr x).st = .ok := by
  simp only [pr] at h
  split at h
  · cases h
  · exact (join_ok _ _).mp h

theorem pow_base (b x : E) : (pr (.pow b x)).base = (pr b).doc := by simp only [pr]

theorem pow_doc (b x : E) : (pr (.pow b x)).doc = powDoc b x (pr b).doc (pr x).doc := by simp only [pr]

theorem Q_pow (b x : E) (hb : Q b) (hx : Q x) : Q (.pow b x) := by
  refine Or.inr (fun s hw hst => ?_)
  simp only [wf, Bool.and_eq_true, beq_iff_eq, Bool.not_eq_true'] at hw
  obtain ⟨⟨⟨⟨rfl, hlb⟩, hlx⟩, hwb⟩, hwx⟩ := hw
  have hs := pow_st b x hst
  have qb := Q_elim b hb hlb .A hwb hs.1
  have qx := Q_elim x hx hlx .A hwx hs.2
  rw [pow_doc]
  exact powDoc_ok b x _ _ qb.1 qb.2 qx.1 qx.2

theorem Q_pair (v c : E) (hv : Q v) : Q (.pair v c) := by
  refine Or.inr (fun s hw hst => ?_)
  simp only [wf, Bool.and_eq_true, beq_iff_eq, Bool.not_eq_true'] at hw
  obtain ⟨⟨⟨⟨rfl, hlv⟩, _⟩, hwv⟩, _⟩ := hw
  simp only [pr, join_ok] at hst ⊢
  exact ⟨(Q_elim v hv hlv .A hwv hst.1).1, trivial⟩

theorem pwInner_ok' (items : List Item) (hst : (pwInner items).1 = .ok)
    (hall : ∀ i ∈ items, i.st = .ok →
      (PyOK i.doc = true ∧ 10 ≤ level i.doc) ∧ (isTruePair i.e = false → PyOK i.base = true ∧ 10 ≤ level i.base)) :
    PyOK (pwInner items).2 = true ∧ 10 ≤ level (pwInner items).2 := by
  induction items with
  | nil => simp [pwInner, nanDoc_ok.1, nanDoc_ok.2]
  | cons i is ih =>
      simp only [pwInner] at hst ⊢
      split
      next ht =>
        simp only [ht, if_true] at hst
        exact (hall i (by simp) hst).1
      next ht =>
        simp only [ht, Bool.false_eq_true, if_false, join_ok] at hst
        have hi := hall i (by simp) hst.1
        have hb := hi.2 (by simpa using ht)
        have hr := ih hst.2 (fun j hj => hall j (by simp [hj]))
        simp [hi.1.1, hi.1.2, hb.1, hb.2, hr.1, hr.2]

theorem Q_pw (ps : E) (hq : ∀ h ∈ toList ps, Deep h) : Q (.pw ps) := by
  refine Or.inr (fun s hw hst => ?_)
  simp only [wf, Bool.and_eq_true, beq_iff_eq] at hw
  obtain ⟨⟨rfl, hl⟩, hwp⟩ := hw
  have hp := proper_of_wf .P ps hl hwp
  simp only [pr] at hst ⊢
  have hall : ∀ i ∈ (pr ps).items, i.st = .ok →
      (PyOK i.doc = true ∧ 10 ≤ level i.doc) ∧
        (isTruePair i.e = false → PyOK i.base = true ∧ 10 ≤ level i.base) := by
    rw [items_list ps hp]
    intro i hi hsti
    simp only [List.mem_map] at hi
    obtain ⟨h, hh, rfl⟩ := hi
    simp only [mk] at hsti ⊢
    have hwf := wf_list .P ps hwp h hh
    have hd := hq h hh
    -- an element of sort P that prints is a pair
    cases h <;> simp [wf, isList] at hwf
    case other w => simp [pr] at hsti
    case pair v c =>
      simp only [pr, join_ok] at hsti ⊢
      have qv := hd.2 v (by simp [kids])
      have qc := hd.2 c (by simp [kids])
      have rv := Q_elim v qv.1 hwf.1.1.1 .A hwf.1.2 hsti.1
      have rc := Q_elim c qc.1 hwf.1.1.2 .B hwf.2 hsti.2
      exact ⟨⟨rv.1, by have := rv.2.1; omega⟩, fun _ => ⟨rc.1, by have := rc.2.1; omega⟩⟩
  have := pwInner_ok' (pr ps).items hst hall
  exact ⟨by simp [this.1, this.2], lvA_of_100 _ _ rfl⟩

theorem good1_mk (g : E) (hw : wf .A g = true) (hl : isList g = false) (hst : (pr g).st = .ok)
    (hq : Q g) (hk : ∀ c ∈ kids g, Q c) : Good1 (mk g).one := by
  have r := Q_elim g hq hl .A hw hst
  refine ⟨hw, hl, r.1, r.2, ?_⟩
  intro b x he
  simp only [mk, Item.one] at he
  subst he
  simp only [mk, Item.one, pow_base]
  simp only [wf, Bool.and_eq_true, beq_iff_eq, Bool.not_eq_true'] at hw
  have hs := pow_st b x hst
  have := Q_elim b (hk b (by simp [kids])) hw.1.1.1.2 .A hw.1.2 hs.1
  exact this

theorem mul_items (a : E) : (pr (.mul a)).items = (pr a).items := by
  simp only [pr]; split <;> rfl

theorem mul_st (a : E) (h : (pr (.mul a)).st = .ok) : (pr a).st = .ok := by
  simp only [pr] at h; split at h
  · cases h
  · exact h

theorem goodItem_mk (h : E) (hw : wf .A h = true) (hl : isList h = false) (hst : (pr h).st = .ok)
    (hd : Deep h) : GoodItem (mk h) := by
  refine ⟨good1_mk h hw hl hst hd.1 (fun c hc => (hd.2 c hc).1), ?_⟩
  intro hm f hf
  cases h <;> simp [isMul, mk] at hm
  case mul a =>
    simp only [mk, mul_items] at hf
    simp only [wf, Bool.and_eq_true, beq_iff_eq] at hw
    have hp := proper_of_wf .A a hw.1.2 hw.2
    rw [items_list a hp] at hf
    simp only [List.map_map, List.mem_map, Function.comp] at hf
    obtain ⟨g, hg, rfl⟩ := hf
    have hwg := wf_list .A a hw.2 g hg
    have hsg := st_list a hp (mul_st a hst) g hg
    have hdg := hd.2 g (by simp [kids, hg])
    exact good1_mk g hwg.1 hwg.2 hsg hdg.1 hdg.2

theorem Q_mul (a : E) (hq : ∀ h ∈ toList a, Deep h) : Q (.mul a) := by
  refine Or.inr (fun s hw hst => ?_)
  simp only [wf, Bool.and_eq_true, beq_iff_eq] at hw
  obtain ⟨⟨rfl, hl⟩, hwa⟩ := hw
  have hsa := mul_st a hst
  have hf := items_facts a .A hl hwa hsa (fun h hh => (hq h hh).1)
  have hgood : ∀ i ∈ (pr a).items, GoodItem i := by
    rw [hf.1]; intro i hi; simp only [List.mem_map] at hi
    obtain ⟨h, hh, rfl⟩ := hi
    have := hf.2 h hh
    exact goodItem_mk h this.1 this.2.1 this.2.2.1 (hq h hh)
  simp only [pr] at hst ⊢
  split at hst
  · cases hst
  next sg fs hmi =>
    simp only [hmi]
    have := mulDoc_ok sg fs (mulItems_good _ hgood sg fs hmi)
    refine ⟨this.1, ?_⟩
    show LvA _ _
    simp only [LvA, precA, not_recip_of_not_pow (.mul a) (by intro _ _ h; cases h), prec]
    refine ⟨by have := this.2; omega, fun _ => this.2, ?_, ?_⟩ <;> (by_cases hh : headNeg a = true <;> simp [hh])

/-- every node satisfies the invariant -/
theorem all_M (e : E) : M e := by
  have L := M_leaves
  induction e with
  | sym n c => exact L.1 n c
  | int n => exact L.2.1 n
  | rat p q => exact L.2.2.1 p q
  | flt t n => exact L.2.2.2.1 t n
  | pi => exact L.2.2.2.2.1
  | e1 => exact L.2.2.2.2.2.1
  | tt => exact L.2.2.2.2.2.2.1
  | ff => exact L.2.2.2.2.2.2.2.1
  | deriv x t => exact L.2.2.2.2.2.2.2.2.1 x t
  | other w => exact L.2.2.2.2.2.2.2.2.2 w
  | add a ih => exact M_of_leaf _ (Q_add a (fun h hh => (ih.2 h hh).1)) rfl rfl
  | and a ih => exact M_of_leaf _ (Q_and a (fun h hh => (ih.2 h hh).1)) rfl rfl
  | or a ih => exact M_of_leaf _ (Q_or a (fun h hh => (ih.2 h hh).1)) rfl rfl
  | fn name a ih => exact M_of_leaf _ (Q_fn name a (fun h hh => (ih.2 h hh).1)) rfl rfl
  | pw ps ih => exact M_of_leaf _ (Q_pw ps ih.2) rfl rfl
  | rel r a b iha ihb => exact M_of_leaf _ (Q_rel r a b iha.1.1 ihb.1.1) rfl rfl
  | mul a ih =>
      refine ⟨⟨Q_mul a ih.2, ?_⟩, by intro h hh; simp [toList] at hh⟩
      intro c hc; exact ⟨(ih.2 c hc).1, fun c' hc' => ((ih.2 c hc).2 c' hc').1⟩
  | pow b x ihb ihx =>
      refine ⟨⟨Q_pow b x ihb.1.1 ihx.1.1, ?_⟩, by intro h hh; simp [toList] at hh⟩
      intro c hc; simp only [kids, List.mem_singleton] at hc; subst hc
      exact ⟨ihb.1.1, fun c' hc' => (ihb.1.2 c' hc').1⟩
  | pair v c ihv ihc =>
      refine ⟨⟨Q_pair v c ihv.1.1, ?_⟩, by intro h hh; simp [toList] at hh⟩
      intro k hk; simp only [kids, List.mem_cons, List.mem_singleton, List.not_mem_nil, or_false] at hk
      rcases hk with rfl | rfl
      · exact ⟨ihv.1.1, fun c' hc' => (ihv.1.2 c' hc').1⟩
      · exact ⟨ihc.1.1, fun c' hc' => (ihc.1.2 c' hc').1⟩
  | nil => exact M_of_leaf _ (Or.inl rfl) rfl rfl
  | cons h t ihh iht =>
      refine ⟨⟨Or.inl rfl, by intro c hc; simp [kids] at hc⟩, ?_⟩
      intro x hx; simp only [toList, List.mem_cons] at hx
      rcases hx with rfl | hx
      · exact ihh.1
      · exact iht.2 x hx

end C11
