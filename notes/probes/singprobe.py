"""Scratch probe: remove_fixable_singularities on generated GHK-like equations, evaluated at/near the singular point (C12, C18)."""
import random, sys, collections, logging
import sympy as sp, mpmath as mp
from cellmlmanip.model import Model, Quantity, Variable
from cellmlmanip import units as U
logging.disable(logging.CRITICAL); mp.mp.dps = 40
seed = int(sys.argv[1]) if len(sys.argv) > 1 else 0; N = int(sys.argv[2]) if len(sys.argv) > 2 else 40
rng = random.Random(seed); finds = collections.defaultdict(list); stats = collections.Counter()
def val(expr, Vsym, v):
    e = expr.xreplace({q: sp.Float(str(q._value), 40) if not isinstance(q._value, sp.Float) else sp.Float(q._value, 40) for q in expr.atoms(Quantity)})
    e = e.xreplace({Vsym: sp.Float(str(v), 40)})
    return sp.N(e, 40)
for case in range(N):
    m = Model('m'); s = m.units; mV = s.add_unit('mV', 'volt/1000'); pmV = s.add_unit('per_mV', '1/mV'); dl = s.get_unit('dimensionless'); ms = s.add_unit('ms', 'second/1000')
    Q = m.create_quantity
    t = m.add_variable('t', ms); V = m.add_variable('V', mV, initial_value=-80.0)
    m.add_equation(sp.Eq(sp.Derivative(V, t), Q(1.0, mV/ms)))
    eqs = {}; sps = {}
    nfix = rng.randint(1, 3)
    for i in range(nfix):
        k = rng.choice([0.5, 0.25, -0.125, 2.0, -1.0, 0.0625]); v0 = rng.choice([-50.0, 10.0, 0.0, 7.5, -12.25, 40.0])
        Uexp = Q(k, pmV) * (V - Q(v0, mV)) if rng.random() < 0.5 else (Q(k, pmV) * V - Q(k * v0, dl))
        P = Q(rng.choice([1.0, 3.0, -2.0, 0.5]), dl)
        one = Q(1.0, dl)
        form = rng.randint(0, 3)
        if form == 0: core = Uexp / (sp.exp(Uexp) - one)
        elif form == 1: core = Uexp / (one - sp.exp(Uexp))
        elif form == 2: core = (sp.exp(Uexp) - one) / Uexp
        else: core = (one - sp.exp(Uexp)) / Uexp
        rhs = P * core
        if rng.random() < 0.4: rhs = rhs + Q(2.0, pmV) * V
        x = m.add_variable('I%d' % i, dl); m.add_equation(sp.Eq(x, rhs)); eqs[x] = rhs; sps[x] = (v0, k)
    plain = m.add_variable('J', dl); m.add_equation(sp.Eq(plain, Q(3.0, pmV) * V + sp.exp(Q(0.1, pmV) * V))); eqs[plain] = m.get_definition(plain).rhs
    excl = m.add_variable('X', dl); Ux = Q(0.5, pmV) * (V - Q(5.0, mV)); m.add_equation(sp.Eq(excl, Ux / (sp.exp(Ux) - Q(1.0, dl)))); eqs[excl] = m.get_definition(excl).rhs
    defined_before = {v.name for v in m.variables() if m.get_definition(v) is not None}
    try: m.remove_fixable_singularities(V, exclude={excl})
    except Exception as ex: finds['remove EXC ' + type(ex).__name__ + ' ' + str(ex)[:80]].append(case); continue
    defined_after = {v.name for v in m.variables() if m.get_definition(v) is not None}
    if defined_before != defined_after: finds['defined set changed'].append((case, defined_before ^ defined_after))
    if m.get_definition(plain).rhs != eqs[plain]: finds['non-pattern equation changed'].append(case)
    if m.get_definition(excl).rhs != eqs[excl]: finds['excluded equation changed'].append(case)
    for x, (v0, k) in sps.items():
        new = m.get_definition(x).rhs
        if not isinstance(new, sp.Piecewise) and not new.has(sp.Piecewise): finds['pattern NOT repaired'].append((case, str(eqs[x]))); continue
        stats['repaired'] += 1
        w = 1e-7 / abs(k)      # half-width in V
        for dv, zone in [(0, 'at'), (w*0.5, 'in'), (-w*0.5, 'in'), (w*0.999, 'in'), (-w*0.999, 'in'), (w*1.01, 'out'), (-w*1.01, 'out'), (w*3, 'out'), (1e-3, 'out'), (-1.0, 'out'), (25.0, 'out')]:
            try: a = val(new, V, mp.mpf(v0) + mp.mpf(dv))
            except Exception as ex: finds['after-eval EXC ' + type(ex).__name__].append((case, dv)); continue
            if a in (sp.nan, sp.zoo, sp.oo, -sp.oo) or not a.is_finite: finds['non-finite after repair (%s)' % zone].append((case, dv, str(a))); continue
            if zone == 'out':
                b = val(eqs[x], V, mp.mpf(v0) + mp.mpf(dv))
                if abs(a - b) > 1e-25 * max(1, abs(b)): finds['changed OUTSIDE window'].append((case, dv, str(a), str(b)))
            else:
                # compare with the analytic value / limit, computed at high precision just off the point
                vv = mp.mpf(v0) + mp.mpf(dv)
                b = val(eqs[x], V, vv) if dv != 0 else (val(eqs[x], V, mp.mpf(v0) + mp.mpf('1e-20')))
                if abs(a - b) > 1e-12 * max(1, abs(b)): finds['inaccurate INSIDE window'].append((case, dv, str(a)[:25], str(b)[:25]))
    # C18: units of atoms
    for e in m.equations:
        for q in e.rhs.atoms(Quantity):
            if not isinstance(q.units, s.Unit): stats['C18 quantity with non-Unit units'] += 1; break
print(dict(stats))
for k, v in finds.items(): print('##', k, len(v), v[:3])
