import Cellml.Expr.Wire
/-! Channel C05: unit conversion of expressions. -/
namespace C05
open Sexp Expr.Wire

def handle (args : List Sexp) : Sexp :=
  match setup args with
  | some (ctx, [.list (.atom "jobs" :: js)]) =>
      .list [.list (.atom "defs" :: ctx.defs), .list (.atom "results" :: js.map (fun j =>
        match j with
        | .list [s, t] =>
            let tgt : Option (Option Container) := match t with
              | .atom "none" => some none
              | u => (resolveUnit ctx.w u).map some
            match E.ofSexpWith? (resolveUnit ctx.w) s, tgt with
            | some e, some tgt =>
                match Convert.convert ctx.reg ctx.Γ e tgt with
                | .ok r =>
                    let strictOf (x : E) : Sexp := match Infer.traverse ctx.reg ctx.Γ x with
                      | .ok (_, u) => .list (.atom "ok" :: unitReply ctx.reg u)
                      | .error err => errReply err
                    -- an assignment equation is judged side by side (the harness does the same)
                    let strict := match e, r.e with
                      | .rel .eq _ _, .rel .eq l rr =>
                          (match Infer.traverse ctx.reg ctx.Γ l, Infer.traverse ctx.reg ctx.Γ rr with
                           | .ok (_, ul), .ok _ => .list (.atom "ok" :: unitReply ctx.reg ul)
                           | .error err, _ => errReply err
                           | _, .error err => errReply err)
                      | _, x => strictOf x
                    .list [.atom "ok", .list [.atom "expr", r.e.toSexp], .list [.atom "wc", ofBool r.wc],
                           .list [.atom "same", ofBool r.same], .list (.atom "unit" :: unitReply ctx.reg r.u),
                           .list [.atom "strict", strict]]
                | .error err => errReply err
            | _, _ => .atom "bad-job"
        | _ => .atom "bad-job"))]
  | _ => .atom "bad-request"
end C05
