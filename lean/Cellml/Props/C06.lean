import Cellml.C06.CaseFree
import Cellml.C06.Meta
import Cellml.C06.Units4

/-! # C06 — changing the units of a model variable never changes what the model computes

    Model: `Cellml/Model/ConvertVar.lean` (`convertVariable` and its helpers, step by step as in model.py).
    Lemmas: `Cellml/C06/*.lean`. A *point solution* of a model is a valuation of its variables and derivative atoms in
    a field `K` that satisfies every equation under plain evaluation (`Sat`); numbers are read through any
    `lit : ℚ → K` with `lit cf ≠ 0`, function symbols through any interpretation.

    `WF s` is what the C08 invariant guarantees of a model built through the API (maps = equations filed by left-hand
    side, no variable defined twice, nothing raised) plus: one free variable, no `d x / d x`. -/

namespace Cellml.Props.C06
open Model Model.CV

variable {K : Type} [Field K]

/-- **Soundness of one call**, any direction, any kind of variable (state variable, free variable, constant,
    computed variable), any factor other than 1, with or without moving annotations. `CallOK` says: the call returns
    the new variable; the result is well-formed again (in particular *nothing raised*); every point solution of `s`
    extends to one of `s'` that agrees on every pre-existing variable and derivative, has `new = cf · original`,
    `x_orig_deriv = d x / d t`, and every derivative rescaled by the state and time factors; and every point solution
    of `s'` restricts to one of `s` with the same relations. -/
theorem convert_var_sound (I : Interp K) {s : CState} (hwf : WF s) (v : Nat) (hv : v < s.vars.length) (u : U)
    (cf : Rat) (hcf1 : cf ≠ 1) (hcf : I.lit cf ≠ 0) (dir : Dir) (move : Bool) :
    CallOK I s v cf dir (convertVariable s v u cf dir move) := by
  cases dir with
  | output => exact case_output I hwf v hv u cf hcf1 hcf move
  | input =>
    cases hst : hasKey v s.odeDef with
    | true => exact case_input_state I hwf v hv u cf hcf1 hcf move hst
    | false =>
      by_cases hfr : getFree s = some v
      · exact case_input_free I hwf v hv u cf hcf1 hcf move hst hfr
      · exact case_input_plain I hwf v hv u cf hcf1 hcf move hst hfr

/-- a conversion to equivalent units (factor 1) leaves the model untouched and returns the original variable -/
theorem convert_var_noop (s : CState) (v : Nat) (u : U) (dir : Dir) (move : Bool) :
    convertVariable s v u 1 dir move = (s, v, []) := convertVariable_noop s v u dir move

/-- from a well-formed model no call made by `convert_variable` raises, and the result is well-formed -/
theorem convert_var_wf {s : CState} (hwf : WF s) (v : Nat) (hv : v < s.vars.length) (u : U) (cf : Rat) (dir : Dir)
    (move : Bool) : WF (convertVariable s v u cf dir move).1 ∧ (convertVariable s v u cf dir move).1.raised = false := by
  by_cases hcf1 : cf = 1
  · subst hcf1; rw [convertVariable_noop]; exact ⟨hwf, hwf.inv.notRaised⟩
  · by_cases hcf0 : cf = 0
    · -- the invariant does not depend on the field; read the numbers in ℚ with `lit 0 := 1`
      let I : Interp ℚ := ⟨fun q => if q = 0 then 1 else q, fun _ x => x, fun _ x _ => x⟩
      have := (convert_var_sound I hwf v hv u cf hcf1 (by simp [I, hcf0]) dir move).wf
      exact ⟨this, this.inv.notRaised⟩
    · let I : Interp ℚ := ⟨fun q => q, fun _ x => x, fun _ x _ => x⟩
      have := (convert_var_sound I hwf v hv u cf hcf1 (by simpa [I] using hcf0) dir move).wf
      exact ⟨this, this.inv.notRaised⟩

/-- `get_unique_name` answers a name that no variable of the model has: `…_converted` / `…_orig_deriv`, with as many
    `_a` suffixes as needed, never clash — and so the variable names of the model stay distinct through
    `convert_variable`, whatever it has to create (any state, no invariant needed) -/
theorem convert_var_names_fresh (s : CState) (v : Nat) (hv : v < s.vars.length) (u : U) (cf : Rat) (dir : Dir)
    (move : Bool) :
    (∀ base, freshName s base ∉ names s) ∧
    ((names s).Nodup → (names (convertVariable s v u cf dir move).1).Nodup) :=
  ⟨freshName_fresh s, keeps_convertVariable s v hv u cf dir move⟩

-- ================================================================================================ metadata
/-- **Initial values and annotations move as documented** (any state, no invariant needed). With `n` the number of
    variables before the call and `s'` the model after it: variable `n` is the new one — fresh name, the requested
    units, initial value `cf ·` the original's for INPUT and none for OUTPUT, the cmeta id of the original if
    annotations are moved; the original keeps name and units, loses its initial value for INPUT (keeps it for OUTPUT)
    and loses its cmeta id iff annotations are moved; every other pre-existing variable is untouched; the cmeta id
    now looks up the new variable (or the map is untouched). -/
theorem convert_var_meta (s : CState) (v : Nat) (hv : v < s.vars.length) (u : U) (cf : Rat) (hcf : cf ≠ 1) (dir : Dir)
    (move : Bool) :
    (convertVariable s v u cf dir move).1.vars[s.vars.length]? =
      some ⟨freshName s (nameOfV s v ++ "_converted"), u,
            (match dir with | .input => (initOfV s v).map (· * cf) | .output => none),
            if move then cmetaOfV s v else none⟩ ∧
    (convertVariable s v u cf dir move).1.vars[v]? =
      (s.vars[v]?).map (fun y => ⟨y.name, y.unit, (match dir with | .input => none | .output => y.init),
                                  if move then none else y.cmeta⟩) ∧
    (∀ i, i < s.vars.length → i ≠ v → (convertVariable s v u cf dir move).1.vars[i]? = s.vars[i]?) ∧
    (∀ c, move = true → cmetaOfV s v = some c →
      (convertVariable s v u cf dir move).1.cmetaMap.lookup c = some s.vars.length) ∧
    ((move = false ∨ cmetaOfV s v = none) → (convertVariable s v u cf dir move).1.cmetaMap = s.cmetaMap) := by
  obtain ⟨⟨l, hl⟩, hcm⟩ := ext_convertVariable s v u cf dir move hcf
  obtain ⟨iv, icm⟩ := convertInstance_vars s v hv cf u dir move
  obtain ⟨g1, g2, g3⟩ := getElem?_varsAfterTransfer s v hv (newVar s v u cf dir) rfl move
  have hlen : (convertInstance s v cf u dir move).1.vars.length = s.vars.length + 1 := by
    rw [iv]; cases dir <;> simp [length_setV, length_varsAfterTransfer]
  have hget : ∀ i, i < s.vars.length + 1 →
      (convertVariable s v u cf dir move).1.vars[i]? = (convertInstance s v cf u dir move).1.vars[i]? := by
    intro i hi; rw [hl]; exact List.getElem?_append_left (by rw [hlen]; exact hi)
  have hvn : v ≠ s.vars.length := by omega
  refine ⟨?_, ?_, ?_, ?_, ?_⟩
  · rw [hget _ (by omega), iv]
    cases dir with
    | input => rw [getElem?_setV, if_neg (Ne.symm hvn), g1]; rfl
    | output => rw [g1]; rfl
  · rw [hget _ (by omega), iv]
    cases dir with
    | input => rw [getElem?_setV, if_pos rfl, g2]; cases s.vars[v]? <;> rfl
    | output => rw [g2]
  · intro i hi hiv
    rw [hget _ (by omega), iv]
    cases dir with
    | input => rw [getElem?_setV, if_neg hiv, g3 i hi hiv]
    | output => exact g3 i hi hiv
  · intro c hm hc
    rw [hcm, icm, hc, hm]
    simp only
    rw [lookup_insertKey, if_pos rfl]
  · intro h
    rw [hcm, icm]
    rcases h with h | h
    · rw [h]; cases cmetaOfV s v <;> rfl
    · rw [h]

-- ================================================================================================ units
/-- **Equations that were unit-consistent stay unit-consistent.** A unit is a scale and a vector of dimension
    exponents (what `is_equivalent` compares); `unitOf` is `evaluate_units` on right-hand sides (sums need equal units,
    products and quotients combine them, numbers carry their own units, function symbols have any unit rule `J`).
    If both sides of every equation of a well-formed model have the same units, so have both sides of every equation
    after `convert_variable` — any direction, any kind of variable — provided the units of the converted variable and
    the target units have a non-zero scale. -/
theorem convert_var_units (J : UI) {s : CState} (hwf : WF s) (hu : UnitsOK J s) (v : Nat) (hv : v < s.vars.length)
    (u : U) (cf : Rat) (dir : Dir) (move : Bool) (hvs : (unitOfV s v).scale ≠ 0) (hus : u.scale ≠ 0) :
    UnitsOK J (convertVariable s v u cf dir move).1 :=
  units_convertVariable J hwf hu v hv u cf dir move hvs hus

-- ================================================================================================ sequences
/-- the arguments of one call -/
structure Call where
  v : Nat
  u : U
  cf : Rat
  dir : Dir
  move : Bool

/-- a sequence of calls: the final model and the variables the calls returned -/
def runSeq (s : CState) : List Call → CState × List Nat
  | [] => (s, [])
  | a :: rest =>
      ((runSeq (convertVariable s a.v a.u a.cf a.dir a.move).1 rest).1,
       (convertVariable s a.v a.u a.cf a.dir a.move).2.1 :: (runSeq (convertVariable s a.v a.u a.cf a.dir a.move).1 rest).2)

/-- each call converts a variable that exists when the call is made, with a non-zero factor -/
def ValidSeq (I : Interp K) (s : CState) : List Call → Prop
  | [] => True
  | a :: rest => a.v < s.vars.length ∧ I.lit a.cf ≠ 0 ∧ ValidSeq I (convertVariable s a.v a.u a.cf a.dir a.move).1 rest

/-- every returned variable carries `cf ·` the value of the variable it was converted from -/
def Chain (I : Interp K) (τ : Val K) : List Call → List Nat → Prop
  | a :: rest, r :: rets => τ.v r = I.lit a.cf * τ.v a.v ∧ Chain I τ rest rets
  | [], [] => True
  | _, _ => False

theorem chain_congr (I : Interp K) (τ τ' : Val K) (hv : τ'.v = τ.v) : ∀ (cs : List Call) (rs : List Nat),
    Chain I τ cs rs → Chain I τ' cs rs
  | a :: rest, r :: rets, h => ⟨by rw [hv]; exact h.1, chain_congr I τ τ' hv rest rets h.2⟩
  | [], [], _ => trivial
  | [], _ :: _, h => h.elim
  | _ :: _, [], h => h.elim

/-- **Any sequence of conversions** (state then time, time then state, the same quantity twice, …): the final model is
    well-formed, every point solution of the first model extends to one of the last that agrees on every pre-existing
    variable and derivative and in which every returned variable is `cf ·` its original — so a variable converted
    twice carries the product of the factors (`convert_var_twice`) —, and every point solution of the last model gives
    one of the first with the same values of all variables. Induction on the list: any length. -/
theorem convert_var_seq (I : Interp K) (hI1 : I.lit 1 = 1) : ∀ (cs : List Call) (s : CState), WF s → ValidSeq I s cs →
    WF (runSeq s cs).1 ∧ s.vars.length ≤ (runSeq s cs).1.vars.length ∧
    (∀ σ : Val K, Sat I σ s → ∃ σ' : Val K, Sat I σ' (runSeq s cs).1 ∧ Agree s.vars.length σ σ' ∧
        Chain I σ' cs (runSeq s cs).2) ∧
    (∀ σ' : Val K, Sat I σ' (runSeq s cs).1 → ∃ σ : Val K, Sat I σ s ∧ σ.v = σ'.v ∧ Chain I σ' cs (runSeq s cs).2) := by
  intro cs
  induction cs with
  | nil =>
    intro s hwf _
    exact ⟨hwf, Nat.le_refl _, fun σ hσ => ⟨σ, hσ, Agree.refl _ _, trivial⟩, fun σ' hσ' => ⟨σ', hσ', rfl, trivial⟩⟩
  | cons a rest ih =>
    intro s hwf hval
    obtain ⟨hv, hcf, hrest⟩ := hval
    by_cases hcf1 : a.cf = 1
    · -- nothing happens
      have hno : convertVariable s a.v a.u a.cf a.dir a.move = (s, a.v, []) := by rw [hcf1]; exact convertVariable_noop ..
      simp only [runSeq, hno] at hrest ⊢
      obtain ⟨i1, i2, i3, i4⟩ := ih s hwf (by simpa [hno] using hrest)
      refine ⟨i1, i2, ?_, ?_⟩
      · intro σ hσ
        obtain ⟨σ', h1, h2, h3⟩ := i3 σ hσ
        exact ⟨σ', h1, h2, by rw [hcf1, hI1, one_mul], h3⟩
      · intro σ' hσ'
        obtain ⟨σ, h1, h2, h3⟩ := i4 σ' hσ'
        exact ⟨σ, h1, h2, by rw [hcf1, hI1, one_mul], h3⟩
    · have hc := convert_var_sound I hwf a.v hv a.u a.cf hcf1 hcf a.dir a.move
      simp only [runSeq]
      generalize convertVariable s a.v a.u a.cf a.dir a.move = r at hc hrest ⊢
      obtain ⟨i1, i2, i3, i4⟩ := ih r.1 hc.wf hrest
      refine ⟨i1, by have := hc.grows; omega, ?_, ?_⟩
      · intro σ hσ
        obtain ⟨σ1, a1, a2, a3, _, _⟩ := hc.fwd σ hσ
        obtain ⟨σ', b1, b2, b3⟩ := i3 σ1 a1
        refine ⟨σ', b1, a2.trans b2 (Nat.le_of_lt hc.grows), ?_, b3⟩
        rw [b2.1 r.2.1 (by rw [hc.ret]; exact hc.grows), b2.1 a.v (Nat.lt_trans hv hc.grows), a3, a2.1 a.v hv]
      · intro σ' hσ'
        obtain ⟨σ1, b1, b2, b3⟩ := i4 σ' hσ'
        obtain ⟨c1, c2, _⟩ := hc.bwd σ1 b1
        refine ⟨pull r.2.2 σ1, c1, b2, ?_, b3⟩
        rw [← b2]; exact c2

/-- converting a variable and then the result of that conversion: the last variable is the original times the
    product of the two factors, in a solution that extends the given one -/
theorem convert_var_twice (I : Interp K) (hI1 : I.lit 1 = 1) {s : CState} (hwf : WF s) (a b : Call)
    (hb : b.v = (convertVariable s a.v a.u a.cf a.dir a.move).2.1) (hval : ValidSeq I s [a, b]) (σ : Val K)
    (hσ : Sat I σ s) :
    ∃ σ' : Val K, Sat I σ' (runSeq s [a, b]).1 ∧ Agree s.vars.length σ σ' ∧
      ∃ r ∈ (runSeq s [a, b]).2, σ'.v r = I.lit b.cf * I.lit a.cf * σ.v a.v := by
  obtain ⟨_, _, h3, _⟩ := convert_var_seq I hI1 [a, b] s hwf hval
  obtain ⟨σ', h1, h2, hc⟩ := h3 σ hσ
  refine ⟨σ', h1, h2, _, List.mem_cons_of_mem _ (List.mem_cons_self ..), ?_⟩
  simp only [runSeq, Chain] at hc
  obtain ⟨c1, c2, _⟩ := hc
  rw [c2, hb, c1, h2.1 a.v hval.1]; ring

-- ================================================================================================ non-vacuity
/-! The model of the docstring of `convert_variable`:
    `var time :: ms {cmeta_id: time}`, `var sv1 :: mV {cmeta_id: sv11, init: 2}`, `ode(sv1, time) = 1 :: mV_per_ms`. -/

def uVolt : U := ⟨1, ⟨2, 1, -3, -1, 0, 0, 0, 0⟩⟩
def uMV : U := ⟨1/1000, ⟨2, 1, -3, -1, 0, 0, 0, 0⟩⟩
def uSec : U := ⟨1, ⟨0, 0, 1, 0, 0, 0, 0, 0⟩⟩
def uMs : U := ⟨1/1000, ⟨0, 0, 1, 0, 0, 0, 0, 0⟩⟩

def demoOde : CEqn := ⟨.deriv 1 0, .lit 1 (uMV.div uMs)⟩

def demo0 : CState :=
  { vars := [⟨"time", uMs, none, some "time"⟩, ⟨"sv1", uMV, some 2, some "sv11"⟩],
    cmetaMap := [("time", 0), ("sv11", 1)] }

/-- the model as `add_equation` builds it -/
def demo : CState := addEq demo0 demoOde true

theorem demo0_inv : Inv0 demo0 :=
  { notRaised := rfl, scopedE := fun _ h => (by cases h), keys := List.nodup_nil, vdKeys := List.nodup_nil,
    odKeys := List.nodup_nil, vd := fun _ _ => ⟨fun h => (by cases h), fun h => (by cases h.1)⟩,
    od := fun _ _ => ⟨fun h => (by cases h), fun h => (by cases h.1)⟩ }

theorem demoOde_scoped : EqScoped demo0.vars.length demoOde := by
  intro i hi
  simp only [demoOde, CEqn.allVars, CLhs.vars, X.vars, List.append_nil, List.mem_cons, List.not_mem_nil,
    or_false] at hi
  rcases hi with rfl | rfl <;> decide

theorem demo_eqs : demo.equations = [demoOde] :=
  (addEq_ok demo0_inv demoOde true demoOde_scoped (fun _ h => (by cases h)) (fun _ _ h => (by cases h))).1

theorem demo_wf : WF demo := by
  have h := addEq_ok demo0_inv demoOde true demoOde_scoped (fun _ h => (by cases h)) (fun _ _ h => (by cases h))
  refine ⟨h.2.2.2, ?_, ?_, ?_⟩
  · rw [demo_eqs]; intro e₁ h₁ e₂ h₂ v x t hv _
    simp only [List.mem_cons, List.not_mem_nil, or_false] at h₁; subst h₁; cases hv
  · rw [demo_eqs]; intro e₁ h₁ e₂ h₂ x₁ t₁ x₂ t₂ hl₁ hl₂
    simp only [List.mem_cons, List.not_mem_nil, or_false] at h₁ h₂; subst h₁; subst h₂
    cases hl₁; cases hl₂; rfl
  · rw [demo_eqs]; intro e he x t hl
    simp only [List.mem_cons, List.not_mem_nil, or_false] at he; subst he; cases hl; decide

/-- the three worked examples of the docstring -/
example : (convertVariable demo 1 uVolt (1/1000) .output true).1.equations =
    [demoOde, ⟨.var 2, .mul (.var 1) (.lit (1/1000) (uVolt.div uMV))⟩] := by decide +kernel
example : ((convertVariable demo 1 uVolt (1/1000) .output true).1.vars.map fun x => (x.name, x.init, x.cmeta)) =
    [("time", none, some "time"), ("sv1", some 2, none), ("sv1_converted", none, some "sv11")] := by decide +kernel
example : (convertVariable demo 1 uVolt (1/1000) .input true).1.equations =
    [⟨.var 1, .div (.var 2) (.lit (1/1000) (uVolt.div uMV))⟩,
     ⟨.var 3, .lit 1 (uMV.div uMs)⟩,
     ⟨.deriv 2 0, .mul (.var 3) (.lit (1/1000) (uVolt.div uMV))⟩] := by decide +kernel
example : ((convertVariable demo 1 uVolt (1/1000) .input true).1.vars.map fun x => (x.name, x.init, x.cmeta)) =
    [("time", none, some "time"), ("sv1", none, none), ("sv1_converted", some (1/500), some "sv11"),
     ("sv1_orig_deriv", none, none)] := by decide +kernel
example : (convertVariable demo 0 uSec (1/1000) .input true).1.equations =
    [⟨.var 0, .div (.var 2) (.lit (1/1000) (uSec.div uMs))⟩,
     ⟨.var 3, .lit 1 (uMV.div uMs)⟩,
     ⟨.deriv 1 2, .div (.var 3) (.lit (1/1000) (uSec.div uMs))⟩] := by decide +kernel
example : ((convertVariable demo 0 uSec (1/1000) .input true).1.vars.map fun x => (x.name, x.init, x.cmeta)) =
    [("time", none, none), ("sv1", some 2, some "sv11"), ("time_converted", none, some "time"),
     ("sv1_orig_deriv", none, none)] := by decide +kernel

/-- the hypotheses of `convert_var_sound` are met by the docstring's model, and it has point solutions -/
example : CallOK (K := ℚ) ⟨fun q => q, fun _ x => x, fun _ x _ => x⟩ demo 1 (1/1000) .input
    (convertVariable demo 1 uVolt (1/1000) .input true) :=
  convert_var_sound _ demo_wf 1 (by decide) uVolt (1/1000) (by decide +kernel) (by decide +kernel) .input true
example : CallOK (K := ℚ) ⟨fun q => q, fun _ x => x, fun _ x _ => x⟩ demo 0 (1/1000) .input
    (convertVariable demo 0 uSec (1/1000) .input true) :=
  convert_var_sound _ demo_wf 0 (by decide) uSec (1/1000) (by decide +kernel) (by decide +kernel) .input true
example : Sat (K := ℚ) ⟨fun q => q, fun _ x => x, fun _ x _ => x⟩ ⟨fun _ => 5, fun _ _ => 1⟩ demo := by
  unfold Sat; rw [demo_eqs]; intro e he
  simp only [List.mem_cons, List.not_mem_nil, or_false] at he; subst he
  simp [Holds, demoOde, lhsVal]

/-- the docstring's model is unit-consistent, so `convert_var_units` applies to it -/
example : UnitsOK ⟨fun _ u => some u, fun _ u _ => some u⟩ demo := by
  intro e he
  rw [demo_eqs] at he
  simp only [List.mem_cons, List.not_mem_nil, or_false] at he; subst he
  unfold Consistent; decide +kernel
example : UnitsOK ⟨fun _ u => some u, fun _ u _ => some u⟩ (convertVariable demo 0 uSec (1/1000) .input true).1 :=
  convert_var_units _ demo_wf (by
    intro e he
    rw [demo_eqs] at he
    simp only [List.mem_cons, List.not_mem_nil, or_false] at he; subst he
    unfold Consistent; decide +kernel) 0 (by decide) uSec (1/1000) .input true (by decide +kernel) (by decide +kernel)

end Cellml.Props.C06
