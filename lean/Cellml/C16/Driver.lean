import Cellml.Iso.Namespace

/-! Channel C16:
    `(C16 (probes "n" ...) (ops op ...))` → `((r (store-obs ...)) ...)`, one entry per operation:
    the outcome of the operation followed by the observation of EVERY store of the process after it.

    op  = `(new)` | `(share k)` | `(base s "name")` | `(def s "name" (elem ...))`
        | `(factor s "x" t "y")`  (cross-store `get_conversion_factor`, does not change the state)
        | `(strip "text")`        (`_STORE_PREFIX.sub('', text)`)
        | `(fmt s "name")`        (`format(get_unit(name))`)
    store-obs = `(s (name defined? unit-obs) ...)`, unit-obs = `(ok scale root dims)` | `KeyError`. -/
namespace C16
open Sexp Units Units.Wire Iso

def unitObs (o : Option UnitObs) : Sexp :=
  match o with
  | some u => .list [.atom "ok", ofScale u.scale, ofContainer "root" u.root, ofContainer "dims" u.dims]
  | none => .atom "KeyError"

def observe (w : World) (probes : List String) : List Sexp :=
  (List.range w.stores.length).map (fun s =>
    .list (ofNat s :: probes.map (fun n =>
      match probe w s n with
      | some (d, o) => .list [.str n, ofBool d, unitObs o]
      | none => .atom "bad-store")))

def xerr : XErr → Sexp
  | .noStore => .atom "bad-store"
  | .crossRegistry => .list [.atom "err", .atom "CrossRegistry"]
  | .keyError => .list [.atom "err", .atom "KeyError"]
  | .unit .dimensionality => .list [.atom "err", .atom "DimensionalityError"]
  | .unit .undefinedUnit => .list [.atom "err", .atom "UndefinedUnitError"]
  | .unit .valueError => .list [.atom "err", .atom "ValueError"]
  | .unit (.other w) => .list [.atom "err", .atom "Other", .str w]

/-- the state-changing operations go through `Iso.step`; the reply is read off the state change -/
def applyOp (w : World) : Sexp → World × Sexp
  | .list [.atom "new"] => (step w (.newStore none), .atom "ok")
  | .list [.atom "share", k] => (step w (.newStore (nat? k)), .atom "ok")
  | .list [.atom "base", s, n] =>
      match nat? s, atomOf? n with
      | some s, some name =>
          -- outcome from the same function `step` uses
          match w.regOf s with
          | some (st, _, reg) =>
              match addBaseUnit reg st name with
              | .ok _ => (step w (.addBase s name), .atom "ok")
              | .error e => (step w (.addBase s name), addErrSexp e)
          | none => (w, .atom "bad-store")
      | _, _ => (w, .atom "bad-op")
  | .list [.atom "def", s, n, es] =>
      match nat? s, atomOf? n, elems? es with
      | some s, some name, some elems =>
          match w.regOf s with
          | some (st, _, reg) =>
              match addUnit reg st name elems with
              | .ok _ => (step w (.addUnit s name elems), .atom "ok")
              | .error e => (step w (.addUnit s name elems), addErrSexp e)
          | none => (w, .atom "bad-store")
      | _, _, _ => (w, .atom "bad-op")
  | .list [.atom "factor", s, x, t, y] =>
      match nat? s, atomOf? x, nat? t, atomOf? y with
      | some s, some x, some t, some y =>
          match crossFactor w s x t y with
          | .ok f => (w, if PMap.norm f = [] then .list [.atom "ok", .atom "one"] else .list [.atom "ok", ofScale f])
          | .error e => (w, xerr e)
      | _, _, _, _ => (w, .atom "bad-op")
  | .list [.atom "strip", t] =>
      match atomOf? t with
      | some t => (w, .str (strip t))
      | none => (w, .atom "bad-op")
  | .list [.atom "fmt", s, n] =>
      match nat? s, atomOf? n with
      | some s, some name =>
          match w.regOf s with
          | some (st, _, _) =>
              match getUnit st name with
              | .ok _ => (w, .str (formatName st.id name))
              | .error _ => (w, .list [.atom "err", .atom "KeyError"])
          | none => (w, .atom "bad-store")
      | _, _ => (w, .atom "bad-op")
  | _ => (w, .atom "bad-op")

def runOps (probes : List String) (w : World) : List Sexp → List Sexp
  | [] => []
  | op :: ops =>
      let (w', r) := applyOp w op
      .list [r, .list (observe w' probes)] :: runOps probes w' ops

def handle (args : List Sexp) : Sexp :=
  match args with
  | [.list (.atom "probes" :: ps), .list (.atom "ops" :: ops)] =>
      .list (runOps (ps.filterMap atomOf?) {} ops)
  | _ => .atom "bad-request"

end C16
