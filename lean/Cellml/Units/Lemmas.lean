import Cellml.Units.Conv
import Cellml.Basic.PMapCanon

/-! Algebra of the mini-pint: root expansion is a homomorphism (so factors are closed under product, quotient,
    rational power), and the conversion factor is the ratio of scales. All statements are semantic (`≃` = equal
    exponent of every key) and hold for unnormalised representations too. -/

namespace Units
open PMap

/-- pairwise semantic equality of (scale, container) -/
def Equiv₂ (x y : Scale × Container) : Prop := x.1 ≃ y.1 ∧ x.2 ≃ y.2
infix:50 " ≃₂ " => Equiv₂

theorem Equiv₂.refl (x : Scale × Container) : x ≃₂ x := ⟨Equiv.refl _, Equiv.refl _⟩
theorem Equiv₂.symm {x y : Scale × Container} (h : x ≃₂ y) : y ≃₂ x := ⟨h.1.symm, h.2.symm⟩
theorem Equiv₂.trans {x y z : Scale × Container} (h₁ : x ≃₂ y) (h₂ : y ≃₂ z) : x ≃₂ z :=
  ⟨h₁.1.trans h₂.1, h₁.2.trans h₂.2⟩

/-- expansion respects semantic equality of its input -/
theorem expand_congr (reg : Registry) : ∀ (x y : Scale × Container), x ≃₂ y → expand reg x ≃₂ expand reg y := by
  induction reg with
  | nil => intro x y h; simpa [expand] using h
  | cons hd tl ih =>
      intro x y h
      obtain ⟨n, d⟩ := hd
      obtain ⟨s, c⟩ := x
      obtain ⟨s', c'⟩ := y
      cases d with
      | base dim => simpa [expand] using ih _ _ h
      | derived k of =>
          simp only [expand]
          apply ih
          obtain ⟨hs, hc⟩ := h
          simp only at hs hc
          refine ⟨?_, ?_⟩
          · intro p; simp only [get_add, get_smul, hs p, hc n]
          · intro p; simp only [get_add, get_sub, get_smul, get_single, hc p, hc n]

/-- expansion is additive: root form of a product is the product of root forms -/
theorem expand_add (reg : Registry) : ∀ (s₁ s₂ : Scale) (c₁ c₂ : Container),
    expand reg (add s₁ s₂, add c₁ c₂) ≃₂
      (add (expand reg (s₁, c₁)).1 (expand reg (s₂, c₂)).1, add (expand reg (s₁, c₁)).2 (expand reg (s₂, c₂)).2) := by
  induction reg with
  | nil => intro s₁ s₂ c₁ c₂; exact Equiv₂.refl _
  | cons hd tl ih =>
      intro s₁ s₂ c₁ c₂
      obtain ⟨n, d⟩ := hd
      cases d with
      | base dim => simpa [expand] using ih s₁ s₂ c₁ c₂
      | derived k of =>
          simp only [expand]
          refine Equiv₂.trans (expand_congr tl _ _ ?_) (ih _ _ _ _)
          refine ⟨?_, ?_⟩
          · intro p; simp only [get_add, get_smul]; grind
          · intro p; simp only [get_add, get_sub, get_smul, get_single]; grind

/-- expansion commutes with rational powers -/
theorem expand_smul (reg : Registry) (q : Rat) : ∀ (s : Scale) (c : Container),
    expand reg (smul q s, smul q c) ≃₂ (smul q (expand reg (s, c)).1, smul q (expand reg (s, c)).2) := by
  induction reg with
  | nil => intro s c; exact Equiv₂.refl _
  | cons hd tl ih =>
      intro s c
      obtain ⟨n, d⟩ := hd
      cases d with
      | base dim => simpa [expand] using ih s c
      | derived k of =>
          simp only [expand]
          refine Equiv₂.trans (expand_congr tl _ _ ?_) (ih _ _)
          refine ⟨?_, ?_⟩
          · intro p; simp only [get_add, get_smul]; grind
          · intro p; simp only [get_add, get_sub, get_smul, get_single]; grind

theorem nil_add_nil : (add ([] : Scale) []) = [] := rfl

theorem toRoot_congr (reg : Registry) {a b : Container} (h : a ≃ b) : toRoot reg a ≃₂ toRoot reg b :=
  expand_congr reg _ _ ⟨Equiv.refl _, h⟩

/-- `get_base_units(a * b) = get_base_units(a) * get_base_units(b)` -/
theorem toRoot_add (reg : Registry) (a b : Container) :
    toRoot reg (add a b) ≃₂ (add (toRoot reg a).1 (toRoot reg b).1, add (toRoot reg a).2 (toRoot reg b).2) := by
  have := expand_add reg [] [] a b
  simpa [toRoot, nil_add_nil] using this

/-- `get_base_units(a ** q) = get_base_units(a) ** q` -/
theorem toRoot_smul (reg : Registry) (q : Rat) (a : Container) :
    toRoot reg (smul q a) ≃₂ (smul q (toRoot reg a).1, smul q (toRoot reg a).2) := by
  have := expand_smul reg q [] a
  simpa [toRoot, smul] using this

/-- dimensionality is additive in the root container -/
theorem dimsOfRoot_congr (reg : Registry) {a b : Container} (h : a ≃ b) : dimsOfRoot reg a ≃ dimsOfRoot reg b := by
  induction reg with
  | nil => exact Equiv.refl _
  | cons hd tl ih =>
      obtain ⟨n, d⟩ := hd
      cases d with
      | base dim =>
          cases dim with
          | none => simpa [dimsOfRoot] using ih
          | some dn => intro p; simp only [dimsOfRoot, get_add, get_single, h n, ih p]
      | derived k of => simpa [dimsOfRoot] using ih

theorem dimsOfRoot_add (reg : Registry) (a b : Container) :
    dimsOfRoot reg (add a b) ≃ add (dimsOfRoot reg a) (dimsOfRoot reg b) := by
  induction reg with
  | nil => intro p; simp only [dimsOfRoot, get_add, get_nil]; grind
  | cons hd tl ih =>
      obtain ⟨n, d⟩ := hd
      cases d with
      | base dim =>
          cases dim with
          | none => simpa [dimsOfRoot] using ih
          | some dn => intro p; simp only [dimsOfRoot, get_add, get_single, ih p]; grind
      | derived k of => simpa [dimsOfRoot] using ih

theorem dimsOfRoot_smul (reg : Registry) (q : Rat) (a : Container) :
    dimsOfRoot reg (smul q a) ≃ smul q (dimsOfRoot reg a) := by
  induction reg with
  | nil => intro p; simp only [dimsOfRoot, get_smul, get_nil]; grind
  | cons hd tl ih =>
      obtain ⟨n, d⟩ := hd
      cases d with
      | base dim =>
          cases dim with
          | none => simpa [dimsOfRoot] using ih
          | some dn => intro p; simp only [dimsOfRoot, get_add, get_smul, get_single, ih p]; grind
      | derived k of => simpa [dimsOfRoot] using ih

theorem dimsOf_equiv (reg : Registry) (c : Container) : dimsOf reg c ≃ dimsOfRoot reg (toRoot reg c).2 :=
  (norm_equiv _).trans (dimsOfRoot_congr reg (norm_equiv _))

end Units
