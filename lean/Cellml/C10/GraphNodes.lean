import Cellml.C10.WF

/-! # C10: which nodes `Model.graph` has, and with which `variable_type`

    `buildGraph names eqs = .ok g` ⇒ the nodes of `g` are the left-hand sides (in equation order, typed by `typeMap`)
    followed by bare variable nodes typed STATE or FREE. Hence the derivative nodes are exactly the ODE left-hand
    sides and the nodes that are neither FREE, STATE nor PARAMETER are left-hand-side variables. Core Lean only. -/

namespace Model

-- ------------------------------------------------------------------------------------------------ typeMap
def tmAcc (acc : List (Nat × VType)) (eqs : List Eqn) : List (Nat × VType) :=
  eqs.foldl (fun tm e => typeWrites e ++ tm) acc

theorem typeMap_eq (eqs : List Eqn) : typeMap eqs = tmAcc [] eqs := rfl

theorem lookup_tmAcc (x : Nat) (ty : VType) : ∀ (eqs : List Eqn) (acc : List (Nat × VType)),
    (tmAcc acc eqs).lookup x = some ty → (∃ e ∈ eqs, (x, ty) ∈ typeWrites e) ∨ acc.lookup x = some ty
  | [], acc, h => .inr h
  | e :: es, acc, h => by
    have := lookup_tmAcc x ty es (typeWrites e ++ acc) h
    rcases this with ⟨e', he', h'⟩ | h'
    · exact .inl ⟨e', List.mem_cons_of_mem _ he', h'⟩
    · rw [List.lookup_append] at h'
      rcases hl : (typeWrites e).lookup x with _ | ty'
      · rw [hl] at h'; exact .inr (by simpa using h')
      · rw [hl] at h'
        simp only [Option.or_some, Option.some.injEq] at h'
        subst h'
        exact .inl ⟨e, List.mem_cons_self .., mem_of_lookup _ _ _ hl⟩

/-- the role of a variable was written by some equation -/
theorem tyOf_typeMap_some {eqs : List Eqn} {x : Nat} {ty : VType} (h : tyOf (typeMap eqs) x = some ty) :
    ∃ e ∈ eqs, (x, ty) ∈ typeWrites e := by
  rcases lookup_tmAcc x ty eqs [] h with h | h
  · exact h
  · simp at h

theorem lookup_isSome_of_mem (l : List (Nat × VType)) (x : Nat) (ty : VType) (h : (x, ty) ∈ l) :
    (l.lookup x).isSome = true := by
  induction l with
  | nil => cases h
  | cons p rest ih =>
    obtain ⟨a, b⟩ := p
    by_cases hxa : x = a
    · subst hxa; simp
    · rcases List.mem_cons.mp h with h | h
      · cases h; exact absurd rfl hxa
      · simp only [List.lookup_cons, beq_ne hxa]; exact ih h

theorem isSome_tmAcc (x : Nat) : ∀ (eqs : List Eqn) (acc : List (Nat × VType)),
    ((∃ e ∈ eqs, ∃ ty, (x, ty) ∈ typeWrites e) ∨ (acc.lookup x).isSome = true) → ((tmAcc acc eqs).lookup x).isSome = true
  | [], acc, h => by
    rcases h with ⟨e, he, _⟩ | h
    · cases he
    · exact h
  | e :: es, acc, h => by
    refine isSome_tmAcc x es (typeWrites e ++ acc) ?_
    rcases h with ⟨e', he', ty, h'⟩ | h
    · rcases List.mem_cons.mp he' with rfl | he'
      · right
        rw [List.lookup_append]
        have := lookup_isSome_of_mem _ x ty h'
        obtain ⟨ty', hty'⟩ := Option.isSome_iff_exists.mp this
        simp [hty']
      · exact .inl ⟨e', he', ty, h'⟩
    · right
      rw [List.lookup_append]
      obtain ⟨ty', hty'⟩ := Option.isSome_iff_exists.mp h
      rcases (typeWrites e).lookup x with _ | t <;> simp [hty']

theorem tyOf_typeMap_isSome {eqs : List Eqn} {e : Eqn} (he : e ∈ eqs) {x : Nat} {ty : VType}
    (h : (x, ty) ∈ typeWrites e) : (tyOf (typeMap eqs) x).isSome = true :=
  isSome_tmAcc x eqs [] (.inl ⟨e, he, ty, h⟩)

/-- a variable that is the state or bound variable of an ODE and is not the left-hand side of an assignment is typed
    STATE or FREE -/
theorem tyOf_state_or_free {eqs : List Eqn} {e : Eqn} (he : e ∈ eqs) {s t o : Nat} (hl : e.lhs = .deriv s t o)
    {x : Nat} (hx : x = s ∨ x = t) (hno : ∀ e' ∈ eqs, e'.lhs ≠ .var x) :
    tyOf (typeMap eqs) x = some .state ∨ tyOf (typeMap eqs) x = some .free := by
  have hsome : (tyOf (typeMap eqs) x).isSome = true := by
    rcases hx with rfl | rfl
    · exact tyOf_typeMap_isSome he (ty := .state) (by simp [typeWrites, hl])
    · exact tyOf_typeMap_isSome he (ty := .free) (by simp [typeWrites, hl])
  obtain ⟨ty, hty⟩ := Option.isSome_iff_exists.mp hsome
  obtain ⟨e', he', hw⟩ := tyOf_typeMap_some hty
  cases hl' : e'.lhs with
  | var v =>
    simp [typeWrites, hl'] at hw
    exact absurd (hw.1 ▸ hl') (hno e' he')
  | deriv s' t' o' =>
    simp [typeWrites, hl'] at hw
    rcases hw with ⟨_, rfl⟩ | ⟨_, rfl⟩
    · exact .inr hty
    · exact .inl hty
  | other => simp [typeWrites, hl'] at hw

end Model
