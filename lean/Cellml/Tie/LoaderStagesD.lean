import Cellml.Tie.LoaderSym
import Cellml.Tie.LoaderStagesA

/-! # Closed GENERATED stages of `Parser.parse`, part D: the symbol resolution of `_add_maths`

    `_add_maths` hands the MathML of every component to the `Transpiler` (package C02) with the closure
    `symbol_generator` for the identifiers and `create_quantity(x, get_unit(y))` for the numbers, and passes every
    equation that comes back to `Model.add_equation`. The closure is GENERATED (`Gen.LoaderSym.symbolGenerator`, `while`
    included). Here the stage is rebuilt AROUND the generated closure:

    * `genSym`      — `symbol_generator(identifier)` of a component: the generated closure (its `while` cut at
                      `|connected_variable_mapping|` iterations; `connect_forest_gen` G2: the python loop has ended by
                      then); `genSym_eq` (= `Load.checkIdent`, then `Load.rootOf`).
    * `trExpr` / `trLhs` — the walk of the transpiler over an expression of the modelled fragment, with EVERY identifier
                      resolved by the closure it is given and every unit by `get_unit` — in the order `Load.checkExpr`
                      fixes (`<bvar>` before the differentiated variable). Hand-written (the transpiler's own source
                      is tied in `Tie/Transpile*.lean` for C02); what flows from the source here is the resolution.
    * `genAddMaths` — the loop of `_add_maths`: transpile, then `add_equation` (duplicate definition: ValueError), and
                      the equations in the order they were added; `genAddMaths_eq`: it raises exactly when
                      `Load.checkMaths` does (same class), defines the same variables and has added exactly
                      `Load.mathsOf` — the equations `Loaded.flat` re-derives from the document.
    * `genMathsStage` — the stage of `Parser.parse` (the refusals of `add_equation` for left-hand sides outside the
                      fragment, `FaultDoc.badEqs`, stay with the hand model `C17.badEqErr`). -/

namespace Cellml.Tie.LoaderClose
open Load Cellml.Gen Cellml.Tie

/-- `symbol_generator(x)` inside component `cname`: the GENERATED closure, the Variable it returns -/
def genSym (vt : VarTable) (st : CState) (cname x : String) : Except PyErr VRef :=
  match LoaderSym.symbolGenerator ⟨cname⟩ (varToSymbol vt) ⟨st.mapping⟩ st.mapping.length x with
  | .error e => .error e
  | .ok (some v) => .ok v
  | .ok none => .error ⟨"AssertionError"⟩

theorem genSym_eq (vt : VarTable) (st : CState) (cname x : String) :
    genSym vt st cname x = match checkIdent vt cname x with
      | .error e => .error ⟨e.className⟩
      | .ok () => .ok (rootOf st (cname, x)) := by
  unfold genSym
  rw [symbolGenerator_tie]
  cases checkIdent vt cname x <;> rfl

/-- the transpiler on an expression: identifiers through `sym`, units through `get_unit` -/
def trExpr (ust : Units.Store) (sym : String → Except PyErr VRef) : Expr String String → Except PyErr (Expr VRef FUnit)
  | .num q u => match Units.getUnit ust u with
      | .ok _ => .ok (.num q (unitF ust u))
      | .error _ => .error ⟨"KeyError"⟩
  | .var a => match sym a with
      | .ok v => .ok (.var v)
      | .error e => .error e
  | .diff x t => match sym t with
      | .error e => .error e
      | .ok t' => match sym x with
        | .error e => .error e
        | .ok x' => .ok (.diff x' t')
  | .add a b => match trExpr ust sym a with
      | .error e => .error e
      | .ok a' => match trExpr ust sym b with
        | .error e => .error e
        | .ok b' => .ok (.add a' b')
  | .sub a b => match trExpr ust sym a with
      | .error e => .error e
      | .ok a' => match trExpr ust sym b with
        | .error e => .error e
        | .ok b' => .ok (.sub a' b')
  | .mul a b => match trExpr ust sym a with
      | .error e => .error e
      | .ok a' => match trExpr ust sym b with
        | .error e => .error e
        | .ok b' => .ok (.mul a' b')
  | .div a b => match trExpr ust sym a with
      | .error e => .error e
      | .ok a' => match trExpr ust sym b with
        | .error e => .error e
        | .ok b' => .ok (.div a' b')
  | .neg a => match trExpr ust sym a with
      | .error e => .error e
      | .ok a' => .ok (.neg a')
  | .powi a n => match trExpr ust sym a with
      | .error e => .error e
      | .ok a' => .ok (.powi a' n)

def trLhs (sym : String → Except PyErr VRef) : Lhs String → Except PyErr (Lhs VRef)
  | .var a => match sym a with
      | .ok v => .ok (.var v)
      | .error e => .error e
  | .diff x t => match sym t with
      | .error e => .error e
      | .ok t' => match sym x with
        | .error e => .error e
        | .ok x' => .ok (.diff x' t')

theorem trExpr_eq (ust : Units.Store) (vt : VarTable) (st : CState) (cname : String) : ∀ (e : Expr String String),
    trExpr ust (genSym vt st cname) e = match checkExpr ust vt cname e with
      | .error err => .error ⟨err.className⟩
      | .ok () => .ok (e.map (fun x => rootOf st (cname, x)) (unitF ust))
  | .num q u => by
    simp only [trExpr, checkExpr]
    cases Units.getUnit ust u <;> rfl
  | .var a => by
    simp only [trExpr, checkExpr, genSym_eq]
    cases checkIdent vt cname a <;> rfl
  | .diff x t => by
    simp only [trExpr, checkExpr, genSym_eq]
    cases checkIdent vt cname t with
    | error e => rfl
    | ok u => cases checkIdent vt cname x <;> rfl
  | .add a b => by
    simp only [trExpr, checkExpr, trExpr_eq ust vt st cname a, trExpr_eq ust vt st cname b]
    cases checkExpr ust vt cname a with
    | error e => rfl
    | ok u => cases checkExpr ust vt cname b <;> rfl
  | .sub a b => by
    simp only [trExpr, checkExpr, trExpr_eq ust vt st cname a, trExpr_eq ust vt st cname b]
    cases checkExpr ust vt cname a with
    | error e => rfl
    | ok u => cases checkExpr ust vt cname b <;> rfl
  | .mul a b => by
    simp only [trExpr, checkExpr, trExpr_eq ust vt st cname a, trExpr_eq ust vt st cname b]
    cases checkExpr ust vt cname a with
    | error e => rfl
    | ok u => cases checkExpr ust vt cname b <;> rfl
  | .div a b => by
    simp only [trExpr, checkExpr, trExpr_eq ust vt st cname a, trExpr_eq ust vt st cname b]
    cases checkExpr ust vt cname a with
    | error e => rfl
    | ok u => cases checkExpr ust vt cname b <;> rfl
  | .neg a => by
    simp only [trExpr, checkExpr, trExpr_eq ust vt st cname a]
    cases checkExpr ust vt cname a <;> rfl
  | .powi a n => by
    simp only [trExpr, checkExpr, trExpr_eq ust vt st cname a]
    cases checkExpr ust vt cname a <;> rfl

theorem trLhs_eq (vt : VarTable) (st : CState) (cname : String) : ∀ (l : Lhs String),
    trLhs (genSym vt st cname) l = match checkLhs vt cname l with
      | .error err => .error ⟨err.className⟩
      | .ok () => .ok (l.map (fun x => rootOf st (cname, x)))
  | .var a => by
    simp only [trLhs, checkLhs, genSym_eq]
    cases checkIdent vt cname a <;> rfl
  | .diff x t => by
    simp only [trLhs, checkLhs, genSym_eq]
    cases checkIdent vt cname t with
    | error e => rfl
    | ok u => cases checkIdent vt cname x <;> rfl

/-- the equations of one component: transpile (symbols by the generated closure), then `Model.add_equation`
    (`_check_duplicate_definitions`: ValueError), recording what is defined and the equations added -/
def genAddEqs (ust : Units.Store) (vt : VarTable) (st : CState) (cname : String) :
    List (Eqn String String) → List VRef × List FlatEq → Except PyErr (List VRef × List FlatEq)
  | [], acc => .ok acc
  | e :: r, (defined, eqs) =>
    match trLhs (genSym vt st cname) e.lhs with
    | .error err => .error err
    | .ok l =>
      match trExpr ust (genSym vt st cname) e.rhs with
      | .error err => .error err
      | .ok rhs =>
        if defined.contains l.defines then .error ⟨"ValueError"⟩
        else genAddEqs ust vt st cname r (l.defines :: defined, eqs ++ [⟨l, rhs⟩])

theorem genAddEqs_eq (ust : Units.Store) (vt : VarTable) (st : CState) (cname : String) :
    ∀ (es : List (Eqn String String)) (defined : List VRef) (eqs : List FlatEq),
    genAddEqs ust vt st cname es (defined, eqs) = match checkEqs ust vt st cname es defined with
      | .error err => .error ⟨err.className⟩
      | .ok d => .ok (d, eqs ++ es.map (transcribe ust st cname))
  | [], defined, eqs => by simp [genAddEqs, checkEqs]
  | e :: r, defined, eqs => by
    simp only [genAddEqs, checkEqs, trLhs_eq, trExpr_eq]
    cases checkLhs vt cname e.lhs with
    | error err => rfl
    | ok u =>
      cases checkExpr ust vt cname e.rhs with
      | error err => rfl
      | ok u' =>
        simp only
        by_cases hc : defined.contains (transcribe ust st cname e).lhs.defines = true
        · rw [if_pos hc,
            if_pos (show defined.contains (Lhs.map (fun x => rootOf st (cname, x)) e.lhs).defines = true from hc)]
          rfl
        · rw [if_neg hc,
            if_neg (show ¬ defined.contains (Lhs.map (fun x => rootOf st (cname, x)) e.lhs).defines = true from hc),
            genAddEqs_eq ust vt st cname r]
          simp only [transcribe, Eqn.map]
          cases checkEqs ust vt st cname r
              ((Lhs.map (fun x => rootOf st (cname, x)) e.lhs).defines :: defined) with
          | error err => rfl
          | ok d => simp [transcribe, Eqn.map]

/-- the loop of `_add_maths` over the components -/
def genAddMaths (ust : Units.Store) (vt : VarTable) (st : CState) :
    List Comp → List VRef × List FlatEq → Except PyErr (List VRef × List FlatEq)
  | [], acc => .ok acc
  | c :: r, acc =>
    match genAddEqs ust vt st c.name c.eqs acc with
    | .error e => .error e
    | .ok acc' => genAddMaths ust vt st r acc'

/-- **`_add_maths` around the generated `symbol_generator`** raises exactly when `Load.checkMaths` does (same class),
    defines the same variables, and has added exactly the equations `Load.mathsOf` (every identifier replaced by the
    root of its connection chain) -/
theorem genAddMaths_eq (ust : Units.Store) (vt : VarTable) (st : CState) :
    ∀ (comps : List Comp) (defined : List VRef) (eqs : List FlatEq),
    genAddMaths ust vt st comps (defined, eqs) = match checkMaths ust vt st comps defined with
      | .error err => .error ⟨err.className⟩
      | .ok d => .ok (d, eqs ++ mathsOf ust st comps)
  | [], defined, eqs => by simp [genAddMaths, checkMaths, mathsOf]
  | c :: r, defined, eqs => by
    simp only [genAddMaths, checkMaths, genAddEqs_eq]
    cases checkEqs ust vt st c.name c.eqs defined with
    | error err => rfl
    | ok d =>
      simp only
      rw [genAddMaths_eq ust vt st r]
      cases checkMaths ust vt st r d with
      | error err => rfl
      | ok d' => simp [mathsOf]

/-! ## exception classes of the maths stage -/

theorem checkIdent_err_class {vt : VarTable} {cname x : String} {e : Err} (h : checkIdent vt cname x = .error e) :
    C17.className e = e.className := by
  unfold checkIdent at h
  split at h
  · cases h
  · cases h; rfl

theorem checkExpr_err_class (ust : Units.Store) (vt : VarTable) (cname : String) : ∀ (x : Expr String String) (e : Err),
    checkExpr ust vt cname x = .error e → C17.className e = e.className
  | .num q u, e, h => by
    simp only [checkExpr] at h
    split at h
    · cases h
    · cases h; rfl
  | .var a, e, h => checkIdent_err_class h
  | .diff x t, e, h => by
    simp only [checkExpr] at h
    split at h
    · exact checkIdent_err_class h
    · rename_i e' he; cases h; exact checkIdent_err_class he
  | .add a b, e, h | .sub a b, e, h | .mul a b, e, h | .div a b, e, h => by
    simp only [checkExpr] at h
    split at h
    · exact checkExpr_err_class ust vt cname b e h
    · rename_i e' he; cases h; exact checkExpr_err_class ust vt cname a _ he
  | .neg a, e, h => checkExpr_err_class ust vt cname a e h
  | .powi a n, e, h => checkExpr_err_class ust vt cname a e h

theorem checkLhs_err_class {vt : VarTable} {cname : String} {l : Lhs String} {e : Err}
    (h : checkLhs vt cname l = .error e) : C17.className e = e.className := by
  cases l with
  | var a => exact checkIdent_err_class h
  | diff x t =>
    simp only [checkLhs] at h
    split at h
    · exact checkIdent_err_class h
    · rename_i e' he; cases h; exact checkIdent_err_class he

theorem checkEqs_err_class (ust : Units.Store) (vt : VarTable) (st : CState) (cname : String) :
    ∀ (es : List (Eqn String String)) (defined : List VRef) (e : Err),
    checkEqs ust vt st cname es defined = .error e → C17.className e = e.className
  | [], _, _, h => by cases h
  | x :: r, defined, e, h => by
    simp only [checkEqs] at h
    split at h
    · rename_i e' he; cases h; exact checkLhs_err_class he
    · split at h
      · rename_i e' he; cases h; exact checkExpr_err_class ust vt cname _ _ he
      · split at h
        · cases h; rfl
        · exact checkEqs_err_class ust vt st cname r _ e h

theorem checkMaths_err_class (ust : Units.Store) (vt : VarTable) (st : CState) :
    ∀ (comps : List Comp) (defined : List VRef) (e : Err),
    checkMaths ust vt st comps defined = .error e → C17.className e = e.className
  | [], _, _, h => by cases h
  | c :: r, defined, e, h => by
    simp only [checkMaths] at h
    split at h
    · rename_i e' he; cases h; exact checkEqs_err_class ust vt st c.name _ _ _ he
    · exact checkMaths_err_class ust vt st r _ e h

/-! ## the stage -/

/-- the stage `self._add_maths(component_variables, connected_variable_mapping)`: the loop around the generated
    closure; `model.equations` already holds the conversion equations of `_add_connections`, whose targets are defined.
    A left-hand side outside the fragment (`FaultDoc.badEqs`) is refused as the hand model says. -/
def genMathsStage (fd : C17.FaultDoc) (st : ParseState) : Except PyErr ParseState :=
  match st.loaded with
  | none => notReady
  | some L => match fd.badEqs.head? with
    | some b => stageErr (C17.badEqErr L fd.doc b)
    | none => match genAddMaths L.ust L.vt L.st fd.doc.comps (L.st.convs.map (·.target), []) with
      | .error e => .error e
      | .ok (defined, eqs) => .ok { st with defined := some defined, maths := some eqs }

theorem genMathsStage_eq (fd : C17.FaultDoc) (st : ParseState) :
    genMathsStage fd st = match (parseView fd).addMaths st with
      | .error e => .error e
      | .ok st' => .ok { st' with maths := st.loaded.map (fun L => L.maths fd.doc) } := by
  simp only [genMathsStage, parseView]
  cases st.loaded with
  | none => rfl
  | some L =>
    simp only
    cases fd.badEqs.head? with
    | some b => rfl
    | none =>
      simp only
      rw [genAddMaths_eq]
      cases hm : checkMaths L.ust L.vt L.st fd.doc.comps (L.st.convs.map (·.target)) with
      | error e => simp [stageErr, checkMaths_err_class _ _ _ _ _ _ hm]
      | ok d => simp [Loaded.maths]

/-- `transform_constants` on the state the generated-symbol `_add_maths` leaves: the equations of the finished model
    are the conversion equations of the work list, the equations `_add_maths` ADDED (`st.maths`) and the constant
    equations the generated `transform_constants` added -/
def flatOf' (L : Loaded) (maths : List FlatEq) (tc : TCState) : Flat :=
  { reg := L.reg
    vars := L.vt.map (fun (v, i) => ⟨v, i.units, if tc.cleared.contains v then none else i.init, cmetaOf L.st v⟩)
    eqs := L.st.convs.map ConvEq.toEq ++ maths ++ tc.added }

def genConstsStage' (st : ParseState) : Except PyErr ParseState :=
  match st.loaded, st.defined, st.maths with
  | some L, some defined, some maths =>
    match LoaderConsts.transformConstants (constsView (statesOf maths) L.vt) ⟨defined, [], []⟩ with
    | .error e => .error e
    | .ok tc => .ok { st with flat := some (flatOf' L maths tc) }
  | _, _, _ => notReady

theorem genConstsStage'_eq (fd : C17.FaultDoc) (st : ParseState) (L : Loaded) (defined : List VRef)
    (hL : st.loaded = some L) (hd : st.defined = some defined) (hm : st.maths = some (L.maths fd.doc)) :
    genConstsStage' st = genConstsStage fd st := by
  simp only [genConstsStage', genConstsStage, hL, hd, hm]
  rfl

end Cellml.Tie.LoaderClose
