import Cellml.Tie.UnitsView
import Cellml.Units.RulesLemmas

/-! # Lemmas about the view `Cellml.Tie.UnitsView` used by the tie theorems of `Cellml.Tie.Units`
    (kept apart so that the tie file itself builds in seconds). -/

namespace Cellml.Tie.PUnits
open Units PMap

/-- the view's copy of `elemMeaning` with the name substitution as a parameter IS `Units.elemMeaning` -/
theorem elemMeaningG_mangle (id : Nat) (e : UnitElem) : elemMeaningG (mangle id) e = elemMeaning id e := by
  obtain ⟨u, p, ex, m, o⟩ := e
  unfold elemMeaningG elemMeaning
  cases p <;> cases ex <;> cases m <;> cases o <;> simp only [bind, Except.bind, pure, Except.pure] <;>
    (repeat' split) <;> simp_all

theorem defMeaningG_mangle (id : Nat) (es : List UnitElem) : defMeaningG (mangle id) es = defMeaning id es := by
  induction es with
  | nil => rfl
  | cons e es ih => simp only [defMeaningG, defMeaning, ih, elemMeaningG_mangle]

/-- membership in `known ++ built-ins` is the model's `isDefined` -/
theorem isIn_known (known : List String) (name : String) :
    Py.isIn name (known ++ Cellml.Gen.cellmlUnits) = (Cellml.Gen.cellmlUnits.contains name || known.contains name) := by
  simp only [Py.isIn, List.contains_eq_mem, List.mem_append, Bool.decide_or, Bool.or_comm]

end Cellml.Tie.PUnits
