"""Code-translator spec: `_generate_piecewise` of _singularity_fixes.py read on VALUES (C12: `C12.generate`).

The SymPy constructors are read by what they denote at a voltage `V`: `expr` is a function of the voltage (`xreplace({V:
x})` is application, the bare `expr` is its value at `V`), `Piecewise((a, c), (b, True))` is `if c then a else b`,
`And` / `Or` / `Le` are the Boolean connectives and `<=`, `/` is the division of the number type. The swap, the two
comparisons of the condition, their operands and the interpolation formula come from the source."""

GROUP = {'name': 'SingPw',
 'imports': ['Cellml.Tie.SingView'],
 'header': 'open Cellml.Tie.Sing',
 'functions': [{'file': 'cellmlmanip/_singularity_fixes.py',
                'func': '_generate_piecewise',
                'lean_name': 'generatePiecewise',
                'signature': '{K : Type} [Add K] [Sub K] [Mul K] [Div K] [LT K] [DecidableLT K] [LE K] '
                             '[DecidableLE K] (expr : K → K) (V sp Vmin Vmax : K) : Except PyErr K',
                'predeclare': [('range_condition', 'Bool', 'false')],
                'patterns': [('float(__A)', '← pyFloat {A}'),
                             ('expr.xreplace({V: __A})', '(expr {A})'),
                             ('Piecewise((__A, __C), (__B, True))', '(if {C} then {A} else {B})'),
                             ('And(__A, __B)', '({A} && {B})'),
                             ('Or(__A, __B)', '({A} || {B})'),
                             ('Le(__A, __B)', '(decide ({A} ≤ {B}))'),
                             ('__A / __B', '({A} / {B})'),
                             ('expr', '(expr V)')]}]}
