import Cellml.Units.Define

/-! The offset test of `_make_pint_unit_definition` (`float(offset) != 0`) against the number the attribute denotes
    (`Decimal.parse`, exact): the test refuses EXACTLY the offsets whose binary64 value is not zero.

    * `offsetRejected_decimal`: for decimal text the test is `!roundsToZero q`, `q` the exact value;
    * `zero_offset_accepted`: every spelling of zero passes (`0`, `0.0`, `+0`, `-0`, `0.00`, `0e0`, …) - before the
      repair (`strip().isnumeric()` / `int`) only digit strings did (`OldTest.zero_point_rejected`);
    * `nonzero_offset_rejected`: every offset whose nearest double is not zero is refused; `roundsToZero_false_of_ne`:
      that is every non-zero number whose denominator is below `2^1075` (e.g. any non-zero decimal with at most 323
      digits after the point). A non-zero text below `2^-1075` in magnitude (`1e-400`) IS the float zero and passes,
      as in python (`tiny_offset_is_float_zero`). -/

namespace Units

theorem floatText_of_parse {o : String} {q : Rat} (h : Decimal.parse o = some q) : floatText o = some (.dec q) := by
  unfold floatText; rw [h]

/-- decimal text: the test looks at the exact value only -/
theorem offsetRejected_decimal {o : String} {q : Rat} (h : Decimal.parse o = some q) :
    offsetRejected o = !roundsToZero q := by
  unfold offsetRejected; rw [floatText_of_parse h]

theorem roundsToZero_zero : roundsToZero 0 = true := by decide +kernel

/-- an offset that denotes zero passes the test, however it is spelled -/
theorem zero_offset_accepted (o : String) (h : Decimal.parse o = some 0) : offsetRejected o = false := by
  rw [offsetRejected_decimal h, roundsToZero_zero]; rfl

/-- an offset whose binary64 value is not zero is refused -/
theorem nonzero_offset_rejected (o : String) (q : Rat) (hq : Decimal.parse o = some q) (hnz : roundsToZero q = false) :
    offsetRejected o = true := by
  rw [offsetRejected_decimal hq, hnz]; rfl

/-- a non-zero rational with a denominator below `2^1075` does not round to the float zero -/
theorem roundsToZero_false_of_ne (q : Rat) (hne : q ≠ 0) (hden : q.den < 2 ^ 1075) : roundsToZero q = false := by
  unfold roundsToZero
  have hnum : q.num ≠ 0 := fun h => hne (Rat.num_eq_zero.mp h)
  have h1 : 1 ≤ q.num.natAbs := Nat.pos_of_ne_zero (by simpa using hnum)
  have h2 : 2 ^ 1075 ≤ q.num.natAbs * 2 ^ 1075 := Nat.le_mul_of_pos_left _ h1
  exact decide_eq_false (by omega)

/-- what passes the test is a number that the floats cannot tell from zero: a decimal literal (possibly with PEP 515
    underscores) of magnitude at most `2^-1075`; never `nan`, `inf`, or text that is not a number -/
theorem parse_of_offset_accepted (o : String) (h : offsetRejected o = false) :
    ∃ q, floatText o = some (.dec q) ∧ roundsToZero q = true := by
  unfold offsetRejected at h
  split at h
  · cases h
  · cases h
  · cases h
  · rename_i q hq
    exact ⟨q, hq, by simpa using h⟩

/-- decimal text that passes denotes a number of magnitude at most `2^-1075`; with a denominator below `2^1075`: zero -/
theorem zero_of_offset_accepted (o : String) (q : Rat) (hq : Decimal.parse o = some q) (hden : q.den < 2 ^ 1075)
    (h : offsetRejected o = false) : q = 0 := by
  apply Classical.byContradiction
  intro hne
  rw [nonzero_offset_rejected o q hq (roundsToZero_false_of_ne q hne hden)] at h
  cases h

/-- python: `float('1e-400') == 0.0`; `float('2.4703282292062328e-324') == 5e-324` (just above `2^-1075`) -/
theorem tiny_offset_is_float_zero :
    offsetRejected "1e-400" = false ∧ offsetRejected "2.4703282292062327e-324" = false ∧
    offsetRejected "2.4703282292062328e-324" = true := by decide +kernel

/-- what `float()` accepts beyond plain decimal literals: never a zero unless the digits are -/
theorem float_special_forms :
    offsetRejected "inf" = true ∧ offsetRejected "-Infinity" = true ∧ offsetRejected "nan" = true ∧
    offsetRejected "1_0" = true ∧ offsetRejected "0_0" = false ∧ offsetRejected "0__0" = true ∧
    offsetRejected "_0" = true ∧ offsetRejected "0_" = true ∧ offsetRejected "0x0" = true ∧
    offsetRejected "" = true ∧ offsetRejected "zero" = true := by decide +kernel

/-! ### the test before the repair (`not offset.strip().isnumeric() or int(offset) != 0`), kept as a witness -/
namespace OldTest

def offsetRejected (o : String) : Bool :=
  let t := Decimal.trimList o.toList
  if t.isEmpty || !(t.all Char.isDigit) then true
  else match Decimal.digitsToNat t with
    | some n => n != 0
    | none => true

/-- known finding `valid-rejected:zero-offset-spelling` (now fixed): `0.0` denotes zero, the old test refused it, the
    repaired test accepts it; both refuse `0.5` (the seeded slip `int(float(x))` would accept it) -/
theorem zero_point_rejected :
    Decimal.parse "0.0" = some 0 ∧ OldTest.offsetRejected "0.0" = true ∧ Units.offsetRejected "0.0" = false ∧
    OldTest.offsetRejected "0.5" = true ∧ Units.offsetRejected "0.5" = true := by decide +kernel

end OldTest
end Units
