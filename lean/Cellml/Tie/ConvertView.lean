import Cellml.Tie.Prelude
import Cellml.Expr.Convert

/-! # What the translated functions of units.py (`convert_expression_recursively` and its helpers) see

    The generated code (`Cellml/Generated/Code/Convert.lean`) talks about SymPy objects (`expr.is_Add`, `expr.args`,
    `expr.func(*new_args)`), pint units (`a / b`, `a ** q`, `reduce(mul, us)`) and the unit store
    (`get_conversion_factor`). The pattern table of `harness/code_specs/convert.py` binds each of these leaves to one
    accessor below, which reads the hand model's expression type `E` (`Cellml/Expr/Basic.lean`).

    Representation: a SymPy object is an `E`. SymPy's `Add`, `Mul`, `And`, `Or`, `Max`/`Min` nodes are flat n-ary; the
    serialiser left-nests them (`Add(a,b,c)` is `add (add a b) c`, see `Expr/Basic.lean`). `args` shows the python loops
    the FLAT operand list read off the left spine of the `E` node (`addArgs`, `mulArgs`, `andArgs`, `orArgs`, `fnArgs f`:
    the spine is followed as long as the node has the same class - and, for `fnN`, the same function name), and `rebuild`
    (`expr.func(*new_args)`) left-nests a flat list again. A `Piecewise` is seen with ALL its `(piece, cond)` pairs as
    `args` (the chain `ite c t rest … undef`), each pair being the one-piece chain `ite c t undef`. A unit-or-`None`
    value is an `Option Container` everywhere (`PyUnit`).
    Core Lean only. -/

set_option linter.constructorNameAsVariable false

namespace Cellml.Tie.PConvert
open Units Infer Convert

/-- a pint `Unit`, or python `None` -/
abbrev PyUnit := Option Container

/-- what `convert_expression_recursively` returns: `(new_expr, was_converted, actual_units)` -/
abbrev ConvRes := E × Bool × PyUnit

/-- exception class of a model-side error of the conversion. The model's `otherException w` is the python exception
    `w` (pint's UndefinedUnitError); `unsupported w` has no python counterpart (the model abstains) and keeps its
    own name. -/
def convCls : UnitErr → String
  | .otherException w => w
  | e => e.name

/-- the model's result as the python triple -/
def encConv (r : Except UnitErr CR) : Except PyErr ConvRes :=
  (errClass convCls r).map (fun r => (r.e, r.wc, some r.u))

/-! ### SymPy class flags -/

/-- `expr.is_Matrix` -/
def isMatrix : E → Bool | .other n => n == "Matrix" | _ => false
/-- `expr.is_Symbol` (`model.Quantity` and `model.Variable` are Dummy symbols) -/
def isSymbol : E → Bool | .qty .. | .cf .. | .var _ => true | _ => false
/-- `expr.is_Derivative` -/
def isDerivative : E → Bool | .deriv .. => true | .other n => n == "Derivative" | _ => false
/-- `expr.is_Mul` -/
def isMul : E → Bool | .mul .. => true | _ => false
/-- `expr.is_Pow` -/
def isPow : E → Bool | .pow .. => true | _ => false
/-- `expr.is_Add` -/
def isAdd : E → Bool | .add .. => true | _ => false
/-- `expr.is_Relational` -/
def isRelational : E → Bool | .rel .. => true | _ => false
/-- `expr.is_Piecewise` -/
def isPiecewise : E → Bool | .ite .. => true | _ => false
/-- `expr.is_Function` (SymPy's `And`, `Or`, `Not` are `Function`s too) -/
def isFunction : E → Bool
  | .abs _ | .floor _ | .ceil _ | .fn1 .. | .fnN .. | .and .. | .or .. | .not _ => true
  | _ => false
/-- `expr.is_number` -/
def isNumber : E → Bool | .int _ | .rat _ | .flt _ | .pi | .e | .oo | .nan => true | _ => false
/-- `expr.is_Boolean` -/
def isBoolean : E → Bool | .tt | .ff | .and .. | .or .. | .not _ | .rel .. => true | _ => false
/-- `isinstance(x, model.Variable)` -/
def isVariable : E → Bool | .var _ => true | _ => false

/-! ### SymPy structure -/

/-- the `(piece, cond)` pair of a Piecewise (an `ExprCondPair`), as the one-piece chain -/
def mkPair (piece cond : E) : E := .ite cond piece .undef

/-- `piece, cond = arg` -/
def pairOf : E → E × E
  | .ite c t _ => (t, c)
  | e => (e, .tt)

/-- the pairs of a Piecewise chain -/
def pwArgs : E → List E
  | .ite c t el => mkPair t c :: pwArgs el
  | _ => []

/-- the flat operands of a SymPy `Add`: the left spine of `add` nodes (`add (add a b) c` is `Add(a, b, c)`) -/
def addArgs : E → List E
  | .add a b => addArgs a ++ [b]
  | e => [e]

/-- the flat operands of a SymPy `Mul` -/
def mulArgs : E → List E
  | .mul a b => mulArgs a ++ [b]
  | e => [e]

/-- the flat operands of a SymPy `And` -/
def andArgs : E → List E
  | .and a b => andArgs a ++ [b]
  | e => [e]

/-- the flat operands of a SymPy `Or` -/
def orArgs : E → List E
  | .or a b => orArgs a ++ [b]
  | e => [e]

/-- the flat operands of an n-ary function `f` (`Max`, `Min`, …): the left spine of `fnN` nodes WITH THE SAME NAME.
    (A nested call of the same function, `Mod(Mod(a, b), c)`, has the same wire form as a flat 3-ary call and is read
    as flat; for the conversion both readings give the same result, see `fn_loop`.) -/
def fnArgs (f : String) : E → List E
  | .fnN g a b => if f = g then fnArgs f a ++ [b] else [.fnN g a b]
  | e => [e]

/-- `expr.args` -/
def args : E → List E
  | .add a b => addArgs (.add a b)
  | .mul a b => mulArgs (.mul a b)
  | .and a b => andArgs (.and a b)
  | .or a b => orArgs (.or a b)
  | .fnN f a b => fnArgs f (.fnN f a b)
  | .pow a b | .rel _ a b => [a, b]
  | .abs a | .floor a | .ceil a | .fn1 _ a | .not a => [a]
  | .ite c t el => pwArgs (.ite c t el)
  | _ => []

/-- `base, exponent = expr.args` -/
def unpack2 : List E → Except PyErr (E × E)
  | [a, b] => .ok (a, b)
  | _ => .error ⟨"ValueError"⟩

/-- `len(expr.args)` -/
def nargs : E → Nat
  | .deriv .. => 2
  | .other _ => 2
  | e => (args e).length

/-- `expr.args[0]` of a Derivative: the differentiated expression -/
def dNum : E → E | .deriv v _ => .var v | e => e
/-- `expr.args[1][0]` of a Derivative: the variable of differentiation -/
def dWrt : E → E | .deriv _ t => .var t | e => e
/-- `expr.args[1][1]` of a Derivative: the order (`other "Derivative"` stands for every Derivative that is not a
    first-order derivative of a Variable wrt a Variable) -/
def dOrder : E → Nat | .deriv .. => 1 | _ => 2

/-- the Piecewise chain with the given pairs -/
def mkPiecewise : List E → E
  | [] => .undef
  | p :: ps => .ite (pairOf p).2 (pairOf p).1 (mkPiecewise ps)

/-- `expr.func(*new_args)`: the node of the same class (and function name / relation) with new operands. A flat
    operand list of an n-ary class is left-nested again (`Add(x, y, z)` is `add (add x y) z`; one operand: SymPy's
    `Add(x)` / `Mul(x)` / `And(x)` / `Or(x)` / `Max(x)` is `x`). -/
def rebuild : E → List E → E
  | .add .., x :: xs => xs.foldl E.add x
  | .mul .., x :: xs => xs.foldl E.mul x
  | .fnN f .., x :: xs => xs.foldl (E.fnN f) x
  | .and .., x :: xs => xs.foldl E.and x
  | .or .., x :: xs => xs.foldl E.or x
  | .pow .., [a, b] => .pow a b
  | .rel r .., [a, b] => .rel r a b
  | .abs _, [a] => .abs a
  | .floor _, [a] => .floor a
  | .ceil _, [a] => .ceil a
  | .fn1 f _, [a] => .fn1 f a
  | .not _, [a] => .not a
  | .ite .., ps => mkPiecewise ps
  | e, _ => e

/-- `expr.func`, by class name -/
def funcName : E → String
  | .abs _ => "Abs" | .floor _ => "floor" | .ceil _ => "ceiling"
  | .fn1 f _ => f | .fnN f .. => f
  | .and .. => "And" | .or .. => "Or" | .not _ => "Not"
  | _ => ""

/-- `float(x)`: TypeError when symbols are left. Where the exact model does not track the value (`pi ** …`, `oo`, …)
    the model abstains; that is not a python exception and passes through every `except` clause. -/
def pyFloat (x : E) : Except PyErr Rat :=
  match evalClosed x with
  | none => .error ⟨"TypeError"⟩
  | some none => .error ⟨"unsupported:exponent value not tracked"⟩
  | some (some q) => .ok q

/-! ### pint units (`None` is not a unit: TypeError) -/

/-- `a / b` on units -/
def unitDiv : PyUnit → PyUnit → Except PyErr PyUnit
  | some a, some b => .ok (some (divC a b))
  | _, _ => .error ⟨"TypeError"⟩

/-- `a ** q` on a unit -/
def unitPow : PyUnit → Rat → Except PyErr PyUnit
  | some a, q => .ok (some (powC a q))
  | none, _ => .error ⟨"TypeError"⟩

/-- `a * b` on units -/
def unitMul : PyUnit → PyUnit → Except PyErr PyUnit
  | some a, some b => .ok (some (mulC a b))
  | _, _ => .error ⟨"TypeError"⟩

/-- `reduce(mul, us)` -/
def reduceMul : List PyUnit → Except PyErr PyUnit
  | [] => .error ⟨"TypeError"⟩
  | u :: us => us.foldlM unitMul u

/-- `cf != 1` for what `get_conversion_factor` returned (the model's `none` IS the int `1` the code returns) -/
def cfNotOne (cf : Option Scale) : Bool := cf.isSome

/-- `model.Quantity(cf, to_units / from_units)` -/
def mkQuantity (cf : Option Scale) (u : PyUnit) : Except PyErr E :=
  match u with
  | some u => .ok (.cf (cf.getD []) u)
  | none => .error ⟨"TypeError"⟩

/-- `UnitCalculator` / `UnitStore` as seen by the conversion -/
structure ConvView where
  /-- `self._store.get_conversion_factor(a, b)` (pint's DimensionalityError / UndefinedUnitError) -/
  factor : PyUnit → PyUnit → Except PyErr (Option Scale)
  /-- `expr.units` of a `model.Quantity` / `model.Variable`. The model's variable environment is a list: an index out of
      range is the model's `unsupported "unknown variable"` (no python counterpart) -/
  unitsOf : E → Except PyErr PyUnit

def convView (reg : Registry) (Γ : VarEnv) : ConvView where
  factor a b := match a, b with
    | some a, some b =>
      (match conversionFactor reg a b with
       | .ok f => .ok f
       | .error .dimensionality => .error ⟨"DimensionalityError"⟩
       | .error _ => .error ⟨"UndefinedUnitError"⟩)
    | _, _ => .error ⟨"AttributeError"⟩
  unitsOf e := match e with
    | .qty _ u => .ok (some u)
    | .cf _ u => .ok (some u)
    | .var i => (match Γ[i]? with
        | some vi => .ok (some vi.unit)
        | none => .error ⟨"unsupported:unknown variable"⟩)
    | _ => .error ⟨"AttributeError"⟩

/-- the recursive call, played by the hand model -/
def modelRec (reg : Registry) (Γ : VarEnv) (e : E) (t : PyUnit) : Except PyErr ConvRes :=
  encConv (convert reg Γ e t)

end Cellml.Tie.PConvert
