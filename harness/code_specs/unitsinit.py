"""Code-translator spec: cellmlmanip/units.py:UnitStore.__init__ (store id, prefix, own or shared registry, initial set
of known names), tied in lean/Cellml/Tie/UnitsInit.lean to `Units.Wire.World.newStore` (the model of C16).

The constructor mutates `self`, the class attribute `UnitStore._next_id` and (when it creates a registry) the heap of
registry objects: the three are threaded as state (`loop_state`) and returned. A registry is a REFERENCE here
(`StoreRef._registry : Nat`), because sharing one is what the constructor decides."""

GROUP = {
    'name': 'UnitsInit',
    'imports': ['Cellml.Tie.UnitsView'],
    'header': 'open Cellml.Tie.PUnits',
    'functions': [
        {'file': 'cellmlmanip/units.py', 'func': 'UnitStore.__init__', 'lean_name': 'init',
         'params': ['self', 'store', 'next_id', 'regs'],
         'loop_state': ['self', 'next_id', 'regs'],
         'signature': '(self : StoreRef) (store : Option StoreRef) (next_id : Nat) (regs : List Registry) : '
                      'Except PyErr (StoreRef × Nat × List Registry)',
         'patterns': [
             ('UnitStore._next_id', 'next_id'),                       # the class attribute, threaded as state
             ('_CELLML_UNITS', 'Cellml.Gen.cellmlUnits'),             # translated table
             ('str(__A)', '(PyStr.str {A})'),
             ('set(__A)', '(pySet {A})'),
             ('store._registry', '((← derefStore store))._registry'),  # `store` may be None
         ],
         'stmt_patterns': [
             ('UnitStore._next_id += __A', 'next_id := next_id + {A}'),
             ('self._id = __A', 'self := { self with _id := {A} }'),
             ('self._prefix = __A', 'self := { self with _prefix := {A} }'),
             ('self._known_units = __A', 'self := { self with _known_units := {A} }'),
             # a new pint registry configured from the CellML unit file (a new object on the heap)
             ("self._registry = pint.UnitRegistry(os.path.join(os.path.dirname(__file__), 'data', 'cellml_units.txt'))",
              'let (regs__, ref__) := newRegistry regs\nregs := regs__\nself := { self with _registry := ref__ }'),
             ('self._registry = __A', 'self := { self with _registry := {A} }'),
             # no counterpart in the view: the calculator and the two exposed pint classes
             ('self._calculator = UnitCalculator(self)', ''),
             ('self.Unit = self._registry.Unit', ''),
             ('self.Quantity = self._registry.Quantity', ''),
         ]},
    ],
}
