import Cellml.C10.RolesLemmas

/-! # C10: for well-formed models the answers depend on the SET of equations only

    Two well-formed models with the same variables (same objects, same order of introduction, same initial values)
    whose equation lists are permutations of each other — e.g. reached by histories that added, removed and re-added
    the equations in different orders — answer all role queries alike and `get_value` returns the same numbers.
    (Without well-formedness "the first ODE" and "the last equation that writes a role" are visible.) Core Lean only. -/

namespace Model

variable {fn : Interp} {M₁ M₂ : RModel}

theorem odeRhs_of_mem {M : RModel} (E : EqInv M.st) {e : Eqn} (he : e ∈ M.st.equations) {s t : Nat}
    (hl : lhsNode e.lhs = some (.deriv s t)) : odeRhs M s t = some (M.rhs e.tok) := by
  obtain ⟨o, hlhs⟩ := lhs_of_lhsNode_deriv hl
  unfold odeRhs
  have hmem : (s, e) ∈ M.st.odeDef := by rw [E.odeDef]; exact (mem_deriveOdeDef _ _ _).mpr ⟨he, t, o, hlhs⟩
  have hfun : ∀ a b, (s, a) ∈ M.st.odeDef → (s, b) ∈ M.st.odeDef → a = b := by
    intro a b ha hb
    rw [E.odeDef] at ha hb
    obtain ⟨ha1, ta, oa, ha2⟩ := (mem_deriveOdeDef _ _ _).mp ha
    obtain ⟨hb1, tb, ob, hb2⟩ := (mem_deriveOdeDef _ _ _).mp hb
    exact def_unique (k := s) _ ha1 hb1 (by simp [defKey, ha2]) (by simp [defKey, hb2]) E.nodup
  rw [(lookup_eq_some_iff _ _ _ hfun).mpr hmem]
  simp [hl]

/-- what "the same content up to the order of the equations" means -/
structure SameSet (M₁ M₂ : RModel) : Prop where
  rhs : M₁.rhs = M₂.rhs
  live : M₁.st.live = M₂.st.live
  init : initOf M₁.st = initOf M₂.st
  order : orderOf M₁.st = orderOf M₂.st
  eqs : M₁.st.equations.Perm M₂.st.equations

theorem SameSet.symm (h : SameSet M₁ M₂) : SameSet M₂ M₁ :=
  ⟨h.rhs.symm, h.live.symm, h.init.symm, h.order.symm, h.eqs.symm⟩

theorem isState_sameSet (E₁ : EqInv M₁.st) (E₂ : EqInv M₂.st) (h : SameSet M₁ M₂) : isState M₁ = isState M₂ := by
  funext v
  have : isState M₁ v = true ↔ isState M₂ v = true := by
    rw [isState_iff E₁, isState_iff E₂]
    constructor
    · rintro ⟨e, he, x⟩; exact ⟨e, h.eqs.mem_iff.mp he, x⟩
    · rintro ⟨e, he, x⟩; exact ⟨e, h.eqs.mem_iff.mpr he, x⟩
  cases h1 : isState M₁ v <;> cases h2 : isState M₂ v <;> simp_all

theorem varRhs_sameSet_le (E₁ : EqInv M₁.st) (E₂ : EqInv M₂.st) (h : SameSet M₁ M₂) (v : Nat) (r : Expr)
    (hr : varRhs M₁ v = some r) : varRhs M₂ v = some r := by
  obtain ⟨e, he, hl, rfl⟩ := varRhs_spec E₁ hr
  rw [varRhs_of_mem E₂ (h.eqs.mem_iff.mp he) hl, h.rhs]

theorem varRhs_sameSet (E₁ : EqInv M₁.st) (E₂ : EqInv M₂.st) (h : SameSet M₁ M₂) : varRhs M₁ = varRhs M₂ := by
  funext v
  rcases h1 : varRhs M₁ v with _ | r
  · rcases h2 : varRhs M₂ v with _ | r'
    · rfl
    · rw [varRhs_sameSet_le E₂ E₁ h.symm v r' h2] at h1; cases h1
  · exact (varRhs_sameSet_le E₁ E₂ h v r h1).symm

theorem odeRhs_sameSet_le (E₁ : EqInv M₁.st) (E₂ : EqInv M₂.st) (h : SameSet M₁ M₂) (s t : Nat) (r : Expr)
    (hr : odeRhs M₁ s t = some r) : odeRhs M₂ s t = some r := by
  obtain ⟨e, he, hl, rfl⟩ := odeRhs_spec E₁ hr
  rw [odeRhs_of_mem E₂ (h.eqs.mem_iff.mp he) hl, h.rhs]

theorem odeRhs_sameSet (E₁ : EqInv M₁.st) (E₂ : EqInv M₂.st) (h : SameSet M₁ M₂) : odeRhs M₁ = odeRhs M₂ := by
  funext s t
  rcases h1 : odeRhs M₁ s t with _ | r
  · rcases h2 : odeRhs M₂ s t with _ | r'
    · rfl
    · rw [odeRhs_sameSet_le E₂ E₁ h.symm s t r' h2] at h1; cases h1
  · exact (odeRhs_sameSet_le E₁ E₂ h s t r h1).symm

theorem freeVar_sameSet (W₁ : WF M₁) (W₂ : WF M₂) (h : SameSet M₁ M₂) : freeVar M₁ = freeVar M₂ := by
  by_cases hx : ∃ e ∈ M₁.st.equations, ∃ s t o, e.lhs = .deriv s t o
  · obtain ⟨e, he, s, t, o, hl⟩ := hx
    rw [freeVar_of_ode W₁ he hl, freeVar_of_ode W₂ (h.eqs.mem_iff.mp he) hl]
  · have hnone : ∀ e ∈ M₁.st.equations, bvarOf e = none := by
      intro e he
      cases hl : e.lhs with
      | deriv s t o => exact absurd ⟨e, he, s, t, o, hl⟩ hx
      | var v => simp [bvarOf, hl]
      | other => simp [bvarOf, hl]
    rw [freeVar_none W₁.inv.eq hnone, freeVar_none W₂.inv.eq (fun e he => hnone e (h.eqs.mem_iff.mpr he))]

/-- the denotation only reads the definition maps as functions -/
theorem den_congr (h1 : isState M₁ = isState M₂) (h2 : varRhs M₁ = varRhs M₂) (h3 : odeRhs M₁ = odeRhs M₂)
    (h4 : freeVar M₁ = freeVar M₂) (h5 : initOf M₁.st = initOf M₂.st) {i : Item} {q : Rat} (h : Den fn M₁ i q) :
    Den fn M₂ i q := by
  induction h with
  | state hs hi => exact Den.state (h1 ▸ hs) (h5 ▸ hi)
  | defn hs hr _ ih => exact Den.defn (h1 ▸ hs) (h2 ▸ hr) ih
  | free hs hr hf => exact Den.free (h1 ▸ hs) (h2 ▸ hr) (h4 ▸ hf)
  | num q => exact Den.num q
  | var _ ih => exact Den.var ih
  | deriv ho _ ih => exact Den.deriv (h3 ▸ ho) ih
  | bin _ _ hab iha ihb => exact Den.bin iha ihb hab
  | pow _ hp ih => exact Den.pow ih hp
  | opq hl _ hf ih => exact Den.opq hl ih hf

theorem den_sameSet (W₁ : WF M₁) (W₂ : WF M₂) (h : SameSet M₁ M₂) (i : Item) (q : Rat) : Den fn M₁ i q ↔ Den fn M₂ i q :=
  ⟨den_congr (isState_sameSet W₁.inv.eq W₂.inv.eq h) (varRhs_sameSet W₁.inv.eq W₂.inv.eq h)
      (odeRhs_sameSet W₁.inv.eq W₂.inv.eq h) (freeVar_sameSet W₁ W₂ h) h.init,
   den_congr (isState_sameSet W₁.inv.eq W₂.inv.eq h).symm (varRhs_sameSet W₁.inv.eq W₂.inv.eq h).symm
      (odeRhs_sameSet W₁.inv.eq W₂.inv.eq h).symm (freeVar_sameSet W₁ W₂ h).symm h.init.symm⟩

/-- two sorted lists with the same elements, sorted by a key that is injective on them, are equal -/
theorem sortBy_perm_eq {α : Type} (key : α → Nat) {l₁ l₂ : List α} (hp : l₁.Perm l₂)
    (hinj : ∀ a ∈ l₁, ∀ b ∈ l₁, key a = key b → a = b) : sortBy key l₁ = sortBy key l₂ := by
  refine List.Perm.eq_of_pairwise (le := fun a b => key a ≤ key b) ?_ (sortBy_sorted key l₁) (sortBy_sorted key l₂)
    (((sortBy_perm key l₁).trans hp).trans (sortBy_perm key l₂).symm)
  intro a b ha hb hab hba
  exact hinj a ((sortBy_perm key l₁).mem_iff.mp ha) b (hp.mem_iff.mpr ((sortBy_perm key l₂).mem_iff.mp hb))
    (Nat.le_antisymm hab hba)

theorem filterMap_congr' {α β : Type} {f g : α → Option β} : ∀ {l : List α}, (∀ x ∈ l, f x = g x) →
    l.filterMap f = l.filterMap g
  | [], _ => rfl
  | x :: xs, h => by
    rw [List.filterMap_cons, List.filterMap_cons, h x (List.mem_cons_self ..),
      filterMap_congr' (fun y hy => h y (List.mem_cons_of_mem _ hy))]

theorem state_live {M : RModel} (W : WF M) {k : Nat} (hk : isState M k = true) : k ∈ M.st.live := by
  obtain ⟨e, he, t, o, hl⟩ := (isState_iff W.inv.eq k).mp hk
  exact W.live e he k (by simp [Eqn.atoms, hl])

theorem stateVars_filter {M : RModel} (W : WF M) : stateVars M = M.st.live.filter (isState M) :=
  states_in_variables_order W.inv (fun k hk => state_live W ((hasKey_iff_mem_keys k M.st.odeDef).mpr hk))

theorem stateVars_sameSet (W₁ : WF M₁) (W₂ : WF M₂) (h : SameSet M₁ M₂) : stateVars M₁ = stateVars M₂ := by
  rw [stateVars_filter W₁, stateVars_filter W₂, h.live, isState_sameSet W₁.inv.eq W₂.inv.eq h]

theorem isConstant_sameSet (W₁ : WF M₁) (W₂ : WF M₂) (h : SameSet M₁ M₂) : isConstant M₁ = isConstant M₂ := by
  funext v; simp only [isConstant, varRhs_sameSet W₁.inv.eq W₂.inv.eq h]

theorem derivatives_sameSet (W₁ : WF M₁) (W₂ : WF M₂) (h : SameSet M₁ M₂) {l₁ l₂ : List (Nat × Nat)}
    (h1 : derivatives M₁ = .ok l₁) (h2 : derivatives M₂ = .ok l₂) : l₁ = l₂ := by
  rw [derivatives_spec W₁.inv h1, derivatives_spec W₂.inv h2, h.order]
  refine sortBy_perm_eq _ (h.eqs.filterMap _) ?_
  rintro ⟨s, t⟩ ha ⟨s', t'⟩ hb hkey
  obtain ⟨e, he, o, hl⟩ := (mem_derivLhs _ s t).mp ha
  obtain ⟨e', he', o', hl'⟩ := (mem_derivLhs _ s' t').mp hb
  have hs : s ∈ M₁.st.live := W₁.live e he s (by simp [Eqn.atoms, hl])
  have hs' : s' ∈ M₁.st.live := W₁.live e' he' s' (by simp [Eqn.atoms, hl'])
  have hss : s = s' := pairwise_lt_inj W₁.inv.reg.orderInc s s' hs hs' (by rw [h.order]; exact hkey)
  have htt : t = t' := by
    have := (freeVar_of_ode W₁ he hl).symm.trans (freeVar_of_ode W₁ he' hl')
    exact Option.some.inj this
  rw [hss, htt]

theorem derivedQuantities_sameSet (W₁ : WF M₁) (W₂ : WF M₂) (h : SameSet M₁ M₂) {l₁ l₂ : List Nat}
    (h1 : derivedQuantities M₁ = .ok l₁) (h2 : derivedQuantities M₂ = .ok l₂) : l₁ = l₂ := by
  rw [derivedQuantities_spec W₁.inv h1, derivedQuantities_spec W₂.inv h2, h.order]
  have hcongr : computedLhs (typeMap M₁.st.equations) M₁.st.equations =
      computedLhs (typeMap M₂.st.equations) M₁.st.equations := by
    unfold computedLhs
    apply filterMap_congr'
    intro e he
    cases hl : e.lhs with
    | var v => simp only [tyOf_assigned W₁ he hl, tyOf_assigned W₂ (h.eqs.mem_iff.mp he) hl]
    | deriv s t o => rfl
    | other => rfl
  rw [hcongr]
  refine sortBy_perm_eq _ (h.eqs.filterMap _) ?_
  intro a ha b hb hkey
  rw [← hcongr] at ha hb
  obtain ⟨e, he, hl, _⟩ := (mem_computedLhs W₁ a).mp ha
  obtain ⟨e', he', hl', _⟩ := (mem_computedLhs W₁ b).mp hb
  have hal : a ∈ M₁.st.live := W₁.live e he a (by simp [Eqn.atoms, hl])
  have hbl : b ∈ M₁.st.live := W₁.live e' he' b (by simp [Eqn.atoms, hl'])
  exact pairwise_lt_inj W₁.inv.reg.orderInc a b hal hbl (by rw [h.order]; exact hkey)

theorem getValue_sameSet (W₁ : WF M₁) (W₂ : WF M₂) (h : SameSet M₁ M₂) (v : Nat) (q : Rat) :
    getValue fn M₁ v = .ok q ↔ getValue fn M₂ v = .ok q := by
  have g1 := getValueFuel_good fn W₁ (M₁.st.live.length + 1) (Nat.lt_succ_self _) v
  have g2 := getValueFuel_good fn W₂ (M₂.st.live.length + 1) (Nat.lt_succ_self _) v
  unfold getValue
  constructor
  · intro hq
    rw [hq] at g1
    have hd := (den_sameSet W₁ W₂ h _ _).mp g1
    rcases hr : getValueFuel fn M₂ (M₂.st.live.length + 1) v with err | q'
    · rw [hr] at g2; exact absurd hd (g2.2 q)
    · rw [hr] at g2; rw [den_unique g2 hd]
  · intro hq
    rw [hq] at g2
    have hd := (den_sameSet W₁ W₂ h _ _).mpr g2
    rcases hr : getValueFuel fn M₁ (M₁.st.live.length + 1) v with err | q'
    · rw [hr] at g1; exact absurd hd (g1.2 q)
    · rw [hr] at g1; rw [den_unique g1 hd]

end Model
