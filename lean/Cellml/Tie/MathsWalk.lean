import Cellml.Generated.Code.MathsWalk
import Cellml.Tie.ModelState
import Cellml.Tie.LoaderStagesD
import Mathlib.Tactic.SplitIfs

/-! # Tie: `Parser._add_maths` (generated from the source, WHOLE function) = `Load.checkMaths` / `Load.mathsOf` and the
      refusals `C17.badEqErr` models

    * `addMaths_spec` — for ARBITRARY component elements, `variable_to_symbol` dicts, mapping and model state the
      generated function is `compsSpec`: per component with at least one `<math>`, one transpiler (generated closure,
      translated lambda); per `<math>` element `parse_tree` (ALL its equations are transpiled), then the GENERATED
      `Model.add_equation` on each, in order.
    * `addEquation_lhs` / `addEquation_other` — what the generated `add_equation` does on the model object the stage
      threads (through `addEquation_tie`): a second definition is a ValueError, a left-hand side that is neither a
      Variable nor the first derivative of a Variable is a ValueError, otherwise the definition is recorded.
    * `mathsElems fd` — the `<component>` elements of a `C17.FaultDoc` (one `<math>` per equation; the first bad equation
      of `fd.badEqs` at its place); `comps_sim`, `eqs_sim`, `bad_comp` — the walk simulates `genAddMaths` (=
      `Load.checkMaths`, `genAddMaths_eq`) and, at the bad equation, raises the class of `C17.badEqOwn`.
    * `genMathsWalkStage` — the stage of `Parser.parse`; `genMathsWalkStage_eq`: on documents whose first bad equation
      is what `C17.BadLhs` says it is (`BadWF`) it is the stage of the hand model (`parseView fd`), with the equations
      `_add_maths` added recorded. No `C17.badEqErr` inside any more. -/

namespace Cellml.Tie.PMathsWalk
open Load Cellml.Gen Cellml.Tie Cellml.Tie.PModelState Cellml.Tie.LoaderClose

/-! ## 1. the generated function on arbitrary elements -/

/-- `for expr in sympy_exprs: self.model.add_equation(expr)` -/
def addAll : List TrEq → MathsSt → Except PyErr MathsSt
  | [], st => .ok st
  | q :: r, st => match addEquation st q with
    | .error e => .error e
    | .ok st' => addAll r st'

/-- `for math_element in math_elements:` transpile the element, then add its equations -/
def mathElemsSpec (T : TranspilerObj) : List MathElem → MathsSt → Except PyErr MathsSt
  | [], st => .ok st
  | m :: r, st => match parseTree T m with
    | .error e => .error e
    | .ok qs => match addAll qs st with
      | .error e => .error e
      | .ok st' => mathElemsSpec T r st'

/-- the transpiler `_add_maths` constructs for a component: the generated closure over the names it captures, and the
    translated lambda -/
def theTranspiler (self : MathsView) (cname : String) (v2s : VRef → Option VRef) (m : VMap) : TranspilerObj :=
  mkTranspiler (LoaderSym.symbolGenerator ⟨cname⟩ v2s m (whileBound m))
    (fun x y => do let c ← self.getUnit y; pure (createQuantity x c))

def compsSpec (self : MathsView) (m : VMap) :
    List (MCompElem × (VRef → Option VRef)) → MathsSt → Except PyErr MathsSt
  | [], st => .ok st
  | (c, v2s) :: r, st => match mathElemsSpec (theTranspiler self c.name v2s m) c.maths st with
    | .error e => .error e
    | .ok st' => compsSpec self m r st'

theorem addAll_loop : ∀ (qs : List TrEq) (st : MathsSt),
    forIn qs st (fun expr __s => do
      let st ← addEquation __s expr
      pure (ForInStep.yield st)) = addAll qs st
  | [], st => rfl
  | q :: r, st => by
    rw [List.forIn_cons]
    simp only [addAll, bind, Except.bind]
    cases addEquation st q with
    | error e => rfl
    | ok st' => exact addAll_loop r st'

theorem mathElems_loop (T : TranspilerObj) : ∀ (ms : List MathElem) (st : MathsSt),
    forIn ms st (fun math_element __s => do
      let sympy_exprs ← parseTree T math_element
      let __s ← addAll sympy_exprs __s
      pure (ForInStep.yield __s)) = mathElemsSpec T ms st
  | [], st => rfl
  | m :: r, st => by
    rw [List.forIn_cons]
    simp only [mathElems_loop T r]
    simp only [mathElemsSpec, bind, Except.bind]
    cases parseTree T m with
    | error e => rfl
    | ok qs =>
      simp only
      cases addAll qs st with
      | error e => rfl
      | ok st' => rfl

theorem comps_loop (self : MathsView) (m : VMap) :
    ∀ (cvs : List (MCompElem × (VRef → Option VRef))) (st : MathsSt),
    forIn cvs st (fun x __s =>
      if Py.truthy x.fst.maths = true then do
        let st ← mathElemsSpec (theTranspiler self x.fst.name x.snd m) x.fst.maths __s
        pure (ForInStep.yield st)
      else pure (ForInStep.yield __s)) = compsSpec self m cvs st
  | [], st => rfl
  | (c, v2s) :: r, st => by
    rw [List.forIn_cons]
    simp only [comps_loop self m r]
    simp only [compsSpec, Py.truthy_list, bind, Except.bind]
    cases hm : c.maths with
    | nil => rfl
    | cons a l =>
      simp only [List.isEmpty_cons, Bool.not_false, if_true]
      cases mathElemsSpec (theTranspiler self c.name v2s m) (a :: l) st with
      | error e => rfl
      | ok st' => rfl

/-- **`Parser._add_maths`, generated, on ANY input**: the three nested loops, the guard, the transpiler per component -/
theorem addMaths_spec (self : MathsView) (m : VMap) (cvs : List (MCompElem × (VRef → Option VRef))) (st : MathsSt) :
    MathsWalk.addMaths self cvs m st = compsSpec self m cvs st := by
  unfold MathsWalk.addMaths
  simp only [addAll_loop]
  simp only [mathElems_loop]
  have := comps_loop self m cvs st
  simp only [theTranspiler] at this
  simp only [bind, Except.bind] at this ⊢
  rw [this]
  cases compsSpec self m cvs st <;> rfl

theorem compsSpec_append (self : MathsView) (m : VMap) : ∀ (a b : List (MCompElem × (VRef → Option VRef)))
    (st : MathsSt), compsSpec self m (a ++ b) st = match compsSpec self m a st with
      | .error e => .error e
      | .ok st' => compsSpec self m b st'
  | [], b, st => rfl
  | (c, v2s) :: a, b, st => by
    simp only [List.cons_append, compsSpec]
    cases mathElemsSpec (theTranspiler self c.name v2s m) c.maths st with
    | error e => rfl
    | ok st' => exact compsSpec_append self m a b st'

/-! ## 2. the generated `add_equation` on the threaded model object -/

theorem hasKey_insertKey {β : Type} (n k : Nat) (v : β) : ∀ (l : List (Nat × β)),
    Model.hasKey n (Model.insertKey k v l) = (n == k || Model.hasKey n l)
  | [] => by
    simp only [Model.insertKey, Model.hasKey, List.any_cons, List.any_nil, Bool.or_false]
    by_cases h : n = k
    · subst h; simp
    · have h' : ¬ k = n := fun e => h e.symm
      simp [h, h']
  | (k', v') :: l => by
    have ih := hasKey_insertKey n k v l
    simp only [Model.insertKey]
    by_cases h : k' = k
    · subst h
      simp only [if_true, Model.hasKey, List.any_cons]
      by_cases h' : n = k'
      · subst h'; simp
      · have h'' : ¬ k' = n := fun e => h' e.symm
        simp [h', h'']
    · simp only [if_neg h, Model.hasKey, List.any_cons] at ih ⊢
      rw [ih]
      cases (decide (k' = n)) <;> cases (n == k) <;> rfl

/-- the definition maps of the model object hold exactly the variables the loader's record lists -/
def Inv (st : MathsSt) : Prop := ∀ v : VRef, Model.isDefined st.ms (encV v) = st.defined.contains v

theorem firstDeriv_ok : firstDeriv.ok 1 := ⟨Nat.le_refl _, Nat.le_refl _, Nat.le_refl _, fun _ => rfl⟩

/-- the expression a good left-hand side is transpiled to -/
def lhsExpr {α υ : Type} : Lhs α → Expr α υ
  | .var a => .var a
  | .diff x t => .diff x t

theorem encV_beq (v w : VRef) : (encV v == encV w) = (v == w) := by
  by_cases h : v = w
  · subst h
    rw [beq_self_eq_true, beq_self_eq_true]
  · have : encV v ≠ encV w := fun e => h (encV_inj e)
    rw [beq_eq_false_iff_ne.mpr this, beq_eq_false_iff_ne.mpr h]

theorem addEquation_run (st : MathsSt) (l : Lhs VRef) (rhs : Expr VRef FUnit) :
    (ModelState.addEquation firstDeriv (encEq ⟨lhsExpr l, rhs⟩) true).run st.ms =
      outcome () (Model.addEquationCore st.ms (encEq ⟨lhsExpr l, rhs⟩) true) := by
  apply addEquation_tie
  intro s t o h
  cases l with
  | var a => simp [encEq, lhsExpr, encLhs] at h
  | diff x t' =>
    simp only [encEq, lhsExpr, encLhs, Model.Lhs.deriv.injEq] at h
    rw [← h.2.2]; exact firstDeriv_ok

/-- **the generated `add_equation` on a Variable / first-derivative left-hand side, the variable has a definition**:
    ValueError -/
theorem addEquation_dup (st : MathsSt) (hI : Inv st) (l : Lhs VRef) (rhs : Expr VRef FUnit)
    (hc : st.defined.contains l.defines = true) : addEquation st ⟨lhsExpr l, rhs⟩ = .error ⟨"ValueError"⟩ := by
  have hd := hI l.defines
  rw [hc] at hd
  unfold addEquation
  rw [addEquation_run]
  cases l with
  | var a =>
    simp only [Lhs.defines] at hd
    simp only [Model.addEquationCore, encEq, lhsExpr, encLhs, hd, Bool.and_self, if_true, outcome, errName]
  | diff x t =>
    simp only [Lhs.defines] at hd
    simp [Model.addEquationCore, encEq, lhsExpr, encLhs, hd, outcome, errName]

/-- **… the variable has none**: the definition is recorded in the model object (and the invariant kept) -/
theorem addEquation_new (st : MathsSt) (hI : Inv st) (l : Lhs VRef) (rhs : Expr VRef FUnit)
    (hc : st.defined.contains l.defines = false) :
    ∃ st', addEquation st ⟨lhsExpr l, rhs⟩ = .ok st' ∧ st'.defined = l.defines :: st.defined ∧
      st'.eqs = st.eqs ++ [⟨l, rhs⟩] ∧ Inv st' := by
  have hd := hI l.defines
  rw [hc] at hd
  unfold addEquation
  rw [addEquation_run]
  cases l with
  | var a =>
    simp only [Lhs.defines] at hd ⊢
    simp only [Bool.false_eq_true, if_false, Model.addEquationCore, encEq, lhsExpr, encLhs, hd, Bool.and_false,
      outcome, flatLhs, Lhs.defines]
    refine ⟨_, rfl, rfl, rfl, ?_⟩
    intro w
    have := hI w
    simp only [Model.isDefined, Model.invalidate, hasKey_insertKey, List.contains_cons, encV_beq] at this ⊢
    rw [← this]
    cases (w == a) <;> cases Model.hasKey (encV w) st.ms.odeDef <;> simp
  | diff x t =>
    simp only [Lhs.defines] at hd ⊢
    simp only [Bool.false_eq_true, if_false, Model.addEquationCore, encEq, lhsExpr, encLhs, hd, Bool.and_false,
      outcome, flatLhs, Lhs.defines, gt_iff_lt, Nat.lt_irrefl]
    refine ⟨_, rfl, rfl, rfl, ?_⟩
    intro w
    have := hI w
    simp only [Model.isDefined, Model.invalidate, hasKey_insertKey, List.contains_cons, encV_beq] at this ⊢
    rw [← this]
    cases (w == x) <;> cases Model.hasKey (encV w) st.ms.varDef <;> simp

/-- **the generated `add_equation` on any other left-hand side**: ValueError, whatever the model holds -/
theorem addEquation_other (st : MathsSt) (q : TrEq) (h : encLhs q.lhs = .other) :
    addEquation st q = .error ⟨"ValueError"⟩ := by
  unfold addEquation
  rw [addEquation_tie st.ms (encEq q) true firstDeriv (by intro s t o h'; simp [encEq, h] at h')]
  simp [Model.addEquationCore, encEq, h, outcome, errName]

/-! ## 3. the walk on the document = the walk `Tie/LoaderStagesD.lean` proved equal to `Load.checkExpr` -/

/-- the transpiler of component `cname` on the loader's state -/
abbrev docTranspiler (ust : Units.Store) (vt : VarTable) (cst : CState) (cname : String) : TranspilerObj :=
  theTranspiler ⟨ust⟩ cname (varToSymbol vt) ⟨cst.mapping⟩

theorem ci_eq (ust : Units.Store) (vt : VarTable) (cst : CState) (cname a : String) :
    (docTranspiler ust vt cst cname).ci a = genSym vt cst cname a := rfl

theorem walkExpr_eq (ust : Units.Store) (vt : VarTable) (cst : CState) (cname : String) :
    ∀ (x : Expr String String), walkExpr (docTranspiler ust vt cst cname) x = trExpr ust (genSym vt cst cname) x
  | .num q u => by
    simp only [walkExpr, trExpr, docTranspiler, theTranspiler, mkTranspiler, MathsView.getUnit, unitF, createQuantity,
      bind, Except.bind, pure, Except.pure]
    cases Units.getUnit ust u <;> rfl
  | .var a => by
    simp only [walkExpr, trExpr, ci_eq]
    cases genSym vt cst cname a <;> rfl
  | .diff x t => by
    simp only [walkExpr, trExpr, ci_eq]
    cases genSym vt cst cname t with
    | error e => rfl
    | ok t' => cases genSym vt cst cname x <;> rfl
  | .add a b => by
    simp only [walkExpr, trExpr, walkExpr_eq ust vt cst cname a, walkExpr_eq ust vt cst cname b]
    cases trExpr ust (genSym vt cst cname) a with
    | error e => rfl
    | ok a' => cases trExpr ust (genSym vt cst cname) b <;> rfl
  | .sub a b => by
    simp only [walkExpr, trExpr, walkExpr_eq ust vt cst cname a, walkExpr_eq ust vt cst cname b]
    cases trExpr ust (genSym vt cst cname) a with
    | error e => rfl
    | ok a' => cases trExpr ust (genSym vt cst cname) b <;> rfl
  | .mul a b => by
    simp only [walkExpr, trExpr, walkExpr_eq ust vt cst cname a, walkExpr_eq ust vt cst cname b]
    cases trExpr ust (genSym vt cst cname) a with
    | error e => rfl
    | ok a' => cases trExpr ust (genSym vt cst cname) b <;> rfl
  | .div a b => by
    simp only [walkExpr, trExpr, walkExpr_eq ust vt cst cname a, walkExpr_eq ust vt cst cname b]
    cases trExpr ust (genSym vt cst cname) a with
    | error e => rfl
    | ok a' => cases trExpr ust (genSym vt cst cname) b <;> rfl
  | .neg a => by
    simp only [walkExpr, trExpr, walkExpr_eq ust vt cst cname a]
    cases trExpr ust (genSym vt cst cname) a <;> rfl
  | .powi a n => by
    simp only [walkExpr, trExpr, walkExpr_eq ust vt cst cname a]
    cases trExpr ust (genSym vt cst cname) a <;> rfl

/-! ## 4. the `<component>` elements of a document -/

def goodSide : Lhs String → MSide
  | .var a => .e (.var a)
  | .diff x t => .e (.diff x t)

/-- a well-shaped equation of the document as MathML -/
def goodEq (q : Eqn String String) : MEq := ⟨goodSide q.lhs, q.rhs⟩

def badSide : C17.BadLhs → MSide
  | .higher x t n => .higher x t n
  | .nonvar e => .e e

def badMEq (b : C17.BadEq) : MEq := ⟨badSide b.lhs, b.rhs⟩

/-- one `<math>` element per equation (`Load.Doc` has no grouping of the equations of a component into `<math>`
    elements; with several equations in ONE `<math>` python transpiles them all before it adds the first — see
    `mathElemsSpec` and the report) -/
def single (q : MEq) : MathElem := ⟨[q]⟩

/-- a component without a bad equation -/
def plainElem (c : Comp) : MCompElem := ⟨c.name, (c.eqs.map goodEq).map single⟩

/-- the component that holds the bad equation `b`, after `b.pos` well-shaped ones -/
def badElem (b : C17.BadEq) (c : Comp) : MCompElem :=
  ⟨c.name, ((c.eqs.take b.pos).map goodEq).map single ++ single (badMEq b) :: ((c.eqs.drop b.pos).map goodEq).map single⟩

/-- the `<component>` elements of the document: `fd.doc.comps`, with the FIRST bad equation of `fd.badEqs` at its place
    (`fd.badEqs` lists them in the order `_add_maths` meets them; neither the code nor `C17.loadFull` gets past the
    first) -/
def mathsElems (fd : C17.FaultDoc) : List MCompElem :=
  match fd.badEqs.head? with
  | none => fd.doc.comps.map plainElem
  | some b => (fd.doc.comps.take b.comp).map plainElem ++
      (match fd.doc.comps[b.comp]? with
        | some c => [badElem b c]
        | none => []) ++ (fd.doc.comps.drop (b.comp + 1)).map plainElem

/-- `component_variables`: every element with its `variable_to_symbol` -/
def withSyms (vt : VarTable) (es : List MCompElem) : List (MCompElem × (VRef → Option VRef)) :=
  es.map (fun c => (c, varToSymbol vt))

/-- the first bad equation is what `C17.BadLhs` documents: it sits in a component of the document, and a `nonvar`
    left-hand side is neither a variable nor a derivative of one (python ACCEPTS `nonvar (.var x)`: it is the equation
    `x = …`; `C17.badEqErr` says ValueError) -/
def properLhs : C17.BadLhs → Bool
  | .higher _ _ _ => true
  | .nonvar (.var _) => false
  | .nonvar (.diff _ _) => false
  | .nonvar _ => true

def BadWF (fd : C17.FaultDoc) : Bool :=
  match fd.badEqs.head? with
  | none => true
  | some b => decide (b.comp < fd.doc.comps.length) && properLhs b.lhs

theorem BadWF_of_nil {fd : C17.FaultDoc} (h : fd.badEqs = []) : BadWF fd = true := by
  unfold BadWF; rw [h]; rfl

/-! ## 5. simulation: the generated walk against `genAddEqs` / `genAddMaths` (= `Load.checkEqs` / `Load.checkMaths`) -/

/-- the model object and the loader's record agree -/
def Rel (st : MathsSt) (d : List VRef) (e : List FlatEq) : Prop := st.defined = d ∧ st.eqs = e ∧ Inv st

section
variable (ust : Units.Store) (vt : VarTable) (cst : CState)

theorem walkSide_good (cname : String) (l : Lhs String) :
    walkSide (docTranspiler ust vt cst cname) (goodSide l) = (trLhs (genSym vt cst cname) l).map lhsExpr := by
  cases l with
  | var a =>
    simp only [goodSide, walkSide, walkExpr, ci_eq, trLhs]
    cases genSym vt cst cname a <;> rfl
  | diff x t =>
    simp only [goodSide, walkSide, walkExpr, ci_eq, trLhs]
    cases genSym vt cst cname t with
    | error e => rfl
    | ok t' => cases genSym vt cst cname x <;> rfl

/-- the well-shaped equations of a component, whatever follows them in the component -/
theorem eqs_sim (cname : String) : ∀ (es : List (Eqn String String)) (rest : List MathElem) (st : MathsSt)
    (d : List VRef) (e : List FlatEq), Rel st d e →
    match genAddEqs ust vt cst cname es (d, e) with
    | .error x => mathElemsSpec (docTranspiler ust vt cst cname) ((es.map goodEq).map single ++ rest) st = .error x
    | .ok (d', e') => ∃ st', Rel st' d' e' ∧
        mathElemsSpec (docTranspiler ust vt cst cname) ((es.map goodEq).map single ++ rest) st =
          mathElemsSpec (docTranspiler ust vt cst cname) rest st'
  | [], rest, st, d, e, h => ⟨st, h, rfl⟩
  | q :: r, rest, st, d, e, h => by
    obtain ⟨h1, h2, h3⟩ := h
    simp only [genAddEqs, List.map_cons, List.cons_append, mathElemsSpec, single, parseTree, parseEqs, goodEq,
      walkSide_good, walkExpr_eq]
    cases hl : trLhs (genSym vt cst cname) q.lhs with
    | error x => rfl
    | ok l =>
      simp only [Except.map]
      cases hr : trExpr ust (genSym vt cst cname) q.rhs with
      | error x => rfl
      | ok rhs =>
        simp only [addAll]
        by_cases hc : d.contains l.defines = true
        · rw [if_pos hc, addEquation_dup st h3 l rhs (by rw [h1]; exact hc)]
        · rw [if_neg hc]
          obtain ⟨st', hs, hd, he, hi⟩ := addEquation_new st h3 l rhs (by rw [h1]; simpa using hc)
          rw [hs]
          simp only
          exact eqs_sim cname r rest st' _ _ ⟨by rw [hd, h1], by rw [he, h2], hi⟩

/-- the components without a bad equation, whatever follows them -/
theorem comps_sim : ∀ (comps : List Comp) (rest : List (MCompElem × (VRef → Option VRef))) (st : MathsSt)
    (d : List VRef) (e : List FlatEq), Rel st d e →
    match genAddMaths ust vt cst comps (d, e) with
    | .error x => compsSpec ⟨ust⟩ ⟨cst.mapping⟩ (withSyms vt (comps.map plainElem) ++ rest) st = .error x
    | .ok (d', e') => ∃ st', Rel st' d' e' ∧
        compsSpec ⟨ust⟩ ⟨cst.mapping⟩ (withSyms vt (comps.map plainElem) ++ rest) st =
          compsSpec ⟨ust⟩ ⟨cst.mapping⟩ rest st'
  | [], rest, st, d, e, h => ⟨st, h, rfl⟩
  | c :: r, rest, st, d, e, h => by
    simp only [genAddMaths, withSyms, List.map_cons, List.cons_append, compsSpec, plainElem]
    have hq := eqs_sim ust vt cst c.name c.eqs [] st d e h
    simp only [List.append_nil] at hq
    cases hg : genAddEqs ust vt cst c.name c.eqs (d, e) with
    | error x =>
      rw [hg] at hq
      simp only at hq ⊢
      rw [hq]
    | ok acc =>
      obtain ⟨d', e'⟩ := acc
      rw [hg] at hq
      obtain ⟨st', hr, hs⟩ := hq
      simp only [mathElemsSpec] at hs
      simp only
      rw [hs]
      exact comps_sim r rest st' d' e' hr

theorem genAddMaths_append : ∀ (a b : List Comp) (acc : List VRef × List FlatEq),
    genAddMaths ust vt cst (a ++ b) acc = match genAddMaths ust vt cst a acc with
      | .error x => .error x
      | .ok acc' => genAddMaths ust vt cst b acc'
  | [], b, acc => rfl
  | c :: a, b, acc => by
    simp only [List.cons_append, genAddMaths]
    cases genAddEqs ust vt cst c.name c.eqs acc with
    | error x => rfl
    | ok acc' => exact genAddMaths_append a b acc'

/-- what transpiling and adding the bad equation itself raises: the class of `C17.badEqOwn` -/
theorem bad_own (L : Loaded) (cname : String) (b : C17.BadEq) (hp : properLhs b.lhs = true)
    (rest : List MathElem) (st : MathsSt) :
    mathElemsSpec (docTranspiler L.ust L.vt L.st cname) (single (badMEq b) :: rest) st =
      .error ⟨C17.className (C17.badEqOwn L cname b)⟩ := by
  obtain ⟨ci, pos, lhs, rhs⟩ := b
  simp only [mathElemsSpec, single, parseTree, parseEqs, badMEq, C17.badEqOwn]
  cases lhs with
  | higher x t n =>
    simp only [badSide, walkSide, ci_eq, genSym_eq]
    cases ht : checkIdent L.vt cname t with
    | error err => simp [checkIdent_err_class ht]
    | ok u =>
      cases hx : checkIdent L.vt cname x with
      | error err => simp [checkIdent_err_class hx]
      | ok u' =>
        simp only
        have : C17.className (.unsupported "TypeError: The degree of a derivative must be an int") = "TypeError" := by
          decide +kernel
        rw [this]
  | nonvar e =>
    simp only [badSide, walkSide, walkExpr_eq, trExpr_eq]
    cases he : checkExpr L.ust L.vt cname e with
    | error err => simp [checkExpr_err_class _ _ _ _ _ he]
    | ok u =>
      simp only
      cases hr : checkExpr L.ust L.vt cname rhs with
      | error err => simp [checkExpr_err_class _ _ _ _ _ hr]
      | ok u' =>
        simp only [addAll]
        rw [addEquation_other]
        · rfl
        · cases e <;> first | rfl | simp [properLhs] at hp

/-- the components up to and including the one with the bad equation, whatever follows -/
theorem bad_comp (L : Loaded) (A : List Comp) (c : Comp) (b : C17.BadEq) (hp : properLhs b.lhs = true)
    (rest : List (MCompElem × (VRef → Option VRef))) (st : MathsSt) (d : List VRef) (e : List FlatEq)
    (h : Rel st d e) :
    compsSpec ⟨L.ust⟩ ⟨L.st.mapping⟩ (withSyms L.vt (A.map plainElem) ++ (withSyms L.vt [badElem b c] ++ rest)) st =
      match genAddMaths L.ust L.vt L.st (A ++ [{ c with eqs := c.eqs.take b.pos }]) (d, e) with
      | .error x => .error x
      | .ok _ => .error ⟨C17.className (C17.badEqOwn L c.name b)⟩ := by
  have hs := comps_sim L.ust L.vt L.st A (withSyms L.vt [badElem b c] ++ rest) st d e h
  rw [genAddMaths_append]
  cases hg : genAddMaths L.ust L.vt L.st A (d, e) with
  | error x =>
    rw [hg] at hs
    exact hs
  | ok acc =>
    obtain ⟨d', e'⟩ := acc
    rw [hg] at hs
    obtain ⟨st', hr, hs⟩ := hs
    rw [hs]
    simp only [withSyms, List.map_cons, List.map_nil, List.cons_append, List.nil_append, compsSpec, badElem, genAddMaths]
    have hq := eqs_sim L.ust L.vt L.st c.name (c.eqs.take b.pos)
      (single (badMEq b) :: ((c.eqs.drop b.pos).map goodEq).map single) st' d' e' hr
    cases hq' : genAddEqs L.ust L.vt L.st c.name (c.eqs.take b.pos) (d', e') with
    | error x =>
      rw [hq'] at hq
      simp only at hq ⊢
      rw [hq]
    | ok acc' =>
      obtain ⟨d'', e''⟩ := acc'
      rw [hq'] at hq
      obtain ⟨st'', _, hq⟩ := hq
      simp only
      rw [hq, bad_own L c.name b hp]

end

/-! ## 6. the stage of `Parser.parse` -/

/-- the `Model` object as `_add_connections` leaves it, as far as `add_equation` reads it: every conversion equation
    `target = source · factor` is the definition of its target -/
def msOf (defined : List VRef) : Model.MState :=
  { varDef := defined.map (fun v => (encV v, ⟨0, .var (encV v), [], [], false⟩)) }

theorem msOf_inv (defined : List VRef) : Inv ⟨msOf defined, defined, []⟩ := by
  intro w
  simp only [Model.isDefined, msOf, Model.hasKey, List.any_nil, Bool.false_or]
  induction defined with
  | nil => rfl
  | cons a l ih =>
    simp only [List.map_cons, List.any_cons, List.contains_cons]
    rw [ih]
    have h2 : decide (encV a = encV w) = (w == a) := by
      by_cases h : w = a
      · subst h
        rw [beq_self_eq_true]
        exact decide_eq_true rfl
      · have h' : ¬ encV a = encV w := fun e => h (encV_inj e).symm
        rw [beq_eq_false_iff_ne.mpr h]
        exact decide_eq_false h'
    rw [h2]

/-- **the stage `self._add_maths(component_variables, connected_variable_mapping)`**: the GENERATED `_add_maths` on the
    `<component>` elements of the document, the mapping of the connection stage and the model object it left -/
def genMathsWalkStage (fd : C17.FaultDoc) (st : ParseState) : Except PyErr ParseState :=
  match st.loaded with
  | none => notReady
  | some L =>
    match MathsWalk.addMaths ⟨L.ust⟩ (withSyms L.vt (mathsElems fd)) ⟨L.st.mapping⟩
        ⟨msOf (L.st.convs.map (·.target)), L.st.convs.map (·.target), []⟩ with
    | .error e => .error e
    | .ok s => .ok { st with defined := some s.defined, maths := some s.eqs }

theorem withSyms_append (vt : VarTable) (a b : List MCompElem) : withSyms vt (a ++ b) = withSyms vt a ++ withSyms vt b :=
  List.map_append

/-- **the generated `_add_maths` IS the maths stage of the hand model** (`Load.checkMaths`; at a bad equation
    `C17.badEqErr`), and it has added exactly `Load.mathsOf` -/
theorem genMathsWalkStage_eq (fd : C17.FaultDoc) (hb : BadWF fd = true) (st : ParseState) :
    genMathsWalkStage fd st = match (parseView fd).addMaths st with
      | .error e => .error e
      | .ok st' => .ok { st' with maths := st.loaded.map (fun L => L.maths fd.doc) } := by
  simp only [genMathsWalkStage, parseView, addMaths_spec]
  cases st.loaded with
  | none => rfl
  | some L =>
    simp only
    have hR : Rel ⟨msOf (L.st.convs.map (·.target)), L.st.convs.map (·.target), []⟩ (L.st.convs.map (·.target)) [] :=
      ⟨rfl, rfl, msOf_inv _⟩
    unfold BadWF at hb
    unfold mathsElems
    cases hbe : fd.badEqs.head? with
    | none =>
      simp only [Option.map_some]
      have hs := comps_sim L.ust L.vt L.st fd.doc.comps [] _ _ _ hR
      simp only [List.append_nil] at hs
      rw [genAddMaths_eq] at hs
      cases hm : checkMaths L.ust L.vt L.st fd.doc.comps (L.st.convs.map (·.target)) with
      | error e =>
        rw [hm] at hs
        simp only at hs
        rw [hs]
        simp [stageErr, checkMaths_err_class _ _ _ _ _ _ hm]
      | ok d =>
        rw [hm] at hs
        obtain ⟨st', ⟨h1, h2, _⟩, hs⟩ := hs
        rw [hs]
        simp [compsSpec, h1, h2, Loaded.maths]
    | some b =>
      rw [hbe] at hb
      simp only [Bool.and_eq_true, decide_eq_true_eq] at hb
      obtain ⟨hlt, hp⟩ := hb
      have hget : fd.doc.comps[b.comp]? = some fd.doc.comps[b.comp] := List.getElem?_eq_getElem hlt
      simp only [hget, withSyms_append, List.append_assoc, stageErr, C17.badEqErr, C17.truncComps, Option.map_some,
        Option.getD_some]
      generalize fd.doc.comps[b.comp] = c
      rw [bad_comp L _ c b hp _ _ _ _ hR, genAddMaths_eq]
      cases hm : checkMaths L.ust L.vt L.st (fd.doc.comps.take b.comp ++ [{ c with eqs := c.eqs.take b.pos }])
          (L.st.convs.map (·.target)) with
      | error e => simp [checkMaths_err_class _ _ _ _ _ _ hm]
      | ok d => rfl

end Cellml.Tie.PMathsWalk
