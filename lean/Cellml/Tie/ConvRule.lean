import Cellml.Generated.Code.ConvRule
import Cellml.Model.ConvRule
import Cellml.Tie.Infer
import Mathlib.Tactic.SplitIfs

set_option linter.constructorNameAsVariable false
set_option linter.unusedSimpArgs false

/-! # Tie: `UnitStore.add_conversion_rule`, `UnitStore.evaluate_units`, nested `_is_equal` (generated from units.py)

    * `addConversionRule_tie`: = `Units.addRule` (Model/ConvRule.lean: `Units.mkRule … :: rules`, the step of the C19
      driver), for ALL stores, registries, rule lists, units and rule bodies, exception class included;
    * `evaluateUnits_tie`: = the units of `Infer.traverse` (C04 model), for every node in the domain of `traverse_tie`;
      `evaluateUnits_eq`: for every calculator, the units of what its `traverse` returns, same exception;
    * `isEqual_tie`: = `Infer.sameUnits` (`Units.isEquivalent`); `isEqual_is_local`: the stand-alone translation is the
      local function inside the generated `_check_unit_of_quantities_equal` (group Infer, `checkUnit_tie`). -/

namespace Cellml.Tie.PConvRule
open Units Cellml.Gen Cellml.Tie.PUnits

/-- the python object after the call: same store, same definitions, the new list of enabled transformations -/
def added (st : Store) (reg : Registry) (rules : List Rule) : StoreObj := storeObj st reg rules

/-- **Tie of `UnitStore.add_conversion_rule`.** For the python object `storeObj st reg rules` of ANY store, registry
    and enabled rules, any two units and any rule body: the generated method returns the object of the same store
    whose registry has the rule list `Units.addRule reg rules f t body` = `mkRule reg f t body :: rules` (source
    dimensionality from `from_unit`, target from `to_unit`, newest first), or raises `UndefinedUnitError` exactly
    where the model does, leaving the store as it was. -/
theorem addConversionRule_tie (st : Store) (reg : Registry) (rules : List Rule) (f t : Container)
    (body : List RFactor) :
    Gen.ConvRule.addConversionRule (storeObj st reg rules) ⟨f⟩ ⟨t⟩ body =
      errClass uErrClass ((addRule reg rules f t body).map (added st reg)) := by
  unfold Gen.ConvRule.addConversionRule addRule
  simp only [pintContext, ContextObj.addTransformation, dictSet, pintEnableContexts, List.any_nil,
    Bool.false_eq_true, if_false, List.nil_append, List.all_cons, List.all_nil, Bool.and_true, List.reverse_cons,
    List.reverse_nil, List.map_cons, List.map_nil, storeObj, bind, Except.bind, pure, Except.pure]
  by_cases h : (allKnown reg f && allKnown reg t) = true
  · simp only [h, if_true]
    rfl
  · simp only [h, if_false]
    rfl

/-- the rules of the returned object, spelled out -/
theorem addConversionRule_ok (st : Store) (reg : Registry) (rules : List Rule) (f t : Container) (body : List RFactor)
    (hf : allKnown reg f = true) (ht : allKnown reg t = true) :
    Gen.ConvRule.addConversionRule (storeObj st reg rules) ⟨f⟩ ⟨t⟩ body =
      .ok (storeObj st reg (mkRule reg f t body :: rules)) := by
  rw [addConversionRule_tie]; simp [addRule, hf, ht, errClass, Except.map, added]

theorem addConversionRule_unknown (st : Store) (reg : Registry) (rules : List Rule) (f t : Container)
    (body : List RFactor) (h : (allKnown reg f && allKnown reg t) = false) :
    Gen.ConvRule.addConversionRule (storeObj st reg rules) ⟨f⟩ ⟨t⟩ body = .error ⟨"UndefinedUnitError"⟩ := by
  rw [addConversionRule_tie]; simp [addRule, h, errClass, Except.map, uErrClass]

/-! ### `evaluate_units` -/

/-- for EVERY calculator: `evaluate_units(expr)` is the `.units` of what `self._calculator.traverse(expr)` returns,
    and raises what it raises -/
theorem evaluateUnits_eq (s : CalcStore) (x : PInfer.Obj) :
    Gen.ConvRule.evaluateUnits s x = (s.traverse x).map (·.2) := by
  unfold Gen.ConvRule.evaluateUnits
  cases h : s.traverse x <;> simp [bind, Except.bind, pure, Except.pure, Except.map, qUnits, h]

/-- the store whose calculator is the hand model's `Infer.traverse` (the fixpoint of the generated `traverse`:
    `PInfer.traverse_tie`) -/
def calcStore (reg : Registry) (Γ : VarEnv) : CalcStore := ⟨PInfer.modelRec reg Γ⟩

/-- **Tie of `UnitStore.evaluate_units`**: the units component of the hand model `Infer.traverse` (C04), same
    exception class; on the domain of `traverse_tie` this is also the generated `traverse` applied to the node. -/
theorem evaluateUnits_tie (reg : Registry) (Γ : VarEnv) (e : E) :
    Gen.ConvRule.evaluateUnits (calcStore reg Γ) (.ex e) =
      PInfer.liftE ((_root_.Infer.traverse reg Γ e).map (·.2)) := by
  rw [evaluateUnits_eq]
  simp only [calcStore, PInfer.modelRec, PInfer.liftE]
  cases _root_.Infer.traverse reg Γ e <;> rfl

theorem evaluateUnits_gen (reg : Registry) (Γ : VarEnv) (e : E) (h : PInfer.inDomain Γ e = true) :
    Gen.ConvRule.evaluateUnits (calcStore reg Γ) (.ex e) =
      (Gen.Infer.traverse (PInfer.TravView.mk reg Γ) (PInfer.modelRec reg Γ) (.ex e)).map (·.2) := by
  rw [evaluateUnits_eq, PInfer.traverse_tie reg Γ e h]
  rfl

/-! ### `_is_equal` -/

/-- **Tie of the nested `_is_equal`**: the model's `Infer.sameUnits` (= `Units.isEquivalent`: equal root containers
    and equal scales) of the units of the two quantities; it never raises. -/
theorem isEqual_tie (v : CalcView) (q1 q2 : PInfer.Q) :
    Gen.ConvRule.isEqual v q1 q2 = _root_.Infer.sameUnits v.reg q1.2 q2.2 := by
  unfold Gen.ConvRule.isEqual
  simp only [pure, Id.run, qUnits, PInfer.TravView.baseUnits, PInfer.Py.isclose, Py.truthy_bool,
    _root_.Infer.sameUnits, isEquivalent, BEq.beq]
  exact Bool.and_comm _ _

/-- the stand-alone translation of `_is_equal` IS the local function of the generated
    `_check_unit_of_quantities_equal` (group Infer; tied to `Infer.finish` by `PInfer.checkUnit_tie`): on a non-empty
    list the check is "every later quantity `_is_equal` to the first". -/
theorem isEqual_is_local (v : CalcView) (q : PInfer.Q) (rest : List PInfer.Q) :
    Gen.Infer.checkUnitOfQuantitiesEqual v (q :: rest) = .ok (rest.all (fun r => Gen.ConvRule.isEqual v q r)) := by
  rfl

theorem isEqual_is_local_nil (v : CalcView) : Gen.Infer.checkUnitOfQuantitiesEqual v [] = .ok true := by
  rfl

end Cellml.Tie.PConvRule
