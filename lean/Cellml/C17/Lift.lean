import Cellml.C17.Reject2

/-! # C17 — from `loadFrom` to the two loaders, and the classes that only `loadFull` can see -/

namespace C17
open Load

/-- `Load.load` (sorted unit definitions, C01) refuses whatever `loadFrom` refuses -/
theorem load_isErr_of_loadFrom {doc : Doc}
    (h : ∀ reg ust, buildUnits doc.units (Units.builtinRegistry, { id := 0, known := [] }) = .ok (reg, ust) →
      IsErr (loadFrom reg ust doc)) : IsErr (load doc) := by
  rw [load_eq]
  cases hb : buildUnits doc.units (Units.builtinRegistry, { id := 0, known := [] }) with
  | error e => exact ⟨e, rfl⟩
  | ok p => obtain ⟨reg, ust⟩ := p; exact h reg ust hb

/-- `loadFull` (the whole of `Parser.parse`) refuses whatever `loadFrom` refuses: the extra stages only add errors -/
theorem loadFull_isErr_of_loadFrom {fd : FaultDoc}
    (h : ∀ reg ust, Units.addUnits 0 fd.udefs = .ok (reg, ust) → IsErr (loadFrom reg ust fd.doc)) :
    IsErr (loadFull fd) := by
  unfold loadFull
  split
  · exact ⟨_, rfl⟩
  · split
    · exact ⟨_, rfl⟩
    · split
      · exact ⟨_, rfl⟩
      · rename_i reg ust hu
        split
        · exact ⟨_, rfl⟩
        · split
          · exact ⟨_, rfl⟩
          · rename_i L hL
            split
            · exact ⟨_, rfl⟩
            · have := h reg ust hu
              unfold loadFrom at this
              rw [hL] at this
              exact this

theorem loadFull_isErr_of_units {fd : FaultDoc} (h : ∃ e, Units.addUnits 0 fd.udefs = .error e) :
    IsErr (loadFull fd) := by
  obtain ⟨e, he⟩ := h
  unfold loadFull
  split
  · exact ⟨_, rfl⟩
  · split
    · exact ⟨_, rfl⟩
    · rw [he]; exact ⟨_, rfl⟩

/-! ## classes of the extended document -/

/-- a variable with both interfaces `in`, or an `initial_value` on a variable with an `in` interface (RELAX NG) -/
def SchemaViolation (fd : FaultDoc) : Prop :=
  ∃ c ∈ fd.doc.comps, ∃ d ∈ c.vars, (d.pub = .inn ∧ d.priv = .inn) ∨ (d.init.isSome = true ∧ (d.pub = .inn ∨ d.priv = .inn))

/-- some component contains a `<units>` element -/
def HasComponentUnits (fd : FaultDoc) : Prop := fd.compUnits ≠ []

/-- some component contains a `<reaction>` element -/
def HasReaction (fd : FaultDoc) : Prop := ∃ i ∈ fd.reactions, i < fd.doc.comps.length

/-- some equation has a left-hand side that is neither a variable nor a derivative -/
def NonVariableLhs (fd : FaultDoc) : Prop := ∃ b ∈ fd.badEqs, ∃ e, b.lhs = .nonvar e

/-- some equation has a derivative of second or higher order on its left-hand side -/
def HigherOrderLhs (fd : FaultDoc) : Prop := ∃ b ∈ fd.badEqs, ∃ x t n, b.lhs = .higher x t n ∧ 2 ≤ n

theorem schema_violation_rejected {fd : FaultDoc} (h : SchemaViolation fd) : IsErr (loadFull fd) := by
  obtain ⟨c, hc, d, hd, hv⟩ := h
  have : schemaVars fd.doc = false := by
    cases hs : schemaVars fd.doc with
    | false => rfl
    | true =>
        unfold schemaVars at hs
        have h1 := List.all_eq_true.mp hs c hc
        have h2 := List.all_eq_true.mp h1 d hd
        unfold schemaVar at h2
        rcases hv with ⟨a, b⟩ | ⟨a, b | b⟩ <;> simp [a, b] at h2
  unfold loadFull
  rw [this]
  exact ⟨_, rfl⟩

theorem component_units_rejected {fd : FaultDoc} (h : HasComponentUnits fd) : IsErr (loadFull fd) := by
  unfold loadFull
  split
  · exact ⟨_, rfl⟩
  · have : (!fd.compUnits.isEmpty) = true := by
      cases hc : fd.compUnits with
      | nil => exact absurd hc h
      | cons a l => rfl
    rw [if_pos this]
    exact ⟨_, rfl⟩

theorem foldl_min_isSome : ∀ (l : List Nat) (acc : Option Nat), (acc.isSome = true ∨ l ≠ []) →
    (l.foldl (fun acc i => match acc with | none => some i | some j => some (min i j)) acc).isSome = true
  | [], acc, h => by
      rcases h with h | h
      · exact h
      · exact absurd rfl h
  | i :: l, acc, _ => by
      simp only [List.foldl_cons]
      apply foldl_min_isSome
      left
      cases acc <;> rfl

theorem reaction_rejected {fd : FaultDoc} (h : HasReaction fd) : IsErr (loadFull fd) := by
  obtain ⟨i, hi, hlt⟩ := h
  have hsome : (firstIdx fd.reactions fd.doc.comps.length).isSome = true := by
    unfold firstIdx
    apply foldl_min_isSome
    right
    intro he
    have : i ∈ fd.reactions.filter (· < fd.doc.comps.length) := List.mem_filter.mpr ⟨hi, by simpa using hlt⟩
    rw [he] at this
    cases this
  unfold loadFull
  split
  · exact ⟨_, rfl⟩
  · split
    · exact ⟨_, rfl⟩
    · split
      · exact ⟨_, rfl⟩
      · rename_i reg ust hu
        have : ∃ e, reactionErr ust fd = some e := by
          unfold reactionErr
          cases hf : firstIdx fd.reactions fd.doc.comps.length with
          | none => rw [hf] at hsome; cases hsome
          | some j => simp only; split <;> exact ⟨_, rfl⟩
        obtain ⟨e, he⟩ := this
        rw [he]
        exact ⟨_, rfl⟩

theorem bad_lhs_rejected {fd : FaultDoc} (h : fd.badEqs ≠ []) : IsErr (loadFull fd) := by
  unfold loadFull
  split
  · exact ⟨_, rfl⟩
  · split
    · exact ⟨_, rfl⟩
    · split
      · exact ⟨_, rfl⟩
      · split
        · exact ⟨_, rfl⟩
        · split
          · exact ⟨_, rfl⟩
          · split
            · exact ⟨_, rfl⟩
            · rename_i hnone
              cases hb : fd.badEqs with
              | nil => exact absurd hb h
              | cons b l => rw [hb] at hnone; cases hnone

theorem nonvariable_lhs_rejected {fd : FaultDoc} (h : NonVariableLhs fd) : IsErr (loadFull fd) := by
  obtain ⟨b, hb, _⟩ := h
  exact bad_lhs_rejected (fun e => by rw [e] at hb; cases hb)

theorem higher_order_lhs_rejected {fd : FaultDoc} (h : HigherOrderLhs fd) : IsErr (loadFull fd) := by
  obtain ⟨b, hb, _⟩ := h
  exact bad_lhs_rejected (fun e => by rw [e] at hb; cases hb)

/-- the names the unit work list has added are names of `<units>` elements of the document -/
theorem addUnits_known {defs : List Units.UDef} {reg : Registry} {ust : Units.Store}
    (h : Units.addUnits 0 defs = .ok (reg, ust)) : ∀ n ∈ ust.known, n ∈ defs.map (·.name) := by
  obtain ⟨reg0, st0, ord, hb, hpq, hs⟩ := Units.addUnits_ok h
  intro n hn
  rw [(Units.seqAdd_known ord _ _ _ _ hs).1, (Units.addBases_known defs _ _ _ _ hb).1, List.append_nil] at hn
  rcases List.mem_append.mp hn with hn | hn
  · obtain ⟨d, hd, rfl⟩ := List.mem_map.mp (List.mem_reverse.mp hn)
    exact List.mem_map.mpr ⟨d, (Units.mem_queue.mp (hpq.mem_iff.mp hd)).1, rfl⟩
  · obtain ⟨d, hd, rfl⟩ := List.mem_map.mp (List.mem_reverse.mp hn)
    exact List.mem_map.mpr ⟨d, (Units.mem_basesOf.mp hd).1, rfl⟩

/-- a document without any of the extended features goes through `loadFrom` with the units of the work list -/
theorem loadFull_clean {fd : FaultDoc} {reg : Registry} {ust : Units.Store} (hs : schemaVars fd.doc = true)
    (hc : fd.compUnits = []) (hu : Units.addUnits 0 fd.udefs = .ok (reg, ust)) (hr : fd.reactions = [])
    (hb : fd.badEqs = []) : loadFull fd = loadFrom reg ust fd.doc := by
  have hre : reactionErr ust fd = none := by
    unfold reactionErr firstIdx
    rw [hr]; rfl
  unfold loadFull loadFrom
  rw [hs, hc, hu]
  simp only [Bool.not_true, Bool.false_eq_true, if_false, List.isEmpty_nil, hre, hb, List.head?_nil]

theorem ConnHas.mono {doc : Doc} {P Q : Option (Iface × Iface) → Prop} (hpq : ∀ f, P f → Q f) (h : ConnHas doc P) :
    ConnHas doc Q := by
  obtain ⟨k, hk, d1, d2, e1, e2, hp⟩ := h
  exact ⟨k, hk, d1, d2, e1, e2, hpq _ hp⟩

/-- deciding a `ConnHas` class by evaluation -/
theorem connHas_of_b {doc : Doc} {Q : Option (Iface × Iface) → Prop} (p : Option (Iface × Iface) → Bool)
    (hpq : ∀ f, p f = true → Q f) (h : connHasB doc p = true) : ConnHas doc Q :=
  ((connHasB_iff doc p).mp h).mono hpq

theorem not_ok_of {ε α : Type} {x : Except ε α} (h : (match x with | .ok _ => false | .error _ => true) = true) :
    ∀ a, x ≠ .ok a := by
  intro a e
  rw [e] at h
  cases h

/-- the unit work list evaluated with its step budget (kernel-reducible) -/
def unitsVia (defs : List Units.UDef) : Option (Registry × Units.Store) :=
  match Units.addUnitsFuel 0 defs with
  | some (.ok p) => some p
  | _ => none

instance (doc : Doc) : Decidable (DefinedTwiceConnected doc) := by unfold DefinedTwiceConnected; infer_instance
instance (names : List String) (u : String) : Decidable (UnknownName names u) := by unfold UnknownName; infer_instance
instance (names : List String) (doc : Doc) : Decidable (UndefinedUnitName names doc) := by
  unfold UndefinedUnitName; infer_instance
instance (fd : FaultDoc) : Decidable (SchemaViolation fd) := by unfold SchemaViolation; infer_instance
instance (fd : FaultDoc) : Decidable (HasReaction fd) := by unfold HasReaction; infer_instance

end C17
