import Cellml.Tie.RolesQueries
import Cellml.Tie.RolesValue

/-! # Tie of package Roles (C10): model.py role queries and `get_value` (generated from the source) = `Model/Roles.lean`

    * `Cellml/Tie/RolesQueries.lean`: `getFreeVariable_tie`, `getStateVariables_tie`, `getDerivatives_tie`,
      `getDerivedQuantities_tie` (+ `_unsorted_tie`), `isConstant_tie`
    * `Cellml/Tie/RolesValue.lean`: `expandDerivatives_tie`, `getValueRec_tie`, `getValueRec_full_tie`,
      `getValueRec_none`, `getValue_tie`
    Report: notes/reports/TIE_Roles.md -/
