import Cellml.Load.Connect

/-! # The loader: `Parser.parse` (parser.py 119-167) after XML/RELAX NG validation

    units → components and variables → encapsulation → connections (direction, work list) → maths with every
    identifier resolved to the ULTIMATE SOURCE of its connection chain → `transform_constants`.
    The flat model is `conversion equations ++ component maths ++ constant equations`; the checks that can raise are
    kept apart from the construction (`checkMaths`, `checkConstants`), in the order the code performs them.
    Core Lean only. -/

namespace Load

abbrev FlatEq := Eqn VRef FUnit

structure FlatVar where
  ref   : VRef
  units : Container
  init  : Option Rat        -- after transform_constants: only states keep one
  cmeta : Option String
deriving Repr, DecidableEq

structure Flat where
  reg  : Registry
  vars : List FlatVar
  eqs  : List FlatEq
deriving Repr

def addErr : Units.AddErr → Err
  | .valueError w => .valueError w
  | .undefinedUnit => .valueError "Cannot create units. Cycles or unknown units."
  | .badDefinition w => .valueError w
  | .unsupported w => .unsupported w

/-- `_add_units` on definitions that are already in dependency order -/
def buildUnits : List UnitDecl → Registry × Units.Store → Except Err (Registry × Units.Store)
  | [], rs => .ok rs
  | .base n :: r, (reg, st) =>
      match Units.addBaseUnit reg st n with
      | .ok rs => buildUnits r rs
      | .error e => .error (addErr e)
  | .derived n es :: r, (reg, st) =>
      match Units.addUnit reg st n es with
      | .ok rs => buildUnits r rs
      | .error e => .error (addErr e)

/-- the table entry `Model.add_variable` creates for a `<variable>` -/
def entry (ust : Units.Store) (cname : String) (d : VarDecl) : VRef × VarInfo :=
  ((cname, d.name),
   ⟨match Units.getUnit ust d.units with | .ok c => c | .error _ => [], d.pub, d.priv, d.init, d.cmeta, d.units⟩)

/-- all variables of the document, in file order -/
def varTable (ust : Units.Store) (comps : List Comp) : VarTable :=
  comps.flatMap (fun c => c.vars.map (entry ust c.name))

/-- `_add_variables` of one component, the part that can raise: unit lookup, then `Model.add_variable`
    (name clash, cmeta clash). `names`: variables so far, `ids`: cmeta ids so far (the model's own id included). -/
def checkVars (ust : Units.Store) (cname : String) : List VarDecl → List VRef × List String →
    Except Err (List VRef × List String)
  | [], acc => .ok acc
  | d :: r, (names, ids) =>
      match Units.getUnit ust d.units with
      | .error _ => .error (.keyError ("Unknown unit " ++ d.units))
      | .ok _ =>
        if names.contains (cname, d.name) then .error (.valueError ("Variable already exists " ++ d.name))
        else match d.cmeta with
          | some id =>
              if ids.contains id then .error (.valueError ("The cmeta id is already in use " ++ id))
              else checkVars ust cname r ((cname, d.name) :: names, id :: ids)
          | none => checkVars ust cname r ((cname, d.name) :: names, ids)

/-- `_add_components`, the part that can raise -/
def checkComps (ust : Units.Store) : List Comp → List String → List VRef × List String →
    Except Err (List VRef × List String)
  | [], _, acc => .ok acc
  | c :: r, seen, acc =>
      if seen.contains c.name then .error (.valueError ("Duplicate component name " ++ c.name))
      else match checkVars ust c.name c.vars acc with
        | .error e => .error e
        | .ok acc' => checkComps ust r (c.name :: seen) acc'

/-- `_add_relationships` / `_handle_component_ref` on the `<component_ref>` edges in document order -/
def buildParents (comps : List String) : List (Option String × String) → ParentMap → List (String × String) →
    Except Err ParentMap
  | [], par, _ => .ok par
  | (none, _) :: r, par, enc => buildParents comps r par enc
  | (some p, c) :: r, par, enc =>
      if !comps.contains p then .error (.keyError p)
      else if enc.contains (p, c) then .error (.valueError ("Encapsulated component already added " ++ c))
      else if !comps.contains c then .error (.keyError c)
      else if (par.lookup c).isSome then .error (.valueError ("multiple parents not allowed " ++ c))
      else buildParents comps r ((c, p) :: par) ((p, c) :: enc)

/-- first half of `_add_connections`: existence of the components, then the direction of every `<map_variables>` -/
def directAll (comps : List String) (par : ParentMap) (vt : VarTable) : List Conn → Except Err (List (VRef × VRef))
  | [] => .ok []
  | c :: r =>
      if !comps.contains c.c1 then .error (.valueError ("Cannot connect components that do not exist: " ++ c.c1))
      else if !comps.contains c.c2 then .error (.valueError ("Cannot connect components that do not exist: " ++ c.c2))
      else match direction par vt c with
        | .error e => .error e
        | .ok d => match directAll comps par vt r with
          | .error e => .error e
          | .ok ds => .ok (d :: ds)

def checkIdent (vt : VarTable) (cname x : String) : Except Err Unit :=
  if (vt.lookup (cname, x)).isSome then .ok () else .error (.assertion (cname ++ "$" ++ x ++ " not found in symbol dict"))

/-- what the transpiler can raise on an expression: unknown identifier (the `assert` of `symbol_generator`), unknown unit
    of a number (`get_unit`), in traversal order (`<bvar>` precedes the differentiated variable) -/
def checkExpr (ust : Units.Store) (vt : VarTable) (cname : String) : Expr String String → Except Err Unit
  | .num _ u => match Units.getUnit ust u with
      | .ok _ => .ok ()
      | .error _ => .error (.keyError ("Unknown unit " ++ u))
  | .var a => checkIdent vt cname a
  | .diff x t => match checkIdent vt cname t with
      | .ok () => checkIdent vt cname x
      | .error e => .error e
  | .add a b | .sub a b | .mul a b | .div a b =>
      match checkExpr ust vt cname a with
      | .ok () => checkExpr ust vt cname b
      | .error e => .error e
  | .neg a => checkExpr ust vt cname a
  | .powi a _ => checkExpr ust vt cname a

def checkLhs (vt : VarTable) (cname : String) : Lhs String → Except Err Unit
  | .var a => checkIdent vt cname a
  | .diff x t => match checkIdent vt cname t with
      | .ok () => checkIdent vt cname x
      | .error e => .error e

/-- the unit of a number of the document as a flat unit -/
def unitF (ust : Units.Store) (u : String) : FUnit :=
  ([], match Units.getUnit ust u with | .ok c => c | .error _ => [])

/-- `symbol_generator` + transpiler on one equation of component `cname` -/
def transcribe (ust : Units.Store) (st : CState) (cname : String) (e : Eqn String String) : FlatEq :=
  e.map (fun x => rootOf st (cname, x)) (unitF ust)

def mathsOf (ust : Units.Store) (st : CState) (comps : List Comp) : List FlatEq :=
  comps.flatMap (fun c => c.eqs.map (transcribe ust st c.name))

/-- the conversion equation as an equation of the flat model -/
def ConvEq.toEq (e : ConvEq) : FlatEq :=
  ⟨.var e.target, .mul (.var e.src) (.num 1 (e.cf, PMap.sub e.tu e.su))⟩

/-- `add_equation` one at a time: transpile (may raise), then `_check_duplicate_definitions` -/
def checkEqs (ust : Units.Store) (vt : VarTable) (st : CState) (cname : String) :
    List (Eqn String String) → List VRef → Except Err (List VRef)
  | [], defined => .ok defined
  | e :: r, defined =>
      match checkLhs vt cname e.lhs with
      | .error err => .error err
      | .ok () =>
        match checkExpr ust vt cname e.rhs with
        | .error err => .error err
        | .ok () =>
          let v := (transcribe ust st cname e).lhs.defines
          if defined.contains v then .error (.valueError ("The variable is defined twice " ++ v.1 ++ "$" ++ v.2))
          else checkEqs ust vt st cname r (v :: defined)

def checkMaths (ust : Units.Store) (vt : VarTable) (st : CState) : List Comp → List VRef → Except Err (List VRef)
  | [], defined => .ok defined
  | c :: r, defined =>
      match checkEqs ust vt st c.name c.eqs defined with
      | .error e => .error e
      | .ok d => checkMaths ust vt st r d

/-- variables defined by an ODE (`get_state_variables`) -/
def statesOf (eqs : List FlatEq) : List VRef :=
  (eqs.filter (fun e => e.lhs.isDiff)).map (fun e => e.lhs.defines)

/-- `transform_constants`, the part that can raise -/
def checkConstants (states defined : List VRef) : VarTable → Except Err Unit
  | [] => .ok ()
  | (v, i) :: r =>
      if states.contains v then
        if i.init.isNone then .error (.assertion ("State variable has no initial_value set " ++ v.1 ++ "$" ++ v.2))
        else checkConstants states defined r
      else if i.init.isSome && defined.contains v then
        .error (.valueError ("The variable is defined twice " ++ v.1 ++ "$" ++ v.2))
      else checkConstants states defined r

/-- `transform_constants`, the equations it adds -/
def constsOf (states : List VRef) (vt : VarTable) : List FlatEq :=
  vt.filterMap (fun (v, i) =>
    if states.contains v then none
    else i.init.map (fun q => (⟨.var v, .num q ([], i.units)⟩ : FlatEq)))

def flatVars (states : List VRef) (st : CState) (vt : VarTable) : List FlatVar :=
  vt.map (fun (v, i) => ⟨v, i.units, if states.contains v then i.init else none, cmetaOf st v⟩)

/-- everything `parse` computes before the equations are assembled -/
structure Loaded where
  reg : Registry
  ust : Units.Store
  vt  : VarTable
  par : ParentMap
  dl  : List (VRef × VRef)
  st  : CState
deriving Repr

def Loaded.maths (L : Loaded) (doc : Doc) : List FlatEq := mathsOf L.ust L.st doc.comps
def Loaded.states (L : Loaded) (doc : Doc) : List VRef := statesOf (L.maths doc)
def Loaded.flat (L : Loaded) (doc : Doc) : Flat :=
  { reg := L.reg
    vars := flatVars (L.states doc) L.st L.vt
    eqs := L.st.convs.map ConvEq.toEq ++ L.maths doc ++ constsOf (L.states doc) L.vt }

def prepare (doc : Doc) : Except Err Loaded :=
  match buildUnits doc.units (Units.builtinRegistry, { id := 0, known := [] }) with
  | .error e => .error e
  | .ok (reg, ust) =>
    match checkComps ust doc.comps [] ([], doc.cmeta.toList) with
    | .error e => .error e
    | .ok _ =>
      let vt := varTable ust doc.comps
      let names := doc.comps.map (·.name)
      match buildParents names doc.encaps [] [] with
      | .error e => .error e
      | .ok par =>
        match directAll names par vt doc.conns with
        | .error e => .error e
        | .ok dl =>
          match connect reg vt dl with
          | .error e => .error e
          | .ok st => .ok ⟨reg, ust, vt, par, dl, st⟩

/-- `Parser.parse` -/
def load (doc : Doc) : Except Err Flat :=
  match prepare doc with
  | .error e => .error e
  | .ok L =>
    match checkMaths L.ust L.vt L.st doc.comps (L.st.convs.map (·.target)) with
    | .error e => .error e
    | .ok defined =>
      match checkConstants (L.states doc) defined L.vt with
      | .error e => .error e
      | .ok () => .ok (L.flat doc)

/-! ## Exact evaluation of a flat model (used by the driver; the theorems do not depend on it) -/

/-- ∏ pᵉ for integer exponents (the numerator of a non-integer exponent is used: exact only for integer scales) -/
def denInt (s : Scale) : Rat :=
  (PMap.norm s).foldl (fun acc (p, e) => acc * ((p : Rat) ^ e.num)) 1

inductive Key where
  | v (r : VRef)
  | d (x : VRef)
deriving DecidableEq, Repr

abbrev Table := List (Key × Rat)

def tget (tb : Table) (k : Key) : Rat := (tb.lookup k).getD 0

/-- one round: every defined quantity from the previous table -/
def evalRound (F : Flat) (tb : Table) : Table :=
  F.eqs.map (fun e =>
    let k := match e.lhs with | .var a => Key.v a | .diff x _ => Key.d x
    (k, e.rhs.eval (uscF denInt F.reg) (fun a => tget tb (.v a)) (fun x _ => tget tb (.d x))))

/-- states at their initial value, free variables at `free` (SI), then `n` rounds -/
def evalFlat (F : Flat) (free : Rat) : Table :=
  let states := statesOf F.eqs
  let defined := F.eqs.filterMap (fun e => match e.lhs with | .var a => some a | _ => none)
  let base : Table := F.vars.filterMap (fun v =>
    if states.contains v.ref then some (Key.v v.ref, (v.init.getD 0) * uscF denInt F.reg ([], v.units))
    else if defined.contains v.ref then none
    else some (Key.v v.ref, free))
  let step (tb : Table) : Table := base ++ (evalRound F tb).filter (fun (k, _) => match k with
    | .v a => !states.contains a
    | .d _ => true)
  iter step (F.eqs.length + 1) base
where
  iter (f : Table → Table) : Nat → Table → Table
    | 0, t => t
    | n + 1, t => iter f n (f t)

end Load
