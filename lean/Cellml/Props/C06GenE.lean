import Cellml.Tie.ConvertVarERefine
import Cellml.Props.C06Gen

/-! # C06 — `convert_variable` with the exception CLASS and the STATE LEFT BEHIND, stated about the generated code

    `Gen.ConvertVarE.convertVariable view s v u dir move : Except Raised (CState × Nat)` is generated from the source of
    `Model.convert_variable` (group `ConvertVarE`: the same leaves as `ConvertVar`, but an exception carries its class
    and the model state at the raise). Three layers:

    1. `genE_eq` (= `convertVariable_tieE`, NO hypothesis): the generated code IS the stopping hand model
       `Model.CVE.convertVariable` — equal results, equal exception classes, equal states left behind, for every
       helper and for the driver, whatever `get_conversion_factor` does.
    2. `genE_refines` (`ref_convertVariable`): the stopping model refines the flag model `Model.CV.convertVariable` that
       `Props/C06.lean` is about. Hypotheses: the variable is in the model, the keys of `_ode_definition_map` are
       distinct (it is a dict). NOT needed any more: `s.raised = false` (the flag model never reads its flag),
       `DerivOdes s` (the `IndexError` is part of the stopping model).
    3. the C06 theorems restated (`*_genE`) with those two hypotheses gone, and the atomicity statements: which raises
       leave the model untouched, and a history through the public API where a raising `convert_variable` leaves the
       model HALF-EDITED (`raising_convert_variable_not_atomic`; python: notes/tie4_cverr_histories.py H1). -/

namespace Cellml.Props.C06GenE
open Model Model.CV Cellml.Gen Cellml.Tie Cellml.Tie.CV Cellml.Tie.CVE Cellml.Tie.GenD Cellml.Props.C06
open Model.CVE (Raised)

-- ================================================================================================ layer 1 and 2
/-- the generated driver is the stopping hand model: results, exception classes and states at the raise are EQUAL -/
theorem genE_eq (view : CVViewE) (s : CState) (v : Nat) (u : U) (dir : Dir) (move : Bool) :
    ConvertVarE.convertVariable view s v u dir move
      = Model.CVE.convertVariable s v u (view.getConversionFactor (unitOfV s v) u) dir move :=
  convertVariable_tieE view s v u dir move

/-- the generated driver against the flag model of `Props/C06.lean`, from any entry flag -/
theorem genE_refines (view : CVViewE) (s : CState) (v : Nat) (u : U) (dir : Dir) (move : Bool) (cf : Rat)
    (hv : v < s.vars.length) (hk : KeysNodup s) (hget : view.getConversionFactor (unitOfV s v) u = .ok cf) :
    Ref (DerivOdes s) s.raised (ConvertVarE.convertVariable view s v u dir move)
      ((CV.convertVariable s v u cf dir move).1, (CV.convertVariable s v u cf dir move).2.1) := by
  rw [genE_eq, hget]
  exact ref_convertVariable s v u cf dir move hv hk

/-- python returns ⇒ exactly the flag model's state and variable, and the flag is where it was -/
theorem genE_returns (view : CVViewE) (s : CState) (v : Nat) (u : U) (dir : Dir) (move : Bool) (cf : Rat)
    (hv : v < s.vars.length) (hk : KeysNodup s) (hget : view.getConversionFactor (unitOfV s v) u = .ok cf)
    (s' : CState) (nv : Nat) (hok : ConvertVarE.convertVariable view s v u dir move = .ok (s', nv)) :
    s' = (CV.convertVariable s v u cf dir move).1 ∧ nv = (CV.convertVariable s v u cf dir move).2.1 ∧
      s'.raised = s.raised := by
  have h := genE_refines view s v u dir move cf hv hk hget
  rw [hok] at h
  obtain ⟨h1, h2⟩ := h
  have e1 : s' = (CV.convertVariable s v u cf dir move).1 := congrArg Prod.fst h1
  exact ⟨e1, congrArg Prod.snd h1, e1 ▸ h2⟩

/-- python raises ⇒ the flag model's flag is up (where only derivatives are filed among the ODEs) -/
theorem genE_raises (view : CVViewE) (s : CState) (v : Nat) (u : U) (dir : Dir) (move : Bool) (cf : Rat)
    (hv : v < s.vars.length) (hk : KeysNodup s) (hd : DerivOdes s)
    (hget : view.getConversionFactor (unitOfV s v) u = .ok cf)
    (e : Raised) (herr : ConvertVarE.convertVariable view s v u dir move = .error e) :
    (CV.convertVariable s v u cf dir move).1.raised = true := by
  have h := genE_refines view s v u dir move cf hv hk hget
  rw [herr] at h
  rcases h with h | ⟨_, h⟩
  · exact h
  · exact absurd hd h

/-- on a well-formed model the generated `convert_variable` raises NOTHING and returns the flag model's result -/
theorem genE_wf (view : CVViewE) {s : CState} (hwf : WF s) (v : Nat) (hv : v < s.vars.length) (u : U) (cf : Rat)
    (hget : view.getConversionFactor (unitOfV s v) u = .ok cf) (dir : Dir) (move : Bool) :
    ConvertVarE.convertVariable view s v u dir move =
      .ok ((CV.convertVariable s v u cf dir move).1, (CV.convertVariable s v u cf dir move).2.1) := by
  have hr := (convert_var_wf hwf v hv u cf dir move).2
  cases hg : ConvertVarE.convertVariable view s v u dir move with
  | ok r =>
    obtain ⟨s', nv⟩ := r
    obtain ⟨h1, h2, _⟩ := genE_returns view s v u dir move cf hv hwf.inv.odKeys hget s' nv hg
    rw [h1, h2]
  | error e =>
    have := genE_raises view s v u dir move cf hv hwf.inv.odKeys (derivOdes_of_inv0 hwf.inv) hget e hg
    rw [hr] at this
    cases this

-- ================================================================================================ the raises that are atomic
/-- `get_conversion_factor` raises (`DimensionalityError`, …): the same class escapes, the model is untouched -/
theorem genE_cf_error (view : CVViewE) (s : CState) (v : Nat) (u : U) (dir : Dir) (move : Bool) (c : String)
    (hv : v < s.vars.length) (hcf : view.getConversionFactor (unitOfV s v) u = .error c) :
    ConvertVarE.convertVariable view s v u dir move = .error ⟨c, s⟩ := by
  rw [genE_eq, hcf]
  unfold Model.CVE.convertVariable
  simp [nameOfV_mem s v hv]

/-- a variable whose name is not in `_name_to_variable`: `AssertionError`, the model is untouched -/
theorem genE_not_in_model (view : CVViewE) (s : CState) (v : Nat) (u : U) (dir : Dir) (move : Bool)
    (hv : nameOfV s v ∉ CV.names s) :
    ConvertVarE.convertVariable view s v u dir move = .error ⟨"AssertionError", s⟩ := by
  rw [genE_eq]
  unfold Model.CVE.convertVariable
  simp [hv]

/-- **No-op** (`convert_var_noop`): equivalent units, any state -/
theorem convert_var_noop_genE (view : CVViewE) (s : CState) (v : Nat) (hv : v < s.vars.length) (u : U)
    (hget : view.getConversionFactor (unitOfV s v) u = .ok 1) (dir : Dir) (move : Bool) :
    ConvertVarE.convertVariable view s v u dir move = .ok (s, v) := by
  rw [genE_eq, hget]
  unfold Model.CVE.convertVariable
  simp [nameOfV_mem s v hv]

-- ================================================================================================ C06 restated, fewer hypotheses
variable {K : Type} [Field K]

/-- `convert_var_sound` for the generated code with exceptions-with-state: python raises nothing -/
theorem convert_var_sound_genE (view : CVViewE) (I : Interp K) {s : CState} (hwf : WF s) (v : Nat)
    (hv : v < s.vars.length) (u : U) (cf : Rat) (hget : view.getConversionFactor (unitOfV s v) u = .ok cf)
    (hcf1 : cf ≠ 1) (hcf : I.lit cf ≠ 0) (dir : Dir) (move : Bool) :
    ∃ s' nv, ConvertVarE.convertVariable view s v u dir move = .ok (s', nv) ∧
      CallOK I s v cf dir (s', nv, (CV.convertVariable s v u cf dir move).2.2) :=
  ⟨_, _, genE_wf view hwf v hv u cf hget dir move, convert_var_sound I hwf v hv u cf hcf1 hcf dir move⟩

theorem convert_var_wf_genE (view : CVViewE) {s : CState} (hwf : WF s) (v : Nat) (hv : v < s.vars.length) (u : U)
    (cf : Rat) (hget : view.getConversionFactor (unitOfV s v) u = .ok cf) (dir : Dir) (move : Bool) :
    ∃ s' nv, ConvertVarE.convertVariable view s v u dir move = .ok (s', nv) ∧ WF s' ∧ s'.raised = false :=
  ⟨_, _, genE_wf view hwf v hv u cf hget dir move, convert_var_wf hwf v hv u cf dir move⟩

/-- `convert_var_names_fresh`; compared with `C06Gen.convert_var_names_fresh_gen`: `s.raised = false` and `DerivOdes s`
    are gone -/
theorem convert_var_names_fresh_genE (view : CVViewE) (s : CState) (v : Nat) (hv : v < s.vars.length) (u : U) (cf : Rat)
    (hget : view.getConversionFactor (unitOfV s v) u = .ok cf) (dir : Dir) (move : Bool) (hk : KeysNodup s) :
    (∀ base, genUniqueName s base ∉ CV.names s) ∧
    (∀ s' nv, ConvertVarE.convertVariable view s v u dir move = .ok (s', nv) →
      (CV.names s).Nodup → (CV.names s').Nodup) := by
  refine ⟨genUniqueName_fresh s, ?_⟩
  intro s' nv hok hn
  obtain ⟨h1, _, _⟩ := genE_returns view s v u dir move cf hv hk hget s' nv hok
  rw [h1]
  exact (convert_var_names_fresh s v hv u cf dir move).2 hn

/-- `convert_var_meta`; compared with `C06Gen.convert_var_meta_gen`: `s.raised = false` and `DerivOdes s` are gone, the
    returned variable is identified, and the flag clause reads "untouched" -/
theorem convert_var_meta_genE (view : CVViewE) (s : CState) (v : Nat) (hv : v < s.vars.length) (u : U) (cf : Rat)
    (hget : view.getConversionFactor (unitOfV s v) u = .ok cf) (hcf : cf ≠ 1) (dir : Dir) (move : Bool)
    (hk : KeysNodup s)
    (s' : CState) (nv : Nat) (hok : ConvertVarE.convertVariable view s v u dir move = .ok (s', nv)) :
    s'.vars[s.vars.length]? =
      some ⟨genUniqueName s (nameOfV s v ++ "_converted"), u,
            C06Gen.newInitOf dir (initOfV s v) cf,
            if move then cmetaOfV s v else none⟩ ∧
    s'.vars[v]? =
      (s.vars[v]?).map (fun y => ⟨y.name, y.unit, C06Gen.keptInitOf dir y.init,
                                  if move then none else y.cmeta⟩) ∧
    (∀ i, i < s.vars.length → i ≠ v → s'.vars[i]? = s.vars[i]?) ∧
    (∀ c, move = true → cmetaOfV s v = some c → s'.cmetaMap.lookup c = some s.vars.length) ∧
    ((move = false ∨ cmetaOfV s v = none) → s'.cmetaMap = s.cmetaMap) ∧
    s'.raised = s.raised := by
  obtain ⟨h1, _, hflag⟩ := genE_returns view s v u dir move cf hv hk hget s' nv hok
  obtain ⟨m1, m2, m3, m4, m5⟩ := convert_var_meta s v hv u cf hcf dir move
  rw [genUniqueName_eq]
  rw [h1] at hflag ⊢
  exact ⟨m1, m2, m3, m4, m5, hflag⟩

-- ================================================================================================ a raise that is NOT atomic
/-! A model built through the public API only (python: notes/tie4_cverr_histories.py, history H1): variables `t`, `tau`
    (seconds), `x`, `y` (mV), `dx/dt = 1`, `dy/dtau = 1` — `add_equation` accepts ODEs with different bound variables.
    `convert_variable(t, ms, INPUT)`: `get_free_variable()` answers `t` (the bound variable of the FIRST ODE), the loop
    over the ODEs converts `dx/dt`, then the `assert` on `dy/dtau` fails. The exception escapes with the model
    half-edited. Everything the C08 invariant asks holds before the call (`twoFree_inv0`); what fails is `WF.oneFree`. -/

def twoFree0 : CState :=
  { vars := [⟨"t", uSec, none, none⟩, ⟨"tau", uSec, none, none⟩, ⟨"x", uMV, some 1, none⟩, ⟨"y", uMV, some 2, none⟩] }

def twoFree : CState :=
  addEq (addEq twoFree0 ⟨.deriv 2 0, .lit 1 (uMV.div uSec)⟩ true) ⟨.deriv 3 1, .lit 1 (uMV.div uSec)⟩ true

theorem scoped_of_lt (n : Nat) (e : CEqn) (h : ∀ i ∈ e.allVars, i < n) : EqScoped n e := h

/-- the model satisfies the invariant of `add_equation` / `add_variable` (`Inv0`, the C08 invariant specialised to this
    state): the definition maps are what the equation list says, keys distinct, every variable known -/
theorem twoFree_inv0 : Inv0 twoFree := by
  have h0 : Inv0 twoFree0 :=
    { notRaised := rfl, scopedE := fun _ h => (by cases h), keys := List.nodup_nil, vdKeys := List.nodup_nil,
      odKeys := List.nodup_nil, vd := fun _ _ => ⟨fun h => (by cases h), fun h => (by cases h.1)⟩,
      od := fun _ _ => ⟨fun h => (by cases h), fun h => (by cases h.1)⟩ }
  have h1 := addEq_ok h0 ⟨.deriv 2 0, .lit 1 (uMV.div uSec)⟩ true
    (scoped_of_lt _ _ (by decide)) (fun _ h => (by cases h)) (fun _ _ h => (by cases h))
  have e1 := h1.1
  have v1 := h1.2.1
  refine (addEq_ok h1.2.2.2 ⟨.deriv 3 1, .lit 1 (uMV.div uSec)⟩ true ?_ ?_ ?_).2.2.2
  · rw [v1]; exact scoped_of_lt _ _ (by decide)
  · rw [e1]; intro e0 h; simp only [twoFree0, List.nil_append, List.mem_cons, List.not_mem_nil, or_false] at h
    subst h; decide
  · rw [e1]; intro _ e0 h; simp only [twoFree0, List.nil_append, List.mem_cons, List.not_mem_nil, or_false] at h
    subst h; decide

/-- … but not `WF`: two ODEs with different bound variables -/
theorem twoFree_not_oneFree : ¬ OneFree twoFree.equations := by
  intro h
  have := h ⟨.deriv 2 0, .lit 1 (uMV.div uSec)⟩ (by decide +kernel) ⟨.deriv 3 1, .lit 1 (uMV.div uSec)⟩ (by decide +kernel)
    2 0 3 1 rfl rfl
  cases this

/-- a units module that answers 1000 (s → ms) -/
def twoFreeView : CVViewE := ⟨fun _ _ => .ok 1000⟩

/-- what the caller observes of an outcome: the class, and names / initial values, equations, keys of the two maps -/
structure Seen where
  out : String
  vars : List (String × Option Rat)
  eqs : List CEqn
  odes : List Nat
  defs : List Nat
deriving DecidableEq

def seenOf (c : String) (s : CState) : Seen :=
  ⟨c, s.vars.map (fun x => (x.name, x.init)), s.equations, s.odeDef.map (·.1), s.varDef.map (·.1)⟩

def observe : Except Raised (CState × Nat) → Seen
  | .ok r => seenOf "returned" r.1
  | .error e => seenOf e.cls e.st

/-- **a raising `convert_variable` is not atomic**: the generated code, evaluated by the kernel, raises
    `AssertionError` and leaves behind `t_converted`, `x_orig_deriv`, `t = t_converted / cf`, `x_orig_deriv = 1`,
    `dx/dt_converted = x_orig_deriv / cf`, without `dx/dt = 1` — exactly what python leaves (H1) -/
theorem raising_convert_variable_not_atomic :
    observe (ConvertVarE.convertVariable twoFreeView twoFree 0 uMs .input true) =
      ⟨"AssertionError",
       [("t", none), ("tau", none), ("x", some 1), ("y", some 2), ("t_converted", none), ("x_orig_deriv", none)],
       [⟨.deriv 3 1, .lit 1 (uMV.div uSec)⟩,
        ⟨.var 0, .div (.var 4) (.lit 1000 (uMs.div uSec))⟩,
        ⟨.var 5, .lit 1 (uMV.div uSec)⟩,
        ⟨.deriv 2 4, .div (.var 5) (.lit 1000 (uMs.div uSec))⟩],
       [3, 2], [0, 5]⟩ ∧
    seenOf "before" twoFree =
      ⟨"before", [("t", none), ("tau", none), ("x", some 1), ("y", some 2)],
       [⟨.deriv 2 0, .lit 1 (uMV.div uSec)⟩, ⟨.deriv 3 1, .lit 1 (uMV.div uSec)⟩], [2, 3], []⟩ := by
  decide +kernel

/-- the state at the raise differs from the entry state -/
theorem raising_convert_variable_state_changed :
    ∀ e, ConvertVarE.convertVariable twoFreeView twoFree 0 uMs .input true = .error e → e.st ≠ twoFree := by
  intro e he hst
  have h := raising_convert_variable_not_atomic.1
  rw [he] at h
  have h2 : e.st.equations.length = 4 := by
    have := congrArg (fun o : Seen => o.eqs.length) h
    simpa [observe, seenOf] using this
  rw [hst] at h2
  revert h2
  decide +kernel

/-- the OUTPUT direction of the same call returns (no loop over the ODEs) -/
example : (observe (ConvertVarE.convertVariable twoFreeView twoFree 0 uMs .output true)).out = "returned" := by
  decide +kernel

end Cellml.Props.C06GenE

-- ================================================================================================ axiom audit
/-- info: 'Cellml.Props.C06GenE.genE_eq' depends on axioms: [propext, Classical.choice, Quot.sound] -/
#guard_msgs in
#print axioms Cellml.Props.C06GenE.genE_eq
/-- info: 'Cellml.Props.C06GenE.genE_refines' depends on axioms: [propext, Classical.choice, Quot.sound] -/
#guard_msgs in
#print axioms Cellml.Props.C06GenE.genE_refines
/-- info: 'Cellml.Props.C06GenE.genE_wf' depends on axioms: [propext, Classical.choice, Quot.sound] -/
#guard_msgs in
#print axioms Cellml.Props.C06GenE.genE_wf
/-- info: 'Cellml.Props.C06GenE.convert_var_meta_genE' depends on axioms: [propext, Classical.choice, Quot.sound] -/
#guard_msgs in
#print axioms Cellml.Props.C06GenE.convert_var_meta_genE
/-- info: 'Cellml.Props.C06GenE.raising_convert_variable_not_atomic' depends on axioms: [propext, Classical.choice, Quot.sound] -/
#guard_msgs in
#print axioms Cellml.Props.C06GenE.raising_convert_variable_not_atomic
