/-! Property theorems for C02 (not built yet). -/
