/-! C11 — syntax of the printer model (core Lean only).

  `E`   : the SymPy tree as built (n-ary `Add`/`Mul`/`And`/`Or`, argument lists encoded with `nil`/`cons`).
  `Doc` : the layout tree the printer produces = Python's expression AST plus explicit `paren` nodes.
  `flatten` : the emitted string.   `PyOK` : "CPython parses `flatten d` to exactly `d` (paren nodes erased)". -/
namespace C11

inductive Rel | eq | ne | lt | le | gt | ge
deriving Repr, DecidableEq, BEq

def Rel.text : Rel → String
  | .eq => "==" | .ne => "!=" | .lt => "<" | .le => "<=" | .gt => ">" | .ge => ">="

def Rel.ofText? : String → Option Rel
  | "==" => some .eq | "!=" => some .ne | "<" => some .lt | "<=" => some .le | ">" => some .gt | ">=" => some .ge
  | _ => none

/-- The SymPy expression tree handed to the `_print_*` methods. -/
inductive E where
  | sym (name : String) (comm : Bool)
  | int (n : Int)
  | rat (p : Int) (q : Nat)            -- `Rational(p, q)`, q ≥ 2
  | flt (text : String) (neg : Bool)   -- `Float`: text = repr(float(·)), neg = (· < 0)
  | pi | e1 | tt | ff
  | add (args : E) | mul (args : E)    -- args: `cons`-list
  | pow (b x : E)
  | fn (name : String) (args : E)
  | rel (r : Rel) (a b : E)
  | and (args : E) | or (args : E)
  | pw (pairs : E)                     -- `cons`-list of `pair`
  | pair (v c : E)
  | deriv (x t : String)
  | other (what : String)              -- Not, nan, oo, zoo, I, Matrix, Max, … : no `_print_` method
  | nil | cons (h t : E)
deriving Repr, DecidableEq, Inhabited

inductive Bop | add | sub | mul | div | pow
deriving Repr, DecidableEq

def Bop.text : Bop → String
  | .add => " + " | .sub => " - " | .mul => " * " | .div => " / " | .pow => "**"

/-- Layout tree: Python's expression AST with explicit parentheses. Call arguments are a `cons`-list. -/
inductive Doc where
  | atom (s : String)                  -- name, number token, `math.pi`, `True`, `'nan'`
  | call (f : String) (args : Doc)
  | neg (d : Doc)
  | bin (op : Bop) (a b : Doc)
  | cmp (r : Rel) (a b : Doc)
  | and (a b : Doc) | or (a b : Doc)
  | ite (t c e : Doc)                  -- `t if c else e`
  | paren (d : Doc)
  | nil | cons (h t : Doc)
deriving Repr, DecidableEq, Inhabited

def flatten : Doc → String
  | .atom s => s
  | .call f args => f ++ "(" ++ flatten args ++ ")"
  | .neg d => "-" ++ flatten d
  | .bin op a b => flatten a ++ op.text ++ flatten b
  | .cmp r a b => flatten a ++ " " ++ r.text ++ " " ++ flatten b
  | .and a b => flatten a ++ " and " ++ flatten b
  | .or a b => flatten a ++ " or " ++ flatten b
  | .ite t c e => flatten t ++ " if " ++ flatten c ++ " else " ++ flatten e
  | .paren d => "(" ++ flatten d ++ ")"
  | .nil => ""
  | .cons h .nil => flatten h
  | .cons h t => flatten h ++ ", " ++ flatten t

/-- Python's grammar level of the outermost construct:
    primary 100 > power 60 > factor (unary) 55 > term 50 > arith 40 > comparison 35 > and_test 30 > or_test 20 >
    conditional expression 10. -/
def level : Doc → Nat
  | .atom _ | .call _ _ | .paren _ => 100
  | .bin .pow _ _ => 60
  | .neg _ => 55
  | .bin .mul _ _ | .bin .div _ _ => 50
  | .bin .add _ _ | .bin .sub _ _ => 40
  | .cmp _ _ _ => 35
  | .and _ _ => 30
  | .or _ _ => 20
  | .ite _ _ _ => 10
  | .nil | .cons _ _ => 0

/-- "Python parses the flattening of this Doc to exactly this tree."
    power: `await_primary ['**' factor]`; factor: `'-' factor | power`; term/arith: left-associative;
    comparison: operands strictly tighter (a comparison operand would make a chain); `and`/`or`: left operand may be
    the same operator (CPython's n-ary BoolOp, read left-nested), right operand strictly tighter;
    conditional: `or_test 'if' or_test 'else' test`; call arguments: any expression. -/
def PyOK : Doc → Bool
  | .atom _ => true
  | .call _ args => PyOK args
  | .neg d => PyOK d && decide (55 ≤ level d)
  | .bin .pow a b => PyOK a && PyOK b && decide (100 ≤ level a) && decide (55 ≤ level b)
  | .bin .mul a b | .bin .div a b => PyOK a && PyOK b && decide (50 ≤ level a) && decide (55 ≤ level b)
  | .bin .add a b | .bin .sub a b => PyOK a && PyOK b && decide (40 ≤ level a) && decide (50 ≤ level b)
  | .cmp _ a b => PyOK a && PyOK b && decide (40 ≤ level a) && decide (40 ≤ level b)
  | .and a b => PyOK a && PyOK b && decide (30 ≤ level a) && decide (35 ≤ level b)
  | .or a b => PyOK a && PyOK b && decide (20 ≤ level a) && decide (30 ≤ level b)
  | .ite t c e => PyOK t && PyOK c && PyOK e && decide (20 ≤ level t) && decide (20 ≤ level c) && decide (10 ≤ level e)
  | .paren d => PyOK d && decide (10 ≤ level d)
  | .nil => true
  | .cons h t => PyOK h && decide (10 ≤ level h) && PyOK t

end C11
