import Cellml.Props.C05

/-! # C04 (`hasUnit_denotes`) — the inferred unit is the unit in which the plain numbers ARE the physical value

    `Infer.traverse` (strict unit inference, `UnitCalculator.traverse`) reports a unit `u` for an expression `e`.
    Why is that the right unit? Because, for a STRICTLY consistent `e`, the plain numbers computed from the magnitudes
    (`Sem.evalNum`) multiplied by the SI scale of `u` are the physical quantity `e` denotes (`Sem.evalPhys`), and the
    dimension of `u` is its dimension — over any ordered field and any interpretation `Sem.Interp` of scales, powers
    and functions (laws as hypotheses), for every valuation of variables and derivatives.

    Strict consistency ("every function argument and exponent is exactly `dimensionless`, comparands / operands /
    pieces have units of the same scale") is phrased operationally: converting `e` with no target changes nothing,
    `Convert.convert reg Γ e none = .ok r ∧ r.wc = false`. Route: `convert_identity` gives `r.e = e`, `convert_value`
    (C05 (a)) gives `evalNum e · φ(scale r.u) =` physical value, and `convert_none_unit` below shows that the unit
    `traverse` reports is `is_equivalent` to `r.u` (no hypothesis on `radian`-like units is needed here: with no target,
    the reported unit is computed by the same unit arithmetic in both traversals). -/

namespace Cellml.Props.C04Denotes
open Units Infer Convert Sem PMap Spec

variable {K : Type} [Field K] [LinearOrder K] [IsStrictOrderedRing K]

/-- equivalent units have the same SI scale and the same dimension -/
theorem isEq_scale_dims (I : Interp K) {reg : Registry} {a b : Container} (h : isEquivalent reg a b = true) :
    I.φ (scaleOf reg a) = I.φ (scaleOf reg b) ∧ dimsOf reg a ≃ dimsOf reg b := by
  rw [isEq_iff] at h
  refine ⟨?_, ?_⟩
  · rw [φ_scaleOf, φ_scaleOf]; exact I.φ_congr h.1
  · exact (dimsOf_equiv reg a).trans ((dimsOfRoot_congr reg h.2).trans (dimsOf_equiv reg b).symm)

section unit
variable {reg : Registry} {Γ : VarEnv}

private theorem ok_pair {α : Type} {a r : α} (h : (pure a : Except UnitErr α) = .ok r) : a = r :=
  (Infer.pure_ok a r).mp h

/-- With no target, the unit reported by the converter is (equivalent to) the unit reported by strict inference,
    whenever both succeed — whether or not anything was converted inside. Exponents are numeric (`SimpleExps`, C04's
    hypothesis: products of numeric leaves), because `traverse` carries the magnitude of the first operand of a sum. -/
theorem convert_none_unit : ∀ (ex : E), SimpleExps ex = true → ∀ (r : CR) (m : M) (u : Container),
    convert reg Γ ex none = .ok r → traverse reg Γ ex = .ok (m, u) → isEquivalent reg u r.u = true := by
  intro ex
  induction ex with
  | qty v u0 =>
      intro _ r m u h ht
      simp only [Convert.convert, maybeConv, Except.ok.injEq] at h; subst h
      rw [traverse_qty] at ht; cases ht
      exact Cellml.Props.C07.equiv_refl reg _
  | cf s u0 =>
      intro _ r m u h ht
      simp only [Convert.convert, maybeConv, Except.ok.injEq] at h; subst h
      rw [traverse_cf] at ht; cases ht
      exact Cellml.Props.C07.equiv_refl reg _
  | var i =>
      intro _ r m u h ht
      obtain ⟨vi, hvi, h'⟩ := convert_var_inv h
      simp only [maybeConv, Except.ok.injEq] at h'; subst h'
      obtain ⟨m', hm'⟩ := varQ_some (Γ := Γ) hvi
      rw [traverse_var, hm'] at ht; cases ht
      exact Cellml.Props.C07.equiv_refl reg _
  | deriv v t =>
      intro _ r m u h ht
      obtain ⟨vv, vt, hvv, hvt, h'⟩ := convert_deriv_inv h
      simp only [maybeConv, Except.ok.injEq] at h'; subst h'
      obtain ⟨mv, hmv⟩ := varQ_some (Γ := Γ) hvv
      obtain ⟨mt, hmt⟩ := varQ_some (Γ := Γ) hvt
      rw [traverse_deriv, hmv, hmt] at ht
      simp only [bind, Except.bind] at ht
      cases hd : divM mv mt with
      | error err => rw [hd] at ht; cases ht
      | ok m' =>
          rw [hd] at ht
          have := ok_pair ht; cases this
          exact Cellml.Props.C07.equiv_refl reg _
  | int n =>
      intro _ r m u h ht
      obtain ⟨_, rfl⟩ := convert_numLeaf_inv rfl h
      rw [traverse_int] at ht; cases ht; exact Cellml.Props.C07.equiv_refl reg _
  | rat q =>
      intro _ r m u h ht
      obtain ⟨_, rfl⟩ := convert_numLeaf_inv rfl h
      rw [traverse_rat] at ht; cases ht; exact Cellml.Props.C07.equiv_refl reg _
  | flt q =>
      intro _ r m u h ht
      obtain ⟨_, rfl⟩ := convert_numLeaf_inv rfl h
      rw [traverse_flt] at ht; cases ht; exact Cellml.Props.C07.equiv_refl reg _
  | pi =>
      intro _ r m u h ht
      obtain ⟨_, rfl⟩ := convert_numLeaf_inv rfl h
      rw [traverse_pi] at ht; cases ht; exact Cellml.Props.C07.equiv_refl reg _
  | e =>
      intro _ r m u h ht
      obtain ⟨_, rfl⟩ := convert_numLeaf_inv rfl h
      rw [traverse_e] at ht; cases ht; exact Cellml.Props.C07.equiv_refl reg _
  | oo => intro _ r m u _ ht; rw [traverse_oo] at ht; cases ht
  | nan => intro _ r m u _ ht; rw [traverse_nan] at ht; cases ht
  | tt => intro _ r m u _ ht; rw [traverse_tt] at ht; cases ht
  | ff => intro _ r m u _ ht; rw [traverse_ff] at ht; cases ht
  | undef => intro _ r m u _ ht; rw [traverse_undef] at ht; cases ht
  | other n => intro _ r m u _ ht; rw [traverse_other] at ht; cases ht
  | mul a b iha ihb =>
      intro hs r m u h ht
      simp only [SimpleExps, Bool.and_eq_true] at hs
      obtain ⟨ra, rb, hra, hrb, h'⟩ := convert_mul_inv h
      simp only [maybeConv, Except.ok.injEq] at h'; subst h'
      rw [traverse_mul] at ht
      obtain ⟨qa, hqa, ht⟩ := (Infer.bind_ok _ _ _).mp ht
      obtain ⟨qb, hqb, ht⟩ := (Infer.bind_ok _ _ _).mp ht
      have := ok_pair ht; cases this
      exact isEq_mulC (iha hs.1 ra qa.1 qa.2 hra hqa) (ihb hs.2 rb qb.1 qb.2 hrb hqb)
  | pow b x ihb _ =>
      intro hs r m u h ht
      simp only [SimpleExps, Bool.and_eq_true] at hs
      obtain ⟨rx, q, rb, hrx, hq, hrb, h'⟩ := convert_pow_inv h
      rw [convert_numProd hs.2 (some []) (Or.inr rfl)] at hrx
      cases hrx
      obtain ⟨q', hc, hq'⟩ := evalClosed_numProd hs.2
      rw [hq'] at hq; cases hq
      obtain ⟨q'', f, htx, hc'⟩ := numProd_traverse reg Γ x hs.2
      rw [hc] at hc'; cases hc'
      simp only [maybeConv, Except.ok.injEq] at h'; subst h'
      rw [traverse_pow, htx] at ht
      obtain ⟨qb, hqb, ht⟩ := (Infer.bind_ok _ _ _).mp ht
      have hb := ihb hs.1 rb qb.1 qb.2 hrb hqb
      simp only [bind, Except.bind, powStep, ne_eq, not_true_eq_false, if_false, M.isNumber, Bool.not_true,
        Bool.false_eq_true] at ht
      generalize hp : powM qb.1 _ = pm at ht
      cases pm with
      | error err => cases ht
      | ok m' =>
          simp only at ht
          split at ht
          · rename_i hnil
            cases ht
            rw [hnil] at hb
            exact isEq_powC _ hb
          · cases ht
            exact isEq_powC _ hb
  | add a b iha _ =>
      intro hs r m u h ht
      simp only [SimpleExps, Bool.and_eq_true] at hs
      obtain ⟨ra, rb, hra, hrb, rfl⟩ := convert_add_inv h
      have hub : rb.u = ra.u := by
        rw [Option.getD_none] at hrb; exact Convert.convert_target b _ rb hrb
      obtain ⟨hta, _⟩ := traverse_add_ok reg Γ a b (m, u) ht
      simp only [hub]
      exact iha hs.1 ra m u hra hta
  | abs a iha =>
      intro hs r m u h ht
      simp only [SimpleExps] at hs
      obtain ⟨ra, hra, rfl⟩ := convert_abs_inv h
      rw [traverse_abs] at ht
      obtain ⟨qa, hqa, ht⟩ := (Infer.bind_ok _ _ _).mp ht
      have := ok_pair ht; cases this
      exact iha hs ra qa.1 qa.2 hra hqa
  | floor a iha =>
      intro hs r m u h ht
      simp only [SimpleExps] at hs
      obtain ⟨ra, hra, rfl⟩ := convert_floor_inv h
      rw [traverse_floor] at ht
      obtain ⟨qa, hqa, ht⟩ := (Infer.bind_ok _ _ _).mp ht
      obtain ⟨m', _, ht⟩ := (Infer.bind_ok _ _ _).mp ht
      have := ok_pair ht; cases this
      exact iha hs ra qa.1 qa.2 hra hqa
  | ceil a iha =>
      intro hs r m u h ht
      simp only [SimpleExps] at hs
      obtain ⟨ra, hra, rfl⟩ := convert_ceil_inv h
      rw [traverse_ceil] at ht
      obtain ⟨qa, hqa, ht⟩ := (Infer.bind_ok _ _ _).mp ht
      obtain ⟨m', _, ht⟩ := (Infer.bind_ok _ _ _).mp ht
      have := ok_pair ht; cases this
      exact iha hs ra qa.1 qa.2 hra hqa
  | fn1 f a _ =>
      intro _ r m u h ht
      obtain ⟨_, ra, hra, rfl⟩ := convert_fn1_inv h
      have hua : ra.u = [] := Convert.convert_target a _ ra hra
      rw [traverse_fn1] at ht
      obtain ⟨qa, _, ht⟩ := (Infer.bind_ok _ _ _).mp ht
      have h2 := (fn1Step_ok reg f qa (m, u) ht).2
      simp only at h2
      simp only [hua, h2]
      exact Cellml.Props.C07.equiv_refl reg []
  | fnN f a b _ _ =>
      intro _ r m u _ ht
      obtain ⟨err, he⟩ := traverse_fnN reg Γ f a b
      rw [he] at ht; cases ht
  | ite c t el _ iht _ =>
      intro hs r m u h ht
      simp only [SimpleExps, Bool.and_eq_true] at hs
      obtain ⟨rt, rc, hrt, _, hcase⟩ := convert_ite_inv h
      rw [traverse_ite] at ht
      obtain ⟨qt, hqt, ht⟩ := (Infer.bind_ok _ _ _).mp ht
      have hbt := iht hs.1 rt qt.1 qt.2 hrt hqt
      rcases hcase with ⟨hel, rfl⟩ | ⟨hel, re, hre, rfl⟩
      · simp only [hel, if_true] at ht
        have := ok_pair ht; cases this
        exact hbt
      · simp only [hel, if_false] at ht
        obtain ⟨qe, _, ht⟩ := (Infer.bind_ok _ _ _).mp ht
        have hue : re.u = rt.u := by
          rw [Option.getD_none] at hre; exact Convert.convert_target el _ re hre
        split at ht
        · have := ok_pair ht; cases this
          simp only [hue]; exact hbt
        · cases ht
  | rel rr a b _ _ =>
      intro _ r m u _ ht
      rw [traverse_rel] at ht
      obtain ⟨_, _, ht⟩ := (Infer.bind_ok _ _ _).mp ht
      obtain ⟨_, _, ht⟩ := (Infer.bind_ok _ _ _).mp ht
      cases ht
  | and a b _ _ =>
      intro _ r m u _ ht
      rw [traverse_and] at ht
      obtain ⟨_, _, ht⟩ := (Infer.bind_ok _ _ _).mp ht
      obtain ⟨_, _, ht⟩ := (Infer.bind_ok _ _ _).mp ht
      cases ht
  | or a b _ _ =>
      intro _ r m u _ ht
      rw [traverse_or] at ht
      obtain ⟨_, _, ht⟩ := (Infer.bind_ok _ _ _).mp ht
      obtain ⟨_, _, ht⟩ := (Infer.bind_ok _ _ _).mp ht
      cases ht
  | not a _ =>
      intro _ r m u _ ht
      rw [traverse_not] at ht
      obtain ⟨_, _, ht⟩ := (Infer.bind_ok _ _ _).mp ht
      cases ht

end unit

/-- strict consistency, operationally: bringing the expression to its own units requires no conversion anywhere —
    every function argument and exponent is exactly `dimensionless`, the second comparand / operand / piece already
    has a unit with the dimension and scale of the first -/
def Strict (reg : Registry) (Γ : VarEnv) (ex : E) : Prop :=
  ∃ r, convert reg Γ ex none = .ok r ∧ r.wc = false

/-- the same thing said with object identity: the converter hands back its argument -/
theorem strict_iff_same {reg : Registry} {Γ : VarEnv} {ex : E} :
    Strict reg Γ ex ↔ ∃ r, convert reg Γ ex none = .ok r ∧ r.same = true := by
  constructor
  · rintro ⟨r, h, hw⟩; exact ⟨r, h, ((Cellml.Props.C05.convert_identity h).1 hw).2⟩
  · rintro ⟨r, h, hs⟩; exact ⟨r, h, ((Cellml.Props.C05.convert_identity h).2 hs).2⟩

section denotes
variable (I : Interp K) (reg : Registry) (Γ : VarEnv) (ρ : Nat → K) (δ : Nat → Nat → K)

/-- **`hasUnit_denotes`, value form.** If strict inference reports the unit `u` for a strictly consistent expression
    (numeric exponents), then wherever the expression denotes a physical quantity `(x, d)`, the plain numbers read in `u`
    are that quantity: `evalNum e · ⟦scale u⟧ = x` and `dim u = d` — for every valuation and interpretation. -/
theorem infer_denotes_of_defined {ex : E} (hs : SimpleExps ex = true) {m : M} {u : Container}
    (ht : traverse reg Γ ex = .ok (m, u)) (hst : Strict reg Γ ex) {x : K} {d : Dims}
    (hp : evalPhys I reg Γ ρ δ ex = some (x, d)) :
    evalNum I ρ δ ex * I.φ (scaleOf reg u) = x ∧ dimsOf reg u ≃ d := by
  obtain ⟨r, hc, hw⟩ := hst
  have he : r.e = ex := ((Cellml.Props.C05.convert_identity hc).1 hw).1
  obtain ⟨hv, hd⟩ := Cellml.Props.C05.convert_value I reg Γ ρ δ hc hp
  obtain ⟨hsc, hdim⟩ := isEq_scale_dims I (convert_none_unit ex hs r m u hc ht)
  rw [he] at hv
  exact ⟨by rw [hsc]; exact hv, hdim.trans hd⟩

/-- **`hasUnit_denotes`** (partial: exponents are numeric — C04's `SimpleExps` — and the expression is built from the
    operators that have a physical value, `arithS`: no `floor`/`ceiling`, conditions in condition position). For a
    strictly consistent expression whose inferred unit is `u`, the physical quantity IS DEFINED and equals the plain
    numbers read in `u`: `evalPhys e = some (evalNum e · ⟦scale u⟧, d)` with `d` the dimension of `u`. -/
theorem infer_denotes_partial {ex : E} (hs : SimpleExps ex = true) (ha : Cellml.Props.C05.arithS ex = true)
    {m : M} {u : Container} (ht : traverse reg Γ ex = .ok (m, u)) (hst : Strict reg Γ ex) :
    ∃ d, evalPhys I reg Γ ρ δ ex = some (evalNum I ρ δ ex * I.φ (scaleOf reg u), d) ∧ dimsOf reg u ≃ d := by
  obtain ⟨r, hc, hw⟩ := hst
  obtain ⟨x, d, hp⟩ := (Cellml.Props.C05.convert_ok_valid I reg Γ ρ δ ex).1 ha none r hc
  obtain ⟨hv, hd⟩ := infer_denotes_of_defined I reg Γ ρ δ hs ht ⟨r, hc, hw⟩ hp
  exact ⟨d, by rw [hv]; exact hp, hd⟩

/-- the conditions inside a strictly consistent expression are decided correctly by plain numbers: e.g. for a
    Piecewise, the truth value of its condition between physical quantities is the one computed from the magnitudes -/
theorem cond_denotes {c t el : E} (hst : Strict reg Γ (.ite c t el)) {p : Bool}
    (hp : physB I reg Γ ρ δ c = some p) : evalB I ρ δ c = p := by
  obtain ⟨r, hc, hw⟩ := hst
  obtain ⟨rt, rc, hrt, hrc, hcase⟩ := convert_ite_inv hc
  have hwc : rc.wc = false := by
    rcases hcase with ⟨_, rfl⟩ | ⟨_, re, _, rfl⟩
    · simp only [Bool.or_eq_false_iff] at hw; exact hw.2
    · simp only [Bool.or_eq_false_iff] at hw; exact hw.1.2
  have he : rc.e = c := (convert_ident hrc).2 hwc
  have := Cellml.Props.C05.convert_cond I reg Γ ρ δ hrc hp
  rwa [he] at this

end denotes

/-! ## strictness is necessary: without it the numbers read in the inferred unit are NOT the physical value -/

/-- `sin(x)` with `x` in a percent-like unit (`pc = 10⁻² dimensionless`): inference accepts it (dimension zero) and reports `dimensionless`, but the
    expression is not strictly consistent — the converter has to insert the factor -/
theorem not_strict_example :
    traverse (("pc", .derived (pow10 (-2)) []) :: builtinRegistry) [⟨[("pc", 1)], none⟩] (.fn1 "sin" (.var 0)) =
      .ok (.num 1 false, []) ∧
    convert (("pc", .derived (pow10 (-2)) []) :: builtinRegistry) [⟨[("pc", 1)], none⟩] (.fn1 "sin" (.var 0)) none =
      .ok ⟨.fn1 "sin" (.mul (.cf [(2, -2), (5, -2)] [("pc", -1)]) (.var 0)), true, [], false⟩ := by
  refine ⟨by decide +kernel, by decide +kernel⟩

/-! ## non-vacuity on the built-in registry -/

/-- volt + joule/coulomb: inferred unit volt; the sum of the plain numbers, read in volt, is the physical value -/
example (I : Interp K) (ρ : Nat → K) (δ : Nat → Nat → K) :
    ∃ d, evalPhys I builtinRegistry [] ρ δ (.add (.qty 1 [("volt", 1)]) (.qty 2 [("coulomb", -1), ("joule", 1)])) =
        some (evalNum I ρ δ (.add (.qty 1 [("volt", 1)]) (.qty 2 [("coulomb", -1), ("joule", 1)])) *
                I.φ (scaleOf builtinRegistry [("volt", 1)]), d) ∧
      dimsOf builtinRegistry [("volt", 1)] ≃ d :=
  infer_denotes_partial I builtinRegistry [] ρ δ (m := .num 1 true) rfl (by simp [Cellml.Props.C05.arithS])
    (by decide +kernel) ⟨_, (by decide +kernel :
      convert builtinRegistry [] (.add (.qty 1 [("volt", 1)]) (.qty 2 [("coulomb", -1), ("joule", 1)])) none =
        .ok ⟨.add (.qty 1 [("volt", 1)]) (.qty 2 [("coulomb", -1), ("joule", 1)]), false, [("volt", 1)], true⟩), rfl⟩

/-- a Piecewise with a comparison between a variable in volt and one in joule/coulomb, a sum in one piece and a square
    divided by a variable in the other -/
example (I : Interp K) (ρ : Nat → K) (δ : Nat → Nat → K) :
    ∃ d, evalPhys I builtinRegistry [⟨[("volt", 1)], none⟩, ⟨[("coulomb", -1), ("joule", 1)], none⟩] ρ δ
          (.ite (.rel .lt (.var 0) (.var 1)) (.add (.var 0) (.var 1))
            (.mul (.pow (.var 0) (.int 2)) (.pow (.var 1) (.int (-1))))) =
        some (evalNum I ρ δ (.ite (.rel .lt (.var 0) (.var 1)) (.add (.var 0) (.var 1))
                (.mul (.pow (.var 0) (.int 2)) (.pow (.var 1) (.int (-1))))) *
              I.φ (scaleOf builtinRegistry [("volt", 1)]), d) ∧
      dimsOf builtinRegistry [("volt", 1)] ≃ d :=
  infer_denotes_partial I builtinRegistry _ ρ δ (m := .sym) rfl
    (by simp [Cellml.Props.C05.arithS, Cellml.Props.C05.boolS])
    (by decide +kernel) ⟨_, (by decide +kernel :
      convert builtinRegistry [⟨[("volt", 1)], none⟩, ⟨[("coulomb", -1), ("joule", 1)], none⟩]
          (.ite (.rel .lt (.var 0) (.var 1)) (.add (.var 0) (.var 1))
            (.mul (.pow (.var 0) (.int 2)) (.pow (.var 1) (.int (-1))))) none =
        .ok ⟨.ite (.rel .lt (.var 0) (.var 1)) (.add (.var 0) (.var 1))
              (.mul (.pow (.var 0) (.int 2)) (.pow (.var 1) (.int (-1)))), false, [("volt", 1)], true⟩), rfl⟩

end Cellml.Props.C04Denotes
