#!/bin/bash
# tools/merge_fix.sh <copy dir> <base commit>: apply what a fix package changed in its private copy of /verif (relative to
# the commit the copy was made from) onto the current /verif with a 3-way merge
set -u
src=$1; base=$2
tmp=/tmp/mergefix-$$; rm -rf $tmp; git -C /verif worktree add -q --detach $tmp $base
rsync -a --delete --exclude .git --exclude .lake --exclude __pycache__ --exclude replays --exclude evidence --exclude seeded $src/ $tmp/ 
git -C $tmp add -A; git -C $tmp -c user.name=x -c user.email=x commit -qm fixpkg
git -C $tmp format-patch -1 --stdout > /tmp/fixpkg-$$.patch
git -C /verif worktree remove --force $tmp
cd /verif; git apply --3way /tmp/fixpkg-$$.patch; echo "apply rc=$?"; git status --short | grep -v "^??" | head -40
