import Cellml.Units.Conv

/-! # CellML documents, arithmetic expressions with units, and their physical meaning

    Shared model of the loader (parser.py 119-572), used by C01 (flattening fidelity), C17 (rejection of broken
    documents), C15 (order independence), C13 (annotation moves). Core Lean only.

    * `Expr α υ`  : +, −, ×, ÷, unary minus, integer powers over variables `α`, derivative references and numbers that
                    carry a unit `υ`. In a document `α = String` (local name) and `υ = String` (unit name); in the flat
                    model `α = VRef` (component, name) and `υ = FUnit` (magnitude scale × container).
    * `Expr.eval` : the PHYSICAL value (SI magnitude) of an expression under a valuation of variables (`σ`) and
                    of derivatives (`δ`), given the SI scale of every unit leaf (`usc`). -/

namespace Load

inductive Iface where
  | none | inn | out
deriving DecidableEq, Repr

/-- (component, local name). The flat name is `component ++ "$" ++ name`. -/
abbrev VRef := String × String

inductive Expr (α υ : Type) where
  | num (q : Rat) (u : υ)
  | var (a : α)
  | diff (x t : α)
  | add (a b : Expr α υ)
  | sub (a b : Expr α υ)
  | mul (a b : Expr α υ)
  | div (a b : Expr α υ)
  | neg (a : Expr α υ)
  | powi (a : Expr α υ) (n : Int)
deriving Repr, DecidableEq

inductive Lhs (α : Type) where
  | var (a : α)
  | diff (x t : α)
deriving Repr, DecidableEq

structure Eqn (α υ : Type) where
  lhs : Lhs α
  rhs : Expr α υ
deriving Repr, DecidableEq

namespace Expr
variable {α β υ φ : Type}

/-- rename variables and re-express units -/
def map (f : α → β) (g : υ → φ) : Expr α υ → Expr β φ
  | num q u => num q (g u)
  | var a => var (f a)
  | diff x t => diff (f x) (f t)
  | add a b => add (map f g a) (map f g b)
  | sub a b => sub (map f g a) (map f g b)
  | mul a b => mul (map f g a) (map f g b)
  | div a b => div (map f g a) (map f g b)
  | neg a => neg (map f g a)
  | powi a n => powi (map f g a) n

/-- physical (SI) value. `usc u` is the SI value of one unit `u`; `σ` the SI value of each variable; `δ x t` the SI
    value of the derivative of `x` with respect to `t`. -/
def eval (usc : υ → Rat) (σ : α → Rat) (δ : α → α → Rat) : Expr α υ → Rat
  | num q u => q * usc u
  | var a => σ a
  | diff x t => δ x t
  | add a b => eval usc σ δ a + eval usc σ δ b
  | sub a b => eval usc σ δ a - eval usc σ δ b
  | mul a b => eval usc σ δ a * eval usc σ δ b
  | div a b => eval usc σ δ a / eval usc σ δ b
  | neg a => - eval usc σ δ a
  | powi a n => eval usc σ δ a ^ n

/-- variable and derivative leaves, left to right (derivatives are opaque: their variables are not listed) -/
def leaves : Expr α υ → List (Lhs α)
  | num _ _ => []
  | var a => [.var a]
  | diff x t => [.diff x t]
  | add a b | sub a b | mul a b | div a b => leaves a ++ leaves b
  | neg a => leaves a
  | powi a _ => leaves a

/-- all identifiers (including those under derivatives) and all unit leaves, in traversal order -/
def idents : Expr α υ → List α
  | num _ _ => []
  | var a => [a]
  | diff x t => [x, t]
  | add a b | sub a b | mul a b | div a b => idents a ++ idents b
  | neg a => idents a
  | powi a _ => idents a

def unitsUsed : Expr α υ → List υ
  | num _ u => [u]
  | var _ => []
  | diff _ _ => []
  | add a b | sub a b | mul a b | div a b => unitsUsed a ++ unitsUsed b
  | neg a => unitsUsed a
  | powi a _ => unitsUsed a

end Expr

namespace Lhs
variable {α β : Type}
def map (f : α → β) : Lhs α → Lhs β
  | var a => var (f a)
  | diff x t => diff (f x) (f t)
def eval (σ : α → Rat) (δ : α → α → Rat) : Lhs α → Rat
  | var a => σ a
  | diff x t => δ x t
/-- the variable an equation with this left-hand side defines -/
def defines : Lhs α → α
  | var a => a
  | diff x _ => x
def isDiff : Lhs α → Bool
  | var _ => false
  | diff _ _ => true
def idents : Lhs α → List α
  | var a => [a]
  | diff x t => [x, t]
end Lhs

namespace Eqn
variable {α β υ φ : Type}
def map (f : α → β) (g : υ → φ) (e : Eqn α υ) : Eqn β φ := ⟨e.lhs.map f, e.rhs.map f g⟩
/-- the equation holds physically -/
def Sat (usc : υ → Rat) (σ : α → Rat) (δ : α → α → Rat) (e : Eqn α υ) : Prop :=
  e.lhs.eval σ δ = e.rhs.eval usc σ δ
instance (usc : υ → Rat) (σ : α → Rat) (δ : α → α → Rat) (e : Eqn α υ) : Decidable (e.Sat usc σ δ) :=
  inferInstanceAs (Decidable (_ = _))
end Eqn

/-! ## Documents -/

structure VarDecl where
  name  : String
  units : String
  pub   : Iface
  priv  : Iface
  init  : Option Rat
  cmeta : Option String
deriving Repr, DecidableEq

structure Comp where
  name : String
  vars : List VarDecl
  eqs  : List (Eqn String String)
deriving Repr, DecidableEq

/-- one `<map_variables>` of a `<connection>` with its `<map_components>` -/
structure Conn where
  c1 : String
  v1 : String
  c2 : String
  v2 : String
deriving Repr, DecidableEq

def Conn.end1 (c : Conn) : VRef := (c.c1, c.v1)
def Conn.end2 (c : Conn) : VRef := (c.c2, c.v2)

inductive UnitDecl where
  | base (name : String)
  | derived (name : String) (elems : List Units.UnitElem)
deriving Repr, DecidableEq

structure Doc where
  /-- unit definitions, already in dependency order (the unit work list is modelled by C03) -/
  units  : List UnitDecl
  /-- components in file order -/
  comps  : List Comp
  /-- `<component_ref>` elements of the encapsulation groups in document (pre-)order: (enclosing ref, component) -/
  encaps : List (Option String × String)
  /-- `<map_variables>` in document order -/
  conns  : List Conn
  /-- cmeta:id of the `<model>` element -/
  cmeta  : Option String := none
deriving Repr

/-- exception classes of the loader -/
inductive Err where
  | valueError (what : String)
  | keyError (what : String)
  | assertion (what : String)
  | dimensionality
  | unsupported (what : String)     -- outside the modelled fragment
deriving Repr, DecidableEq

def Err.className : Err → String
  | .valueError _ => "ValueError"
  | .keyError _ => "KeyError"
  | .assertion _ => "AssertionError"
  | .dimensionality => "DimensionalityError"
  | .unsupported _ => "Unsupported"

def Err.what : Err → String
  | .valueError w | .keyError w | .assertion w | .unsupported w => w
  | .dimensionality => "dimensionality"

/-- unit carried by a number of the flat model: a magnitude multiplier (the conversion factor of a connection
    equation is a scale, not a rational) and the pint unit -/
abbrev FUnit := Scale × Container

/-- SI value of one flat unit under an interpretation `den` of scales -/
def uscF (den : Scale → Rat) (reg : Registry) (u : FUnit) : Rat :=
  den (PMap.add u.1 (Units.toRoot reg u.2).1)

end Load
