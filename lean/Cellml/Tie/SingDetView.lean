import Cellml.Tie.Prelude
import Cellml.C12.Detect

/-! # What the translated pieces of `_get_singularity` / `_is_negative_power` / `_solve_real` see (core Lean only)

    The hand model `C12/Detect.lean` does not pattern-match SymPy trees: it CLASSIFIES every factor of the canonical
    product (`C12.Base × Int`: what the base denotes, and its exponent) and then decides on the classes. The leaves
    below are SymPy's `match` / `solveset` / `evalf` READ ON THOSE CLASSES (the affine fragment `U = k·V + c`); the
    decision logic around them — which pattern is tried first, `P_wildcard != 0`, the comparison of the matched
    `SP_wildcard` with the singular point, the assertion, the `break`, the sign test of the exponent, the unwrapping of
    an `Intersection` — is translated from the source (`harness/code_specs/singdet.py`). -/

namespace Cellml.Tie.PSing2
open C12

/-- a factor of the canonical product as the model classifies it: (what the base denotes, exponent) -/
abbrev Fac := Base × Int

/-- `u = U + log Z` on the affine fragment: `(k, c)` stands for `k·V + c` -/
abbrev Aff := Rat × Rat

/-- the bindings of a successful `fp1.match(…)`: `P_wildcard`, `SP_wildcard` -/
structure Bind where
  P : Rat
  SP : Rat
deriving DecidableEq, Repr

/-- `match[P_wildcard]`, `match[SP_wildcard]` (only read where python has checked `match is not None`) -/
def getP (m : Option Bind) : Rat := (m.map (·.P)).getD 0
def getSP (m : Option Bind) : Rat := (m.map (·.SP)).getD 0
/-- `P_wildcard in match`: every successful match of these patterns binds `P_wildcard` -/
def hasP (m : Option Bind) : Bool := m.isSome

/-- `fp1.match(P_wildcard * u)`, `P_wildcard` free of `V`: a factor `k'·V + c'` (exponent one) is a multiple of
    `u = k·V + c` when the coefficients are proportional; then `P = k'/k` -/
def matchMulU (f : Fac) (u : Aff) : Option Bind :=
  if f.2 == 1 then
    match f.1 with
    | .aff k' c' => if k' * u.2 == c' * u.1 then some ⟨k' / u.1, 0⟩ else none
    | _ => none
  else none

/-- `fp1.match(P_wildcard * V - P_wildcard * SP_wildcard)`: `k'·V + c'` is `P·V − P·SP` with `P = k'`, `SP = −c'/k'` -/
def matchLin (f : Fac) : Option Bind :=
  if f.2 == 1 then
    match f.1 with
    | .aff k' c' => some ⟨k', -c' / k'⟩
    | _ => none
  else none

/-- `fp1.match(exp_function(P_wildcard * V - P_wildcard * SP_wildcard))`: the canonical product holds `exp(k'·V)`
    (a constant in the argument has been split off): `P = k'`, `SP = 0` -/
def matchExpLin (f : Fac) : Option Bind :=
  if f.2 == 1 then
    match f.1 with
    | .ex k' => some ⟨k', 0⟩
    | _ => none
  else none

/-- `getattr(x, 'is_number', True)`: the singular points and matched offsets of the fragment are numbers -/
def isNumber (_ : Rat) : Bool := true

/-- `math.isclose(a, b)` in the exact model (rationals, no rounding): equality -/
def isClose (a b : Rat) : Bool := a == b

/-! ## `_is_negative_power` on `C12.Expr` -/

/-- `expr.args[1].evalf()` of a `Pow`: the exponent as a number (an integer in the C12 trees, so it never raises;
    python raises `TypeError` from the comparison when the exponent has free symbols) -/
def expEvalf : Expr → Except PyErr Rat
  | .pow _ n => .ok (Rat.ofInt n)
  | _ => .ok 0

def isPowE : Expr → Bool | .pow _ _ => true | _ => false

/-! ## `_solve_real` -/

/-- what `solveset(u, V, domain=S.Reals)` returns, as far as `_solve_real` looks at it -/
inductive SolveSet where
  | plain (pts : List Rat)                              -- a FiniteSet (or any set that is not an `Intersection`)
  | inter (firstIsReals : Bool) (second : SolveSet)     -- `Intersection(a, b)`: is `a == S.Reals`, and `b`
deriving Repr

def SolveSet.isInter : SolveSet → Bool | .inter _ _ => true | _ => false
/-- `result.args[0] == S.Reals` -/
def SolveSet.arg0IsReals : SolveSet → Bool | .inter b _ => b | _ => false
/-- `result.args[1]` -/
def SolveSet.arg1 : SolveSet → SolveSet | .inter _ s => s | s => s

end Cellml.Tie.PSing2
