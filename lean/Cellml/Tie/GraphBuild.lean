import Cellml.Generated.Code.GraphBuild
import Cellml.C09.Build
import Mathlib.Tactic.SplitIfs

/-! # Tie: the `Model.graph` property (generated from cellmlmanip/model.py) = `C09.buildGraph` (hand model) -/

namespace Cellml.Tie.PGraph
open C09 Cellml.Gen

/-! ## generic loops -/

/-- a `for` loop whose body neither raises nor breaks is a fold -/
theorem forIn_pure {α σ} (f : α → σ → Except PyErr (ForInStep σ)) (step : σ → α → σ)
    (hf : ∀ x s, f x s = .ok (.yield (step s x))) : ∀ (l : List α) (s : σ), forIn l s f = .ok (l.foldl step s)
  | [], s => by simp [pure, Except.pure]
  | x :: xs, s => by
    rw [List.forIn_cons, hf]
    simp only [bind, Except.bind, List.foldl_cons]
    exact forIn_pure f step hf xs _

theorem foldl_congr_mem {α σ} (f g : σ → α → σ) : ∀ (l : List α) (s : σ), (∀ s, ∀ x ∈ l, f s x = g s x) →
    l.foldl f s = l.foldl g s
  | [], _, _ => rfl
  | x :: xs, s, h => by
    simp only [List.foldl_cons]
    rw [h s x (by simp)]
    exact foldl_congr_mem f g xs _ (fun s y hy => h s y (List.mem_cons_of_mem _ hy))

/-! ## dict insertion and the two sanity asserts -/

theorem addNew_eq_addNode (ns : List Node) (v : Node) : Py.addNew ns v = addNode ns v := rfl

theorem foldl_addNew_len {α} [DecidableEq α] : ∀ (l acc : List α),
    (l.foldl Py.addNew acc).length ≤ acc.length + l.length ∧
    ((l.Nodup ∧ ∀ x ∈ l, x ∉ acc) → l.foldl Py.addNew acc = acc ++ l) ∧
    (¬ (l.Nodup ∧ ∀ x ∈ l, x ∉ acc) → (l.foldl Py.addNew acc).length < acc.length + l.length)
  | [], acc => by simp
  | x :: xs, acc => by
    simp only [List.foldl_cons, List.length_cons, List.nodup_cons, List.mem_cons, forall_eq_or_imp]
    by_cases hx : x ∈ acc
    · have ih := foldl_addNew_len xs acc
      have e1 : Py.addNew acc x = acc := by simp [Py.addNew, hx]
      rw [e1]
      refine ⟨by omega, fun h => absurd hx h.2.1, fun _ => by omega⟩
    · have ih := foldl_addNew_len xs (acc ++ [x])
      have e1 : Py.addNew acc x = acc ++ [x] := by simp [Py.addNew, hx]
      rw [e1]
      simp only [List.length_append, List.length_cons, List.length_nil] at ih
      have key : (xs.Nodup ∧ ∀ y ∈ xs, y ∉ acc ++ [x]) ↔ ((x ∉ xs ∧ xs.Nodup) ∧ x ∉ acc ∧ ∀ y ∈ xs, y ∉ acc) := by
        simp only [List.mem_append, List.mem_cons, List.not_mem_nil, or_false, not_or]
        constructor
        · rintro ⟨h1, h2⟩
          exact ⟨⟨fun hxx => (h2 x hxx).2 rfl, h1⟩, hx, fun y hy => (h2 y hy).1⟩
        · rintro ⟨⟨h1, h2⟩, _, h4⟩
          exact ⟨h2, fun y hy => ⟨h4 y hy, fun hyx => h1 (hyx ▸ hy)⟩⟩
      refine ⟨by omega, fun h => ?_, fun h => ?_⟩
      · rw [ih.2.1 (key.mpr h)]; simp
      · have := ih.2.2 (fun h' => h (key.mp h')); omega

theorem foldl_addNew_nodup {α} [DecidableEq α] (l : List α) (h : l.Nodup) : l.foldl Py.addNew [] = l := by
  have := (foldl_addNew_len l []).2.1 ⟨h, by simp⟩
  simpa using this

theorem foldl_addNew_len_eq {α} [DecidableEq α] (l : List α) :
    ((l.foldl Py.addNew []).length == l.length) = decide l.Nodup := by
  by_cases h : l.Nodup
  · simp [foldl_addNew_nodup l h, h]
  · have := (foldl_addNew_len l []).2.2 (fun h' => h h'.1)
    simp only [List.length_nil, Nat.zero_add] at this
    simp only [h, decide_false, beq_eq_false_iff_ne, ne_eq]
    omega

/-! ## the type map -/

theorem tyGet_set (ty : TyMap) (w v : Node) (t : Option VT) :
    tyGet (tySet ty w t) v = if v = w then t else tyGet ty v := by
  unfold tyGet tySet
  by_cases h : v = w
  · subst h; simp [List.lookup]
  · have : (v == w) = false := by simpa using h
    simp [List.lookup, this, h]

/-- `t in [VariableType.STATE, VariableType.FREE]` -/
def isSF (t : Option VT) : Bool := Py.isIn t [some VT.state, some VT.free]

theorem reset_none (v : Node) : ∀ (l : List Node) (s : TyMap), (v ∈ l ∨ tyGet s v = none) →
    tyGet (l.foldl (fun s w => tySet s w none) s) v = none
  | [], s, h => by simpa using h
  | w :: ws, s, h => by
    simp only [List.foldl_cons]
    apply reset_none v ws
    by_cases hvw : v = w
    · right; rw [tyGet_set]; simp [hvw]
    · rcases h with h | h
      · left; simpa [hvw] using h
      · right; rw [tyGet_set]; simp [hvw, h]

/-- the first loop's write of one equation, read off the equation itself -/
def tw (rq : Eqn → Bool) (ty : TyMap) (e : Eqn) : TyMap :=
  match e.ode with
  | some (s, f) => tySet (tySet ty s (some VT.state)) f (some VT.free)
  | none => if rq e then tySet ty e.lhs (some VT.parameter) else tySet ty e.lhs (some VT.computed)

theorem tw_isSF (rq : Eqn → Bool) (v : Node) : ∀ (es : List Eqn) (ty : TyMap),
    (∀ e ∈ es, e.ode = none → e.lhs ≠ v) →
    isSF (tyGet (es.foldl (tw rq) ty) v) = (isStateOrFree es v || isSF (tyGet ty v))
  | [], ty, _ => by simp [isStateOrFree]
  | e :: es, ty, h => by
    simp only [List.foldl_cons]
    rw [tw_isSF rq v es _ (fun e' he' => h e' (List.mem_cons_of_mem _ he'))]
    simp only [isStateOrFree, List.any_cons]
    cases ho : e.ode with
    | none =>
      have hne : ¬ v = e.lhs := fun hh => h e (by simp) ho hh.symm
      simp only [tw, ho]
      split_ifs <;> simp [tyGet_set, hne, Bool.or_comm]
    | some p =>
      obtain ⟨s, f⟩ := p
      simp only [tw, ho, tyGet_set]
      by_cases h1 : v = f <;> by_cases h2 : v = s
      · simp [h1, isSF, Py.isIn]
      · simp [h1, isSF, Py.isIn]
      · have e2 : (s == f) = false := by rw [← h2]; simpa using h1
        simp [h2, e2, h2 ▸ h1, isSF, Py.isIn]
      · have e1 : (v == f) = false := by simpa using h1
        have e2 : (v == s) = false := by simpa using h2
        simp [h1, h2, e1, e2, isSF, Py.isIn, Bool.or_comm]

theorem tw_isSome (rq : Eqn → Bool) (v : Node) : ∀ (es : List Eqn) (ty : TyMap),
    ((∃ e ∈ es, e.ode = none ∧ e.lhs = v) ∨ isStateOrFree es v = true ∨ (tyGet ty v).isSome = true) →
    (tyGet (es.foldl (tw rq) ty) v).isSome = true
  | [], ty, h => by simpa [isStateOrFree] using h
  | e :: es, ty, h => by
    simp only [List.foldl_cons]
    apply tw_isSome rq v es
    simp only [isStateOrFree, List.any_cons, List.mem_cons, exists_eq_or_imp, Bool.or_eq_true] at h
    by_cases hw : (tyGet (tw rq ty e) v).isSome = true
    · exact Or.inr (Or.inr hw)
    · rcases h with (⟨ho, hl⟩ | h) | (h | h) | h
      · exfalso; apply hw; simp only [tw, ho]; split_ifs <;> simp [tyGet_set, hl]
      · exact Or.inl h
      · exfalso; apply hw
        cases ho : e.ode with
        | none => simp [ho] at h
        | some p =>
          obtain ⟨s, f⟩ := p
          simp only [ho, Bool.or_eq_true, beq_iff_eq] at h
          simp only [tw, ho, tyGet_set]
          by_cases h1 : v = f
          · simp [h1]
          · rcases h with h | h
            · simp only [h, if_true]; split_ifs <;> rfl
            · exact absurd h h1
      · exact Or.inr (Or.inl h)
      · exfalso; apply hw
        cases ho : e.ode with
        | none => simp only [tw, ho]; split_ifs <;> (rw [tyGet_set]; split_ifs <;> simp [h])
        | some p =>
          obtain ⟨s, f⟩ := p
          simp only [tw, ho, tyGet_set]
          split_ifs <;> simp [h]

/-! ## the second loop -/

/-- `for rhs in <list>` (the list being `sorted(find_variables_and_derivatives([equation.rhs]), key=str)`) =
    `C09.addRefs` -/
theorem refsLoop (sf : Node → Bool) (T : TyMap) (lhs : Node) (f : Node → Graph → Except PyErr (ForInStep Graph))
    (hf : ∀ r G, f r G =
      if r ∈ G.nodes then .ok (.yield (nxAddEdge G r lhs))
      else if isSF (tyGet T r) then .ok (.yield (nxAddEdge (nxAddNode G r) r lhs))
      else .error ⟨"AssertionError"⟩) :
    ∀ (rs : List Node) (G : Graph), (∀ r ∈ rs, r ∉ G.nodes → isSF (tyGet T r) = sf r) →
      forIn rs G f = errClass (errName true) (addRefs sf lhs rs G)
  | [], G, _ => by simp [pure, Except.pure, addRefs, errClass]
  | r :: rs, G, h => by
    rw [List.forIn_cons, hf]
    simp only [addRefs]
    by_cases hr : r ∈ G.nodes
    · simp only [hr, if_true, bind, Except.bind]
      exact refsLoop sf T lhs f hf rs _ (fun r' hr' => h r' (List.mem_cons_of_mem _ hr'))
    · rw [h r (by simp) hr]
      simp only [hr, if_false]
      by_cases hs : sf r = true
      · simp only [hs, if_true, bind, Except.bind]
        have : nxAddEdge (nxAddNode G r) r lhs = ⟨G.nodes ++ [r], G.edges ++ [(r, lhs)]⟩ := by
          simp [nxAddEdge, nxAddNode, Py.addNew, hr]
        rw [this]
        apply refsLoop sf T lhs f hf rs
        intro r' hr' hn
        exact h r' (List.mem_cons_of_mem _ hr') (fun hh => hn (List.mem_append_left _ hh))
      · simp [hs, bind, Except.bind, errClass, errName]

/-- `for equation in self.equations` (second loop) = `C09.addEqs` -/
theorem eqsLoop (key : Node → String) (sf : Node → Bool) (base : List Node) (all : List Eqn)
    (f : Eqn → Graph → Except PyErr (ForInStep Graph))
    (hf : ∀ e G, e ∈ all → (∀ x ∈ base, x ∈ G.nodes) → f e G =
      match errClass (errName true) (addRefs sf e.lhs (sortStr key e.refs) G) with
      | .error x => .error x
      | .ok v => .ok (.yield (addOde e.ode v))) :
    ∀ (es : List Eqn) (G : Graph), (∀ e ∈ es, e ∈ all) → (∀ x ∈ base, x ∈ G.nodes) →
      forIn es G f = errClass (errName true) (addEqs key sf es G)
  | [], G, _, _ => by simp [pure, Except.pure, addEqs, errClass]
  | e :: es, G, hall, hb => by
    rw [List.forIn_cons, hf e G (hall e (by simp)) hb]
    simp only [addEqs]
    cases h1 : addRefs sf e.lhs (sortStr key e.refs) G with
    | error x => simp [errClass, bind, Except.bind]
    | ok g1 =>
      simp only [errClass, bind, Except.bind]
      apply eqsLoop key sf base all f hf es _ (fun e' he' => hall e' (List.mem_cons_of_mem _ he'))
      intro x hx
      exact mem_addOde_nodes.mpr (Or.inl (((addRefs_spec sf e.lhs (sortStr key e.refs) G g1 h1).nodes x).mpr
        (Or.inl (hb x hx))))

/-- the last loop raises nothing when every non-derivative node has a type -/
theorem typeLoop (isDer : Node → Bool) (T : TyMap) (f : Node → PUnit → Except PyErr (ForInStep PUnit))
    (hf : ∀ v s, f v s = if (!isDer v) = true then
        (if (!(tyGet T v).isSome) = true then .error ⟨"AssertionError"⟩ else .ok (.yield PUnit.unit))
      else .ok (.yield PUnit.unit)) :
    ∀ (ns : List Node), (∀ v ∈ ns, isDer v = true ∨ (tyGet T v).isSome = true) → forIn ns PUnit.unit f = .ok PUnit.unit
  | [], _ => by simp [pure, Except.pure]
  | v :: vs, h => by
    rw [List.forIn_cons, hf]
    have := h v (by simp)
    have ih := typeLoop isDer T f hf vs (fun w hw => h w (List.mem_cons_of_mem _ hw))
    rcases this with h1 | h1 <;> simp [h1, bind, Except.bind, ih]

/-! ## assembling -/

theorem reset_eqs (atoms : Eqn → List Node) (v : Node) : ∀ (es : List Eqn) (s : TyMap),
    ((∃ e ∈ es, v ∈ atoms e) ∨ tyGet s v = none) →
    tyGet (es.foldl (fun s e => (atoms e).foldl (fun s w => tySet s w none) s) s) v = none
  | [], s, h => by simpa using h
  | e :: es, s, h => by
    simp only [List.foldl_cons]
    apply reset_eqs atoms v es
    simp only [List.mem_cons, exists_eq_or_imp] at h
    rcases h with (h | h) | h
    · exact Or.inr (reset_none v _ _ (Or.inl h))
    · exact Or.inl h
    · exact Or.inr (reset_none v _ _ (Or.inr h))

/-- the first loop's write of one equation, as the generated code does it (through the view) -/
def twV (V : BuildView) (ty : TyMap) (e : Eqn) : TyMap :=
  if V.isDerivative e.lhs = true then
    tySet (tySet ty (V.stateOf e.lhs) (some VT.state)) (V.freeOf e.lhs) (some VT.free)
  else if V.rhsIsQuantity e = true then tySet ty e.lhs (some VT.parameter)
  else tySet ty e.lhs (some VT.computed)

theorem fold1 (V : BuildView) : ∀ (es : List Eqn) (t : TyMap) (g : Graph) (n : Nat),
    es.foldl (fun (s : TyMap × Graph × Nat) e => (twV V s.1 e, nxAddNode s.2.1 e.lhs, s.2.2 + 1)) (t, g, n)
      = (es.foldl (twV V) t, ⟨(es.map (·.lhs)).foldl Py.addNew g.nodes, g.edges⟩, n + es.length)
  | [], t, g, n => by simp
  | e :: es, t, g, n => by
    simp only [List.foldl_cons, List.map_cons, List.length_cons]
    rw [fold1 V es]
    simp only [nxAddNode]
    congr 2
    omega

theorem odeOfNode_of_mem {eqs : List Eqn} (hnd : (eqs.map (·.lhs)).Nodup) {e : Eqn} (he : e ∈ eqs) :
    odeOfNode eqs e.lhs = e.ode := by
  simp [odeOfNode, eqnOf_of_mem hnd he]

theorem twV_eq_tw (key : Node → String) (eqs : List Eqn) (vars : List Node) (rq : Eqn → Bool)
    (hnd : (eqs.map (·.lhs)).Nodup) (ty : TyMap) (e : Eqn) (he : e ∈ eqs) :
    twV (buildView key eqs vars rq) ty e = tw rq ty e := by
  simp only [twV, tw, buildView, odeOfNode_of_mem hnd he]
  cases ho : e.ode with
  | none => by_cases h : rq e = true <;> simp [h]
  | some p => obtain ⟨s, f⟩ := p; simp

/-- **Tie of the `Model.graph` property** (no cached graph). For every equation system, every list of model
    variables, every assignment of `isinstance(rhs, Quantity)` and EVERY initial state `ty0` of the `Variable.type`
    attributes (whatever an earlier build left behind), the definition generated from model.py returns the graph
    `C09.buildGraph` returns and caches it, or raises `AssertionError` where the model reports `assertion` / `badRef`. -/
theorem graph_tie (key : Node → String) (eqs : List Eqn) (vars : List Node) (rq : Eqn → Bool) (ty0 : TyMap) :
    (GraphBuild.graph (buildView key eqs vars rq) none ty0).map (fun r => (r.1, r.2.1))
      = errClass (errName true) ((buildGraph key eqs).map (fun g => (g, some g))) := by
  unfold GraphBuild.graph
  simp only [bind, Except.bind, pure, Except.pure, Py.truthy_bool, throw, throwThe, MonadExceptOf.throw]
  generalize hV : buildView key eqs vars rq = V
  have hVeq : V.equations = eqs := by rw [← hV]; rfl
  have hVkey : V.key = key := by rw [← hV]; rfl
  have hVrefs : V.refsOf = fun e => e.refs := by rw [← hV]; rfl
  rw [forIn_pure _ (fun s v => tySet s v none) (fun _ _ => by rfl)]
  simp only []
  rw [forIn_pure _ (fun s e => (V.atoms e).foldl (fun s v => tySet s v none) s) (fun e s => by
    rw [forIn_pure _ (fun s v => tySet s v none) (fun _ _ => by rfl)])]
  simp only []
  rw [forIn_pure _ (fun (s : TyMap × Graph × Nat) e => (twV V s.1 e, nxAddNode s.2.1 e.lhs, s.2.2 + 1))
    (fun e s => by simp only [twV]; split_ifs <;> rfl)]
  simp only [hVeq, fold1]
  generalize hty1 : List.foldl (fun s e => List.foldl (fun s v => tySet s v none) s (V.atoms e)) _ eqs = ty1
  simp only [Option.isSome_none, Bool.false_eq_true, if_false, Nat.zero_add, hVkey, hVrefs]
  have hlen : eqs.length = (eqs.map (·.lhs)).length := by simp
  have hlen2 : eqs.length = ((eqs.map (·.lhs)).map key).length := by simp
  by_cases hnd : (eqs.map (·.lhs)).Nodup
  · have e1 : ((List.foldl Py.addNew [] (List.map (fun x => x.lhs) eqs)).length == eqs.length) = true := by
      rw [hlen, foldl_addNew_len_eq]; simpa using hnd
    have e1' : ((List.map (fun x => x.lhs) eqs).length == eqs.length) = true := by simp
    simp only [e1', Bool.not_true, Bool.false_eq_true, if_false, foldl_addNew_nodup _ hnd, Py.distinctCount]
    by_cases hkn : ((eqs.map (·.lhs)).map key).Nodup
    · have e2 : ((List.foldl Py.addNew [] (List.map (fun x => key x) (List.map (fun x => x.lhs) eqs))).length
          == eqs.length) = true := by
        rw [hlen2, foldl_addNew_len_eq]; simpa using hkn
      simp only [e2, Bool.not_true, Bool.false_eq_true, if_false]
      have hT : List.foldl (twV V) ty1 eqs = List.foldl (tw rq) ty1 eqs := by
        apply foldl_congr_mem
        intro s e he
        rw [← hV]; exact twV_eq_tw key eqs vars rq hnd s e he
      rw [hT]
      generalize hTT : List.foldl (tw rq) ty1 eqs = T
      have hreset : ∀ e ∈ eqs, ∀ r ∈ e.refs, tyGet ty1 r = none := by
        intro e he r hr
        rw [← hty1]
        apply reset_eqs
        left
        refine ⟨e, he, ?_⟩
        rw [← hV]
        simp [buildView, hr]
      rw [eqsLoop key (isStateOrFree eqs) (eqs.map (·.lhs)) eqs _ (fun e G he hb => by
        rw [Py.sortedByStr_eq, refsLoop (isStateOrFree eqs) T e.lhs _ (fun r G' => by
          simp only [isSF, Py.isIn, List.contains_eq_mem]
          by_cases h1 : r ∈ G'.nodes <;> simp [h1]) (sortStr key e.refs) G (fun r hr hn => by
            rw [← hTT, tw_isSF rq r eqs ty1 (fun e' he' _ hl => hn (hb _ (List.mem_map.mpr ⟨e', he', hl⟩)))]
            simp [hreset e he r (mem_sortStr.mp hr), isSF, Py.isIn])]
        cases addRefs (isStateOrFree eqs) e.lhs (sortStr key e.refs) G with
        | error x => rfl
        | ok v =>
          simp only [errClass]
          rw [← hV]
          simp only [buildView, odeOfNode_of_mem hnd he, Py.isIn]
          cases ho : e.ode with
          | none => simp [addOde]
          | some p =>
            obtain ⟨s, f⟩ := p
            simp only [addOde, addNode, nxAddNode, Py.addNew, Option.isSome_some, if_true, Option.getD_some,
              List.contains_eq_mem]
            by_cases h1 : f ∈ v.nodes <;> by_cases h2 : s ∈ v.nodes <;> simp [h1, h2]
            ) eqs _ (fun _ h => h) (fun _ h => h)]
      have hbg : buildGraph key eqs
          = addEqs key (isStateOrFree eqs) eqs { nodes := List.map (fun x => x.lhs) eqs, edges := [] } := by
        simp only [buildGraph, hnd, hkn, not_true_eq_false, if_false]
      rw [hbg]
      cases hg : addEqs key (isStateOrFree eqs) eqs { nodes := List.map (fun x => x.lhs) eqs, edges := [] } with
      | error x => rfl
      | ok g =>
        simp only [errClass]
        obtain ⟨_, hs⟩ := buildGraph_valid (hbg.trans hg)
        rw [typeLoop V.isDerivative T _ (fun v s => by rfl) g.nodes (fun v hv => by
          rcases (hs.nodes v).mp hv with h | h
          · obtain ⟨e, he, hl⟩ := List.mem_map.mp (hasEq_iff.mp h)
            cases ho : e.ode with
            | none =>
              right; rw [← hTT]
              exact tw_isSome rq v eqs ty1 (Or.inl ⟨e, he, ho, hl⟩)
            | some p =>
              left; rw [← hV, ← hl]
              simp [buildView, odeOfNode_of_mem hnd he, ho]
          · right; rw [← hTT]
            exact tw_isSome rq v eqs ty1 (Or.inr (Or.inl h)))]
        rfl
    · have e2 : ((List.foldl Py.addNew [] (List.map (fun x => key x) (List.map (fun x => x.lhs) eqs))).length
          == eqs.length) = false := by
        rw [hlen2, foldl_addNew_len_eq]; simpa using hkn
      simp only [e2, Bool.not_false, if_true, buildGraph, hnd, hkn, not_true_eq_false, not_false_eq_true, if_false]
      rfl
  · have e1 : ((List.foldl Py.addNew [] (List.map (fun x => x.lhs) eqs)).length == eqs.length) = false := by
      rw [hlen, foldl_addNew_len_eq]; simpa using hnd
    simp only [e1, Bool.not_false, if_true, buildGraph, hnd, not_false_eq_true]
    rfl

/-- a cached graph is returned as it is; cache and types stay -/
theorem graph_cached (V : BuildView) (c : Graph) (ty : TyMap) :
    GraphBuild.graph V (some c) ty = .ok (c, some c, ty) := by
  unfold GraphBuild.graph
  simp [pure, Except.pure]

/-- Corollary: what the property returns does not depend on `Variable.type` values left by earlier builds, nor on the
    model's variable list, nor on which right-hand sides are bare quantities. -/
theorem graph_independent (key : Node → String) (eqs : List Eqn) (vars vars' : List Node) (rq rq' : Eqn → Bool)
    (ty0 ty0' : TyMap) :
    (GraphBuild.graph (buildView key eqs vars rq) none ty0).map (fun r => (r.1, r.2.1))
      = (GraphBuild.graph (buildView key eqs vars' rq') none ty0').map (fun r => (r.1, r.2.1)) := by
  rw [graph_tie, graph_tie]

/-- Corollary (the `fix:` "graph nodes in a reproducible order", on the GENERATED code): two runs of the property that
    are handed the reference sets of the equations in different orders — same left-hand sides, same ODE pairs, the
    references sorting to the same list by `str`, which is what two iteration orders of one set with distinct `str`
    keys do (`C09.sortStr_eq_of_perm`) — return the same graph: node list in insertion order, edge list, cache; or
    raise the same class. -/
theorem graph_set_order_irrelevant (key : Node → String) {α : Type} (f f' : α → Eqn) (l : List α)
    (h : ∀ a ∈ l, SameSorted key (f a) (f' a)) (vars vars' : List Node) (rq rq' : Eqn → Bool) (ty0 ty0' : TyMap) :
    (GraphBuild.graph (buildView key (l.map f') vars' rq') none ty0').map (fun r => (r.1, r.2.1))
      = (GraphBuild.graph (buildView key (l.map f) vars rq) none ty0).map (fun r => (r.1, r.2.1)) := by
  rw [graph_tie, graph_tie, buildGraph_congr key f f' l h]

end Cellml.Tie.PGraph
