import Cellml.Generated.Tables

/-! # C02 — model of `cellmlmanip.parser.Transpiler` (parser.py 592-1023)

    `transpile : Mml → Except Err Sy` mirrors the handler dispatch of the real code, children first, left to right,
    first exception wins:

    * `Mml` is a plain (non-nested) inductive: the children of an element are a `nil`/`cons` chain of the same type,
      so ordinary structural recursion and `induction` apply.
    * `Sy` is the *Python value* a handler returns: a SymPy term (`num`, `int`, `sym`, `const`, `app head args`), a
      SymPy class (`cls`), one of the closures the explicit handlers return (`wrapped`), the n-ary relation wrapper
      (`rel`), the tuple a `<piece>`/`<otherwise>` returns, the list a two-child `<bvar>` returns.
    * heads of `app`: the class names of the GENERATED operator table (`Cellml.Gen.mathmlOps`) plus the Python-level
      operations the wrapped callbacks perform: `neg` (`-a`), `sub` (`a - b`), `div` (`a / b`), `pow` (`a ** b`),
      `root` (`sympy.root(arg, n)`), `logb` (`sympy.log(arg, base)`), `Derivative`, `DerivativeEval`, `Piecewise`,
      `And` (relation chaining).
    * What SymPy's constructors do with a call is a MODELLED table (`sympyArity`, `classKind`, sorts): arity errors
      are `TypeError`; calls whose operand sorts SymPy rejects or mangles in version-specific ways (a truth value
      inside `Add`, a number inside `And`, tuples as operands …) are `Err.outside`: the model abstains, the
      correspondence check does not compare them.

    Core Lean only (linked into the native driver). -/

namespace C02
open Cellml

/-- content-MathML tree; `nil`/`cons` encode child lists -/
inductive Mml where
  | nil
  | cons (hd tl : Mml)
  | ci (name : String)
  /-- `<cn type=ty>text<child/>tail…</cn>`; each child is `(isSep, tail text)` -/
  | cn (ty : Option String) (text : Option String) (kids : List (Bool × Option String))
  | el (tag : String) (kids : Mml)
deriving Repr, DecidableEq, Inhabited

inductive Err where
  | value | type | index | attribute
  /-- behaviour of SymPy outside the model (operand sorts it rejects or mangles): the model abstains -/
  | outside (why : String)
deriving Repr, DecidableEq, Inhabited

inductive Sy where
  | nil
  | cons (hd tl : Sy)
  | num (q : Rat)              -- sympy.Float of a finite number
  | int (n : Int)              -- sympy.Integer
  | special (s : String)       -- Float('inf') "inf", Float('-inf') "-inf", Float('nan') "nan"
  | sym (name : String)
  | const (name : String)      -- non-callable table entries: E, pi, oo, nan, true, false
  | cls (name : String)        -- a SymPy class, unapplied
  | wrapped (method : String)  -- closure returned by an explicit handler (`_minus_handler` …)
  | rel (name : String)        -- `_wrapper_relational` around class `name`
  | app (head : String) (args : Sy)
  | tuple (e c : Sy)
  | pylist (xs : Sy)
deriving Repr, DecidableEq, Inhabited

deriving instance DecidableEq for Except

namespace Mml
def len : Mml → Nat
  | cons _ t => t.len + 1
  | _ => 0
def ofList : List Mml → Mml
  | [] => nil
  | x :: xs => cons x (ofList xs)
end Mml

namespace Sy
def len : Sy → Nat
  | cons _ t => t.len + 1
  | _ => 0
def ofList : List Sy → Sy
  | [] => nil
  | x :: xs => cons x (ofList xs)
def toList : Sy → List Sy
  | cons h t => h :: t.toList
  | _ => []
def all (p : Sy → Bool) : Sy → Bool
  | cons h t => p h && all p t
  | _ => true
def any (p : Sy → Bool) : Sy → Bool
  | cons h t => p h || any p t
  | _ => false
end Sy

/-! ## Python number parsing: `str.strip`, `float(str)`, `int(str)` (ASCII subset) -/

def isWs (c : Char) : Bool :=
  c == ' ' || c == '\t' || c == '\n' || c == '\r' || c == '\x0b' || c == '\x0c' ||
  c == '\x1c' || c == '\x1d' || c == '\x1e' || c == '\x1f'

def strip (cs : List Char) : List Char := ((cs.dropWhile isWs).reverse.dropWhile isWs).reverse

/-- PEP 515: every underscore must stand between two ASCII digits; returns the text without them -/
def dropUnderscores (prev : Char) : List Char → Option (List Char)
  | [] => some []
  | c :: rest =>
    if c == '_' then
      if prev.isDigit then
        match rest with
        | d :: _ => if d.isDigit then dropUnderscores c rest else none
        | [] => none
      else none
    else (dropUnderscores c rest).map (c :: ·)

def digitsVal (cs : List Char) : Nat := cs.foldl (fun acc c => acc * 10 + (c.toNat - '0'.toNat)) 0

def pow10 (k : Int) : Rat :=
  if k ≥ 0 then ((10 ^ k.toNat : Nat) : Rat) else 1 / ((10 ^ (-k).toNat : Nat) : Rat)

/-- the value of a Python float: finite (exact rational of the decimal text), ±inf, nan -/
inductive FVal where
  | fin (q : Rat) | inf (neg : Bool) | nan
deriving Repr, DecidableEq

/-- binary64 overflow: decimals at or above 2^1024 − 2^970 round to infinity -/
def overflowBound : Rat := ((2 ^ 1024 - 2 ^ 970 : Nat) : Rat)

def mkFin (neg : Bool) (ip fp : List Char) (e : Int) : FVal :=
  let v : Rat := (digitsVal (ip ++ fp) : Rat) * pow10 (e - fp.length)
  if v ≥ overflowBound then .inf neg else .fin (if neg then -v else v)

def splitSign (cs : List Char) : Bool × List Char :=
  match cs with
  | c :: r => if c == '-' then (true, r) else if c == '+' then (false, r) else (false, cs)
  | [] => (false, [])

/-- `digits [. digits]` / `. digits`, at least one digit; returns integer part, fraction part, rest -/
def decimalPart (cs : List Char) : Option (List Char × List Char × List Char) :=
  let ip := cs.takeWhile Char.isDigit
  let r1 := cs.dropWhile Char.isDigit
  let (fp, r2) : List Char × List Char := match r1 with
    | c :: r => if c == '.' then (r.takeWhile Char.isDigit, r.dropWhile Char.isDigit) else ([], r1)
    | [] => ([], [])
  if ip.isEmpty && fp.isEmpty then none else some (ip, fp, r2)

/-- `float(s)` for ASCII text: `none` = ValueError -/
def pyFloat (s : List Char) : Option FVal :=
  match dropUnderscores 'x' (strip s) with
  | none => none
  | some cs =>
    let (neg, body) := splitSign cs
    let low := body.map Char.toLower
    if low == "inf".toList || low == "infinity".toList then some (.inf neg)
    else if low == "nan".toList then some .nan
    else match decimalPart body with
      | none => none
      | some (ip, fp, r2) =>
        match r2 with
        | [] => some (mkFin neg ip fp 0)
        | e :: r3 =>
          if e == 'e' || e == 'E' then
            let (eneg, ds) := splitSign r3
            if !ds.isEmpty && ds.all Char.isDigit then
              some (mkFin neg ip fp (if eneg then -(digitsVal ds : Int) else (digitsVal ds : Int)))
            else none
          else none

/-- `int(s)` base 10 for ASCII text: `none` = ValueError -/
def pyInt (s : List Char) : Option Int :=
  match dropUnderscores 'x' (strip s) with
  | none => none
  | some cs =>
    let (neg, ds) := splitSign cs
    if !ds.isEmpty && ds.all Char.isDigit then some (if neg then -(digitsVal ds : Int) else (digitsVal ds : Int))
    else none

/-- `float('%se%d' % (mantissa, k))`: valid exactly when the mantissa is a decimal without exponent of its own
    (`'1e2e3'`, `'infe3'`, `'e3'` are ValueErrors) -/
def pyFloatExp (m : List Char) (k : Int) : Option FVal :=
  match dropUnderscores 'x' (strip m) with
  | none => none
  | some cs =>
    let (neg, body) := splitSign cs
    match decimalPart body with
    | some (ip, fp, []) => some (mkFin neg ip fp k)
    | _ => none

def ofFVal : FVal → Sy
  | .fin q => .num q
  | .inf false => .special "inf"
  | .inf true => .special "-inf"
  | .nan => .special "nan"

/-- `_cn_handler` (parser.py 700-730) with the default number generator `sympy.Float(number)` -/
def cnHandler (ty : Option String) (text : Option String) (kids : List (Bool × Option String)) : Except Err Sy :=
  match ty with
  | some t =>
    if t == "e-notation" then
      match kids with
      | [(true, tail)] =>
        match text with
        | none => .error .attribute                       -- node.text is None
        | some m =>
          match tail with
          | none => .error .attribute                     -- node[0].tail is None
          | some k =>
            match pyInt k.toList with
            | none => .error .value
            | some e =>
              match pyFloatExp m.toList e with
              | none => .error .value
              | some v => .ok (ofFVal v)
      | _ => .error .value                                -- 'Expecting <cn type="e-notation">…'
    else .error .value                                    -- 'Unimplemented type attribute'
  | none =>
    match text with
    | none => .error .attribute
    | some s =>
      match pyFloat s.toList with
      | none => .error .value
      | some v => .ok (ofFVal v)

/-! ## Modelled SymPy: which table entries are classes, what their constructors accept -/

/-- table values that are objects, not classes -/
def sympyConstants : List String := ["E", "pi", "oo", "nan", "true", "false"]

inductive Kind where
  | arith | logic | eq | ineq
deriving DecidableEq, Repr

def unaryFunctions : List String :=
  ["Abs", "ceiling", "floor", "exp",
   "sin", "cos", "tan", "sec", "csc", "cot", "sinh", "cosh", "tanh", "sech", "csch", "coth",
   "asin", "acos", "atan", "asec", "acsc", "acot", "asinh", "acosh", "atanh", "asech", "acsch", "acoth"]

/-- (minimum, maximum) number of arguments the SymPy class accepts (`none` = unbounded); other counts: TypeError -/
def sympyArity (c : String) : Option (Nat × Option Nat) :=
  if c ∈ ["Add", "Mul", "And", "Or", "Xor"] then some (0, none)
  else if c ∈ ["Max", "Min"] then some (1, none)
  else if c ∈ unaryFunctions || c == "Not" then some (1, some 1)
  else if c == "ln" || c == "log" then some (1, some 2)
  else if c ∈ ["Eq", "Ne", "Ge", "Gt", "Le", "Lt", "Mod"] then some (2, some 2)
  else none

def classKind (c : String) : Kind :=
  if c ∈ ["And", "Or", "Xor", "Not"] then .logic
  else if c ∈ ["Eq", "Ne"] then .eq
  else if c ∈ ["Ge", "Gt", "Le", "Lt"] then .ineq
  else .arith

/-- sort of a SymPy term: number-valued, truth-valued, symbol (either), not an expression -/
inductive Srt where
  | N | B | S | X
deriving DecidableEq, Repr

def Sy.srt : Sy → Srt
  | .num _ | .int _ | .special _ => .N
  | .sym _ => .S
  | .const c => if c == "true" || c == "false" then .B else .N
  | .app h _ => if classKind h == .arith then .N else .B
  | _ => .X

def numLike (e : Sy) : Bool := e.srt == .N || e.srt == .S
def boolLike (e : Sy) : Bool := e.srt == .B || e.srt == .S
def notExpr (e : Sy) : Bool := e.srt == .X
def isNan : Sy → Bool
  | .special s => s == "nan"
  | .const c => c == "nan"
  | _ => false

/-- `Transpiler._is_bool`: isinstance(expr, (BooleanTrue, BooleanFalse)) -/
def isBoolConst : Sy → Bool
  | .const c => c == "true" || c == "false"
  | _ => false

def isDerivative : Sy → Bool
  | .app h _ => h == "Derivative" || h == "DerivativeEval"
  | _ => false

/-- `cls(*args)` for a table class -/
def callClass (c : String) (args : Sy) : Except Err Sy :=
  match sympyArity c with
  | none => .error (.outside ("class not modelled: " ++ c))
  | some (lo, hi) =>
    let n := args.len
    if n < lo || (match hi with | some h => n > h | none => false) then .error .type
    else match classKind c with
      | .arith => if args.all numLike then .ok (.app c args) else .error (.outside "operand sort")
      | .logic => if args.all boolLike then .ok (.app c args) else .error (.outside "operand sort")
      | .eq => if args.all numLike && !args.any isNan || args.all boolLike then .ok (.app c args)
               else .error (.outside "operand sort")
      | .ineq => if args.any notExpr || args.any isNan then .error (.outside "operand sort")
                 else if args.all numLike then .ok (.app c args)
                 else .error .type                        -- 'Can only compare inequalities with Expr'

/-- adjacent pairs `rel(a₀,a₁), rel(a₁,a₂), …` (parser.py 924-925), left to right, first exception wins -/
def pairs (c : String) : Sy → Except Err Sy
  | .cons a (.cons b rest) =>
    match callClass c (.cons a (.cons b .nil)) with
    | .error e => .error e
    | .ok r =>
      match pairs c (.cons b rest) with
      | .error e => .error e
      | .ok rs => .ok (.cons r rs)
  | _ => .ok .nil

def isIneqClass (c : String) : Bool := c ∈ ["Ge", "Le", "Gt", "Lt"]
def isEqClass (c : String) : Bool := c ∈ ["Eq", "Ne"]

/-- `_wrapper_relational(*expressions)` (parser.py 919-942) -/
def callRel (c : String) (args : Sy) : Except Err Sy :=
  if args.len > 2 then
    match pairs c args with
    | .error e => .error e
    | .ok ps => .ok (.app "And" ps)
  else if isIneqClass c && args.any isBoolConst then
    (if args.len < 2 then .error .index else .error .type)       -- the f-string indexes expressions[1]
  else if isEqClass c && args.any isBoolConst && !args.all isBoolConst && args.any isDerivative then .error .type
  else callClass c args

def arith1 (h : String) (a : Sy) : Except Err Sy :=
  if numLike a then .ok (.app h (.cons a .nil)) else .error (.outside "operand sort")

def arith2 (h : String) (a b : Sy) : Except Err Sy :=
  if numLike a && numLike b then .ok (.app h (.cons a (.cons b .nil))) else .error (.outside "operand sort")

/-- `sympy.Derivative(y, v, n, evaluate=…)` -/
def mkDeriv (y v : Sy) (n : Int) (ev : Option Sy) : Except Err Sy :=
  match v with
  | .sym _ =>
    if n < 0 then .error .value                                   -- 'order of differentiation must be nonnegative'
    else if numLike y then
      match ev with
      | none => .ok (.app "Derivative" (.cons y (.cons v (.cons (.int n) .nil))))
      | some f => .ok (.app "DerivativeEval" (.cons y (.cons v (.cons (.int n) (.cons f .nil)))))
    else .error (.outside "derivative of a non-numeric expression")
  | .num _ => .error .value                                       -- "Can't calculate derivative wrt 1.5"
  | .int _ => .error .value
  | _ => .error (.outside "derivative wrt a non-symbol")

/-- `_wrapped_diff(x_symbol, y_symbol, evaluate=False)` (parser.py 847-864) -/
def diffCb (x y : Sy) (ev : Option Sy) : Except Err Sy :=
  if isBoolConst x || isBoolConst y then .error .type
  else match x with
    | .pylist (.cons v (.cons d .nil)) =>
      match d with
      | .num q => mkDeriv y v (Int.tdiv q.num q.den) ev           -- int(Float) truncates toward zero
      | .int n => mkDeriv y v n ev
      | .sym _ => .error .type                                    -- 'The degree of a derivative must be an int'
      | _ => .error (.outside "degree expression")
    | _ => mkDeriv y x 1 ev

/-- the closures returned by `_minus_handler` … `_log_handler`; a wrong number of arguments is Python's TypeError -/
def callWrapped (m : String) (args : Sy) : Except Err Sy :=
  if m == "_minus_handler" then
    match args with
    | .cons a .nil => arith1 "neg" a
    | .cons a (.cons b .nil) => arith2 "sub" a b
    | _ => .error .type
  else if m == "_divide_handler" then
    match args with
    | .cons a (.cons b .nil) => arith2 "div" a b
    | _ => .error .type
  else if m == "_power_handler" then
    match args with
    | .cons a (.cons b .nil) => arith2 "pow" a b
    | _ => .error .type
  else if m == "_root_handler" then
    match args with
    | .cons a .nil => arith2 "root" a (.int 2)                    -- sympy.root(first, 2)
    | .cons a (.cons b .nil) => arith2 "root" b a                 -- sympy.root(second, first)
    | _ => .error .type
  else if m == "_log_handler" then
    match args with
    | .cons a .nil => arith2 "logb" a (.int 10)                   -- sympy.log(first, 10)
    | .cons a (.cons b .nil) => arith2 "logb" b a                 -- sympy.log(second, first)
    | _ => .error .type
  else if m == "_diff_handler" then
    match args with
    | .cons x (.cons y .nil) => diffCb x y none
    | .cons x (.cons y (.cons f .nil)) => diffCb x y (some f)
    | _ => .error .type
  else .error (.outside ("handler not modelled: " ++ m))

/-- `result[0](*result[1:])` -/
def call (f : Sy) (args : Sy) : Except Err Sy :=
  match f with
  | .cls c => callClass c args
  | .rel c => callRel c args
  | .wrapped m => callWrapped m args
  | .nil | .cons _ _ => .error (.outside "list in operator position")
  | _ => .error .type                                             -- '… object is not callable'

/-! ## Handler dispatch -/

def wrappedHandlers : List String :=
  ["_minus_handler", "_divide_handler", "_power_handler", "_root_handler", "_log_handler", "_diff_handler"]

/-- `self.handlers`: the explicit dict, then every key of the simple table overrides (parser.py 615-636) -/
def handlerOf (tag : String) : Option String :=
  match Gen.mathmlOps.lookup tag with
  | some _ => some "_simple_operator_handler"
  | none => Gen.handlerKeys.lookup tag

/-- `_simple_operator_handler` (parser.py 945-957) -/
def simpleOperator (tag : String) : Except Err Sy :=
  match Gen.mathmlOps.lookup tag with
  | none => .error (.outside "KeyError")
  | some c =>
    if tag ∈ Gen.naryRelations then .ok (.rel c)
    else if c ∈ sympyConstants then .ok (.const c)
    else .ok (.cls c)

/-- does head `h` occur anywhere in the term -/
def Sy.hasHead (h : String) : Sy → Bool
  | .cons a t => a.hasHead h || t.hasHead h
  | .app g args => g == h || args.hasHead h
  | .tuple e c => e.hasHead h || c.hasHead h
  | .pylist xs => xs.hasHead h
  | _ => false

def tupleCondHasPiecewise : Sy → Bool
  | .tuple _ c => c.hasHead "Piecewise"
  | _ => false

def isTuple : Sy → Bool
  | .tuple _ _ => true
  | _ => false
def tupleExprOk : Sy → Bool
  | .tuple e c => numLike e && !notExpr c
  | _ => false
def tupleCondOk : Sy → Bool
  | .tuple _ c => boolLike c
  | _ => false

/-- what a container handler does with the transpiled children `r` -/
def assemble (m : String) (r : Sy) : Except Err Sy :=
  if m == "_apply_handler" then
    match r with
    | .cons f .nil => .ok f                                       -- len(result) == 1: the child itself
    | .cons f rest => call f rest
    | _ => .error .index                                          -- result[0] of an empty list
  else if m == "_piecewise_handler" then
    match r with
    | .cons _ _ =>
      if !(r.all isTuple && r.all tupleExprOk) then .error (.outside "piecewise operand")
      -- SymPy 1.14 replaces a Piecewise inside a condition by its first branch: outside the model
      else if r.any tupleCondHasPiecewise then .error (.outside "piecewise inside a piecewise condition")
      else if !r.all tupleCondOk then .error .type                -- 'Second argument must be a Boolean'
      else .ok (.app "Piecewise" r)
    | _ => .error .type                                           -- 'At least one (expr, cond) pair expected'
  else if m == "_piece_handler" then
    match r with
    | .cons a (.cons b .nil) => .ok (.tuple a b)
    | _ => .error .value
  else if m == "_otherwise_handler" then
    match r with
    | .cons a .nil => .ok (.tuple a (.const "true"))
    | _ => .error .value
  else if m == "_degree_handler" then
    match r with
    | .cons a .nil => .ok a
    | _ => .error .value
  else if m == "_bvar_handler" then
    match r with
    | .cons a .nil => .ok a
    | .cons a (.cons b .nil) => .ok (.pylist (.cons a (.cons b .nil)))
    | _ => .error .value
  else if m == "_logbase_handler" then
    match r with
    | .cons a _ => .ok a                                          -- self.transpile(node)[0]
    | _ => .error .index
  else .error (.outside ("handler not modelled: " ++ m))

/-- `Transpiler.transpile` on a child list (`nil`/`cons`: the list of results) and each handler on its element -/
def transpile : Mml → Except Err Sy
  | .nil => .ok .nil
  | .cons h t =>
    match transpile h with
    | .error e => .error e
    | .ok a =>
      match transpile t with
      | .error e => .error e
      | .ok r => .ok (.cons a r)
  | .ci n => .ok (.sym n)
  | .cn ty text kids => cnHandler ty text kids
  | .el tag kids =>
    match handlerOf tag with
    | none => .error .value                                       -- 'No handler for element'
    | some m =>
      if m == "_simple_operator_handler" then simpleOperator tag
      else if m ∈ wrappedHandlers then .ok (.wrapped m)
      else if m == "transpile" then .error (.outside "nested math element")
      else
        match transpile kids with
        | .error e => .error e
        | .ok r => assemble m r

end C02
