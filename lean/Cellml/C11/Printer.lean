import Cellml.C11.Syntax
import Cellml.Generated.Tables

/-! C11 — model of `cellmlmanip/printer.py` (after the three `fix:` commits), core Lean only, structurally recursive.

  `pr : E → Out` is the single recursion. A parent never calls the printer on a child: it receives the child's
  already printed `Doc` (and, for a `Pow` child, the printed base; for a `Mul` child, the printed factors), which is
  what lets `decide` evaluate the printer in the kernel. -/
namespace C11

def lookup (t : List (String × String)) (k : String) : Option String :=
  match t with
  | [] => none
  | (a, b) :: r => if a == k then some b else lookup r k

def fnName (n : String) : Option String := lookup Cellml.Gen.printerFunctionNames n
def litName (n : String) : String := (lookup Cellml.Gen.printerLiteralNames n).getD ("?" ++ n)
def sqrtName : String := (fnName "sqrt").getD "?sqrt"

/-! ## SymPy's `precedence()` (sympy/printing/precedence.py), on the classes the printer meets -/

def isNegNum : E → Bool
  | .int n => n < 0
  | .rat p _ => p < 0
  | .flt _ neg => neg
  | _ => false

def isNum : E → Bool
  | .int _ | .rat _ _ | .flt _ _ => true
  | _ => false

def headNeg : E → Bool          -- `Mul.could_extract_minus_sign`: args[0] is a negative Number
  | .cons h _ => isNegNum h
  | _ => false

def prec : E → Nat
  | .int n => if n < 0 then 40 else 1000
  | .rat p _ => if p < 0 then 40 else 50
  | .flt _ neg => if neg then 40 else 1000
  | .add _ => 40
  | .mul args => if headNeg args then 40 else 50
  | .pow _ _ => 60
  | .fn _ _ | .pw _ => 70
  | .rel .eq _ _ | .rel .ne _ _ => 50
  | .rel _ _ _ => 35
  | .and _ => 30
  | .or _ => 20
  | .sym _ _ | .pi | .e1 | .tt | .ff | .deriv _ _ | .other _ => 1000
  | .pair _ _ | .nil | .cons _ _ => 0

/-- `expr.is_commutative`: every symbol inside is commutative -/
def comm : E → Bool
  | .sym _ c => c
  | .add a | .mul a | .and a | .or a | .pw a | .fn _ a => comm a
  | .pow b x => comm b && comm x
  | .rel _ a b | .pair a b | .cons a b => comm a && comm b
  | _ => true

/-- `x**-1` and `x**(-1/2)` of a commutative power: printed as `1 / …` -/
def isRecip : E → Bool
  | .pow b x => comm b && comm x && (x == .int (-1) || x == .rat (-1) 2)
  | _ => false

/-- `_bracket`, receiving the already printed child -/
def bracket (e : E) (d : Doc) (parent : Nat) : Doc :=
  if (if isRecip e then prec e - 1 else prec e) < parent then .paren d else d

/-! ## numbers -/

def natDoc (n : Nat) : Doc := .atom (toString n)

def intDoc (n : Int) : Doc := if n < 0 then .neg (natDoc n.natAbs) else natDoc n.natAbs

/-- does the text start with `-` ? -/
def headMinus (t : String) : Bool :=
  match t.toList with
  | '-' :: _ => true
  | _ => false

/-- the text without its first character -/
def tailStr (t : String) : String := String.ofList (t.toList.drop 1)

def fltOK (text : String) (neg : Bool) : Bool := headMinus text == neg && text.length > (if neg then 1 else 0)

def fltDoc (text : String) (neg : Bool) : Doc := if neg then .neg (.atom (tailStr text)) else .atom text

def numDoc : E → Doc
  | .int n => intDoc n
  | .rat p q => .bin .div (intDoc p) (natDoc q)
  | .flt t neg => fltDoc t neg
  | _ => .nil

/-- `-x` for a negative number -/
def negNum : E → E
  | .int n => .int (-n)
  | .rat p q => .rat (-p) q
  | .flt t neg => .flt (if neg then tailStr t else "-" ++ t) (!neg)
  | e => e

/-! ## joining printed operands: what CPython's parser makes of `acc ⊕ d` when `d` is not bracketed -/

/-- `acc * d`: a product or quotient `d` continues the left-associative chain -/
def spliceProd (acc : Doc) : Doc → Doc
  | .bin .mul a b => .bin .mul (spliceProd acc a) b
  | .bin .div a b => .bin .div (spliceProd acc a) b
  | d => .bin .mul acc d

def prodChain : List Doc → Doc
  | [] => .atom "1"
  | d :: ds => ds.foldl spliceProd d

/-- `'-' + s`: the unary minus lands on the first factor of the chain -/
def negFirst : Doc → Doc
  | .bin .mul a b => .bin .mul (negFirst a) b
  | .bin .div a b => .bin .div (negFirst a) b
  | d => .neg d

/-- does the flattening start with `-` ? -/
def startsMinus : Doc → Bool
  | .neg _ => true
  | .bin _ a _ | .cmp _ a _ | .and a _ | .or a _ | .ite a _ _ | .cons a _ => startsMinus a
  | _ => false

/-- `t[1:]` for a string starting with `-` -/
def peelLeft : Doc → Doc
  | .neg d => d
  | .bin op a b => .bin op (peelLeft a) b
  | .cmp r a b => .cmp r (peelLeft a) b
  | .and a b => .and (peelLeft a) b
  | .or a b => .or (peelLeft a) b
  | .ite a c e => .ite (peelLeft a) c e
  | .cons a t => .cons (peelLeft a) t
  | d => d

/-- `acc + d` / `acc - d`: a sum `d` continues the chain -/
def spliceSum (acc : Doc) (minus : Bool) : Doc → Doc
  | .bin .add a b => .bin .add (spliceSum acc minus a) b
  | .bin .sub a b => .bin .sub (spliceSum acc minus a) b
  | d => .bin (if minus then .sub else .add) acc d

def spliceAnd (acc : Doc) : Doc → Doc
  | .and a b => .and (spliceAnd acc a) b
  | d => .and acc d

def spliceOr (acc : Doc) : Doc → Doc
  | .or a b => .or (spliceOr acc a) b
  | d => .or acc d

/-! ## results of the recursion -/

inductive Status | ok | verr | unsup      -- printed | ValueError | outside the modelled fragment of SymPy
deriving Repr, DecidableEq, Inhabited

def Status.join : Status → Status → Status
  | .unsup, _ | _, .unsup => .unsup
  | .verr, _ | _, .verr => .verr
  | .ok, .ok => .ok

/-- a printed factor of a nested product -/
structure Item1 where
  e : E
  doc : Doc
  base : Doc            -- printed base when `e` is a power
deriving Repr, Inhabited

/-- a printed argument -/
structure Item where
  e : E
  st : Status
  doc : Doc
  base : Doc            -- printed base when `e` is a power; printed condition when `e` is a Piecewise pair
  sub : List Item1      -- printed factors when `e` is a product
deriving Repr, Inhabited

structure Out where
  st : Status
  doc : Doc
  base : Doc
  items : List Item     -- of an argument list; of a product: its factors
deriving Repr, Inhabited

def Item.one (i : Item) : Item1 := ⟨i.e, i.doc, i.base⟩

/-! ## `_print_Pow` -/

def noSym : E → Bool
  | .sym _ _ | .deriv _ _ | .other _ => false
  | .add a | .mul a | .and a | .or a | .pw a | .fn _ a => noSym a
  | .pow b x => noSym b && noSym x
  | .rel _ a b | .pair a b | .cons a b => noSym a && noSym b
  | _ => true

def symNames : E → List String
  | .sym n _ => [n]
  | .add a | .mul a | .and a | .or a | .pw a | .fn _ a => symNames a
  | .pow b x => symNames b ++ symNames x
  | .rel _ a b | .pair a b | .cons a b => symNames a ++ symNames b
  | .deriv x t => [x, t]
  | _ => []

def hasDup : List String → Bool
  | [] => false
  | x :: xs => xs.contains x || hasDup xs

/-- the printer tests `-expr.exp is S.Half` / `is S.One`: SymPy evaluates the negation, so a held exponent that is
    constant after evaluation — `Mul(-1, 1/2, evaluate=False)`, `y - (y + 1)` — passes the test; an exponent in which no
    symbol occurs, or one occurs twice, is outside the modelled fragment -/
def constCompound : E → Bool
  | .add a => noSym a || hasDup (symNames a)
  | .mul a => noSym a || hasDup (symNames a)
  | _ => false

def powDoc (b x : E) (bd xd : Doc) : Doc :=
  if x == .rat 1 2 then .call sqrtName (.cons bd .nil)
  else if comm b && comm x && x == .rat (-1) 2 then .bin .div (.atom "1") (.call sqrtName (.cons bd .nil))
  else if comm b && comm x && x == .int (-1) then .bin .div (.atom "1") (bracket b bd 60)
  else .bin .pow (bracket b bd 61) (bracket x xd 60)

/-! ## `_print_Mul` -/

def num1 (e : E) : Item1 := ⟨e, numDoc e, .nil⟩

def isMul : E → Bool
  | .mul _ => true
  | _ => false

/-- exponents with which SymPy's re-evaluation of a power inside `Mul.flatten` is the identity -/
def plainExp : E → Bool
  | .sym _ _ => true
  | .int n => n != 0 && n != 1
  | .rat _ q => q ≥ 2
  | _ => false

/-- remainders `r` for which SymPy's evaluated `k*r` is just `Mul(k, r)` -/
def opaqueE : E → Bool
  | .sym _ _ | .fn _ _ | .pw _ | .deriv _ _ | .pi | .e1 => true
  | .pow (.sym _ _) x | .pow (.add _) x => plainExp x
  | .pow (.fn f _) x => f != "exp" && f != "Abs" && plainExp x
  | _ => false

/-- `_keep_coeff(k, Mul(margs))`: a leading number is multiplied in (modelled for integers), otherwise `k` goes in front -/
def keepCoeffMul (k : E) (margs : List Item1) : Option (List Item1) :=
  match margs with
  | [] => none
  | m :: rest =>
      if isNum m.e then
        match k, m.e with
        | .int a, .int b => if a * b == 1 then some rest else some (num1 (.int (a * b)) :: rest)
        | _, _ => none
      else some (num1 k :: margs)

def numOK : E → Bool
  | .int _ => true
  | .rat _ q => decide (q ≥ 2)
  | .flt t n => fltOK t n
  | _ => false

/-- `c, e = expr.as_coeff_Mul(); if c < 0: expr = _keep_coeff(-c, e); sign = '-'` followed by `Mul.make_args(expr)` -/
def mulItems (items : List Item) : Option (Bool × List Item1) :=
  match items with
  | c :: rest =>
      if isNegNum c.e then
        let k := negNum c.e
        if !numOK k then none
        else if c.e == .int (-1) then
          match rest with
          | [r] => some (true, if isMul r.e then r.sub else [r.one])
          | _ => some (true, rest.map Item.one)
        else
          match rest with
          | [] => none
          | [r] =>
              if r.e == .int 1 then some (true, [num1 k])
              else match r.e with
                | .add _ => some (true, [num1 k, r.one])
                | .mul _ => (keepCoeffMul k r.sub).map (fun l => (true, l))
                | e => if opaqueE e then some (true, [num1 k, r.one]) else none
          | _ => (keepCoeffMul k (rest.map Item.one)).map (fun l => (true, l))
      else some (false, items.map Item.one)
  | [] => none

def isNegRat : E → Bool
  | .int n => n < 0
  | .rat p _ => p < 0
  | _ => false

/-- one factor goes to the numerator list `a`, the denominator list `b`, and possibly `pow_brackets` -/
def classify (i : Item1) : List Item1 × List Item1 × List E :=
  match i.e with
  | .pow b x =>
      if comm b && comm x && isNegRat x then
        if x == .int (-1) then ([], [⟨b, i.base, .nil⟩], if isMul b then [b] else [])
        else ([], [⟨.pow b (negNum x), powDoc b (negNum x) i.base (numDoc (negNum x)), .nil⟩], [])
      else ([i], [], [])
  | .int n => (if n == 1 then [] else [num1 (.int n)], [], [])
  | .rat p q => (if p == 1 then [] else [num1 (.int p)], [num1 (.int q)], [])
  | _ => ([i], [], [])

def partition : List Item1 → List Item1 × List Item1 × List E
  | [] => ([], [], [])
  | i :: r =>
      let (a1, b1, m1) := classify i
      let (a2, b2, m2) := partition r
      (a1 ++ a2, b1 ++ b2, m1 ++ m2)

/-- `b_str[b.index(base)] = '(' + … + ')'` -/
def wrapFirst (base : E) : List Item1 → List Doc → List Doc
  | i :: is, d :: ds => if i.e == base then .paren d :: ds else d :: wrapFirst base is ds
  | _, ds => ds

/-- the printed denominators: bracketed as operands of a product, the `pow_brackets` fix-up, and (third fix) a
    single denominator bracketed as the operand of a power -/
def denStrs (b : List Item1) (marks : List E) : List Doc :=
  match b, marks with
  | [d], [] => [bracket d.e d.doc 60]
  | _, _ => marks.foldl (fun acc m => wrapFirst m b acc) (b.map (fun i => bracket i.e i.doc 50))

def assemble (num : Doc) : List Doc → Doc
  | [] => num
  | [d] => .bin .div num d
  | ds => .bin .div num (.paren (prodChain ds))

def mulDoc (sign : Bool) (fs : List Item1) : Doc :=
  let (a, b, marks) := partition fs
  let a := if a.isEmpty then [num1 (.int 1)] else a
  let aStr := a.map (fun i => bracket i.e i.doc 50)
  let num := if sign then negFirst (prodChain aStr) else prodChain aStr
  assemble num (denStrs b marks)

/-! ## `_print_Add`: the sign is peeled off the printed term -/

def addStep (acc : Option Doc) (i : Item) : Option Doc :=
  let sm := startsMinus i.doc
  let t := if sm then peelLeft i.doc else i.doc
  let br := decide (prec i.e < 40)
  let t := if br then .paren t else t
  match acc with
  | none => some (if sm then (if br then .neg t else i.doc) else t)
  | some a => some (spliceSum a sm t)

def addDoc (items : List Item) : Doc := (items.foldl addStep none).getD .nil

/-! ## `_print_And`, `_print_Or` -/

def boolChain (splice : Doc → Doc → Doc) (p : Nat) : List Item → Doc
  | [] => .nil
  | i :: r => r.foldl (fun acc j => splice acc (bracket j.e j.doc p)) (bracket i.e i.doc p)

/-! ## `_print_Piecewise`: `((v) if (c) else (…))`, stopping at the first `True` condition -/

def nanDoc : Doc :=
  if litName "nan" == "float('nan')" then .call "float" (.cons (.atom "'nan'") .nil) else .atom (litName "nan")

def isTruePair : E → Bool
  | .pair _ .tt => true
  | _ => false

def pwInner : List Item → Status × Doc
  | [] => (.ok, nanDoc)
  | i :: r =>
      if isTruePair i.e then (i.st, i.doc)
      else
        let (s, d) := pwInner r
        (i.st.join s, .ite (.paren i.doc) (.paren i.base) (.paren d))

/-! ## the printer -/

def okDoc (d : Doc) : Out := ⟨.ok, d, .nil, []⟩

def pr : E → Out
  | .sym n _ => okDoc (.atom n)
  | .int n => okDoc (intDoc n)
  | .rat p q => ⟨if q ≥ 2 then .ok else .unsup, numDoc (.rat p q), .nil, []⟩
  | .flt t neg => ⟨if fltOK t neg then .ok else .unsup, fltDoc t neg, .nil, []⟩
  | .pi => okDoc (.atom (litName "pi"))
  | .e1 => okDoc (.atom (litName "e"))
  | .tt => okDoc (.atom "True")
  | .ff => okDoc (.atom "False")
  | .add args =>
      let o := pr args
      ⟨if o.items.isEmpty then .unsup else o.st, addDoc o.items, .nil, []⟩
  | .mul args =>
      let o := pr args
      match mulItems o.items with
      | none => ⟨.unsup, .nil, .nil, o.items⟩
      | some (s, fs) => ⟨o.st, mulDoc s fs, .nil, o.items⟩
  | .pow b x =>
      let ob := pr b
      let ox := pr x
      ⟨if constCompound x then .unsup else ob.st.join ox.st, powDoc b x ob.doc ox.doc, ob.doc, []⟩
  | .fn name args =>
      let o := pr args
      match fnName name with
      | some f => ⟨o.st, .call f o.doc, .nil, []⟩
      | none => ⟨o.st.join .verr, .nil, .nil, []⟩
  | .rel r a b =>
      let oa := pr a
      let ob := pr b
      let p := prec (.rel r a b) + 1
      ⟨oa.st.join ob.st, .cmp r (bracket a oa.doc p) (bracket b ob.doc p), .nil, []⟩
  | .and args =>
      let o := pr args
      ⟨if o.items.isEmpty then .unsup else o.st, boolChain spliceAnd 30 o.items, .nil, []⟩
  | .or args =>
      let o := pr args
      ⟨if o.items.isEmpty then .unsup else o.st, boolChain spliceOr 20 o.items, .nil, []⟩
  | .pw pairs =>
      let o := pr pairs
      let (s, d) := pwInner o.items
      ⟨s, .paren d, .nil, []⟩
  | .pair v c =>
      let ov := pr v
      let oc := pr c
      ⟨ov.st.join oc.st, ov.doc, oc.doc, []⟩
  | .deriv x t => okDoc (.call "Derivative" (.cons (.atom x) (.cons (.atom t) .nil)))
  | .other _ => ⟨.verr, .nil, .nil, []⟩
  | .nil => okDoc .nil
  | .cons h t =>
      let oh := pr h
      let ot := pr t
      ⟨oh.st.join ot.st, .cons oh.doc ot.doc, .nil, ⟨h, oh.st, oh.doc, oh.base, oh.items.map Item.one⟩ :: ot.items⟩

/-- `Printer()._print(e)` : the layout tree, `none` for ValueError / outside the modelled fragment -/
def printDoc (e : E) : Option Doc := if (pr e).st == .ok then some (pr e).doc else none

def printStr (e : E) : Option String := (printDoc e).map flatten

end C11
