import Cellml.C06.Spec
import Mathlib.Algebra.Field.Basic
import Mathlib.Tactic.Ring
import Mathlib.Tactic.FieldSimp

/-! C06, semantic part: point solutions of an equation system over a field, and how they move along the list
    operations `convert_variable` performs. -/

namespace Model.CV
open Model

variable {K : Type} [Field K]

/-- a valuation of the variables and of the derivative atoms `d x / d t` -/
structure Val (K : Type) where
  v : Nat → K
  d : Nat → Nat → K

/-- how numbers and the uninterpreted function symbols are read in `K` -/
structure Interp (K : Type) where
  lit : Rat → K
  F1 : String → K → K
  F2 : String → K → K → K

/-- plain evaluation of a right-hand side -/
def ev (I : Interp K) (σ : Val K) (e : X) : K := e.eval I.lit I.F1 I.F2 σ.v σ.d

def lhsVal (σ : Val K) : CLhs → K
  | .var v => σ.v v
  | .deriv x t => σ.d x t

/-- the valuation satisfies the equation -/
def Holds (I : Interp K) (σ : Val K) (e : CEqn) : Prop := lhsVal σ e.lhs = ev I σ e.rhs

/-- the valuation is a point solution of the list of equations -/
def SatL (I : Interp K) (σ : Val K) (E : List CEqn) : Prop := ∀ e ∈ E, Holds I σ e

/-- the valuation is a point solution of the model -/
def Sat (I : Interp K) (σ : Val K) (s : CState) : Prop := SatL I σ s.equations

/-- `τ` gives the same values as `σ` to everything built from the first `n` variables -/
def Agree (n : Nat) (σ τ : Val K) : Prop :=
  (∀ i, i < n → τ.v i = σ.v i) ∧ (∀ x t, x < n → t < n → τ.d x t = σ.d x t)

theorem Agree.refl (n : Nat) (σ : Val K) : Agree n σ σ := ⟨fun _ _ => rfl, fun _ _ _ _ => rfl⟩

theorem Agree.trans {n m : Nat} {σ τ ρ : Val K} (h₁ : Agree n σ τ) (h₂ : Agree m τ ρ) (hnm : n ≤ m) :
    Agree n σ ρ :=
  ⟨fun i hi => (h₂.1 i (by omega)).trans (h₁.1 i hi),
   fun x t hx ht => (h₂.2 x t (by omega) (by omega)).trans (h₁.2 x t hx ht)⟩

-- ------------------------------------------------------------------------------------------------ simp facts
@[simp] theorem ev_var (I : Interp K) (σ : Val K) (v : Nat) : ev I σ (.var v) = σ.v v := rfl
@[simp] theorem ev_deriv (I : Interp K) (σ : Val K) (x t : Nat) : ev I σ (.deriv x t) = σ.d x t := rfl
@[simp] theorem ev_lit (I : Interp K) (σ : Val K) (q : Rat) (u : U) : ev I σ (.lit q u) = I.lit q := rfl
@[simp] theorem ev_add (I : Interp K) (σ : Val K) (a b : X) : ev I σ (.add a b) = ev I σ a + ev I σ b := rfl
@[simp] theorem ev_sub (I : Interp K) (σ : Val K) (a b : X) : ev I σ (.sub a b) = ev I σ a - ev I σ b := rfl
@[simp] theorem ev_mul (I : Interp K) (σ : Val K) (a b : X) : ev I σ (.mul a b) = ev I σ a * ev I σ b := rfl
@[simp] theorem ev_div (I : Interp K) (σ : Val K) (a b : X) : ev I σ (.div a b) = ev I σ a / ev I σ b := rfl
@[simp] theorem ev_fn1 (I : Interp K) (σ : Val K) (f : String) (a : X) : ev I σ (.fn1 f a) = I.F1 f (ev I σ a) := rfl
@[simp] theorem ev_fn2 (I : Interp K) (σ : Val K) (f : String) (a b : X) :
    ev I σ (.fn2 f a b) = I.F2 f (ev I σ a) (ev I σ b) := rfl

-- ------------------------------------------------------------------------------------------------ frame
/-- the value of an expression depends on the atoms it mentions only -/
theorem ev_congr (I : Interp K) (σ τ : Val K) (e : X) (hv : ∀ i ∈ e.vars, τ.v i = σ.v i)
    (hd : ∀ p ∈ e.derivs, τ.d p.1 p.2 = σ.d p.1 p.2) : ev I τ e = ev I σ e := by
  induction e with
  | var v => exact hv v (by simp [X.vars])
  | deriv x t => exact hd (x, t) (by simp [X.derivs])
  | lit q u => rfl
  | add a b iha ihb | sub a b iha ihb | mul a b iha ihb | div a b iha ihb =>
    simp only [X.vars, X.derivs, List.mem_append] at hv hd
    simp only [ev_add, ev_sub, ev_mul, ev_div]
    rw [iha (fun i hi => hv i (Or.inl hi)) (fun p hp => hd p (Or.inl hp)),
        ihb (fun i hi => hv i (Or.inr hi)) (fun p hp => hd p (Or.inr hp))]
  | fn1 f a iha =>
    simp only [X.vars, X.derivs] at hv hd
    simp only [ev_fn1]; rw [iha hv hd]
  | fn2 f a b iha ihb =>
    simp only [X.vars, X.derivs, List.mem_append] at hv hd
    simp only [ev_fn2]
    rw [iha (fun i hi => hv i (Or.inl hi)) (fun p hp => hd p (Or.inl hp)),
        ihb (fun i hi => hv i (Or.inr hi)) (fun p hp => hd p (Or.inr hp))]

theorem derivs_sub_vars (e : X) : ∀ p ∈ e.derivs, p.1 ∈ e.vars ∧ p.2 ∈ e.vars := by
  induction e with
  | var v => simp [X.derivs]
  | deriv x t => simp [X.derivs, X.vars]
  | lit q u => simp [X.derivs]
  | add a b iha ihb | sub a b iha ihb | mul a b iha ihb | div a b iha ihb | fn2 f a b iha ihb =>
    intro p hp
    simp only [X.derivs, X.vars, List.mem_append] at hp ⊢
    rcases hp with hp | hp
    · exact ⟨Or.inl (iha p hp).1, Or.inl (iha p hp).2⟩
    · exact ⟨Or.inr (ihb p hp).1, Or.inr (ihb p hp).2⟩
  | fn1 f a iha => simpa [X.derivs, X.vars] using iha

/-- an equation over the first `n` variables cannot tell two valuations apart that agree there -/
theorem holds_of_agree (I : Interp K) {n : Nat} {σ τ : Val K} {e : CEqn} (hs : EqScoped n e) (ha : Agree n σ τ) :
    Holds I τ e ↔ Holds I σ e := by
  obtain ⟨hl, hr⟩ := (eqScoped_iff n e).mp hs
  have h1 : ev I τ e.rhs = ev I σ e.rhs := by
    apply ev_congr
    · intro i hi; exact ha.1 i (hr i hi)
    · intro p hp
      have := derivs_sub_vars e.rhs p hp
      exact ha.2 p.1 p.2 (hr _ this.1) (hr _ this.2)
  have h2 : lhsVal τ e.lhs = lhsVal σ e.lhs := by
    cases hle : e.lhs with
    | var v => exact ha.1 v (hl v (by simp [hle, CLhs.vars]))
    | deriv x t => exact ha.2 x t (hl x (by simp [hle, CLhs.vars])) (hl t (by simp [hle, CLhs.vars]))
  unfold Holds; rw [h1, h2]

theorem satL_of_agree (I : Interp K) {n : Nat} {σ τ : Val K} {E : List CEqn} (hs : ∀ e ∈ E, EqScoped n e)
    (ha : Agree n σ τ) : SatL I τ E ↔ SatL I σ E :=
  ⟨fun h e he => (holds_of_agree I (hs e he) ha).mp (h e he),
   fun h e he => (holds_of_agree I (hs e he) ha).mpr (h e he)⟩

-- ------------------------------------------------------------------------------------------------ list operations
theorem satL_append (I : Interp K) (σ : Val K) (E F : List CEqn) : SatL I σ (E ++ F) ↔ SatL I σ E ∧ SatL I σ F := by
  unfold SatL; simp only [List.mem_append]
  exact ⟨fun h => ⟨fun e he => h e (Or.inl he), fun e he => h e (Or.inr he)⟩,
         fun h e he => he.elim (h.1 e) (h.2 e)⟩

theorem satL_cons (I : Interp K) (σ : Val K) (e : CEqn) (E : List CEqn) :
    SatL I σ (e :: E) ↔ Holds I σ e ∧ SatL I σ E := by
  unfold SatL; simp

theorem satL_nil (I : Interp K) (σ : Val K) : SatL I σ [] := fun _ h => by cases h

/-- taking one equation out of a list and stating it separately is the same system -/
theorem satL_erase (I : Interp K) (σ : Val K) (E : List CEqn) (e : CEqn) (he : e ∈ E) :
    SatL I σ E ↔ SatL I σ (E.erase e) ∧ Holds I σ e := by
  constructor
  · intro h; exact ⟨fun e' he' => h e' (List.mem_of_mem_erase he'), h e he⟩
  · rintro ⟨h1, h2⟩ e' he'
    by_cases hee : e' = e
    · rw [hee]; exact h2
    · exact h1 e' ((List.mem_erase_of_ne hee).mpr he')

/-- the valuation with variable `i` set to `c` -/
def Val.setV (σ : Val K) (i : Nat) (c : K) : Val K := ⟨fun j => if j = i then c else σ.v j, σ.d⟩

/-- the valuation with all derivative atoms over a new bound variable `t'` given by `f` -/
def Val.setD (σ : Val K) (f : Nat → Nat → Option K) : Val K :=
  ⟨σ.v, fun x t => match f x t with | some c => c | none => σ.d x t⟩

theorem agree_setV (n : Nat) (σ : Val K) (i : Nat) (c : K) (hi : n ≤ i) : Agree n σ (σ.setV i c) :=
  ⟨fun j hj => by simp only [Val.setV]; rw [if_neg (by omega)], fun _ _ _ _ => rfl⟩

-- ------------------------------------------------------------------------------------------------ substitution
/-- read the replaced derivative atoms from the variables that replace them -/
def pull (rep : Rep) (τ : Val K) : Val K :=
  ⟨τ.v, fun x t => match rep.lookup (x, t) with | some w => τ.v w | none => τ.d x t⟩

theorem ev_subst (I : Interp K) (rep : Rep) (τ : Val K) (e : X) : ev I τ (e.subst rep) = ev I (pull rep τ) e := by
  induction e with
  | var v => rfl
  | deriv x t =>
    simp only [X.subst, ev_deriv, pull]
    cases rep.lookup (x, t) <;> rfl
  | lit q u => rfl
  | add a b iha ihb | sub a b iha ihb | mul a b iha ihb | div a b iha ihb =>
    simp only [X.subst, ev_add, ev_sub, ev_mul, ev_div, iha, ihb]
  | fn1 f a iha => simp only [X.subst, ev_fn1, iha]
  | fn2 f a b iha ihb => simp only [X.subst, ev_fn2, iha, ihb]

theorem holds_substEq (I : Interp K) (rep : Rep) (τ : Val K) (e : CEqn) :
    Holds I τ (substEq rep e) ↔ Holds I (pull rep τ) e := by
  unfold Holds substEq
  simp only [ev_subst]
  cases hl : e.lhs with
  | var v => simp [substLhs, lhsVal, pull]
  | deriv x t =>
    simp only [substLhs, lhsVal, pull]
    cases rep.lookup (x, t) <;> simp [lhsVal]

-- ------------------------------------------------------------------------------------------------ the driver, by case
theorem convertVariable_noop (s : CState) (v : Nat) (u : U) (dir : Dir) (move : Bool) :
    convertVariable s v u 1 dir move = (s, v, []) := by
  simp [convertVariable]

theorem convertVariable_output (s : CState) (v : Nat) (u : U) (cf : Rat) (move : Bool) (hcf : cf ≠ 1) :
    convertVariable s v u cf .output move =
      ((convertInstance s v cf u .output move).1, (convertInstance s v cf u .output move).2, []) := by
  simp [convertVariable, hcf]

theorem convertVariable_input_plain (s : CState) (v : Nat) (u : U) (cf : Rat) (move : Bool) (hcf : cf ≠ 1)
    (hst : hasKey v s.odeDef = false) (hfr : getFree s ≠ some v) :
    convertVariable s v u cf .input move =
      ((convertInstance s v cf u .input move).1, (convertInstance s v cf u .input move).2, []) := by
  simp [convertVariable, statePhase, freePhase, replacePhase, hcf, hst, hfr]

-- ------------------------------------------------------------------------------------------------ the new variable
theorem setV_self (σ : Val K) (i : Nat) (c : K) : (σ.setV i c).v i = c := by simp [Val.setV]
theorem setV_other (σ : Val K) (i j : Nat) (c : K) (h : j ≠ i) : (σ.setV i c).v j = σ.v j := by simp [Val.setV, h]

/-- forward: a solution of the model, extended by `new = cf · v`, solves the equations after
    `_convert_variable_instance` -/
theorem instEqs_fwd (I : Interp K) {s : CState} (h : Inv0 s) (v : Nat) (hv : v < s.vars.length) (cf : Rat) (uu : U)
    (hcf : I.lit cf ≠ 0) (dir : Dir) (σ : Val K) (hσ : SatL I σ s.equations) :
    SatL I (σ.setV s.vars.length (I.lit cf * σ.v v)) (instEqs s v (.lit cf uu) dir) := by
  have hag := agree_setV s.vars.length σ s.vars.length (I.lit cf * σ.v v) (Nat.le_refl _)
  have hE : SatL I (σ.setV s.vars.length (I.lit cf * σ.v v)) s.equations :=
    (satL_of_agree I h.scopedE hag).mpr hσ
  have hvn : v ≠ s.vars.length := by omega
  cases dir with
  | output =>
    simp only [instEqs, satL_append, satL_cons]
    refine ⟨hE, ?_, satL_nil I _⟩
    simp only [Holds, lhsVal, ev_mul, ev_var, ev_lit, setV_self, setV_other _ _ _ _ hvn]
    ring
  | input =>
    simp only [instEqs]
    cases hlk : s.varDef.lookup v with
    | none =>
      simp only [satL_append, satL_cons]
      refine ⟨hE, ?_, satL_nil I _⟩
      simp only [Holds, lhsVal, ev_div, ev_var, ev_lit, setV_self, setV_other _ _ _ _ hvn]
      field_simp
    | some oe =>
      obtain ⟨hoe, hoel⟩ := (h.lookup_varDef v oe).mp hlk
      simp only [satL_append, satL_cons]
      refine ⟨fun e he => hE e (List.mem_of_mem_erase he), ?_, ?_, satL_nil I _⟩
      · have h1 := hE oe hoe
        simp only [Holds, hoel, lhsVal, setV_other _ _ _ _ hvn] at h1
        simp only [Holds, lhsVal, ev_mul, ev_lit, setV_self, ← h1]
        ring
      · simp only [Holds, lhsVal, ev_div, ev_var, ev_lit, setV_self, setV_other _ _ _ _ hvn]
        field_simp

/-- backward: a solution of the equations after `_convert_variable_instance` solves the model, and gives the new
    variable `cf ·` the value of the original -/
theorem instEqs_bwd (I : Interp K) {s : CState} (h : Inv0 s) (v : Nat) (cf : Rat) (uu : U)
    (hcf : I.lit cf ≠ 0) (dir : Dir) (τ : Val K) (hτ : SatL I τ (instEqs s v (.lit cf uu) dir)) :
    SatL I τ s.equations ∧ τ.v s.vars.length = I.lit cf * τ.v v := by
  cases dir with
  | output =>
    simp only [instEqs, satL_append, satL_cons] at hτ
    obtain ⟨h1, h2, _⟩ := hτ
    refine ⟨h1, ?_⟩
    simp only [Holds, lhsVal, ev_mul, ev_var, ev_lit] at h2
    rw [h2]; ring
  | input =>
    simp only [instEqs] at hτ
    cases hlk : s.varDef.lookup v with
    | none =>
      rw [hlk] at hτ
      simp only [satL_append, satL_cons] at hτ
      obtain ⟨h1, h2, _⟩ := hτ
      refine ⟨h1, ?_⟩
      simp only [Holds, lhsVal, ev_div, ev_var, ev_lit] at h2
      rw [h2]; field_simp
    | some oe =>
      rw [hlk] at hτ
      obtain ⟨hoe, hoel⟩ := (h.lookup_varDef v oe).mp hlk
      simp only [satL_append, satL_cons] at hτ
      obtain ⟨h1, h2, h3, _⟩ := hτ
      simp only [Holds, lhsVal, ev_div, ev_mul, ev_var, ev_lit] at h2 h3
      have hn : τ.v s.vars.length = I.lit cf * τ.v v := by rw [h3]; field_simp
      refine ⟨(satL_erase I τ s.equations oe hoe).mpr ⟨h1, ?_⟩, hn⟩
      simp only [Holds, hoel, lhsVal]
      have : ev I τ oe.rhs * I.lit cf = τ.v v * I.lit cf := by rw [← h2, hn]; ring
      exact (mul_right_cancel₀ hcf this).symm

end Model.CV
