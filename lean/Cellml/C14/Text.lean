import Cellml.C14.Pipeline

/-! # C14: lemmas about the text side — `'%d'` round trip, digit spans, stripping, and the parse of
    `mantissa ++ "e" ++ exponent` as ONE literal. Core Lean only. -/

namespace C14

/-! ## characters -/

theorem digitChar_facts : ∀ d, d < 10 →
    ((digitChar d).isDigit = true ∧ digitVal (digitChar d) = d ∧ isWs (digitChar d) = false ∧
      digitChar d ≠ '-' ∧ digitChar d ≠ '+' ∧ digitChar d ≠ '.') := by decide

theorem isDigit_not_special (c : Char) (h : c.isDigit = true) :
    isWs c = false ∧ c ≠ '-' ∧ c ≠ '+' ∧ c ≠ '.' ∧ (c == 'e') = false ∧ (c == 'E') = false := by
  have h' : 48 ≤ c.toNat ∧ c.toNat ≤ 57 := by
    simp only [Char.isDigit, Bool.and_eq_true, decide_eq_true_eq] at h
    have h1 : (48 : UInt32).toNat ≤ c.val.toNat := UInt32.le_iff_toNat_le.mp h.1
    have h2 : c.val.toNat ≤ (57 : UInt32).toNat := UInt32.le_iff_toNat_le.mp h.2
    exact ⟨h1, h2⟩
  have ne : ∀ k : Char, (k.toNat < 48 ∨ 57 < k.toNat) → c ≠ k := by
    intro k hk heq; subst heq; omega
  refine ⟨?_, ne '-' (by decide), ne '+' (by decide), ne '.' (by decide), ?_, ?_⟩
  · simp only [isWs, Bool.or_eq_false_iff, beq_eq_false_iff_ne]
    exact ⟨⟨⟨⟨⟨ne ' ' (by decide), ne '\t' (by decide)⟩, ne '\n' (by decide)⟩, ne '\r' (by decide)⟩,
      ne '\x0b' (by decide)⟩, ne '\x0c' (by decide)⟩
  · exact beq_eq_false_iff_ne.mpr (ne 'e' (by decide))
  · exact beq_eq_false_iff_ne.mpr (ne 'E' (by decide))

def AllDigits (cs : List Char) : Prop := ∀ c ∈ cs, c.isDigit = true

/-! ## `'%d'`: rendering a natural number and reading it back -/

theorem digitsToNat_append (xs ys : List Char) :
    digitsToNat (xs ++ ys) = ys.foldl (fun a c => 10 * a + digitVal c) (digitsToNat xs) := by
  unfold digitsToNat; rw [List.foldl_append]

theorem natDigitsAux_spec : ∀ (fuel n : Nat) (acc : List Char), n < 10 ^ fuel → 1 ≤ fuel →
    ∃ ds, natDigitsAux fuel n acc = ds ++ acc ∧ ds ≠ [] ∧ AllDigits ds ∧
      (∀ a, ds.foldl (fun a c => 10 * a + digitVal c) a = a * 10 ^ ds.length + n) := by
  intro fuel
  induction fuel with
  | zero => intro n acc _ h; omega
  | succ fuel ih =>
    intro n acc hn _
    have hd := digitChar_facts (n % 10) (Nat.mod_lt _ (by decide))
    unfold natDigitsAux
    simp only
    by_cases hq : n / 10 = 0
    · simp only [hq, if_true]
      refine ⟨[digitChar (n % 10)], rfl, by simp, ?_, ?_⟩
      · intro c hc; simp only [List.mem_singleton] at hc; subst hc; exact hd.1
      · intro a; simp only [List.foldl_cons, List.foldl_nil, List.length_singleton, Nat.pow_one, hd.2.1]; omega
    · simp only [hq, if_false]
      have hfuel : 1 ≤ fuel := by
        rcases Nat.eq_zero_or_pos fuel with h0 | h0
        · subst h0; simp only [Nat.zero_add, Nat.pow_one] at hn; omega
        · exact h0
      have hlt : n / 10 < 10 ^ fuel := by
        rw [Nat.pow_succ] at hn
        exact (Nat.div_lt_iff_lt_mul (by decide)).mpr hn
      obtain ⟨ds, heq, hne, hall, hval⟩ := ih (n / 10) (digitChar (n % 10) :: acc) hlt hfuel
      refine ⟨ds ++ [digitChar (n % 10)], ?_, by simp, ?_, ?_⟩
      · rw [heq]; simp
      · intro c hc
        rcases List.mem_append.mp hc with h | h
        · exact hall c h
        · simp only [List.mem_singleton] at h; subst h; exact hd.1
      · intro a
        rw [List.foldl_append, hval a]
        simp only [List.foldl_cons, List.foldl_nil, hd.2.1, List.length_append, List.length_singleton]
        rw [Nat.pow_succ, ← Nat.mul_assoc]
        generalize a * 10 ^ ds.length = Y
        omega

theorem lt_ten_pow_succ (n : Nat) : n < 10 ^ (n + 1) := by
  have h1 : n < 2 ^ n := Nat.lt_two_pow_self
  have h2 : 2 ^ n ≤ 10 ^ n := Nat.pow_le_pow_left (by decide) n
  have h3 : 10 ^ n ≤ 10 ^ (n + 1) := Nat.pow_le_pow_right (by decide) (by omega)
  omega

/-- `'%d' % n` consists of digits, is not empty, and reads back as `n` -/
theorem natDigits_spec (n : Nat) :
    natDigits n ≠ [] ∧ AllDigits (natDigits n) ∧ digitsToNat (natDigits n) = n := by
  obtain ⟨ds, heq, hne, hall, hval⟩ := natDigitsAux_spec (n + 1) n [] (lt_ten_pow_succ n) (by omega)
  unfold natDigits
  rw [heq, List.append_nil]
  refine ⟨hne, hall, ?_⟩
  unfold digitsToNat
  rw [hval 0]; omega

/-! ## digit spans, signs, stripping -/

theorem spanDigits_nil_of_head (rest : List Char) (h : ∀ c, rest.head? = some c → c.isDigit = false) :
    spanDigits rest = ([], rest) := by
  cases rest with
  | nil => rfl
  | cons c r =>
    have := h c rfl
    simp [spanDigits, this]

theorem spanDigits_append (ds rest : List Char) (hd : AllDigits ds)
    (h : ∀ c, rest.head? = some c → c.isDigit = false) : spanDigits (ds ++ rest) = (ds, rest) := by
  induction ds with
  | nil => exact spanDigits_nil_of_head rest h
  | cons c r ih =>
    have hc : c.isDigit = true := hd c (by simp)
    have hr : AllDigits r := fun x hx => hd x (by simp [hx])
    simp [spanDigits, hc, ih hr]

theorem spanDigits_all (ds : List Char) (hd : AllDigits ds) : spanDigits ds = (ds, []) := by
  have := spanDigits_append ds [] hd (by simp)
  simpa using this

theorem dropWs_of_head (cs : List Char) (h : ∀ c, cs.head? = some c → isWs c = false) : dropWs cs = cs := by
  cases cs with
  | nil => rfl
  | cons c r => have := h c rfl; simp [dropWs, this]

/-- a text that neither starts nor ends with a blank is not changed by `strip` -/
theorem strip_clean (cs : List Char) (h1 : ∀ c, cs.head? = some c → isWs c = false)
    (h2 : ∀ c, cs.getLast? = some c → isWs c = false) : strip cs = cs := by
  unfold strip
  rw [dropWs_of_head cs h1, dropWs_of_head cs.reverse (by simpa [List.head?_reverse] using h2), List.reverse_reverse]

/-- optional sign of a literal -/
inductive Sign | none | minus | plus
deriving DecidableEq

def Sign.chars : Sign → List Char
  | .none => []
  | .minus => ['-']
  | .plus => ['+']

def Sign.neg : Sign → Bool
  | .minus => true
  | _ => false

theorem takeSign_sign (s : Sign) (rest : List Char)
    (h : ∀ c, rest.head? = some c → c ≠ '-' ∧ c ≠ '+') : takeSign (s.chars ++ rest) = (s.neg, rest) := by
  cases s with
  | minus => rfl
  | plus => rfl
  | none =>
    cases rest with
    | nil => rfl
    | cons c r =>
      have ⟨hm, hp⟩ := h c rfl
      simp only [Sign.chars, List.nil_append, Sign.neg]
      unfold takeSign
      split
      · rename_i heq; cases heq; exact absurd rfl hm
      · rename_i heq; cases heq; exact absurd rfl hp
      · rfl

/-! ## integers written by `'%d'` are read back by the exponent parser -/

theorem renderInt_head (z : Int) : ∃ c r, renderInt z = c :: r := by
  unfold renderInt
  split
  · exact ⟨_, _, rfl⟩
  · have := (natDigits_spec z.natAbs).1
    cases h : natDigits z.natAbs with
    | nil => exact absurd h this
    | cons c r => exact ⟨c, r, rfl⟩

theorem takeSign_natDigits (n : Nat) : takeSign (natDigits n) = (false, natDigits n) := by
  have ⟨hne, hall, _⟩ := natDigits_spec n
  have := takeSign_sign .none (natDigits n) (by
    intro c hc
    have hmem : c ∈ natDigits n := by
      cases hl : natDigits n with
      | nil => rw [hl] at hc; cases hc
      | cons x r => rw [hl] at hc; simp only [List.head?_cons, Option.some.injEq] at hc; subst hc; simp
    have := isDigit_not_special c (hall c hmem)
    exact ⟨this.2.1, this.2.2.1⟩)
  simpa [Sign.chars, Sign.neg] using this

/-- the exponent part `e<%d>` is read back as the integer that was written -/
theorem parseExpPart_render (z : Int) : parseExpPart ('e' :: renderInt z) = some z := by
  unfold parseExpPart
  simp only [beq_self_eq_true, Bool.true_or, if_true]
  unfold renderInt
  have ⟨hne, hall, hval⟩ := natDigits_spec z.natAbs
  by_cases hz : z < 0
  · simp only [hz, if_true]
    have : takeSign ('-' :: natDigits z.natAbs) = (true, natDigits z.natAbs) := rfl
    rw [this]
    simp only [spanDigits_all _ hall, hval]
    have h1 : (natDigits z.natAbs).isEmpty = false := by
      cases h : natDigits z.natAbs with
      | nil => exact absurd h hne
      | cons _ _ => rfl
    simp only [h1, List.isEmpty_nil, Bool.not_true, Bool.or_self, Bool.false_eq_true, if_false, if_true,
      Option.some.injEq]
    omega
  · simp only [hz, if_false]
    rw [takeSign_natDigits]
    simp only [spanDigits_all _ hall, hval]
    have h1 : (natDigits z.natAbs).isEmpty = false := by
      cases h : natDigits z.natAbs with
      | nil => exact absurd h hne
      | cons _ _ => rfl
    simp only [h1, List.isEmpty_nil, Bool.not_true, Bool.or_self, Bool.false_eq_true, if_false,
      Option.some.injEq]
    omega

/-! ## a mantissa followed by `e<%d>` is ONE literal -/

/-- a mantissa as MathML writes it: optional sign, digits, optionally a point and more digits (not both empty) -/
structure Mantissa where
  sign : Sign
  ip : List Char
  dot : Bool
  fp : List Char
  hip : AllDigits ip
  hfp : AllDigits fp
  hne : ip ≠ [] ∨ fp ≠ []
  hdot : dot = false → fp = []

def Mantissa.chars (m : Mantissa) : List Char :=
  m.sign.chars ++ (m.ip ++ (if m.dot then '.' :: m.fp else []))

/-- the integer of all its digits -/
def Mantissa.digits (m : Mantissa) : Nat := digitsToNat (m.ip ++ m.fp)

/-- the tail after the integer digits is read as the fraction digits, then `rest` -/
theorem frac_span (m : Mantissa) (rest : List Char) (h : ∀ c, rest.head? = some c → c.isDigit = false ∧ c ≠ '.') :
    splitFrac ((if m.dot then '.' :: m.fp else []) ++ rest) = (m.fp, rest) := by
  cases hdot : m.dot with
  | true =>
    simp only [if_true, List.cons_append, splitFrac]
    exact spanDigits_append m.fp rest m.hfp (fun c hc => (h c hc).1)
  | false =>
    simp only [Bool.false_eq_true, if_false, List.nil_append, m.hdot hdot]
    cases rest with
    | nil => rfl
    | cons c r =>
      have := (h c rfl).2
      unfold splitFrac
      split
      · rename_i heq; cases heq; exact absurd rfl this
      · rfl

theorem parseBody_mantissa_exp (m : Mantissa) (z : Int) :
    parseBody (m.chars ++ 'e' :: renderInt z) = some (m.sign.neg, m.digits, z - (m.fp.length : Int)) := by
  unfold parseBody Mantissa.chars
  simp only [List.append_assoc]
  have hhead : ∀ c, (m.ip ++ ((if m.dot then '.' :: m.fp else []) ++ 'e' :: renderInt z)).head? = some c →
      c ≠ '-' ∧ c ≠ '+' := by
    intro c hc
    cases hip : m.ip with
    | cons x r =>
      rw [hip] at hc; simp only [List.cons_append, List.head?_cons, Option.some.injEq] at hc; subst hc
      have := isDigit_not_special x (m.hip x (by rw [hip]; simp))
      exact ⟨this.2.1, this.2.2.1⟩
    | nil =>
      rw [hip] at hc
      cases hdot : m.dot with
      | true =>
        rw [hdot] at hc; simp only [if_true, List.nil_append, List.cons_append, List.head?_cons,
          Option.some.injEq] at hc
        subst hc; exact ⟨by decide, by decide⟩
      | false =>
        rw [hdot] at hc; simp only [Bool.false_eq_true, if_false, List.nil_append, List.head?_cons,
          Option.some.injEq] at hc
        subst hc; exact ⟨by decide, by decide⟩
  rw [takeSign_sign m.sign _ hhead]
  simp only
  have hnd : ∀ c, ((if m.dot then '.' :: m.fp else []) ++ 'e' :: renderInt z).head? = some c → c.isDigit = false := by
    intro c hc
    cases hdot : m.dot with
    | true =>
      rw [hdot] at hc; simp only [if_true, List.cons_append, List.head?_cons, Option.some.injEq] at hc
      subst hc; decide
    | false =>
      rw [hdot] at hc; simp only [Bool.false_eq_true, if_false, List.nil_append, List.head?_cons,
        Option.some.injEq] at hc
      subst hc; decide
  rw [spanDigits_append m.ip _ m.hip hnd]
  simp only
  rw [frac_span m ('e' :: renderInt z) (by
    intro c hc; simp only [List.head?_cons, Option.some.injEq] at hc; subst hc; exact ⟨by decide, by decide⟩)]
  simp only
  have hemp : (m.ip.isEmpty && m.fp.isEmpty) = false := by
    rcases m.hne with h | h
    · cases hl : m.ip with
      | nil => exact absurd hl h
      | cons _ _ => rfl
    · cases hl : m.fp with
      | nil => exact absurd hl h
      | cons _ _ => simp
  simp only [hemp, Bool.false_eq_true, if_false, parseExpPart_render z]
  rfl

/-- the mantissa on its own is the same literal with exponent 0 -/
theorem parseBody_mantissa (m : Mantissa) :
    parseBody m.chars = some (m.sign.neg, m.digits, 0 - (m.fp.length : Int)) := by
  unfold parseBody Mantissa.chars
  have hhead : ∀ c, (m.ip ++ (if m.dot then '.' :: m.fp else [])).head? = some c → c ≠ '-' ∧ c ≠ '+' := by
    intro c hc
    cases hip : m.ip with
    | cons x r =>
      rw [hip] at hc; simp only [List.cons_append, List.head?_cons, Option.some.injEq] at hc; subst hc
      have := isDigit_not_special x (m.hip x (by rw [hip]; simp))
      exact ⟨this.2.1, this.2.2.1⟩
    | nil =>
      rw [hip] at hc
      cases hdot : m.dot with
      | true =>
        rw [hdot] at hc; simp only [if_true, List.nil_append, List.head?_cons, Option.some.injEq] at hc
        subst hc; exact ⟨by decide, by decide⟩
      | false =>
        rw [hdot] at hc; simp at hc
  rw [takeSign_sign m.sign _ hhead]
  simp only
  have hnd : ∀ c, (if m.dot then '.' :: m.fp else []).head? = some c → c.isDigit = false := by
    intro c hc
    cases hdot : m.dot with
    | true =>
      rw [hdot] at hc; simp only [if_true, List.head?_cons, Option.some.injEq] at hc
      subst hc; decide
    | false => rw [hdot] at hc; simp at hc
  rw [spanDigits_append m.ip _ m.hip hnd]
  simp only
  have := frac_span m [] (by simp)
  simp only [List.append_nil] at this
  rw [this]
  simp only
  have hemp : (m.ip.isEmpty && m.fp.isEmpty) = false := by
    rcases m.hne with h | h
    · cases hl : m.ip with
      | nil => exact absurd hl h
      | cons _ _ => rfl
    · cases hl : m.fp with
      | nil => exact absurd hl h
      | cons _ _ => simp
  simp only [hemp, Bool.false_eq_true, if_false, parseExpPart]
  rfl

/-- mantissa texts and `mantissa e exponent` texts have no blanks at either end -/
theorem strip_mantissa_exp (m : Mantissa) (z : Int) :
    strip (m.chars ++ 'e' :: renderInt z) = m.chars ++ 'e' :: renderInt z := by
  apply strip_clean
  · intro c hc
    unfold Mantissa.chars at hc
    cases hs : m.sign with
    | minus => rw [hs] at hc; simp only [Sign.chars, List.cons_append, List.head?_cons, Option.some.injEq] at hc
               subst hc; decide
    | plus => rw [hs] at hc; simp only [Sign.chars, List.cons_append, List.head?_cons, Option.some.injEq] at hc
              subst hc; decide
    | none =>
      rw [hs] at hc; simp only [Sign.chars, List.nil_append, List.append_assoc] at hc
      cases hip : m.ip with
      | cons x r =>
        rw [hip] at hc; simp only [List.cons_append, List.head?_cons, Option.some.injEq] at hc; subst hc
        exact (isDigit_not_special x (m.hip x (by rw [hip]; simp))).1
      | nil =>
        rw [hip] at hc
        cases hdot : m.dot with
        | true =>
          rw [hdot] at hc; simp only [if_true, List.nil_append, List.cons_append, List.head?_cons,
            Option.some.injEq] at hc
          subst hc; decide
        | false =>
          rw [hdot] at hc; simp only [Bool.false_eq_true, if_false, List.nil_append, List.head?_cons,
            Option.some.injEq] at hc
          subst hc; decide
  · intro c hc
    have hlast : (m.chars ++ 'e' :: renderInt z).getLast? = (renderInt z).getLast? := by
      obtain ⟨x, r, hx⟩ := renderInt_head z
      rw [hx]
      rw [show m.chars ++ 'e' :: x :: r = (m.chars ++ ['e']) ++ (x :: r) by simp]
      rw [List.getLast?_append]
      cases hl : (x :: r).getLast? with
      | none => simp at hl
      | some y => rfl
    rw [hlast] at hc
    have hmem : c ∈ renderInt z := List.mem_of_getLast? hc
    have hall := (natDigits_spec z.natAbs).2.1
    unfold renderInt at hmem hc
    split at hmem
    · -- negative: the last character is still a digit (the digits are not empty)
      have hne := (natDigits_spec z.natAbs).1
      have : ('-' :: natDigits z.natAbs).getLast? = (natDigits z.natAbs).getLast? := by
        cases hl : natDigits z.natAbs with
        | nil => exact absurd hl hne
        | cons y t => simp [List.getLast?_cons_cons]
      rename_i hz
      simp only [hz, if_true] at hc
      rw [this] at hc
      exact (isDigit_not_special c (hall c (List.mem_of_getLast? hc))).1
    · exact (isDigit_not_special c (hall c hmem)).1

end C14
