"""Code-translator spec (see harness/translate_code.py and harness/code_specs/__init__.py).

Parser.transform_constants = Load.checkConstants (what it raises) + Load.constsOf (the equations it appends)
+ the initial values Load.flatVars keeps. Tie: lean/Cellml/Tie/LoaderConsts.lean."""

GROUP = {'name': 'LoaderConsts',
 'imports': ['Cellml.Tie.LoaderView'],
 'header': 'open Load',
 'functions': [{'file': 'cellmlmanip/parser.py',
                'func': 'Parser.transform_constants',
                'lean_name': 'transformConstants',
                # the Model is mutated (add_equation, var.initial_value = None): the state `st` is threaded explicitly
                'params': ['self', 'st'],
                'loop_state': ['st'],
                'signature': '(self : ConstsView) (st : TCState) : Except PyErr TCState',
                'patterns': [('set(self.model.get_state_variables())', 'self.stateVars'),
                             ('list(self.model.variables())', 'self.variables'),
                             ('__A.initial_value', '({A}).2.init'),
                             ('__A.units', '({A}).2.units'),
                             ('self.model.create_quantity(__A, __B)', '← mkQuantity {A} {B}')],
                'stmt_patterns': [('self.model.add_equation(sympy.Eq(__A, __B))', 'st ← addEquationVar st {A} {B}'),
                                  ('__A.initial_value = None', 'st := clearInit st {A}')]}]}
