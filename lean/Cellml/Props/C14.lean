import Cellml.C14.Overflow
import Cellml.C14.Roundtrip
import Cellml.C14.Text

/-! # C14 — every number written in a document reaches the generated code bit for bit.

    Model: `C14.decToBitsL` (exact decimal text → binary64 pattern, one `roundDivEven`), `C14.Source`/`C14.pipeline`
    (plain `<cn>`, e-notation `<cn>`, `initial_value`; `Quantity._value`, `get_value`, `evalf(FLOAT_PRECISION)` through
    `sympy.Float`, `float()`), `C14.Emits` (the printer's text). Values are *scaled*: `scaledOfBits b = value · 2^1074`,
    a natural number, so "`|x − v| ≤ |x − y|`" for `x = num/den` is written cross-multiplied on `Nat`
    (`dist (num·2^1074) (v·den) ≤ dist (num·2^1074) (y·den)`).

    Every theorem quantifies over ALL texts / rationals / bit patterns. The tie to cellmlmanip, CPython's `float()` and
    sympy is the bit-exact correspondence check `harness/props/c14.py`. -/

namespace Cellml.Props.C14
open _root_.C14

/-! ## 1. the rounding core -/

/-- `roundDivEven n d` is within half a unit of `n/d`, even on ties, and the identity on exact multiples. -/
theorem roundDivEven_correct (n d : Nat) (hd : 0 < d) :
    (2 * n ≤ 2 * (roundDivEven n d * d) + d ∧ 2 * (roundDivEven n d * d) ≤ 2 * n + d) ∧
    (2 * (n % d) = d → roundDivEven n d % 2 = 0) ∧
    (∀ q, roundDivEven (q * d) d = q) :=
  ⟨roundDivEven_near n d hd, roundDivEven_tie_even n d, fun q => roundDivEven_exact q d hd⟩

/-- no multiple of `d` is closer to `n` than the rounded one -/
theorem roundDivEven_nearest_multiple (n d k : Nat) (hd : 0 < d) :
    dist n (roundDivEven n d * d) ≤ dist n (k * d) := roundDivEven_nearest n d k hd

example : (roundDivEven 5 2, roundDivEven 7 2, roundDivEven 9 4, roundDivEven 11 4, roundDivEven 10 4, roundDivEven 12 4)
    = (2, 4, 2, 3, 2, 3) := by decide

/-! ## 2. `round_nearest`: text → a nearest double, ties to even; subnormals, zero and overflow included -/

/-- exact value of a parsed literal `m · 10^k` as a fraction of naturals -/
def decNum (m : Nat) (k : Int) : Nat := if 0 ≤ k then m * 10 ^ k.toNat else m
def decDen (k : Int) : Nat := if 0 ≤ k then 1 else 10 ^ (-k).toNat

theorem decDen_pos (k : Int) : 0 < decDen k := by
  unfold decDen; split
  · decide
  · exact Nat.pow_pos (by decide)

theorem decMag_eq (m : Nat) (k : Int) : decMag m k = ratToBits (decNum m k) (decDen k) := by
  unfold decMag decNum decDen; split <;> rfl

/-- what `decToBitsL` computes: the parse, then ONE rounding of the exact value `m·10^k`, then the sign bit -/
theorem decToBitsL_eq (cs : List Char) (neg : Bool) (m : Nat) (k : Int) (hp : parseDecL cs = some (neg, m, k)) :
    decToBitsL cs = some (withSign neg (ratToBits (decNum m k) (decDen k))) := by
  unfold decToBitsL; rw [hp]; simp only [decMag_eq]

/-- **round_nearest.** For every rational `num/den ≥ 0` whose rounding does not overflow, the value of
    `ratToBits num den` is (a) a double, (b) at least as close to `num/den` as EVERY finite double (pattern `c`),
    (c) within half a unit of the spacing, and (d) even in the last bit when `num/den` is an exact tie. This covers the
    normal range, the subnormal range and zero alike (the spacing is clamped by truncated subtraction). -/
theorem round_nearest (num den : Nat) (hd : 0 < den) (hfin : ratToBits num den < infBits) :
    (∀ c, c < infBits →
        dist (num * 2 ^ 1074) (scaledOfBits (ratToBits num den) * den)
          ≤ dist (num * 2 ^ 1074) (scaledOfBits c * den)) ∧
    2 * dist (num * 2 ^ 1074) (scaledOfBits (ratToBits num den) * den)
        ≤ den * 2 ^ spacing (num * 2 ^ 1074) den ∧
    (2 * ((num * 2 ^ 1074) % (den * 2 ^ spacing (num * 2 ^ 1074) den))
        = den * 2 ^ spacing (num * 2 ^ 1074) den → ratToBits num den % 2 = 0) := by
  refine ⟨?_, ratToBits_half_unit num den hd hfin, ratToBits_tie_even num den hfin⟩
  intro c _
  have ⟨hval, hlt⟩ := decodeScaled_spec c
  rw [← hval]
  exact ratToBits_nearest num den hd hfin _ _ hlt

/-- the same for every grid point `m·2^i`, `m < 2^53` — also those beyond the largest double -/
theorem round_nearest_grid (num den : Nat) (hd : 0 < den) (hfin : ratToBits num den < infBits)
    (m i : Nat) (hm : m < 2 ^ 53) :
    dist (num * 2 ^ 1074) (scaledOfBits (ratToBits num den) * den) ≤ dist (num * 2 ^ 1074) (m * 2 ^ i * den) :=
  ratToBits_nearest num den hd hfin m i hm

/-- **round_nearest for texts**: whatever finite decimal literal is written, `decToBitsL` returns the sign and a
    nearest double to its exact value `m·10^k` -/
theorem round_nearest_text (cs : List Char) (neg : Bool) (m : Nat) (k : Int)
    (hp : parseDecL cs = some (neg, m, k)) (hfin : decMag m k < infBits) :
    ∃ b, decToBitsL cs = some b ∧ magOf b = decMag m k ∧ isNeg b = neg ∧
      ∀ c, c < infBits →
        dist (decNum m k * 2 ^ 1074) (scaledOfBits (magOf b) * decDen k)
          ≤ dist (decNum m k * 2 ^ 1074) (scaledOfBits c * decDen k) := by
  have hmag : decMag m k < signBit := by
    have : infBits < signBit := by decide
    omega
  refine ⟨withSign neg (decMag m k), by unfold decToBitsL; rw [hp], ?_, ?_, ?_⟩
  · unfold withSign magOf; split
    · rw [Nat.add_mod_left]; exact Nat.mod_eq_of_lt hmag
    · exact Nat.mod_eq_of_lt hmag
  · unfold withSign isNeg; cases neg <;> simp <;> omega
  · have hm : magOf (withSign neg (decMag m k)) = decMag m k := by
      unfold withSign magOf; split
      · rw [Nat.add_mod_left]; exact Nat.mod_eq_of_lt hmag
      · exact Nat.mod_eq_of_lt hmag
    rw [hm, decMag_eq] at *
    exact (round_nearest _ _ (decDen_pos k) hfin).1

/-- **overflow edge**: the result is infinity exactly from the halfway point between the largest double and `2^1024`
    (`overflowThreshold = (2^54 − 1)·2^2044`, scaled) upwards — the IEEE rule, tie to the even side included -/
theorem round_overflow (num den : Nat) (hd : 0 < den) :
    ratToBits num den = infBits ↔ overflowThreshold * den ≤ num * 2 ^ 1074 := by
  constructor
  · intro h
    apply Classical.byContradiction; intro hc
    have := ratToBits_finite_of_lt num den hd (by omega)
    omega
  · exact ratToBits_inf_of_ge num den hd

/-- the result is always a finite pattern or exactly +infinity (never a NaN pattern) -/
theorem ratToBits_le_inf (num den : Nat) : ratToBits num den ≤ infBits := assemble_le_inf _ _

/-- **representable values are fixed points**: a double read from its own exact value is itself -/
theorem round_representable (b : Nat) (hb : b < infBits) : ratToBits (scaledOfBits b) (2 ^ 1074) = b :=
  ratToBits_scaledOfBits b hb

-- non-vacuity: ordinary, tie (2^53+1 → even), tie upwards (2^53+3), subnormal, smallest subnormal tie → 0,
-- largest double, overflow at the threshold, 17-digit shortest form, negative
example : decToBits "0.1" = some 0x3FB999999999999A := by decide +kernel
example : decToBits "9007199254740993" = some 0x4340000000000000 := by decide +kernel
example : decToBits "9007199254740995" = some 0x4340000000000002 := by decide +kernel
example : decToBits "5e-324" = some 1 := by decide +kernel
example : decToBits "2.4703282292062327e-324" = some 0 := by decide +kernel
example : decToBits "2.4703282292062328e-324" = some 1 := by decide +kernel
example : decToBits "1.7976931348623157e308" = some 0x7FEFFFFFFFFFFFFF := by decide +kernel
example : decToBits "1.7976931348623158e308" = some 0x7FEFFFFFFFFFFFFF := by decide +kernel
example : decToBits "1.7976931348623159e308" = some 0x7FF0000000000000 := by decide +kernel
example : decToBits "0.30000000000000004" = some 0x3FD3333333333334 := by decide +kernel
example : decToBits " -1.5E+3 " = some 0xC097700000000000 := by decide +kernel
example : decToBits "1e" = none ∧ decToBits "." = none ∧ decToBits "1_0" = none ∧ decToBits "inf" = none := by
  decide +kernel
example : ratToBits 1 10 < infBits ∧ 0 < (10 : Nat) := by decide +kernel

/-! ## 3. `widen_narrow_id`: no double rounding through `sympy.Float` at `FLOAT_PRECISION` -/

/-- sympy's `dps_to_prec` at the translated `FLOAT_PRECISION` gives at least the 53 bits of a double … -/
theorem floatPrecision_enough : 53 ≤ evalfPrec Cellml.Gen.floatPrecision := by decide +kernel

/-- … and so does the precision of the `Float` built inside `Quantity._eval_evalf` (bits taken as digits) -/
theorem innerPrecision_enough : 53 ≤ innerPrec Cellml.Gen.floatPrecision := by decide +kernel

/-- the figures observed in sympy 1.14 for `FLOAT_PRECISION = 17` (about the literal 17, not the generated constant:
    any precision that keeps 53 bits is as good) -/
theorem precision_bits_at_17 : evalfPrec 17 = 60 ∧ innerPrec 17 = 216 := by decide +kernel

/-- **widen_narrow_id (significands).** Rounding a 53-bit significand to any `p ≥ 53` bits and back to 53 bits is the
    identity: neither step rounds. -/
theorem widen_narrow_sig (p m j : Nat) (hp : 53 ≤ p) (hm : m < 2 ^ 53) :
    roundSig 53 (roundSig p (m, j)) = (m, j) := by
  rw [roundSig_id_53 p m j hp hm, roundSig_id_53 53 m j (Nat.le_refl _) hm]

/-- **widen_narrow_id.** `float(quantity.evalf(FLOAT_PRECISION))` — the double widened to `sympy.Float`'s 216 bits,
    re-rounded to 64 and then to 60 bits by `evalf`, re-rounded to 53 bits by `float()`, handed to `ldexp` — is the double it started from, bit for bit, for
    every finite non-zero double. Stated over the GENERATED constant: a `FLOAT_PRECISION` below 15 digits
    (`dps_to_prec 14 = 50`) makes `floatPrecision_enough` fail to compile. -/
theorem widen_narrow_id (b : Nat) (hb : b < 2 ^ 64) (hfin : isFiniteBits b = true) (hnz : magOf b ≠ 0) :
    strippedValue b = b :=
  evalfStage_id_of_prec _ b innerPrecision_enough floatPrecision_enough hb hfin hnz

/-- `+0.0` is also preserved (it becomes sympy's `Zero`, printed `0`, read back as `+0.0`) -/
theorem widen_narrow_zero : strippedValue 0 = 0 := by decide +kernel

/-- the threshold is sharp: `dps_to_prec` gives 53 bits at 15 digits and only 50 at 14 … -/
theorem dpsToPrec_table : dpsToPrec 13 = 47 ∧ dpsToPrec 14 = 50 ∧ dpsToPrec 15 = 53 ∧ dpsToPrec 16 = 56 ∧
    dpsToPrec 17 = 60 ∧ dpsToPrec 64 = 216 := by decide +kernel

/-- … and at 14 digits the stage does round (`0.1` loses its last bits): the hypothesis `53 ≤ precision` is needed -/
theorem evalf_rounds_at_14 : evalfStage 14 0x3FB999999999999A = 0x3FB9999999999998 := by decide +kernel

example : strippedValue 0x3FB999999999999A = 0x3FB999999999999A := by decide +kernel
example : strippedValue 0x8000000000000001 = 0x8000000000000001 := by decide +kernel   -- −(smallest subnormal)
example : strippedValue 0x7FEFFFFFFFFFFFFF = 0x7FEFFFFFFFFFFFFF := by decide +kernel   -- largest double

/-! ## 4. `pipeline_id`: every stage is the identity on bit patterns -/

theorem withSign_lt (neg : Bool) (mag : Nat) (h : mag ≤ infBits) : withSign neg mag < 2 ^ 64 := by
  have : infBits < 2 ^ 63 := by decide
  unfold withSign signBit; split <;> omega

theorem decToBitsL_lt (cs : List Char) (b : Nat) (h : decToBitsL cs = some b) : b < 2 ^ 64 := by
  unfold decToBitsL at h
  split at h
  · cases h
  · rename_i neg m k _
    simp only [Option.some.injEq] at h
    subst h
    apply withSign_lt
    rw [decMag_eq]; exact ratToBits_le_inf _ _

theorem sourceBits_lt (s : Source) (b : Nat) (h : sourceBits s = some b) : b < 2 ^ 64 := by
  cases s with
  | plain t => exact decToBitsL_lt _ b h
  | initial t => exact decToBitsL_lt _ b h
  | enotation m e =>
    simp only [sourceBits, cnENotation] at h
    split at h
    · cases h
    · exact decToBitsL_lt _ b h

/-- every source is ONE call of the text → double conversion on ONE text (`sourceText`) -/
theorem source_is_one_parse (s : Source) : sourceBits s = (sourceText s).bind decToBitsL := by
  cases s with
  | plain t => rfl
  | initial t => rfl
  | enotation m e =>
    simp only [sourceBits, sourceText, cnENotation]
    cases parseIntL e <;> rfl

/-- the stages that store and return the Python float (`Quantity._value`, `float(quantity)`, `get_value`) are the
    identity for EVERY literal, no exception -/
theorem pipeline_quantity_id (s : Source) (b : Nat) (h : sourceBits s = some b) :
    ∃ o, pipeline s = some o ∧ o.quantity = b ∧ o.getValue = b := by
  unfold pipeline; rw [h]; exact ⟨_, rfl, rfl, rfl⟩

/-- **pipeline_id** (`_partial`: all literals except those whose nearest double is `-0.0`). For every way of writing a
    number — plain `<cn>`, e-notation `<cn>`, `initial_value` — whose nearest double `b` is finite and not the negative
    zero, every stage returns `b`: the composite is `decToBitsL` of the source text. -/
theorem pipeline_id_partial (s : Source) (b : Nat) (h : sourceBits s = some b)
    (hfin : isFiniteBits b = true) (hnz : b ≠ signBit) :
    pipeline s = some { quantity := b, getValue := b, stripped := b } := by
  unfold pipeline; rw [h]
  simp only [Option.map_some, quantityValue, getValue, Option.some.injEq, Observed.mk.injEq, true_and]
  have hb := sourceBits_lt s b h
  by_cases hz : magOf b = 0
  · -- a zero magnitude that is not the negative zero is +0.0
    have : b = 0 := by
      unfold magOf signBit at *
      omega
    subst this; exact widen_narrow_zero
  · exact widen_narrow_id b hb hfin hz

/-- … and whatever text the printer emits for the stripped number — any text that `float()` reads back as that
    double, `str(float)` being one — denotes the double of the source text: the generated code holds the same bits. -/
theorem generated_code_bits (s : Source) (b : Nat) (text : List Char) (h : sourceBits s = some b)
    (hfin : isFiniteBits b = true) (hnz : b ≠ signBit)
    (o : Observed) (ho : pipeline s = some o) (hemit : Emits o.stripped text) :
    decToBitsL text = sourceBits s := by
  rw [pipeline_id_partial s b h hfin hnz] at ho
  cases ho
  rw [h]; exact hemit

/-- the excluded case is real (known finding `negative-zero-sign-lost`): the literal `-0.0` keeps its sign in the
    Quantity and in `get_value`, and loses it in the unit-stripped equation (sympy has no signed zero) -/
theorem pipeline_negzero_sign_lost :
    sourceBits (.plain "-0.0".toList) = some signBit ∧
    pipeline (.plain "-0.0".toList) = some { quantity := signBit, getValue := signBit, stripped := 0 } := by
  decide +kernel

/-- so the unrestricted statement is false of the code as it is -/
theorem pipeline_id_full_fails :
    ¬ (∀ s b, sourceBits s = some b → isFiniteBits b = true →
        pipeline s = some { quantity := b, getValue := b, stripped := b }) := by
  intro h
  have h1 := h (.plain "-0.0".toList) signBit pipeline_negzero_sign_lost.1 (by decide +kernel)
  rw [pipeline_negzero_sign_lost.2] at h1
  revert h1; decide +kernel

example : pipeline (.plain " 0.1 ".toList)
    = some { quantity := 0x3FB999999999999A, getValue := 0x3FB999999999999A, stripped := 0x3FB999999999999A } := by
  decide +kernel
example : pipeline (.initial "4.9e-324".toList) = some { quantity := 1, getValue := 1, stripped := 1 } := by
  decide +kernel
example : Emits 0x3FB999999999999A "0.1".toList ∧ Emits 0x3FB999999999999A "0.1000000000000000055511151231257827".toList := by
  unfold Emits; decide +kernel

/-! ## 5. `enotation_single`: `m<sep/>e` is rounded once -/

/-- **enotation_single.** For every mantissa (optional sign, digits, optional point and digits, blanks around it) and
    every exponent text that Python's `int()` reads as `z`, the e-notation `<cn>` is the double nearest to the EXACT
    product `mantissa × 10^z`: the text `mantissa ++ "e" ++ '%d' % z` is parsed as one literal with significand
    `m.digits` and decimal exponent `z − (number of fraction digits)`, and rounded once (`decMag` is one `ratToBits`). -/
theorem enotation_single (m : Mantissa) (mant expo : List Char) (z : Int)
    (hm : strip mant = m.chars) (he : parseIntL expo = some z) :
    cnENotation mant expo = some (withSign m.sign.neg (decMag m.digits (z - (m.fp.length : Int)))) := by
  unfold cnENotation enotationText decToBitsL parseDecL
  rw [he, hm]
  simp only
  rw [strip_mantissa_exp m z, parseBody_mantissa_exp m z]

/-- the exact value that is rounded: `digits · 10^(z − f)`; the mantissa alone is `digits · 10^(−f)` — so the
    e-notation value is the mantissa's exact value times `10^z`, never the mantissa's *rounded* value -/
theorem enotation_value (m : Mantissa) (z : Int) :
    parseBody (m.chars ++ 'e' :: renderInt z) = some (m.sign.neg, m.digits, z - (m.fp.length : Int)) ∧
    parseBody m.chars = some (m.sign.neg, m.digits, 0 - (m.fp.length : Int)) :=
  ⟨parseBody_mantissa_exp m z, parseBody_mantissa m⟩

/-- `'%d' % z` is read back as `z` by the literal's exponent part -/
theorem exponent_roundtrip (z : Int) : parseExpPart ('e' :: renderInt z) = some z := parseExpPart_render z

/-- **contrast.** A two-step reading `float(mantissa) * 10**exponent` rounds twice and is NOT always the same double:
    `0.14<sep/>1` is `1.4 = 0x3FF6666666666666`, the two-step product is `0x3FF6666666666667`. -/
theorem two_step_differs :
    cnENotation "0.14".toList "1".toList = some 0x3FF6666666666666 ∧
    twoStep "0.14".toList 1 = some 0x3FF6666666666667 := by decide +kernel

/-- a concrete mantissa meeting the hypotheses of `enotation_single`: `-12.5` -/
def exampleMantissa : Mantissa where
  sign := .minus
  ip := ['1', '2']
  dot := true
  fp := ['5']
  hip := by intro c hc; simp only [List.mem_cons, List.not_mem_nil, or_false] at hc; rcases hc with h | h <;> (subst h; decide)
  hfp := by intro c hc; simp only [List.mem_cons, List.not_mem_nil, or_false] at hc; subst hc; decide
  hne := Or.inl (by simp)
  hdot := by intro h; cases h

example : strip " -12.5 ".toList = exampleMantissa.chars ∧ parseIntL " +07 ".toList = some 7 := by decide +kernel
example : cnENotation " -12.5 ".toList " +07 ".toList = some 0xC19DCD6500000000 := by decide +kernel
example : cnENotation "8.5".toList "-324".toList = some 2 := by decide +kernel
example : cnENotation "1e2".toList "3".toList = none := by decide +kernel      -- `1e2e3` is no literal

end Cellml.Props.C14
