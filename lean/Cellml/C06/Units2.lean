import Cellml.C06.Units

/-! C06: unit consistency through `_convert_variable_instance`, `_replace_references_to_derivatives` and the state
    case. -/

namespace Model.CV
open Model

theorem unitOfV_of_ext {s s' : CState} (h : Ext s s') {i : Nat} (hi : i < s.vars.length) :
    unitOfV s' i = unitOfV s i := by
  obtain ⟨⟨l, hl⟩, _⟩ := h
  unfold unitOfV; rw [hl, List.getElem?_append_left hi]

theorem unitOfV_eq_of_getElem? {s s' : CState} {i : Nat} (f : CVar → CVar) (hf : ∀ y, (f y).unit = y.unit)
    (h : s'.vars[i]? = (s.vars[i]?).map f) : unitOfV s' i = unitOfV s i := by
  unfold unitOfV; rw [h]; cases s.vars[i]? <;> simp [hf]

/-- the units of the variables after `_convert_variable_instance` -/
theorem units_convertInstance_vars (s : CState) (v : Nat) (hv : v < s.vars.length) (cf : Rat) (u : U) (dir : Dir)
    (move : Bool) :
    (∀ i, i < s.vars.length → unitOfV (convertInstance s v cf u dir move).1 i = unitOfV s i) ∧
    unitOfV (convertInstance s v cf u dir move).1 s.vars.length = u := by
  obtain ⟨iv, _⟩ := convertInstance_vars s v hv cf u dir move
  obtain ⟨g1, g2, g3⟩ := getElem?_varsAfterTransfer s v hv (newVar s v u cf dir) rfl move
  have hvn : v ≠ s.vars.length := by omega
  have key : ∀ i, (convertInstance s v cf u dir move).1.vars[i]? =
      ((varsAfterTransfer s v (newVar s v u cf dir) move)[i]?).map
        (fun y => if i = v ∧ dir = .input then { y with init := none } else y) := by
    intro i; rw [iv]
    cases dir with
    | output => simp
    | input =>
      simp only [getElem?_setV, and_true]
      by_cases h : i = v
      · simp [h]
      · simp [h]
  constructor
  · intro i hi
    unfold unitOfV; rw [key i]
    by_cases h : i = v
    · subst h; rw [g2]; cases s.vars[i]? <;> simp; split <;> rfl
    · rw [g3 i hi h]; cases s.vars[i]? <;> simp [h]
  · unfold unitOfV; rw [key, g1]; simp [Ne.symm hvn, newVar]

theorem unitOf_cfQ (J : UI) (s' s : CState) (v : Nat) (u : U) (cf : Rat) :
    unitOf J s' (cfQ s v u cf) = some (u.div (unitOfV s v)) := rfl

/-- `_convert_variable_instance` keeps the model unit-consistent -/
theorem units_instance (J : UI) {s : CState} (h : Inv0 s) (hu : UnitsOK J s) (v : Nat) (hv : v < s.vars.length)
    (cf : Rat) (u : U) (dir : Dir) (move : Bool) (hvs : (unitOfV s v).scale ≠ 0) (hus : u.scale ≠ 0) :
    UnitsOK J (convertInstance s v cf u dir move).1 := by
  obtain ⟨_, c2, c3, _⟩ := convertInstance_spec h v hv cf u dir move
  obtain ⟨w1, w2⟩ := units_convertInstance_vars s v hv cf u dir move
  have hold : ∀ e ∈ s.equations, Consistent J (convertInstance s v cf u dir move).1 e :=
    fun e he => (consistent_congr J (h.scopedE e he) w1).mpr (hu e he)
  have hvu := w1 v hv
  intro e he
  rw [c2] at he
  cases dir with
  | output =>
    simp only [instEqs, List.mem_append, List.mem_cons, List.not_mem_nil, or_false] at he
    rcases he with he | he
    · exact hold e he
    · rw [he]; simp only [Consistent, unitOf, unitOf_cfQ, lhsUnit, hvu, w2, U.mul_div_cancel _ _ hvs]
  | input =>
    simp only [instEqs] at he
    cases hlk : s.varDef.lookup v with
    | none =>
      rw [hlk] at he
      simp only [List.mem_append, List.mem_cons, List.not_mem_nil, or_false] at he
      rcases he with he | he
      · exact hold e he
      · rw [he]; simp only [Consistent, unitOf, unitOf_cfQ, lhsUnit, hvu, w2, U.div_div_self _ _ hus]
    | some oe =>
      rw [hlk] at he
      obtain ⟨hoe, hoel⟩ := (h.lookup_varDef v oe).mp hlk
      simp only [List.mem_append, List.mem_cons, List.not_mem_nil, or_false] at he
      rcases he with he | he | he
      · exact hold e (List.mem_of_mem_erase he)
      · rw [he]
        have hc := hold oe hoe
        simp only [Consistent, hoel, lhsUnit, hvu] at hc
        simp only [Consistent, unitOf, hc, unitOf_cfQ, lhsUnit, w2, U.mul_div_cancel _ _ hvs]
      · rw [he]; simp only [Consistent, unitOf, unitOf_cfQ, lhsUnit, hvu, w2, U.div_div_self _ _ hus]

/-- `_replace_references_to_derivatives` keeps the model unit-consistent when the replacement variables carry the
    units of the derivatives they replace -/
theorem units_replaceRefs (J : UI) {s : CState} {rep : Rep} (h : Inv0 s) (hc : Cross s.equations)
    (hn : ∀ e ∈ s.equations, NoLhs rep e) (hr : ∀ p ∈ rep, p.2 < s.vars.length) (hu : UnitsOK J s)
    (hru : ∀ k w, rep.lookup k = some w → unitOfV s w = (unitOfV s k.1).div (unitOfV s k.2)) :
    UnitsOK J (replaceRefs s rep) := by
  have hv := replaceRefs_vars s rep
  have hsame : ∀ e, Consistent J (replaceRefs s rep) e ↔ Consistent J s e := by
    intro e
    have hu' : ∀ i, unitOfV (replaceRefs s rep) i = unitOfV s i := fun i => by unfold unitOfV; rw [hv]
    unfold Consistent
    rw [unitOf_congr J s _ e.rhs (fun i _ => hu' i)]
    cases e.lhs <;> simp only [lhsUnit, hu']
  rw [replaceRefs_eq] at *
  obtain ⟨_, _, _, _, i1, _⟩ := replace_fold rep s.equations s h hc h.nodup (fun _ he => he) hn hr
  intro e' he'
  rw [hsame]
  rcases i1 e' he' with ⟨h1, _⟩ | ⟨e, _, h2, _, h4⟩
  · exact hu e' h1
  · rw [h4]; exact consistent_substEq J s rep hru (hn e h2) (hu e h2)

/-- the unit of the variable `_remove_ode_and_assign_rhs_to_new_variable` creates -/
theorem removeOdeAssign_unit (s : CState) (ode : CEqn) (x : Nat) :
    unitOfV (removeOdeAssign s ode x).1 s.vars.length = lhsUnit s ode.lhs := by
  unfold removeOdeAssign
  rw [addVariable_eq _ _ _ _ (freshName_fresh s _)]
  dsimp only
  unfold unitOfV
  rw [(addEq_vars _ _ _).1, (removeEq_vars _ _).1]
  simp

end Model.CV
