import Cellml.Generated.Code.ModelState
import Cellml.C08.Lemmas
import Mathlib.Tactic.SplitIfs

/-! # Tie: the editing methods of `cellmlmanip.model.Model` (generated from the source) = the hand model
      `Cellml/Model/State.lean` that the theorems of `Props/C08.lean` are about -/

namespace Cellml.Tie.PModelState
open Model PyM Cellml.Gen

/-- push `.run s` through a generated `do` block (conditions are left folded: see the note on instances in the
    report) -/
macro "py_run" "[" ds:Lean.Parser.Tactic.simpLemma,* "]" : tactic =>
  `(tactic| simp only [$ds,*, run_bind, run_readSelf, run_modifySelf, run_ite, run_throw, run_pure, run_liftE,
      run_tryCatch, run_tryCatchThe, run_forIn_nil])

/-- `_invalidate_cache` = `Model.invalidate` -/
@[simp] theorem invalidateCache_tie (s : MState) : ModelState.invalidateCache.run s = (.ok (), invalidate s) := by
  py_run [ModelState.invalidateCache, setGraph, setGraphNum]
  rfl

/-- `_check_duplicate_definitions` raises ValueError exactly when `Model.isDefined`, and never changes anything -/
theorem checkDuplicateDefinitions_tie (s : MState) (v : Nat) (e : Eqn) :
    (ModelState.checkDuplicateDefinitions v e).run s =
      (if isDefined s v then .error ⟨"ValueError"⟩ else .ok (), s) := by
  py_run [ModelState.checkDuplicateDefinitions]
  simp only [isDefined, dictHas, key_nat, Py.truthy_bool]
  by_cases h1 : hasKey v s.odeDef = true <;> by_cases h2 : hasKey v s.varDef = true <;> simp [h1, h2]

/-- the same through an `lhs` that is a variable -/
theorem checkDuplicateDefinitions_tie_lhs (s : MState) (v : Nat) (e : Eqn) :
    (ModelState.checkDuplicateDefinitions (Lhs.var v) e).run s =
      (if isDefined s v then .error ⟨"ValueError"⟩ else .ok (), s) := by
  py_run [ModelState.checkDuplicateDefinitions]
  simp only [isDefined, dictHas, key_lhs_var, Py.truthy_bool]
  by_cases h1 : hasKey v s.odeDef = true <;> by_cases h2 : hasKey v s.varDef = true <;> simp [h1, h2]

/-- `get_definition` = `Model.getDefinition` (the model object is not touched) -/
theorem getDefinition_tie (s : MState) (v : Nat) :
    (ModelState.getDefinition v).run s = (.ok (getDefinition s v), s) := by
  py_run [ModelState.getDefinition]
  have h0 : dictGet v s.odeDef = s.odeDef.lookup v := rfl
  have h1 : dictGet v s.varDef = s.varDef.lookup v := rfl
  cases h : dictGet v s.odeDef <;> rw [h] at h0 <;> simp [getDefinition, ← h0, h1]

/-- `is_state` = membership in `_ode_definition_map` as the model reads it (`hasKey · odeDef`, the predicate of
    `states_in_order_of_introduction`; equivalently membership in `stateKeys`) -/
theorem isState_tie (s : MState) (v : Nat) :
    (ModelState.isState v).run s = (.ok (hasKey v s.odeDef), s) := by
  py_run [ModelState.isState]
  simp only [dictHas, key_nat]

theorem isState_tie_stateKeys (s : MState) (v : Nat) :
    (ModelState.isState v).run s = (.ok (decide (v ∈ stateKeys s)), s) := by
  rw [isState_tie]
  have := hasKey_iff_mem_keys v s.odeDef
  unfold stateKeys
  by_cases h : hasKey v s.odeDef = true
  · simp [h, this.mp h]
  · have h' : v ∉ List.map (fun x => x.fst) s.odeDef := fun hm => h (this.mpr hm)
    simp [h, h']

theorem DerivShape.raise_iff {sh : DerivShape} {o : Nat} (h : sh.ok o) :
    (decide (sh.nargs > 2) || decide (sh.count1 > 1)) = decide (o > 1) := by
  obtain ⟨h1, h2, h3, h4⟩ := h
  by_cases hn : sh.nargs = 2
  · have := h4 hn
    simp [hn, this]
  · have : sh.nargs > 2 := by omega
    have : o > 1 := by omega
    simp [*]

theorem addEquation_tie (s : MState) (e : Eqn) (check : Bool) (sh : DerivShape)
    (hsh : ∀ st t o, e.lhs = .deriv st t o → sh.ok o) :
    (ModelState.addEquation sh e check).run s = outcome () (addEquationCore s e check) := by
  rcases e with ⟨tok, lhs, refs, numRefs, bq⟩
  cases lhs with
  | var v =>
    py_run [ModelState.addEquation, freeSymbolsPop, checkDuplicateDefinitions_tie_lhs, invalidateCache_tie, varSet, odeSet, equationsAppend]
    cases check <;> by_cases hd : isDefined s v = true <;>
      simp [isDerivative, isVariable, dictSet, addEquationCore, outcome, hd, errName, invalidate]
  | deriv st t o =>
    have hr := DerivShape.raise_iff (hsh st t o rfl)
    py_run [ModelState.addEquation, freeSymbolsPop, checkDuplicateDefinitions_tie, invalidateCache_tie, varSet, odeSet, equationsAppend]
    rw [hr]
    cases check <;> by_cases hd : isDefined s st = true <;> by_cases ho : o > 1 <;>
      simp [isDerivative, dictSet, addEquationCore, outcome, hd, ho, errName, invalidate]
  | other =>
    py_run [ModelState.addEquation, freeSymbolsPop, checkDuplicateDefinitions_tie, invalidateCache_tie, varSet, odeSet, equationsAppend]
    simp [isDerivative, isVariable, addEquationCore, outcome, errName]

theorem removeEquation_tie (s : MState) (e : Eqn) :
    (ModelState.removeEquation e).run s = outcome () (Model.removeEquation s e) := by
  rcases e with ⟨tok, lhs, refs, numRefs, bq⟩
  by_cases hc : (⟨tok, lhs, refs, numRefs, bq⟩ : Eqn) ∈ s.equations
  · cases lhs with
    | var v =>
      py_run [ModelState.removeEquation, equationsRemove, freeSymbolsPop, invalidateCache_tie, varDel, odeDel]
      by_cases hk : hasKey v s.varDef = true <;>
      simp [hc, isDerivative, dictDel, Model.removeEquation, outcome, errName, invalidate, hk]
    | deriv st t o =>
      py_run [ModelState.removeEquation, equationsRemove, freeSymbolsPop, invalidateCache_tie, varDel, odeDel]
      by_cases hk : hasKey st s.odeDef = true <;>
      simp [hc, isDerivative, dictDel, Model.removeEquation, outcome, errName, invalidate, hk]
    | other =>
      py_run [ModelState.removeEquation, equationsRemove, freeSymbolsPop, invalidateCache_tie, varDel, odeDel]
      simp [hc, isDerivative, dictDel, Model.removeEquation, outcome, errName]
  · py_run [ModelState.removeEquation, equationsRemove, freeSymbolsPop, invalidateCache_tie, varDel, odeDel]
    simp [hc, Model.removeEquation, outcome, errName]

theorem find_by_key {β : Type} [DecidableEq β] (f : Nat → β) (l : List Nat) (v : Nat) (hv : v ∈ l)
    (hn : (l.map f).Nodup) : l.find? (fun i => f i == f v) = some v := by
  induction l with
  | nil => cases hv
  | cons a l ih =>
    by_cases hav : a = v
    · subst hav; simp
    · have hvl : v ∈ l := by
        cases hv with
        | head => exact absurd rfl hav
        | tail _ h => exact h
      simp only [List.map_cons, List.nodup_cons] at hn
      have hne : f a ≠ f v := fun h => hn.1 (h ▸ List.mem_map_of_mem hvl)
      have hb : (f a == f v) = false := by simpa using hne
      rw [List.find?_cons, hb]
      exact ih hvl hn.2

theorem removeEquation_frame (s : MState) (e : Eqn) :
    (Model.removeEquation s e).1.live = s.live ∧ (Model.removeEquation s e).1.heap = s.heap := by
  unfold Model.removeEquation
  split
  · exact ⟨rfl, rfl⟩
  · split <;> (try split) <;> exact ⟨rfl, rfl⟩

theorem nameDel_run (s1 : MState) (v : Nat) (hv : v ∈ s1.live) (hn : (s1.live.map (nameOfVar s1)).Nodup) :
    (nameDel (nameOfVar s1 v)).run s1 = (.ok (), { s1 with live := s1.live.erase v }) := by
  py_run [nameDel]
  rw [find_by_key (nameOfVar s1) s1.live v hv hn]
  rfl


@[simp] theorem outcome_ok {α} (a : α) (s : MState) : outcome a (s, .ok) = (.ok a, s) := rfl
@[simp] theorem outcome_raised {α} (a : α) (s : MState) (e : Model.Err) :
    outcome a (s, .raised e) = (.error ⟨errName e⟩, s) := rfl

theorem cmetaOf_live (s1 : MState) (l : List Nat) (v : Nat) :
  cmetaOf { s1 with live := l } v = cmetaOf s1 v := rfl

theorem removeVariable_tie (s : MState) (v : Nat) (hlive : isLive s v = true)
    (hnames : (s.live.map (nameOfVar s)).Nodup) :
    (ModelState.removeVariable v).run s = outcome () (Model.removeVariable s v) := by
  have hv : v ∈ s.live := by simpa [isLive] using hlive
  unfold Model.removeVariable
  rw [hlive]
  cases hd : getDefinition s v with
  | none =>
    py_run [ModelState.removeVariable, getDefinition_tie, hd, rdfTriples, nameDel_run s v hv hnames, invalidateCache_tie]
    simp only [Option.isSome_none, Bool.not_true, Bool.false_eq_true, ↓reduceIte, ite_self]
    cases hc : cmetaOf s v with
    | none => simp [unregister, hc, cmetaOf_live]
    | some c =>
      simp only [cmetaOf_live, hc, Option.isSome_some, ↓reduceIte]
      py_run [cmetaDel]
      by_cases hk : hasKey c s.cmetaMap = true <;> simp [unregister, hc, hk, errName]
  | some e =>
    rcases hr : Model.removeEquation s e with ⟨s1, o⟩
    have hf := removeEquation_frame s e
    rw [hr] at hf
    simp only at hf
    have hv1 : v ∈ s1.live := hf.1 ▸ hv
    have hn1 : (s1.live.map (nameOfVar s1)).Nodup := by
      have : nameOfVar s1 = nameOfVar s := by funext i; simp [nameOfVar, names, hf.2]
      rw [this, hf.1]; exact hnames
    cases o with
    | ok =>
      py_run [ModelState.removeVariable, getDefinition_tie, hd, notNone, removeEquation_tie, hr, outcome_ok, rdfTriples, nameDel_run s1 v hv1 hn1, invalidateCache_tie]
      simp only [Option.isSome_some, Bool.not_true, Bool.false_eq_true, ↓reduceIte, ite_self]
      cases hc : cmetaOf s1 v with
      | none => simp [unregister, hc, cmetaOf_live]
      | some c =>
        simp only [cmetaOf_live, hc, Option.isSome_some, ↓reduceIte]
        py_run [cmetaDel]
        by_cases hk : hasKey c s1.cmetaMap = true <;> simp [unregister, hc, hk, errName]
    | raised x =>
      py_run [ModelState.removeVariable, getDefinition_tie, hd, notNone, removeEquation_tie, hr, outcome_raised]
      simp

theorem nameHas_heap_append (s : MState) (x : Var) (name : String) (hb : ∀ i ∈ s.live, i < s.heap.length) :
    nameHas { s with heap := s.heap ++ [x] } name = nameHas s name := by
  unfold nameHas
  rw [Bool.eq_iff_iff]; simp only [List.any_eq_true]
  constructor <;> rintro ⟨i, hi, h⟩ <;> refine ⟨i, hi, ?_⟩ <;>
    have e : nameOfVar { s with heap := s.heap ++ [x] } i = nameOfVar s i :=
      nameOfVar_append_left s x i (hb i hi)
  · rwa [e] at h
  · rwa [e]

theorem addVariable_tie (s : MState) (name : String) (units : UnitArg) (init : Option Rat)
    (pub priv cmeta : Option String) (hu : units ≠ .name false) (hb : ∀ i ∈ s.live, i < s.heap.length) :
    (ModelState.addVariable name units init pub priv cmeta).run s
      = outcome s.heap.length (Model.addVariable s name cmeta init) := by
  have hn : nameHas s name = s.live.any (fun i => nameOfVar s i == name) := rfl
  unfold Model.addVariable
  rw [← hn]
  by_cases h1 : nameHas s name = true
  · py_run [ModelState.addVariable]
    simp [h1, errName]
  · have h1' : nameHas { s with heap := s.heap ++ [⟨name, s.nextOrder, cmeta, init, none⟩] } name = false := by
      rw [nameHas_heap_append s _ name hb]; simpa using h1
    have hu' : units = .unit ∨ units = .name true := by
      cases units with
      | unit => exact .inl rfl
      | name k => cases k <;> simp_all
    cases cmeta with
    | none =>
      rcases hu' with rfl | rfl <;>
      · py_run [ModelState.addVariable, getUnit, newVariable, nameSet, variablesAddedIncr, invalidateCache_tie]
        simp [h1, h1', isUnitObject, cmetaTaken, registerCmeta, invalidate]
    | some c =>
      by_cases hc : hasCmetaId s c = true
      · py_run [ModelState.addVariable]
        simp [h1, hc, hasCmetaIdPy, cmetaTaken, errName]
      · rcases hu' with rfl | rfl <;>
        · py_run [ModelState.addVariable, getUnit, newVariable, nameSet, variablesAddedIncr, invalidateCache_tie, cmetaSet]
          simp [h1, h1', hc, hasCmetaIdPy, isUnitObject, cmetaTaken, registerCmeta, invalidate]

/-- outside the domain of `addVariable_tie`: a unit name the store does not know. The hand model has no units; the
    code raises KeyError after the two checks and before anything is changed. -/
theorem addVariable_unknown_unit (s : MState) (name : String) (init : Option Rat) (pub priv cmeta : Option String) :
    (ModelState.addVariable name (.name false) init pub priv cmeta).run s
      = (if nameHas s name || cmetaTaken s cmeta then .error ⟨"ValueError"⟩ else .error ⟨"KeyError"⟩, s) := by
  py_run [ModelState.addVariable, getUnit]
  by_cases h1 : nameHas s name = true
  · simp [h1]
  · cases cmeta with
    | none => simp [h1, isUnitObject, cmetaTaken]
    | some c => by_cases hc : hasCmetaId s c = true <;> simp [h1, hc, hasCmetaIdPy, isUnitObject, cmetaTaken]

-- ------------------------------------------------------------------------------------------------ against `Model.step`
/-! The property theorems of `Props/C08.lean` speak about `Model.step` / `Model.run`; the four editing calls of `step`
    are, by definition, the model functions tied above. -/

theorem step_addEquation_tie (s : MState) (e : Eqn) (sh : DerivShape)
    (hsh : ∀ st t o, e.lhs = .deriv st t o → sh.ok o) :
    (ModelState.addEquation sh e true).run s = outcome () (step s (.addEquation e)) :=
  addEquation_tie s e true sh hsh

theorem step_removeEquation_tie (s : MState) (e : Eqn) :
    (ModelState.removeEquation e).run s = outcome () (step s (.removeEquation e)) :=
  removeEquation_tie s e

theorem step_removeVariable_tie (s : MState) (v : Nat) (hlive : isLive s v = true)
    (hnames : (s.live.map (nameOfVar s)).Nodup) :
    (ModelState.removeVariable v).run s = outcome () (step s (.removeVariable v)) :=
  removeVariable_tie s v hlive hnames

theorem step_addVariable_tie (s : MState) (name : String) (units : UnitArg) (init : Option Rat)
    (pub priv cmeta : Option String) (hu : units ≠ .name false) (hb : ∀ i ∈ s.live, i < s.heap.length) :
    (ModelState.addVariable name units init pub priv cmeta).run s
      = outcome s.heap.length (step s (.addVariable name cmeta init)) :=
  addVariable_tie s name units init pub priv cmeta hu hb

/-- the two side conditions are consequences of the invariant of `Props/C08.lean` (`Inv`, which holds after every
    history: `inv_reachable`) -/
theorem removeVariable_tie_of_inv (s : MState) (h : Inv s) (v : Nat) (hlive : isLive s v = true) :
    (ModelState.removeVariable v).run s = outcome () (step s (.removeVariable v)) :=
  removeVariable_tie s v hlive h.reg.namesNodup

theorem addVariable_tie_of_inv (s : MState) (h : Inv s) (name : String) (units : UnitArg) (init : Option Rat)
    (pub priv cmeta : Option String) (hu : units ≠ .name false) :
    (ModelState.addVariable name units init pub priv cmeta).run s
      = outcome s.heap.length (step s (.addVariable name cmeta init)) :=
  addVariable_tie s name units init pub priv cmeta hu h.reg.liveBound

/-- `get_definition` is the `definition` observable of `Inv.lean` -/
theorem getDefinition_tie_obs (s : MState) (v : Nat) :
    (ModelState.getDefinition v).run s = (.ok ((obs s).definition v), s) := getDefinition_tie s v

end Cellml.Tie.PModelState
