import Cellml.Basic.Sexp
/-! Channel C04 of the model driver (stub: not built yet). -/
namespace C04
def handle (_args : List Sexp) : Sexp := .atom "not-implemented"
end C04
